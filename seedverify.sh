#!/bin/bash
# usage: seedverify.sh <PROP> <k> [srcroot] [destk]  e.g. C01 a -- verifies a sub-agent seed in a scratch worktree and stores it under /verif/seeded/<PROP>-<destk>/
set -u
P=$1; K=$2; ROOT=${3:-/tmp/seedout}; DK=${4:-$K}; SRC=$ROOT/$P/$K
[ -f $SRC/patch.diff ] || { echo "$P-$K: no patch"; exit 2; }
PATCHF=$SRC/patch.diff; [ -f $SRC/patch.ported.diff ] && PATCHF=$SRC/patch.ported.diff
WT=$(mktemp -d /tmp/seedwt.XXXXXX); rmdir $WT
git -C /repo worktree add -q --detach $WT HEAD || exit 2
trap 'git -C /repo worktree remove --force $WT >/dev/null 2>&1; rm -rf $WT' EXIT
cd $WT
DEMO=$(ls $SRC/*_test.go | head -1)
DPATH=$(cat $SRC/demo_path.txt | tr -d '\n\r ')
DPKG=./$(dirname $DPATH)
res() { echo "$P-$DK: $1"; }
# demo without patch
cp $DEMO $WT/$DPATH
go test -mod=mod -vet=off -count=1 $DPKG >/tmp/seedv.$P$DK.clean.log 2>&1; CLEAN=$?
# apply patch
REFRESH=0
if ! git apply $PATCHF 2>/tmp/seedv.$P$DK.apply.log; then
  # written against an older HEAD: apply with fuzz and store the refreshed diff
  patch -p1 -s --no-backup-if-mismatch < $PATCHF >/dev/null 2>&1 || { res "PATCH-DOES-NOT-APPLY"; exit 1; }
  REFRESH=1
fi
git add -A >/dev/null 2>&1; git reset -q -- $DPATH 2>/dev/null; git diff --cached HEAD -- . ":(exclude)$DPATH" > /tmp/seedv.$P$DK.refreshed.diff; git reset -q >/dev/null 2>&1
go build ./... >/tmp/seedv.$P$DK.build.log 2>&1 || { res "DOES-NOT-BUILD"; exit 1; }
go test -mod=mod -vet=off -count=1 $DPKG >/tmp/seedv.$P$DK.demo.log 2>&1; WITH=$?
rm $WT/$DPATH
go test -mod=mod -vet=off -count=1 ./... >/tmp/seedv.$P$DK.suite.log 2>&1; SUITE=$?
if [ $CLEAN -eq 0 ] && [ $WITH -ne 0 ] && [ $SUITE -eq 0 ]; then
  D=/verif/seeded/$P-$DK; mkdir -p $D
  if [ $REFRESH = 1 ]; then cp /tmp/seedv.$P$DK.refreshed.diff $D/patch.diff; else cp $PATCHF $D/patch.diff; fi; cp $DEMO $D/; cp $SRC/demo_path.txt $D/; cp $SRC/notes.md $D/notes.md 2>/dev/null
  res "CONFIRMED (demo clean=pass, demo with patch=fail, suite with patch=pass)"
else
  res "REJECTED clean=$CLEAN with=$WITH suite=$SUITE"
fi
