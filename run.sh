#!/bin/bash
# usage: ./run.sh <Cnn> [quick|thorough]   |   ./run.sh --replay <file>
# Decides the property on /repo's current working tree by static analysis (see DESIGN.md).
cd "$(dirname "$0")" || exit 2
export PATH=/opt/veriftools/go1.26.8/bin:$PATH GOFLAGS=-mod=mod GOPROXY=off GOSUMDB=off GOTOOLCHAIN=local CGO_ENABLED=0
unset GOWORK
[ -x bin/pcheck ] || ./setup.sh >&2 || exit 2
if [ "$1" = "--replay" ]; then exec bin/pcheck -replay "$2"; fi
TIER=${2:-${VERIF_TIER:-quick}}
exec bin/pcheck -prop "$1" -tier "$TIER"
