#!/usr/bin/env python3
"""Regenerates the generated tables of DESIGN.md (between <!-- BEGIN:x --> / <!-- END:x --> markers) from
bin/pcheck -list-json, seeded/*/meta.json and notes/selftest.log."""
import json, os, re, subprocess, glob
here = os.path.dirname(os.path.abspath(__file__))
env = dict(os.environ, PATH='/opt/veriftools/go1.26.8/bin:' + os.environ['PATH'])
rules = json.loads(subprocess.run([os.path.join(here, 'bin/pcheck'), '-list-json'], capture_output=True, text=True, env=env).stdout)
props = {json.loads(l)['id']: json.loads(l) for l in open(os.path.join(here, 'properties.jsonl'))}

def rules_md():
    out = []
    first = {}
    for p in rules:
        out.append(f"**{p['ID']} — {props[p['ID']]['title']}**\n")
        out.append("| rule | decides | floor |\n|---|---|---|")
        for r in p['Rules']:
            shared = '' if r['ID'] not in first or first[r['ID']] == p['ID'] else f" *(shared, see {first[r['ID']]})*"
            first.setdefault(r['ID'], p['ID'])
            out.append(f"| {r['ID']} | {r['Title']}{shared} | {r['Floor']} |")
        out.append("")
    return "\n".join(out)

def log_sections():
    path = os.path.join(here, 'notes/selftest.log')
    sec = {}
    cur = None
    if os.path.exists(path):
        for line in open(path):
            m = re.match(r'^== (\d)\.', line)
            if m:
                cur = m.group(1); sec[cur] = []
            elif cur:
                sec[cur].append(line.rstrip('\n'))
    return sec

def mutants_md(sec):
    out = ["| mutant | result | rules that report it |", "|---|---|---|"]
    for l in sec.get('2', []):
        m = re.match(r'^\s+(ok|FAIL)\s+(\S+?):? (?:-> )?exit (\S+?),? ?(.*)$', l)
        if m:
            out.append(f"| `{m.group(2)}` | exit {m.group(3)}{'' if m.group(1)=='ok' else ' **unexpected**'} | {m.group(4).strip()} |")
    return "\n".join(out)

def reverts_md(sec):
    out = ["| reverted fix | result | rules that report it |", "|---|---|---|"]
    for l in sec.get('4', []):
        m = re.match(r'^\s+(ok|FAIL)\s+revert-(\S+?)-(\w+):? (?:-> )?exit (\S+?),? ?(.*)$', l)
        if m:
            out.append(f"| {m.group(2)} (`{m.group(3)}`) | exit {m.group(4)} | {m.group(5).strip()} |")
    return "\n".join(out)

def seeds_md():
    out = ["| seed | change | needs to manifest | check result |", "|---|---|---|---|"]
    for f in sorted(glob.glob(os.path.join(here, 'seeded/*/meta.json'))):
        m = json.load(open(f))
        cr = m['check_result']
        res = cr['status']
        if cr['violations']:
            res += ": " + ", ".join(sorted({v['rule'] for v in cr['violations']}))
        if cr['status'] != 'detected' and cr.get('undecided'):
            res += " (" + "; ".join(u.split('|')[0] for u in cr['undecided']) + ")"
        summ = re.sub(r'^C\d+-\w+:\s*', '', m['summary']).replace('|', '\\|')
        needs = m['needs_to_manifest'].replace('|', '\\|')
        if len(needs) > 160:
            needs = needs[:157] + '…'
        out.append(f"| {m['id']} | {summ} | {needs} | {res} |")
    return "\n".join(out)

def benign_md(sec):
    lines = [l for l in sec.get('5', []) if l.strip()]
    n = len(glob.glob(os.path.join(here, 'benign/*.patch')))
    exp = [l.strip() for l in open(os.path.join(here, 'benign/EXPECTED_UNDECIDED')) if l.strip() and not l.startswith('#')] if os.path.exists(os.path.join(here, 'benign/EXPECTED_UNDECIDED')) else []
    out = f"{n} behaviour-preserving patches x 20 properties. Last self test: " + (lines[-1].strip() if lines else 'not run')
    if exp:
        out += "\n\nListed as undecided (exit 2, `UNDECIDED`, no `VIOLATION`):\n\n" + "\n".join("* `" + l.split()[0] + "` on " + l.split()[1] + " — " + " ".join(l.split()[2:]) for l in exp)
    return out

def numbers_md(sec):
    nrules = sum(len(p['Rules']) for p in rules)
    distinct = len({r['ID'] for p in rules for r in p['Rules']})
    obl = 0
    for f in glob.glob(os.path.join(here, 'evidence/C*.json')):
        try:
            obl += json.load(open(f)).get('coverage', {}).get('obligations', 0)
        except Exception:
            pass
    loc = 0
    for f in glob.glob(os.path.join(here, 'checker/*.go')):
        loc += sum(1 for _ in open(f))
    kf = [json.loads(l) for l in open(os.path.join(here, 'known_findings.jsonl')) if l.startswith('{')]
    nfixed = sum(1 for k in kf if k['kind'] == 'fixed')
    nknown = sum(1 for k in kf if k['kind'] == 'known')
    metas = [json.load(open(f)) for f in glob.glob(os.path.join(here, 'seeded/*/meta.json'))]
    st = lambda s: sum(1 for m in metas if m['check_result']['status'] == s)
    nmut = len(glob.glob(os.path.join(here, 'mutants/*.patch')))
    nben = len(glob.glob(os.path.join(here, 'benign/*.patch')))
    nrev = len([l for l in sec.get('4', []) if ' ok ' in l])
    return f"""* **Analyser**: `/verif/checker` (module `pcheck`, ≈{loc//1000} 000 lines of Go), one
  binary `bin/pcheck`, built offline by `setup.sh` with `go1.26.8` and
  `golang.org/x/tools v0.50.0` from the module cache. `run.sh Cnn quick|thorough`
  loads `/repo`'s working tree (`go/packages`, `LoadAllSyntax`, including the
  syntax of the `github.com/hneemann/iterator` dependency), runs the rule set of
  the property and writes `evidence/Cnn.json`.
* **Claimed**: all twenty properties, each at level `other`; {nrules} rule instances of
  {distinct} distinct rules (§4b; rules shared between properties are listed with
  each), {obl} obligations on the current tree (thorough tier, three
  configurations merged). Quick = one configuration (≈1–2 s per property),
  thorough = three configurations (linux/amd64, `GOARCH=386`, `-tags=verif`)
  plus the fault witnesses of §2.4 (≈10–60 s). `not_applicable` is empty: every property has at least one clause in
  reach; what is *not* decided is named per property in §5 and in each check's
  `level_note`.
* **Genuine defects**: {nfixed + 3} found (24 while reading for the design, the others
  while building or through sub-agents that noticed existing behaviour while
  they looked for places to seed a change). {nfixed} are repaired, each by one minimal
  `fix:` commit in `/repo` (the unedited suite passes after each), and recorded
  as `fixed` lines in `known_findings.jsonl`; 3 (D9, D16, D42; {nknown} constructs) are
  recorded as known findings because the repair is not small (D9, D42) or lives in
  the dependency (D16). §3.
* **Validation of the analyser** (`selftest.sh`, not a registered command):
  unchanged tree silent for all 20; {nmut} hand-written mutants (incl. combined
  ones: a behaviour-preserving refactoring plus one broken instance);
  {len(metas)} changes seeded by sub-agents that saw only a property's text, in eight
  rounds ({st('detected')} detected, {st('undecided')} undecided, {st('missed')} missed); {nrev} reverted `fix:` commits
  reported again; {nben} behaviour-preserving patches x 20 properties without an
  alarm. §10."""

sec = log_sections()
gen = {'numbers': numbers_md(sec), 'rules': rules_md(), 'mutants': mutants_md(sec), 'reverts': reverts_md(sec), 'seeds': seeds_md(), 'benign': benign_md(sec)}
p = os.path.join(here, 'DESIGN.md')
s = open(p).read()
for k, v in gen.items():
    b, e = f'<!-- BEGIN:{k} -->', f'<!-- END:{k} -->'
    if b in s and e in s:
        s = s[:s.index(b) + len(b)] + "\n" + v + "\n" + s[s.index(e):]
open(p, 'w').write(s)
print("DESIGN.md tables regenerated:", ", ".join(k for k in gen if f'<!-- BEGIN:{k} -->' in s))
