#!/bin/bash
# usage: benignverify.sh <area> <k>  -- checks that /tmp/benign/<area>/<k>.diff applies, builds and keeps the suite green; then stores it as benign/<area>-<k>.patch
set -u
A=$1; K=$2; SRC=/tmp/benign/$A/$K.diff
[ -f $SRC ] || { echo "$A-$K: no diff"; exit 2; }
D=$(mktemp -d /tmp/bnv.XXXXXX); trap 'rm -rf "$D"' EXIT
rsync -a --exclude .git /repo/ "$D/"
cd $D
export GOFLAGS=-mod=mod GOPROXY=off
patch -p1 -s < $SRC || { echo "$A-$K: PATCH-DOES-NOT-APPLY"; exit 1; }
go build ./... >/dev/null 2>&1 || { echo "$A-$K: DOES-NOT-BUILD"; exit 1; }
if go test -mod=mod -vet=off -count=1 ./... >$D/suite.log 2>&1; then
  mkdir -p /verif/benign; cp $SRC /verif/benign/$A-$K.patch
  python3 - "$A" "$K" <<'PY'
import sys,re,os
a,k=sys.argv[1],sys.argv[2]
notes=open(f'/tmp/benign/{a}/notes.md').read() if os.path.exists(f'/tmp/benign/{a}/notes.md') else ''
m=re.search(r'(?ms)^## %s[:.].*?(?=^## |\Z)'%re.escape(k), notes)
open(f'/verif/benign/{a}-{k}.md','w').write(m.group(0) if m else '(no note)\n')
PY
  echo "$A-$K: OK (applies, builds, suite passes)"
else
  echo "$A-$K: SUITE-FAILS"; tail -5 $D/suite.log
fi
