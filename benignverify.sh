#!/bin/bash
# usage: benignverify.sh <area> <k> [srcroot] [destprefix]
# checks that <srcroot>/<area>/<k>.diff applies (fuzzy, then refreshed against HEAD), builds and keeps the suite green;
# then stores it as benign/<destprefix><area>-<k>.patch (+ .md note)
set -u
A=$1; K=$2; ROOT=${3:-/tmp/benign}; PRE=${4:-}; SRC=$ROOT/$A/$K.diff
[ -f $SRC ] || { echo "$A-$K: no diff"; exit 2; }
WT=$(mktemp -d /tmp/bnv.XXXXXX); rmdir $WT
git -C /repo worktree add -q --detach $WT HEAD || exit 2
trap 'git -C /repo worktree remove --force $WT >/dev/null 2>&1; rm -rf $WT' EXIT
cd $WT
export GOFLAGS=-mod=mod GOPROXY=off
if ! git apply $SRC 2>/dev/null; then
  patch -p1 -s --no-backup-if-mismatch < $SRC >/dev/null 2>&1 || { echo "$PRE$A-$K: PATCH-DOES-NOT-APPLY"; exit 1; }
fi
go build ./... >/dev/null 2>&1 || { echo "$PRE$A-$K: DOES-NOT-BUILD"; exit 1; }
if go test -mod=mod -vet=off -count=1 ./... >$WT/.suite.log 2>&1; then
  rm -f $WT/.suite.log
  mkdir -p /verif/benign
  git add -A >/dev/null 2>&1; git diff --cached HEAD > /verif/benign/$PRE$A-$K.patch
  python3 - "$A" "$K" "$ROOT" "$PRE" <<'PY'
import sys,re,os
a,k,root,pre=sys.argv[1:5]
path=os.path.join(root,a,'notes.md')
notes=open(path).read() if os.path.exists(path) else ''
m=re.search(r'(?ms)^## %s[:.].*?(?=^## |\Z)'%re.escape(k), notes)
open(f'/verif/benign/{pre}{a}-{k}.md','w').write(m.group(0) if m else '(no note)\n')
PY
  echo "$PRE$A-$K: OK (applies, builds, suite passes)"
else
  echo "$PRE$A-$K: SUITE-FAILS"; tail -5 $WT/.suite.log
fi
