#!/bin/bash
# Self test of the analyser (not registered in MANIFEST.json; it uses scratch copies under /tmp):
#  1. the unchanged tree is silent for every property
#  2. every hand written mutant in mutants/ (named <Cnn>-<what>.patch) is reported as a VIOLATION of Cnn
#  3. every sub-agent seed in seeded/ gives the result recorded in its meta.json (detected / undecided / missed)
#  4. every "fix:" commit of /repo that can be reverted on its own is reported again when reverted
#  5. every behaviour preserving patch in benign/ leaves all properties silent
# usage: ./selftest.sh [jobs]
cd "$(dirname "$0")" || exit 2
J=${1:-8}
./setup.sh >/dev/null || exit 2
export PATH=/opt/veriftools/go1.26.8/bin:$PATH GOFLAGS=-mod=mod GOPROXY=off GOSUMDB=off GOTOOLCHAIN=local
unset GOWORK
OUT=$(mktemp -d /tmp/selftest.XXXXXX); trap 'rm -rf "$OUT"' EXIT
mkdir -p notes; exec > >(tee notes/selftest.log) 2>&1
fail=0
echo "== 1. unchanged tree"
for i in $(seq -w 1 20); do echo C$i; done | xargs -P $J -I{} sh -c "bin/pcheck -prop {} -tier quick -no-evidence > $OUT/clean.{}.log 2>&1; echo \$? > $OUT/clean.{}.rc"
for i in $(seq -w 1 20); do
  rc=$(cat $OUT/clean.C$i.rc)
  if [ "$rc" != 0 ] || grep -q '^VIOLATION' $OUT/clean.C$i.log; then echo "  FAIL C$i: exit $rc on the unchanged tree"; fail=1; fi
done
one() { # <label> <patch> <prop> <expected exit>
  local out rc
  out=$(./mutrun.sh "$2" "$3" 2>&1); rc=$(echo "$out" | sed -n 's/^exit=//p')
  [ -z "$rc" ] && rc="patch-failed"
  if [ "$rc" = "$4" ]; then echo "  ok   $1 -> exit $rc $(echo "$out" | sed -n 's/^violated: rule=\([^ ]*\).*/\1/p' | sort -u | tr '\n' ' ')"
  else echo "  FAIL $1: exit $rc, expected $4"; fi
}
export -f one
echo "== 2. mutants"
ls mutants/*.patch | while read p; do b=$(basename $p .patch); echo "$b $p ${b%%-*} 1"; done | xargs -P $J -L1 bash -c 'one "$0" "$1" "$2" "$3"' | sort > $OUT/mut.log
cat $OUT/mut.log; grep -q FAIL $OUT/mut.log && fail=1
echo "== 3. seeded changes"
for d in seeded/*/; do id=$(basename $d); st=$(python3 -c "import json;print({'detected':1,'undecided':2,'missed':0}[json.load(open('$d/meta.json'))['check_result']['status']])"); echo "$id $d/patch.diff ${id%-*} $st"; done | xargs -P $J -L1 bash -c 'one "$0" "$1" "$2" "$3"' | sort > $OUT/seed.log
cat $OUT/seed.log; grep -q FAIL $OUT/seed.log && fail=1
echo "== 4. reverted fixes"
grep '"kind": *"fixed"' known_findings.jsonl | python3 -c "
import sys,json
skip={'fbaeeb8','18fc74f','ea202fa','0baa085'}  # cannot be reverted on their own (later fixes build on them); covered by mutants C05-merge-unisolated, C05-new-goroutine, C15-*, C15-readstr-aliased, C15-quoted-ident-aliased and seeds C06-a, C05-a, C15-a/d
for l in sys.stdin:
    o=json.loads(l)
    if o['commit'] in skip: continue
    print('revert-%s-%s -R:%s %s 1'%(o['defect'],o['commit'],o['commit'],o['property']))" | xargs -P $J -L1 bash -c 'one "$0" "$1" "$2" "$3"' | sort > $OUT/rev.log
cat $OUT/rev.log; grep -q FAIL $OUT/rev.log && fail=1
echo "== 5. behaviour preserving changes (all properties must stay silent)"
if ls benign/*.patch >/dev/null 2>&1; then
  for p in benign/*.patch; do b=$(basename $p .patch); for i in $(seq -w 1 20); do e=0; grep -q "^$b C$i " benign/EXPECTED_UNDECIDED 2>/dev/null && e=2; echo "$b/C$i $p C$i $e"; done; done | xargs -P $J -L1 bash -c 'one "$0" "$1" "$2" "$3"' | sort > $OUT/benign.log
  grep FAIL $OUT/benign.log; echo "  $(grep -c ' ok .*exit 0' $OUT/benign.log) silent, $(grep -c ' ok .*exit 2' $OUT/benign.log) undecided as listed in benign/EXPECTED_UNDECIDED, $(grep -c FAIL $OUT/benign.log) alarms"; grep -q FAIL $OUT/benign.log && fail=1
fi
[ $fail = 0 ] && echo "SELFTEST OK" || echo "SELFTEST FAILED"
exit $fail
