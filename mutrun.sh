#!/bin/bash
# usage: mutrun.sh <patch-file|-R:commit> <prop> [tier]   -- applies the patch to a scratch copy of /repo and runs the check on it
set -u
PATCH=$1; PROP=$2; TIER=${3:-quick}
[[ "$PATCH" == -R:* ]] || PATCH=$(realpath "$PATCH")
D=$(mktemp -d /tmp/pcmut.XXXXXX)
trap 'rm -rf "$D"' EXIT
rsync -a --exclude .git /repo/ "$D/"
if [[ "$PATCH" == -R:* ]]; then
  git -C /repo show "${PATCH#-R:}" | (cd "$D" && patch -R -p1 -s) || { echo "patch failed"; exit 3; }
else
  (cd "$D" && patch -p1 -s < "$PATCH") || { echo "patch failed"; exit 3; }
fi
export GOFLAGS=-mod=mod GOPROXY=off GOSUMDB=off GOTOOLCHAIN=local PATH=/opt/veriftools/go1.26.8/bin:$PATH
unset GOWORK
mkdir -p "$D/.verif-out"; cp /verif/known_findings.jsonl "$D/.verif-out/"
/verif/bin/pcheck -prop "$PROP" -tier "$TIER" -repo "$D" -no-evidence -verif "$D/.verif-out" | sed "s#$D/##g" | grep -v '^   rule\|^== \|^   analysed'
echo "exit=${PIPESTATUS[0]}"
