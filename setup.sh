#!/bin/bash
# builds the analyser from the sources in /verif/checker (module cache only, offline)
set -e
cd "$(dirname "$0")/checker"
export GOFLAGS=-mod=mod GOPROXY=off GOSUMDB=off GOTOOLCHAIN=local CGO_ENABLED=0
unset GOWORK
mkdir -p ../bin
/opt/veriftools/go1.26.8/bin/go build -o ../bin/pcheck .
echo "built /verif/bin/pcheck"
