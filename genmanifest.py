#!/usr/bin/env python3
"""Generates /verif/MANIFEST.json from the property table below and `bin/pcheck -list`."""
import json, subprocess, re, sys, os

here = os.path.dirname(os.path.abspath(__file__))
props = [json.loads(l) for l in open(os.path.join(here, 'properties.jsonl'))]
out = subprocess.run([os.path.join(here, 'bin/pcheck'), '-list-json'], capture_output=True, text=True).stdout
impl = {}
for e in json.loads(out):
    impl[e['ID']] = {'technique': e['Technique'], 'rules': [r['ID'] for r in e['Rules']], 'explanation': e['Explanation'], 'assumptions': e.get('Assumptions') or []}

# what each claimed check assures, in own words (the uncovered part is named in level_note)
TEXT = {
 'C01': ("Structural necessary conditions of 'compiled evaluation = lexical reference semantics', decided on every generated closure of the current source: each child closure runs at exactly the stack depth its compile-time context knows, frames are exactly the pushed arguments, the closure context is built in compile order and per closure creation, the parser records the names the generator looks up, the Stack primitives have the frame-layout normal form, sub expressions are evaluated in reference order.",
         "Decides structure, not behaviour: equality of results with a reference interpreter, operator/method semantics and evaluation order inside built-ins are not decided. Trusted: go/types, go/cfg, the rule tables."),
 'C02': ("Structural necessary conditions of optimizer transparency: every Generate-time execution of an operator/function is dominated by the IsPure flag of the very descriptor executed; regrouping only under IsCommutative and same operator; purity results conjoin all sub expressions; flags have no asymmetry/non-associativity/impurity witness in the implementation; short-circuit operators are not regroupable; optimizer code runs only under the recovering wrapper; optimizer and generated code consult the same handlers for call dispatch.",
         "Not decided: that folded values equal run-time values, execution counts of impure functions, purity of host functions and of methods (dynamic dispatch)."),
 'C03': ("Structural conditions of the precedence climbing scheme as implemented: level arithmetic (op+1, opPos+1) by symbolic normal forms, left-associative accumulation loop, EOF test dominating success, token-consumption discipline (every consumed token identified by a Peek test or type/spelling-checked before success), implicit '*' only in comfort mode, the parser never decides on the node kind of a parsed operand.",
         "Architecture-bound: a rewrite of the algorithm makes anchors unresolved (exit 2, undecided), not a pass. Not decided: grouping outcome for arbitrary tables/inputs, maximal munch of the operator detector."),
 'C04': ("Structural totality conditions: every scanner loop advances the input on each path back to its head and leaves on the end-of-input sentinel peek really returns; no cycle of parser calls without a consumed token; folding panics contained; no explicit panic reachable from Parse in package parser2; every return is (result,nil) or (nil,non-nil error); default matchers' start test implies their continuation predicate (symbolic implication).",
         "Not decided: index/bounds panics, running time, Go stack depth for deep nesting. Assumes host matchers accept the rune they announced."),
 'C05': ("Structural fault-containment conditions: goroutines that can run program closures start with a deferred function that itself calls recover (Go's recover semantics modelled) or every function handed to a goroutine-crossing combinator is a recovering adapter; no value used before the error returned with it is checked; integer division/shift guarded; arguments of panicking callees range-checked; explicit panics reachable from evaluation are re-raises, the arg protocol or the recursion guard; try evaluates under recover; fresh value stacks only at listed sites (the listed in-evaluation sites are known findings D9).",
         "Not decided: absence of every Go run-time panic (index out of range, nil map), Go stack exhaustion, panics during lazy consumption after Eval returned. Role table of the iterator dependency is frozen and compared with its source on each run."),
 'C06': ("Necessary conditions of schedule independence: no function run concurrently by MapAuto/FilterAuto/Merge shares a value stack with its consumer or sibling; iterator pipelines with callbacks are built per iteration; generated closures store nothing into compile-time scope; the List materialisation cache is accessed only under its mutex and producer/size are immutable after construction.",
         "Not decided: equality of parallel and sequential results, order restoration inside the dependency, race freedom in the sense of the race detector (no sound may-alias analysis available)."),
 'C07': ("For the clause 'misuse yields an error' and shared mechanisms of the built-ins: no error produced in a built-in is dropped on any path (flow-sensitive), an error found non-nil is returned/recorded/passed on, value-receiver error sinks are not lost, no method/function reads a stack slot beyond its declared arity.",
         "Not decided: the mathematical result of each of the ~120 built-ins (functional correctness over values)."),
}

checks = []
na = []
for p in props:
    pid = p['id']
    if pid in impl:
        if pid in TEXT:
            text, note = TEXT[pid]
        else:
            # the analyser's own explanation: "Decides ... Not decided: ..."
            ex = impl[pid]['explanation']
            i = ex.find('Not decided:')
            text, note = (ex[:i].strip(), ex[i:].strip()) if i >= 0 else (ex, "Decides code shape only, not run-time behaviour.")
            text = "Structural necessary conditions only (no behaviour is executed). " + text
        if impl[pid]['assumptions']:
            note += " Assumptions: " + "; ".join(impl[pid]['assumptions']) + "."
        checks.append({
            "property_id": pid,
            "quick_cmd": f"./run.sh {pid} quick",
            "thorough_cmd": f"./run.sh {pid} thorough",
            "evidence_file": f"/verif/evidence/{pid}.json",
            "replay_cmd_template": "./run.sh --replay {path}",
            "engine": "pcheck",
            "level_claimed": {"category": "other", "text": text + " Rules: " + ", ".join(impl[pid]['rules']) + ".", "design_ref": f"DESIGN.md section 4, {pid}"},
            "level_note": note,
            "technique": "static analysis: " + impl[pid]['technique'],
        })
    else:
        na.append({"property_id": pid, "reason": "no rule set implemented in the analyser for this property"})

m = {
 "version": 1,
 "setup_cmd": "./setup.sh",
 "hooks": {"guard": "verif", "enable": "none needed: nothing is instrumented or executed; the thorough tier additionally analyses the tree with -tags=verif so that tagged files would be parsed", "baseline_off_cmd": "cd /repo && go test -mod=mod -vet=off -count=1 ./...", "source_commits": [], "add_only": True},
 "engines": [{"name": "pcheck", "path": "/verif/checker", "serves_properties": [c["property_id"] for c in checks], "kind_free_text": "repository-specific static analyser (go/packages + go/types + go/cfg), one rule set per property"}],
 "checks": checks,
 "not_applicable": na,
 "notes": "Technique family: static analysis only. Every check analyses /repo's current working tree; exit 0 = all obligations discharged or listed in known_findings.jsonl (KNOWN-FINDING lines), exit 1 = VIOLATION lines, exit 2 = undecided/blind/broken (never a VIOLATION). See DESIGN.md.",
}
json.dump(m, open(os.path.join(here, 'MANIFEST.json'), 'w'), indent=1)
print("claimed:", [c["property_id"] for c in checks], "not applicable:", [n["property_id"] for n in na])
