package main

import (
	"fmt"
	"go/ast"
	"go/token"
	"go/types"
	"sort"
	"strings"

	"golang.org/x/tools/go/packages"
)

// ---------------------------------------------------------------------------
// R11.1 package level variables that evaluation code reads are written at
// most once per process: by their declaration, by an init function, or inside
// the function handed to Do of a package level sync.Once.
//
// Evaluation code never writes package level variables (R10.1c). What is left
// is set-up code (value.New, registration helpers), which a host may run for
// a new generator while functions of an existing generator are evaluated on
// other goroutines. A plain store in such code is a data race with the reads
// of the evaluation, even if the stored value never changes.

func ruleR111(c *Ctx) {
	bodies := c.evalReach()
	if len(bodies) < 150 {
		c.Undecided("value#evaluation-reachable-functions", token.NoPos, "only %d function bodies reachable from evaluation found", len(bodies))
		return
	}
	pkgs := evalPkgs(c)
	inScope := map[*types.Package]bool{}
	for _, p := range pkgs {
		inScope[p.Types] = true
	}
	isGlobal := func(o types.Object) *types.Var {
		v, ok := o.(*types.Var)
		if !ok || v.Pkg() == nil || !inScope[v.Pkg()] || v.Parent() != v.Pkg().Scope() {
			return nil
		}
		return v
	}
	// variables read by evaluation code
	readBy := map[*types.Var]string{}
	for _, b := range bodies {
		if fd, ok := b.fn.(*ast.FuncDecl); ok {
			switch fd.Name.Name {
			case "GetParser", "Generate", "GenerateWithMap", "GenerateFunc", "GenerateFromString", "generateIntern", "CreateAst", "Parse", "createClosureLiteralFunc", "genFuncList", "genCodeMap", "GenerateCustom", "Optimize":
				continue // compile time, see R10.1c
			}
		}
		info := b.pkg.TypesInfo
		inspectNoLit(funcBody(b.fn), func(n ast.Node) bool {
			if id, ok := n.(*ast.Ident); ok {
				if v := isGlobal(info.Uses[id]); v != nil {
					if _, seen := readBy[v]; !seen {
						readBy[v] = b.name
					}
				}
			}
			return true
		})
	}
	// stores to those variables anywhere in the packages
	type store struct {
		pos  token.Pos
		fn   string
		why  string
		once bool
	}
	stores := map[*types.Var][]store{}
	// the context of a body: init, or (nested in) the argument of Do of a package level sync.Once; a private
	// function that is only called from such contexts inherits the context
	var ctxOf func(pkg *packages.Package, fn ast.Node, depth int) string
	ctxOf = func(pkg *packages.Package, fn ast.Node, depth int) string {
		info := pkg.TypesInfo
		for cur := fn; cur != nil; cur = c.EnclosingFunc(cur) {
			switch t := cur.(type) {
			case *ast.FuncDecl:
				if t.Recv == nil && t.Name.Name == "init" {
					return "init"
				}
				if depth < 2 && !t.Name.IsExported() {
					obj := info.Defs[t.Name]
					res, n := "", 0
					for _, f := range pkg.Syntax {
						ast.Inspect(f, func(x ast.Node) bool {
							id, ok := x.(*ast.Ident)
							if !ok || info.Uses[id] != obj || obj == nil {
								return true
							}
							n++
							called := false
							var p ast.Node = id
							if se, ok := c.Parent(id).(*ast.SelectorExpr); ok && se.Sel == id {
								p = se
							}
							if call, ok := c.Parent(p).(*ast.CallExpr); ok && ast.Unparen(call.Fun) == p {
								called = true
							}
							cc := ""
							if call, ok := c.Parent(p).(*ast.CallExpr); ok && !called && len(call.Args) == 1 && ast.Unparen(call.Args[0]) == p {
								// handed to Do of a package level Once as is
								if cal := Callee(info, call); cal != nil && cal.Pkg() != nil && cal.Pkg().Path() == "sync" && cal.Name() == "Do" {
									if sel, ok := ast.Unparen(call.Fun).(*ast.SelectorExpr); ok {
										if oid, ok := ast.Unparen(sel.X).(*ast.Ident); ok {
											if ov, ok := info.Uses[oid].(*types.Var); ok && ov.Pkg() != nil && ov.Parent() == ov.Pkg().Scope() {
												cc = "once:" + ov.Name()
											}
										}
									}
								}
							}
							if called {
								if ef := c.EnclosingFunc(id); ef != nil {
									cc = ctxOf(pkg, ef, depth+1)
								}
							}
							if cc == "" || cc == "local-once" {
								res = "-"
							} else if res == "" {
								res = cc
							}
							return true
						})
					}
					if n > 0 && res != "-" && res != "" {
						return res
					}
				}
			case *ast.FuncLit:
				call, ok := c.Parent(t).(*ast.CallExpr)
				if !ok {
					continue
				}
				cal := Callee(info, call)
				if cal == nil || cal.Pkg() == nil || cal.Pkg().Path() != "sync" || cal.Name() != "Do" {
					continue
				}
				sel, ok := ast.Unparen(call.Fun).(*ast.SelectorExpr)
				if !ok {
					continue
				}
				var onceObj types.Object
				switch x := ast.Unparen(sel.X).(type) {
				case *ast.Ident:
					onceObj = info.Uses[x]
				case *ast.SelectorExpr:
					onceObj = info.Uses[x.Sel]
				}
				if ov, ok := onceObj.(*types.Var); ok && ov.Pkg() != nil && ov.Parent() == ov.Pkg().Scope() && !ov.IsField() {
					return "once:" + ov.Name()
				}
				return "local-once"
			}
		}
		return ""
	}
	forEachFuncBody(pkgs, func(pkg *packages.Package, fn ast.Node, body *ast.BlockStmt) {
		info := pkg.TypesInfo
		ctx := ctxOf(pkg, fn, 0)
		fname := c.FuncName(fn) + litSuffix(c, fn)
		inspectNoLit(body, func(x ast.Node) bool {
			var targets []ast.Expr
			switch t := x.(type) {
			case *ast.AssignStmt:
				for _, l := range t.Lhs {
					if id, ok := l.(*ast.Ident); ok && t.Tok == token.DEFINE && info.Defs[id] != nil {
						continue
					}
					targets = append(targets, l)
				}
			case *ast.IncDecStmt:
				targets = append(targets, t.X)
			case *ast.UnaryExpr:
				// &global handed out: writes through the pointer cannot be followed
				if t.Op == token.AND {
					if id, ok := ast.Unparen(t.X).(*ast.Ident); ok {
						if v := isGlobal(info.Uses[id]); v != nil {
							if _, isRead := readBy[v]; isRead && !isSyncType(v.Type()) {
								stores[v] = append(stores[v], store{t.Pos(), fname, "its address is taken", false})
							}
						}
					}
				}
			}
			for _, l := range targets {
				root := rootIdent(ast.Unparen(l))
				if root == nil {
					continue
				}
				v := isGlobal(info.ObjectOf(root))
				if v == nil {
					continue
				}
				if _, isRead := readBy[v]; !isRead {
					continue
				}
				switch {
				case ctx == "init":
					stores[v] = append(stores[v], store{l.Pos(), fname, "init", true})
				case len(ctx) > 5 && ctx[:5] == "once:":
					stores[v] = append(stores[v], store{l.Pos(), fname, "inside " + ctx[5:] + ".Do", true})
				case ctx == "local-once":
					stores[v] = append(stores[v], store{l.Pos(), fname, "inside Do of a sync.Once that is not a package level variable, so every call has its own Once", false})
				default:
					stores[v] = append(stores[v], store{l.Pos(), fname, "a plain store", false})
				}
			}
			return true
		})
	})
	var vars []*types.Var
	for v := range readBy {
		vars = append(vars, v)
	}
	sort.Slice(vars, func(i, j int) bool {
		return vars[i].Pkg().Path()+"."+vars[i].Name() < vars[j].Pkg().Path()+"."+vars[j].Name()
	})
	for _, v := range vars {
		key := fmt.Sprintf("global:%s.%s", v.Pkg().Name(), v.Name())
		var bad *store
		nOnce := 0
		for i := range stores[v] {
			if !stores[v][i].once {
				if bad == nil {
					bad = &stores[v][i]
				}
			} else {
				nOnce++
			}
		}
		switch {
		case bad != nil:
			c.Violation(key, bad.pos, "the package level variable %s is read by evaluation code (%s) and written by %s (%s): set-up code of one generator may run while functions of another generator are evaluated, so the write is a data race with those reads; it has to happen in the declaration, in init or inside Do of a package level sync.Once", v.Name(), readBy[v], bad.fn, bad.why)
		case nOnce > 0:
			c.OK(key, v.Pos(), "read by evaluation code (%s); written only once per process (%s in %s)", readBy[v], stores[v][0].why, stores[v][0].fn)
		default:
			c.OK(key, v.Pos(), "read by evaluation code (%s); never written after its declaration", readBy[v])
		}
	}
	if len(vars) < 8 {
		c.Undecided("value#globals-read-by-evaluation", token.NoPos, "only %d package level variables read by evaluation code found (the type ids are expected)", len(vars))
	}
}

func isSyncType(t types.Type) bool {
	if p, ok := t.(*types.Pointer); ok {
		t = p.Elem()
	}
	nm := namedOf(t)
	return nm != nil && nm.Obj().Pkg() != nil && (nm.Obj().Pkg().Path() == "sync" || nm.Obj().Pkg().Path() == "sync/atomic")
}

// ---------------------------------------------------------------------------
// R11.2 generators share no mutable table
//
// The registration methods of a generator keep the map they are given and
// merge later registrations into it in place (RegisterMethods, AddConstant
// ...). A table that lives in a package level variable and is handed to
// every new generator is therefore written by the set-up of one generator
// while the evaluations of another one read it: a data race on a Go map (a
// fatal error when it is hit), and the functions of one generator start to
// answer with the methods of another one.

func ruleR112(c *Ctx) {
	n := 0
	for _, pkg := range c.RepoPkgs {
		if !strings.HasPrefix(pkg.PkgPath, modPath) || strings.HasSuffix(pkg.PkgPath, "/example") {
			continue
		}
		info := pkg.TypesInfo
		forEachFuncBody([]*packages.Package{pkg}, func(_ *packages.Package, fn ast.Node, body *ast.BlockStmt) {
			inspectNoLit(body, func(x ast.Node) bool {
				call, ok := x.(*ast.CallExpr)
				if !ok {
					return true
				}
				sel, ok := ast.Unparen(call.Fun).(*ast.SelectorExpr)
				if !ok {
					return true
				}
				rn := namedOf(info.TypeOf(sel.X))
				if rn == nil || rn.Obj().Name() != "FunctionGenerator" {
					return true
				}
				for i, a := range call.Args {
					t := info.TypeOf(a)
					if t == nil {
						continue
					}
					if _, isMap := t.Underlying().(*types.Map); !isMap {
						continue
					}
					n++
					key := fmt.Sprintf("%s#%s:arg%d[%d]", c.FuncName(fn)+litSuffix(c, fn), sel.Sel.Name, i, n)
					if id, ok := ast.Unparen(a).(*ast.Ident); ok {
						if v, ok := info.ObjectOf(id).(*types.Var); ok && v.Pkg() != nil && v.Parent() == v.Pkg().Scope() {
							c.Violation(key, call.Pos(), "the package level table %s is handed to %s of a generator, which keeps the map and merges later registrations into it in place: every generator created from now on shares it, the set-up of one generator writes the map that running evaluations of another one read (data race on a Go map), and a method registered at one generator answers at all of them", id.Name, sel.Sel.Name)
							continue
						}
					}
					c.OK(key, call.Pos(), "the table handed to %s is created for this generator", sel.Sel.Name)
				}
				return true
			})
		})
	}
	if n < 4 {
		c.Undecided("value#table-registrations", token.NoPos, "only %d tables handed to a generator found", n)
	}
}
