package main

// ssaInfo is reserved for rules that need SSA form (built lazily).
type ssaInfo struct{}
