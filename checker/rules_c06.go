package main

import (
	"fmt"
	"go/ast"
	"go/token"
	"go/types"
	"strings"

	"golang.org/x/tools/go/packages"
)

// freeStackVars returns the Stack typed variables mentioned in n that are
// declared outside n.
func freeStackVars(a *genAnchors, info *types.Info, n ast.Node) []*ast.Ident {
	var res []*ast.Ident
	seen := map[types.Object]bool{}
	ast.Inspect(n, func(x ast.Node) bool {
		id, ok := x.(*ast.Ident)
		if !ok {
			return true
		}
		obj, ok := info.ObjectOf(id).(*types.Var)
		if !ok || seen[obj] || !a.isStack(obj.Type()) {
			return true
		}
		if obj.Pos() >= n.Pos() && obj.Pos() <= n.End() {
			return true
		}
		seen[obj] = true
		res = append(res, id)
		return true
	})
	return res
}

// ---------------------------------------------------------------------------
// R06.1 stack storage is goroutine confined at goroutine crossing combinators

func ruleR061(c *Ctx) {
	a := c.genAnchors()
	if len(a.missing) > 0 {
		c.Undecided(strings.Join(a.missing, ","), token.NoPos, "anchors not found")
		return
	}
	newEmpty := LookupFunc(a.fg, "NewEmptyStack")
	n := 0
	for _, pkg := range c.RepoPkgs {
		info := pkg.TypesInfo
		for _, f := range pkg.Syntax {
			ast.Inspect(f, func(x ast.Node) bool {
				call, ok := x.(*ast.CallExpr)
				if !ok {
					return true
				}
				cal := Callee(info, call)
				if cal == nil || cal.Pkg() == nil || cal.Pkg().Path() != iterPath {
					return true
				}
				role, crossing := iterCrossing[cal.Name()]
				if !crossing {
					return true
				}
				n++
				key := fmt.Sprintf("%s#iterator.%s:stacks", c.FuncName(call), cal.Name())
				var problems []string
				// arguments that run concurrently with the consumer / with each other
				concurrent := append([]int{}, role.producers...)
				if role.yieldG {
					concurrent = append(concurrent, 0) // upstream producer runs while the collector calls yield
				}
				if role.factory >= 0 {
					concurrent = append(concurrent, role.factory)
				}
				for _, ai := range concurrent {
					if ai >= len(call.Args) {
						continue
					}
					arg := call.Args[ai]
					for _, id := range freeStackVars(a, info, arg) {
						problems = append(problems, fmt.Sprintf("argument %d (%s) uses the stack %s of the enclosing stage, although it runs concurrently with the code that owns that stack", ai, nodeStr(c.Fset, arg), id.Name))
					}
					// a producer adapter (l.isolated()): its stack has to be created inside the returned producer
					if ac, ok := ast.Unparen(arg).(*ast.CallExpr); ok {
						if acal := Callee(info, ac); acal != nil && acal.Pkg() != nil && acal.Pkg().Path() != iterPath && isProducerType(info.TypeOf(ac)) {
							if msg := c.adapterStackFresh(a, newEmpty, acal); msg != "" {
								problems = append(problems, msg)
							}
						}
					}
				}
				// the stacks used by the products of a worker factory are created per product
				if role.factory >= 0 && role.factory < len(call.Args) {
					products, unknown := c.factoryProducts(pkg, call.Args[role.factory])
					if unknown != "" {
						c.Undecided(key, call.Pos(), "%s", unknown)
						return true
					}
					for _, pr := range products {
						pinfo := pr.pkg.TypesInfo
						for _, id := range freeStackVars(a, pinfo, pr.lit) {
							obj := pinfo.ObjectOf(id)
							if obj.Pos() < pr.scope.Pos() || obj.Pos() > pr.scope.End() {
								problems = append(problems, fmt.Sprintf("the worker function uses the stack %s that is shared by all workers", id.Name))
								continue
							}
							// declared in the per product scope: from NewEmptyStack (a parameter would be a stack handed in from outside)
							as, i := definingAssign(pinfo, pr.scope, obj)
							okFresh := false
							if as != nil && len(as.Rhs) == len(as.Lhs) {
								if ic, ok := ast.Unparen(as.Rhs[i]).(*ast.CallExpr); ok && isCallTo(pinfo, ic, newEmpty) {
									okFresh = true
								}
							}
							if !okFresh {
								problems = append(problems, fmt.Sprintf("the per worker stack %s is not created by NewEmptyStack inside the factory", id.Name))
							}
						}
					}
				}
				if len(problems) == 0 {
					c.OK(key, call.Pos(), "no function that iterator.%s runs concurrently shares a value stack with another goroutine", cal.Name())
				} else {
					c.Violation(key, call.Pos(), "%s: closure arguments pushed by stages on both sides overwrite each other (wrong results, data race)", strings.Join(problems, "; "))
				}
				return true
			})
		}
	}
	if n < 3 {
		c.Undecided("value#goroutine-crossing-combinators", token.NoPos, "expected map, accept and merge, found %d call sites", n)
	}
}

// adapterStackFresh: the producer adapter creates its stack inside the returned literal.
func (c *Ctx) adapterStackFresh(a *genAnchors, newEmpty *types.Func, cal *types.Func) string {
	p := c.Pkgs[cal.Pkg().Path()]
	if p == nil {
		return "producer adapter " + cal.Name() + " not resolved"
	}
	sig := cal.Type().(*types.Signature)
	recv := ""
	if sig.Recv() != nil {
		if nm := namedOf(sig.Recv().Type()); nm != nil {
			recv = nm.Obj().Name()
		}
	}
	fd := c.FuncDecl(p, recv, cal.Name())
	if fd == nil || fd.Body == nil {
		return "producer adapter " + cal.Name() + " not resolved"
	}
	var lit *ast.FuncLit
	inspectNoLit(fd.Body, func(n ast.Node) bool {
		if r, ok := n.(*ast.ReturnStmt); ok && len(r.Results) == 1 {
			lit, _ = ast.Unparen(r.Results[0]).(*ast.FuncLit)
		}
		return true
	})
	if lit == nil {
		return "producer adapter " + cal.Name() + " does not return a function literal"
	}
	if ids := freeStackVars(a, p.TypesInfo, lit); len(ids) > 0 {
		return fmt.Sprintf("the producer returned by %s uses the stack %s created outside of it: all iterations share it", cal.Name(), ids[0].Name)
	}
	fresh := false
	ast.Inspect(lit.Body, func(n ast.Node) bool {
		if cc, ok := n.(*ast.CallExpr); ok && isCallTo(p.TypesInfo, cc, newEmpty) {
			fresh = true
		}
		return true
	})
	if !fresh {
		// the stack may be created by a function of the package that the literal calls and that gets no stack from it
		ast.Inspect(lit.Body, func(n ast.Node) bool {
			cc, ok := n.(*ast.CallExpr)
			if !ok || fresh {
				return true
			}
			for _, arg := range cc.Args {
				if a.isStack(p.TypesInfo.TypeOf(arg)) {
					return true
				}
			}
			if hc := Callee(p.TypesInfo, cc); hc != nil && hc.Pkg() == p.Types {
				if hd := findFuncDecl(p, hc); hd != nil && hd.Body != nil && hd != fd {
					if containsNodeDeep(hd.Body, func(y ast.Node) bool {
						c2, ok := y.(*ast.CallExpr)
						return ok && isCallTo(p.TypesInfo, c2, newEmpty)
					}) {
						fresh = true
					}
				}
			}
			return true
		})
	}
	if !fresh {
		return "the producer returned by " + cal.Name() + " does not create a stack of its own"
	}
	return ""
}

// ---------------------------------------------------------------------------
// R06.3 pipelines are constructed per iteration

func ruleR063(c *Ctx) {
	a := c.genAnchors()
	if len(a.missing) > 0 {
		c.Undecided(strings.Join(a.missing, ","), token.NoPos, "anchors not found")
		return
	}
	vp := c.Pkg("value")
	if vp == nil {
		c.Undecided("package value", token.NoPos, "not found")
		return
	}
	info := vp.TypesInfo
	isListProducerLit := func(n ast.Node) bool {
		lit, ok := n.(*ast.FuncLit)
		if !ok {
			return false
		}
		sig, ok := info.TypeOf(lit).(*types.Signature)
		return ok && sig.Params().Len() == 1 && a.isStack(sig.Params().At(0).Type()) && sig.Results().Len() == 1 && isProducerType(sig.Results().At(0).Type())
	}
	isProducerLit := func(n ast.Node) bool {
		lit, ok := n.(*ast.FuncLit)
		return ok && isProducerType(info.TypeOf(lit))
	}
	n := 0
	for _, f := range vp.Syntax {
		ast.Inspect(f, func(x ast.Node) bool {
			call, ok := x.(*ast.CallExpr)
			if !ok {
				return true
			}
			cal := Callee(info, call)
			if cal == nil || cal.Pkg() == nil || cal.Pkg().Path() != iterPath || !isProducerType(info.TypeOf(call)) {
				return true
			}
			// stateless sources need no per iteration construction
			hasCallback := false
			for _, arg := range call.Args {
				if _, ok := info.TypeOf(arg).Underlying().(*types.Signature); ok {
					hasCallback = true
				}
			}
			if !hasCallback {
				return true
			}
			n++
			key := fmt.Sprintf("%s#iterator.%s:per-iteration", c.FuncName(call), cal.Name())
			inside := false
			for q := c.Parent(call); q != nil; q = c.Parent(q) {
				if isListProducerLit(q) || isProducerLit(q) {
					inside = true
					break
				}
				if _, ok := q.(*ast.FuncDecl); ok {
					break
				}
			}
			if inside {
				c.OK(key, call.Pos(), "the iterator pipeline (with its mapper state and stacks) is built anew for every iteration of the list")
			} else {
				c.Violation(key, call.Pos(), "iterator.%s is called when the list stage is created, not inside the list's producer function: every iteration of the list (nested, repeated or concurrent) shares one pipeline instance with its mapper state and value stacks", cal.Name())
			}
			return true
		})
	}
	if n < 10 {
		c.Undecided("value#iterator-pipelines", token.NoPos, "only %d iterator pipelines with callbacks found", n)
	}
}

// ---------------------------------------------------------------------------
// R06.2 the materialisation cache of List is accessed under its mutex only

func ruleR062(c *Ctx) {
	vp := c.Pkg("value")
	if vp == nil {
		c.Undecided("package value", token.NoPos, "not found")
		return
	}
	info := vp.TypesInfo
	listType := LookupType(vp, "List")
	if listType == nil {
		c.Undecided("value.List", token.NoPos, "not found")
		return
	}
	// fields of List: those of a sync type are the lock, the others are data
	stru, _ := listType.Type().Underlying().(*types.Struct)
	if stru == nil {
		c.Undecided("value.List", token.NoPos, "not a struct")
		return
	}
	hasLock := false
	for i := 0; i < stru.NumFields(); i++ {
		if nm := namedOf(stru.Field(i).Type()); nm != nil && nm.Obj().Pkg() != nil && nm.Obj().Pkg().Path() == "sync" {
			hasLock = true
		}
	}
	n := 0
	forEachFuncBody([]*packages.Package{vp}, func(pkg *packages.Package, fn ast.Node, body *ast.BlockStmt) {
		heldBy := c.lockHolds(info, fn, body)
		held := func(at ast.Node) bool { return heldBy(at) != nil }
		// a read lock (sync.RWMutex.RLock) protects reads only
		readLockOnly := func(at ast.Node) bool {
			l := heldBy(at)
			if l == nil {
				return false
			}
			cal := Callee(info, l)
			return cal != nil && cal.Name() == "RLock"
		}
		isStore := func(sel *ast.SelectorExpr) bool {
			p := c.Parent(sel)
			for {
				switch t := p.(type) {
				case *ast.ParenExpr:
					p = c.Parent(t)
					continue
				case *ast.AssignStmt:
					for _, l := range t.Lhs {
						if ast.Unparen(l) == ast.Expr(sel) {
							return true
						}
					}
				case *ast.IncDecStmt:
					return true
				}
				return false
			}
		}
		inspectNoLit(body, func(x ast.Node) bool {
			sel, ok := x.(*ast.SelectorExpr)
			if !ok {
				return true
			}
			if nm := namedOf(info.TypeOf(sel.X)); nm == nil || nm.Obj() != listType {
				return true
			}
			s, ok := info.Selections[sel]
			if !ok || s.Kind() != types.FieldVal {
				return true
			}
			if nm := namedOf(s.Obj().Type()); nm != nil && nm.Obj().Pkg() != nil && nm.Obj().Pkg().Path() == "sync" {
				return true // the lock itself
			}
			store := isStore(sel)
			cache := sel.Sel.Name == "items" || sel.Sel.Name == "itemsPresent"
			if !store && !cache {
				return true // iterable and size are immutable after construction: reads are free
			}
			n++
			kind := "read"
			if store {
				kind = "store"
			}
			key := fmt.Sprintf("%s#%s:List.%s[%d]", c.FuncName(fn)+litSuffix(c, fn), kind, sel.Sel.Name, ordinalIn(fn, sel, func(y ast.Node) bool {
				s2, ok := y.(*ast.SelectorExpr)
				return ok && s2.Sel.Name == sel.Sel.Name && namedOf(info.TypeOf(s2.X)) != nil && namedOf(info.TypeOf(s2.X)).Obj() == listType
			}))
			// a list that was created in this function is not shared yet
			if id, ok := ast.Unparen(sel.X).(*ast.Ident); ok {
				if as, i := definingAssign(info, fn, info.ObjectOf(id)); as != nil && len(as.Rhs) == len(as.Lhs) {
					if u, ok := ast.Unparen(as.Rhs[i]).(*ast.UnaryExpr); ok && u.Op == token.AND {
						if _, ok := u.X.(*ast.CompositeLit); ok && !c.escapesBefore(info, fn, info.ObjectOf(id), sel) {
							c.OK(key, sel.Pos(), "%s of a field of a list that was just created and is not shared yet", kind)
							return true
						}
					}
					// new(List)
					if call, ok := ast.Unparen(as.Rhs[i]).(*ast.CallExpr); ok {
						if bid, ok := ast.Unparen(call.Fun).(*ast.Ident); ok && bid.Name == "new" {
							if _, isB := info.Uses[bid].(*types.Builtin); isB && !c.escapesBefore(info, fn, info.ObjectOf(id), sel) {
								c.OK(key, sel.Pos(), "%s of a field of a list that was just created and is not shared yet", kind)
								return true
							}
						}
					}
					// created by a private constructor whose body is `return &List{...}`
					if call, ok := ast.Unparen(as.Rhs[i]).(*ast.CallExpr); ok {
						if cl, _ := c.ctorLiteral(info, call); cl != nil && namedOf(info.TypeOf(cl)) != nil && namedOf(info.TypeOf(cl)).Obj() == listType && !c.escapesBefore(info, fn, info.ObjectOf(id), sel) {
							c.OK(key, sel.Pos(), "%s of a field of a list that was just created (by a private constructor) and is not shared yet", kind)
							return true
						}
						// created by a constructor that returns a list of its own (NewListFromIterable)
						if la := c.listAnchors(); len(la.missing) == 0 && returnsFreshList(c, la, Callee(info, call), 0) && !c.escapesBefore(info, fn, info.ObjectOf(id), sel) {
							c.OK(key, sel.Pos(), "%s of a field of a list that a constructor has just returned and that is not shared yet", kind)
							return true
						}
					}
				}
			}
			if held(sel) && store && readLockOnly(sel) {
				c.Violation(key, sel.Pos(), "the field %s of a shared *List is written while only the read lock (RLock) is held: concurrent readers and writers race on it", sel.Sel.Name)
				return true
			}
			if held(sel) {
				c.OK(key, sel.Pos(), "%s under the list's mutex", kind)
				return true
			}
			if !hasLock {
				c.Violation(key, sel.Pos(), "the field %s of a *List is accessed (%s) while the list may be shared (constant of the generated function, value captured by a parallel closure) and List has no lock at all: two evaluations that force the same lazy list race on its cache", sel.Sel.Name, kind)
			} else if store && !cache {
				c.Violation(key, sel.Pos(), "the field %s of a shared *List is modified after construction: concurrent iterations read it without synchronisation", sel.Sel.Name)
			} else {
				c.Violation(key, sel.Pos(), "the cache field %s of a *List is accessed (%s) without holding the list's mutex: two evaluations that force or read the same lazy list concurrently race on it", sel.Sel.Name, kind)
			}
			return true
		})
	})
	if n < 4 {
		c.Undecided("value.List#cache-accesses", token.NoPos, "only %d accesses to the cache fields found", n)
	}
}

// lockHolds returns a function that tells which sync Lock call of fn is held
// at a node: the lock call dominates the node and a path from the lock to the
// node without a (non deferred) Unlock exists.
func (c *Ctx) lockHolds(info *types.Info, fn ast.Node, body *ast.BlockStmt) func(at ast.Node) *ast.CallExpr {
	g := c.CFG(fn)
	var locks, unlocks []*ast.CallExpr
	inspectNoLit(body, func(y ast.Node) bool {
		if call, ok := y.(*ast.CallExpr); ok {
			if cal := Callee(info, call); cal != nil && cal.Pkg() != nil && cal.Pkg().Path() == "sync" {
				switch cal.Name() {
				case "Lock", "RLock":
					locks = append(locks, call)
				case "Unlock", "RUnlock":
					if _, isDefer := c.Parent(call).(*ast.DeferStmt); !isDefer {
						unlocks = append(unlocks, call)
					}
				}
			}
		}
		return true
	})
	isUnlock := func(x ast.Node) bool {
		return containsNode(x, func(y ast.Node) bool {
			for _, u := range unlocks {
				if y == ast.Node(u) {
					return true
				}
			}
			return false
		})
	}
	return func(at ast.Node) *ast.CallExpr {
		for _, l := range locks {
			if !g.Dominates(l, at) {
				continue
			}
			blk, idx, ok := g.Pos(at)
			if !ok {
				continue
			}
			target := blk.Nodes[idx]
			lb, li, ok := g.Pos(l)
			if !ok {
				continue
			}
			if lb.Nodes[li] == target {
				return l
			}
			if found, _ := g.PathAvoiding(lb.Nodes[li], func(x ast.Node) bool { return x == target }, isUnlock); found {
				return l
			}
		}
		return nil
	}
}

// escapesBefore: the variable is used (other than for field stores) before pos,
// so the object may already be shared.
func (c *Ctx) escapesBefore(info *types.Info, fn ast.Node, obj types.Object, at ast.Node) bool {
	esc := false
	ast.Inspect(funcBody(fn), func(n ast.Node) bool {
		id, ok := n.(*ast.Ident)
		if !ok || info.ObjectOf(id) != obj || id.Pos() >= at.Pos() {
			return true
		}
		if info.Defs[id] != nil {
			return true
		}
		if sel, ok := c.Parent(id).(*ast.SelectorExpr); ok && sel.X == id {
			return true
		}
		esc = true
		return true
	})
	return esc
}

// ---------------------------------------------------------------------------
// R10.1a stores of generated closures: nothing written at evaluation time
// outlives the evaluation (used by C06, C10, C11)

func ruleR101closures(c *Ctx) {
	a := c.genAnchors()
	if len(a.missing) > 0 {
		c.Undecided(strings.Join(a.missing, ","), token.NoPos, "anchors not found")
		return
	}
	fwd := c.forwarders(a)
	nLit := 0
	for _, gi := range c.generatorFuncs(a, fwd) {
		info := gi.pkg.TypesInfo
		gname := declName(gi.pkg, gi.decl)
		// outermost run time literals: function literals with a Stack parameter that are not nested in another such literal
		ast.Inspect(gi.decl.Body, func(x ast.Node) bool {
			lit, ok := x.(*ast.FuncLit)
			if !ok {
				return true
			}
			isRuntime := false
			if lit.Type.Params != nil && len(lit.Type.Params.List) > 0 {
				if a.isStack(info.TypeOf(lit.Type.Params.List[0].Type)) {
					isRuntime = true
				}
			}
			if !isRuntime {
				return true
			}
			nLit++
			// stores inside (including nested literals) to variables declared outside this literal
			k := 0
			report := func(pos token.Pos, what string, id *ast.Ident) {
				k++
				key := fmt.Sprintf("%s$lit%d#store[%d]:%s", gname, ordinalIn(gi.decl, lit, func(y ast.Node) bool { _, ok := y.(*ast.FuncLit); return ok }), k, id.Name)
				c.Violation(key, pos, "the generated closure %s %s, which lives in generator (compile time) scope: the value written by one evaluation is seen by later and by concurrent evaluations of the same function", what, id.Name)
			}
			ast.Inspect(lit.Body, func(y ast.Node) bool {
				check := func(lhs ast.Expr, pos token.Pos) {
					lhs = ast.Unparen(lhs)
					var base *ast.Ident
					what := ""
					switch t := lhs.(type) {
					case *ast.Ident:
						base, what = t, "assigns to the variable"
					case *ast.IndexExpr:
						base, what = rootIdent(t.X), "stores into an element of"
					case *ast.SelectorExpr:
						base, what = rootIdent(t.X), "stores into a field of"
					case *ast.StarExpr:
						base, what = rootIdent(t.X), "stores through the pointer"
					}
					if base == nil || base.Name == "_" {
						return
					}
					obj, ok := info.ObjectOf(base).(*types.Var)
					if !ok || obj.IsField() {
						return
					}
					if obj.Pos() >= lit.Pos() && obj.Pos() <= lit.End() {
						return // local to the run time closure
					}
					if obj.Parent() == obj.Pkg().Scope() {
						report(pos, "writes the package level variable", base)
						return
					}
					report(pos, what, base)
				}
				switch t := y.(type) {
				case *ast.AssignStmt:
					if t.Tok == token.DEFINE {
						// only re-used variables on the left are stores; fresh ones are locals
						for _, l := range t.Lhs {
							if id, ok := l.(*ast.Ident); ok && info.Defs[id] == nil {
								check(l, t.Pos())
							}
						}
						return true
					}
					for _, l := range t.Lhs {
						check(l, t.Pos())
					}
				case *ast.IncDecStmt:
					check(t.X, t.Pos())
				case *ast.CallExpr:
					// append(x, ...) assigned elsewhere is covered by the assignment; copy(dst, ...) writes dst
					if id, ok := ast.Unparen(t.Fun).(*ast.Ident); ok && id.Name == "copy" && len(t.Args) == 2 {
						if _, isB := info.Uses[id].(*types.Builtin); isB {
							check(&ast.IndexExpr{X: t.Args[0]}, t.Pos())
						}
					}
					// a method of the module that stores into its receiver, called on a captured variable
					// (args.createFrame(st, cs) with `ca.values[i] = v` inside): the same store, one call away
					if sel, ok := ast.Unparen(t.Fun).(*ast.SelectorExpr); ok {
						if cal := Callee(info, t); cal != nil && cal.Pkg() != nil && strings.HasPrefix(cal.Pkg().Path(), modPath) {
							if what := c.mutatesReceiver(cal, 0); what != "" {
								if base := rootIdent(sel.X); base != nil {
									if obj, ok := info.ObjectOf(base).(*types.Var); ok && !obj.IsField() && !(obj.Pos() >= lit.Pos() && obj.Pos() <= lit.End()) && obj.Parent() != obj.Pkg().Scope() {
										k++
										key := fmt.Sprintf("%s$lit%d#store[%d]:%s", gname, ordinalIn(gi.decl, lit, func(y ast.Node) bool { _, ok := y.(*ast.FuncLit); return ok }), k, base.Name)
										c.Violation(key, t.Pos(), "the generated closure calls %s on %s, which lives in generator (compile time) scope, and that method %s: what one evaluation writes there is seen by later and by concurrent evaluations of the same function (the code of a call is no longer re-entrant)", cal.Name(), base.Name, what)
									}
								}
							}
						}
					}
					// a mutating method of a synchronisation type on a captured variable is a store as well:
					// lastMethod.Store(..) on an atomic.Pointer, cache.Store(..) on a sync.Map, pool.Put(..)
					if sel, ok := ast.Unparen(t.Fun).(*ast.SelectorExpr); ok {
						if cal := Callee(info, t); cal != nil && cal.Pkg() != nil && (cal.Pkg().Path() == "sync/atomic" || cal.Pkg().Path() == "sync") {
							switch cal.Name() {
							case "Store", "Swap", "CompareAndSwap", "Add", "And", "Or", "LoadOrStore", "LoadAndDelete", "Delete", "CompareAndDelete", "Put", "Clear", "Range":
								if cal.Name() != "Range" {
									check(&ast.SelectorExpr{X: sel.X, Sel: sel.Sel}, t.Pos())
								}
							}
						}
						// package level functions of sync/atomic: atomic.StoreInt64(&x, ..)
					}
					if cal := Callee(info, t); cal != nil && cal.Pkg() != nil && cal.Pkg().Path() == "sync/atomic" && cal.Type().(*types.Signature).Recv() == nil && len(t.Args) >= 1 {
						if strings.HasPrefix(cal.Name(), "Store") || strings.HasPrefix(cal.Name(), "Add") || strings.HasPrefix(cal.Name(), "Swap") || strings.HasPrefix(cal.Name(), "CompareAndSwap") {
							if u, ok := ast.Unparen(t.Args[0]).(*ast.UnaryExpr); ok && u.Op == token.AND {
								check(u.X, t.Pos())
							}
						}
					}
				}
				return true
			})
			if k == 0 {
				key := fmt.Sprintf("%s$lit%d#stores", gname, ordinalIn(gi.decl, lit, func(y ast.Node) bool { _, ok := y.(*ast.FuncLit); return ok }))
				c.OK(key, lit.Pos(), "the generated closure writes only its own locals, its stack and values it allocated itself")
			}
			return false // nested literals were inspected as part of this one
		})
	}
	if nLit < 20 {
		c.Undecided("funcGen#generated-closures", token.NoPos, "only %d generated closures found", nLit)
	}
}

// ---------------------------------------------------------------------------
// R06.4 deep traversals are complete.
//
// A function of the value package that walks a value of the language
// recursively (a type switch over a Value with a call of itself) is used where
// everything reachable has to be forced or visited - deepEvalLists makes a
// multiUse consumer pull every lazy list derived from its argument while the
// shared source is being fed. In a clause for a container (*List, Map) no
// path may report success before the elements have been handed to the
// recursion: "the list already has its items" says nothing about the items
// themselves, which may be lazy lists. Structured check: no `return nil`
// (success) in the clause before the first statement that contains the
// recursive call.

func ruleR064(c *Ctx) {
	vp := c.Pkg("value")
	if vp == nil {
		c.Undecided("package value", token.NoPos, "not found")
		return
	}
	info := vp.TypesInfo
	n := 0
	for _, f := range vp.Syntax {
		for _, d := range f.Decls {
			fd, ok := d.(*ast.FuncDecl)
			if !ok || fd.Body == nil {
				continue
			}
			self, _ := info.Defs[fd.Name].(*types.Func)
			if self == nil {
				continue
			}
			callsSelf := func(x ast.Node) bool {
				return containsNodeDeep(x, func(y ast.Node) bool {
					call, ok := y.(*ast.CallExpr)
					return ok && Callee(info, call) == self.Origin()
				})
			}
			if !callsSelf(fd.Body) {
				continue
			}
			// the function reports success with a nil error as its last result
			sig := self.Type().(*types.Signature)
			if sig.Results().Len() == 0 || !isErrorType(sig.Results().At(sig.Results().Len()-1).Type()) {
				continue
			}
			// a clause for a container: a case of a type switch over a Value, or `if x, ok := v.(*List); ok { ... }`
			checkClause := func(container string, body []ast.Stmt, pos token.Pos) {
				n++
				key := fmt.Sprintf("%s#deep-traversal:%s", declName(vp, fd), container)
				visit := -1
				for i, s := range body {
					if callsSelf(s) {
						visit = i
						break
					}
				}
				if visit < 0 {
					c.Violation(key, pos, "the clause for %s does not hand the elements to the recursion: lazy lists inside the container are never visited", container)
					return
				}
				var early *ast.ReturnStmt
				for _, s := range body[:visit] {
					ast.Inspect(s, func(y ast.Node) bool {
						if _, isLit := y.(*ast.FuncLit); isLit {
							return false
						}
						r, ok := y.(*ast.ReturnStmt)
						if !ok || len(r.Results) == 0 || early != nil {
							return true
						}
						if id, ok := ast.Unparen(r.Results[len(r.Results)-1]).(*ast.Ident); ok && id.Name == "nil" {
							// a nil container has no elements: `if list == nil { return nil }` is no early success
							nilGuard := false
							if g := c.CFG(fd); g != nil {
								for _, gd := range g.Guards(r) {
									if be, ok := ast.Unparen(gd.Cond).(*ast.BinaryExpr); ok && be.Op == token.EQL && gd.Val {
										if y, ok := ast.Unparen(be.Y).(*ast.Ident); ok && y.Name == "nil" {
											nilGuard = true
										}
									}
								}
							}
							if !nilGuard {
								early = r
							}
						}
						return true
					})
				}
				if early != nil {
					c.Violation(key, early.Pos(), "the clause for %s reports success before its elements were handed to the recursion (line %d): a container that is already materialised can still hold lazy lists, which are then never visited - a multiUse consumer that returns such a value never pulls its copy of the source and the evaluation ends in the iterator's timeout", container, c.Fset.Position(early.Pos()).Line)
				} else {
					c.OK(key, pos, "every success path of the clause for %s passes the recursion over the elements", container)
				}
			}
			containerOf := func(e ast.Expr) string {
				if isNamed(info.TypeOf(e), modPath+"/value", "List") {
					return "*List"
				}
				if isNamed(info.TypeOf(e), modPath+"/value", "Map") {
					return "Map"
				}
				return ""
			}
			ast.Inspect(fd.Body, func(x ast.Node) bool {
				if ifs, ok := x.(*ast.IfStmt); ok {
					if as, ok := ifs.Init.(*ast.AssignStmt); ok && len(as.Lhs) == 2 && len(as.Rhs) == 1 {
						if ta, ok := ast.Unparen(as.Rhs[0]).(*ast.TypeAssertExpr); ok && ta.Type != nil && isNamed(info.TypeOf(ta.X), modPath+"/value", "Value") {
							if okID, ok := as.Lhs[1].(*ast.Ident); ok {
								if cid, ok := ast.Unparen(ifs.Cond).(*ast.Ident); ok && info.ObjectOf(cid) == info.ObjectOf(okID) {
									if ct := containerOf(ta.Type); ct != "" {
										checkClause(ct, ifs.Body.List, ifs.Pos())
									}
								}
							}
						}
					}
					return true
				}
				ts, ok := x.(*ast.TypeSwitchStmt)
				if !ok {
					return true
				}
				// switch over a Value
				var tag ast.Expr
				switch a := ts.Assign.(type) {
				case *ast.AssignStmt:
					if ta, ok := ast.Unparen(a.Rhs[0]).(*ast.TypeAssertExpr); ok {
						tag = ta.X
					}
				case *ast.ExprStmt:
					if ta, ok := ast.Unparen(a.X).(*ast.TypeAssertExpr); ok {
						tag = ta.X
					}
				}
				if tag == nil || !isNamed(info.TypeOf(tag), modPath+"/value", "Value") {
					return true
				}
				for _, cl := range ts.Body.List {
					cc := cl.(*ast.CaseClause)
					container := ""
					for _, e := range cc.List {
						if ct := containerOf(e); ct != "" {
							container = ct
						}
					}
					if container == "" {
						continue
					}
					checkClause(container, cc.Body, cc.Pos())
				}
				return true
			})
		}
	}
	if n == 0 {
		c.Undecided("value#deep-traversals", token.NoPos, "no recursive traversal of language values found (deepEvalLists expected)")
	}
}

// mutatesReceiver: the method (of the module) stores into a field of its
// receiver or into an element reached through one, directly or through another
// method of the receiver (two levels). It returns a description or "".
func (c *Ctx) mutatesReceiver(fn *types.Func, depth int) string {
	if fn == nil || fn.Pkg() == nil || depth > 2 {
		return ""
	}
	pkg := c.Pkgs[fn.Pkg().Path()]
	if pkg == nil {
		return ""
	}
	fd := findFuncDecl(pkg, fn)
	if fd == nil || fd.Body == nil || fd.Recv == nil || len(fd.Recv.List) != 1 || len(fd.Recv.List[0].Names) != 1 {
		return ""
	}
	info := pkg.TypesInfo
	recv := info.Defs[fd.Recv.List[0].Names[0]]
	_, ptrRecv := recv.Type().(*types.Pointer)
	res := ""
	rooted := func(e ast.Expr) (string, bool) {
		// recv.f = / recv.f[i] = / recv.f.g = ; for a value receiver only element stores through a field reach shared memory
		e = ast.Unparen(e)
		viaIndex := false
		for {
			switch t := e.(type) {
			case *ast.IndexExpr:
				viaIndex = true
				e = ast.Unparen(t.X)
				continue
			case *ast.StarExpr:
				e = ast.Unparen(t.X)
				continue
			case *ast.SelectorExpr:
				if id, ok := ast.Unparen(t.X).(*ast.Ident); ok && info.ObjectOf(id) == recv {
					if ptrRecv || viaIndex {
						return t.Sel.Name, true
					}
					return "", false
				}
				e = ast.Unparen(t.X)
				continue
			}
			return "", false
		}
	}
	inspectNoLit(fd.Body, func(x ast.Node) bool {
		if res != "" {
			return false
		}
		switch t := x.(type) {
		case *ast.AssignStmt:
			for _, l := range t.Lhs {
				if f, ok := rooted(l); ok {
					res = "stores into its receiver (" + f + ")"
				}
			}
		case *ast.IncDecStmt:
			if f, ok := rooted(t.X); ok {
				res = "stores into its receiver (" + f + ")"
			}
		case *ast.CallExpr:
			if sel, ok := ast.Unparen(t.Fun).(*ast.SelectorExpr); ok {
				if id, ok := ast.Unparen(sel.X).(*ast.Ident); ok && info.ObjectOf(id) == recv {
					if cal := Callee(info, t); cal != nil && cal != fn {
						if w := c.mutatesReceiver(cal, depth+1); w != "" {
							res = w + " (through " + cal.Name() + ")"
						}
					}
				}
			}
		}
		return true
	})
	return res
}
