package main

import (
	"fmt"
	"go/ast"
	"go/token"
	"go/types"
	"golang.org/x/tools/go/packages"
	"strings"
)

// ---------------------------------------------------------------------------
// R07.4 unit discipline of string positions: a rune count is never compared
// with or added to a byte count (contradiction rule: one function that counts
// runes in one place and bytes in another for the same position is wrong in
// one of them for every non ASCII string).

type strUnit int

const (
	unitNone strUnit = iota
	unitRune
	unitByte
)

func (u strUnit) String() string { return [...]string{"unknown", "runes", "bytes"}[u] }

type unitEnv struct {
	c    *Ctx
	info *types.Info
	vars map[types.Object]strUnit
}

func isStringish(t types.Type) bool {
	if t == nil {
		return false
	}
	switch u := t.Underlying().(type) {
	case *types.Basic:
		return u.Info()&types.IsString != 0
	case *types.Slice:
		if b, ok := u.Elem().Underlying().(*types.Basic); ok {
			return b.Kind() == types.Byte || b.Kind() == types.Uint8
		}
	}
	return false
}

func isRuneSlice(t types.Type) bool {
	if s, ok := t.Underlying().(*types.Slice); ok {
		if b, ok := s.Elem().Underlying().(*types.Basic); ok {
			return b.Kind() == types.Rune || b.Kind() == types.Int32
		}
	}
	return false
}

func isDecodeRune(info *types.Info, call *ast.CallExpr) bool {
	cal := Callee(info, call)
	return cal != nil && cal.Pkg() != nil && cal.Pkg().Path() == "unicode/utf8" && strings.HasPrefix(cal.Name(), "Decode")
}

func (e *unitEnv) unit(x ast.Expr) strUnit {
	x = ast.Unparen(x)
	switch t := x.(type) {
	case *ast.Ident:
		return e.vars[e.info.ObjectOf(t)]
	case *ast.CallExpr:
		// conversions keep the unit
		if tv, ok := e.info.Types[t.Fun]; ok && tv.IsType() && len(t.Args) == 1 {
			if bt, ok := tv.Type.Underlying().(*types.Basic); ok && bt.Info()&types.IsInteger != 0 {
				return e.unit(t.Args[0])
			}
			return unitNone
		}
		if id, ok := ast.Unparen(t.Fun).(*ast.Ident); ok && id.Name == "len" && len(t.Args) == 1 {
			if _, isB := e.info.Uses[id].(*types.Builtin); isB {
				at := e.info.TypeOf(t.Args[0])
				if isRuneSlice(at) {
					return unitRune
				}
				if isStringish(at) {
					return unitByte
				}
			}
			return unitNone
		}
		if cal := Callee(e.info, t); cal != nil && cal.Pkg() != nil {
			switch cal.Pkg().Path() {
			case "unicode/utf8":
				if strings.HasPrefix(cal.Name(), "RuneCount") {
					return unitRune
				}
				if cal.Name() == "RuneLen" {
					return unitByte
				}
			case "strings", "bytes":
				if strings.HasPrefix(cal.Name(), "Index") || strings.HasPrefix(cal.Name(), "LastIndex") {
					return unitByte
				}
			}
		}
	case *ast.BinaryExpr:
		if t.Op == token.ADD || t.Op == token.SUB {
			a, b := e.unit(t.X), e.unit(t.Y)
			if a == b {
				return a
			}
			if a == unitNone && e.info.Types[t.X].Value != nil {
				return b
			}
			if b == unitNone && e.info.Types[t.Y].Value != nil {
				return a
			}
		}
	}
	return unitNone
}

func (e *unitEnv) rootVar(x ast.Expr) types.Object {
	x = ast.Unparen(x)
	switch t := x.(type) {
	case *ast.Ident:
		return e.info.ObjectOf(t)
	case *ast.CallExpr:
		if tv, ok := e.info.Types[t.Fun]; ok && tv.IsType() && len(t.Args) == 1 {
			return e.rootVar(t.Args[0])
		}
	}
	return nil
}

func ruleR074(c *Ctx) {
	checked := 0
	{
		forEachFuncBody(c.RepoPkgs, func(pkg *packages.Package, fn ast.Node, body *ast.BlockStmt) {
			info := pkg.TypesInfo
			fd, isDecl := fn.(*ast.FuncDecl)
			if !isDecl {
				return // literals are visited with their declaration
			}
			name := declName(pkg, fd)
			// only functions that decode runes or count them are of interest
			interesting := false
			ast.Inspect(body, func(x ast.Node) bool {
				if call, ok := x.(*ast.CallExpr); ok {
					if cal := Callee(info, call); cal != nil && cal.Pkg() != nil && cal.Pkg().Path() == "unicode/utf8" {
						interesting = true
					}
					if tv, ok := info.Types[call.Fun]; ok && tv.IsType() && isRuneSlice(tv.Type) {
						interesting = true
					}
				}
				return !interesting
			})
			if !interesting {
				return
			}
			env := &unitEnv{c: c, info: info, vars: map[types.Object]strUnit{}}
			// rune loops: for i := ..; i < N; i++ { ... one DecodeRune per iteration ... }
			ast.Inspect(body, func(x ast.Node) bool {
				fs, ok := x.(*ast.ForStmt)
				if !ok || fs.Cond == nil || fs.Post == nil {
					return true
				}
				inc, ok := fs.Post.(*ast.IncDecStmt)
				if !ok || inc.Tok != token.INC {
					return true
				}
				decodes := 0
				inspectNoLit(fs.Body, func(y ast.Node) bool {
					switch t := y.(type) {
					case *ast.ForStmt, *ast.RangeStmt:
						return false
					case *ast.CallExpr:
						if isDecodeRune(info, t) {
							decodes++
						}
					}
					return true
				})
				if decodes != 1 {
					return true
				}
				cnt := env.rootVar(inc.X)
				be, ok := ast.Unparen(fs.Cond).(*ast.BinaryExpr)
				if cnt == nil || !ok {
					return true
				}
				env.vars[cnt] = unitRune
				for _, side := range []ast.Expr{be.X, be.Y} {
					if o := env.rootVar(side); o != nil && o != cnt {
						env.vars[o] = unitRune
					}
				}
				return true
			})
			// assignments: propagate units (two rounds are enough for the chains in this code base)
			for round := 0; round < 2; round++ {
				ast.Inspect(body, func(x ast.Node) bool {
					switch t := x.(type) {
					case *ast.AssignStmt:
						if len(t.Lhs) == 2 && len(t.Rhs) == 1 {
							if call, ok := ast.Unparen(t.Rhs[0]).(*ast.CallExpr); ok && isDecodeRune(info, call) {
								if id, ok := t.Lhs[1].(*ast.Ident); ok && id.Name != "_" {
									env.vars[info.ObjectOf(id)] = unitByte
								}
							}
							return true
						}
						if len(t.Lhs) == len(t.Rhs) {
							for i, l := range t.Lhs {
								id, ok := l.(*ast.Ident)
								if !ok || id.Name == "_" {
									continue
								}
								if u := env.unit(t.Rhs[i]); u != unitNone {
									obj := info.ObjectOf(id)
									if old, seen := env.vars[obj]; !seen || old == u {
										env.vars[obj] = u
									}
								}
							}
						}
					case *ast.RangeStmt:
						if id, ok := t.Key.(*ast.Ident); ok && id.Name != "_" && t.Tok == token.DEFINE {
							if bt, ok := info.TypeOf(t.X).Underlying().(*types.Basic); ok && bt.Info()&types.IsString != 0 {
								env.vars[info.ObjectOf(id)] = unitByte
							}
						}
					}
					return true
				})
			}
			n := 0
			ast.Inspect(body, func(x ast.Node) bool {
				be, ok := x.(*ast.BinaryExpr)
				if !ok {
					return true
				}
				switch be.Op {
				case token.LSS, token.LEQ, token.GTR, token.GEQ, token.EQL, token.NEQ, token.ADD, token.SUB:
				default:
					return true
				}
				a, b := env.unit(be.X), env.unit(be.Y)
				if a == unitNone && b == unitNone {
					return true
				}
				n++
				checked++
				key := fmt.Sprintf("%s#units[%d]:%s", name, n, nodeStr(c.Fset, be))
				if a != unitNone && b != unitNone && a != b {
					c.Violation(key, be.Pos(), "%s is counted in %s, %s in %s: for every string with a multi byte character the two differ, the position test is wrong (the function decodes runes for this position elsewhere)", nodeStr(c.Fset, be.X), a, nodeStr(c.Fset, be.Y), b)
				} else {
					c.OK(key, be.Pos(), "operands have the same unit (%s) or one is unit free", map[bool]strUnit{true: a, false: b}[a != unitNone])
				}
				return true
			})
		})
	}
	if checked == 0 {
		c.Undecided("value.String.Cut#units", token.NoPos, "no position arithmetic found in rune decoding functions")
	}
}
