package main

import (
	"fmt"
	"go/ast"
	"go/token"
	"go/types"
	"golang.org/x/tools/go/packages"
	"strings"
)

// ---------------------------------------------------------------------------
// R07.4 unit discipline of string positions: a rune count is never equated
// with, added to or subtracted from a byte count (contradiction rule: one function that counts
// runes in one place and bytes in another for the same position is wrong in
// one of them for every non ASCII string).

type strUnit int

const (
	unitNone strUnit = iota
	unitRune
	unitByte
)

func (u strUnit) String() string { return [...]string{"unknown", "runes", "bytes"}[u] }

type unitEnv struct {
	c    *Ctx
	info *types.Info
	vars map[types.Object]strUnit
}

func isStringish(t types.Type) bool {
	if t == nil {
		return false
	}
	switch u := t.Underlying().(type) {
	case *types.Basic:
		return u.Info()&types.IsString != 0
	case *types.Slice:
		if b, ok := u.Elem().Underlying().(*types.Basic); ok {
			return b.Kind() == types.Byte || b.Kind() == types.Uint8
		}
	}
	return false
}

func isRuneSlice(t types.Type) bool {
	if s, ok := t.Underlying().(*types.Slice); ok {
		if b, ok := s.Elem().Underlying().(*types.Basic); ok {
			return b.Kind() == types.Rune || b.Kind() == types.Int32
		}
	}
	return false
}

func isDecodeRune(info *types.Info, call *ast.CallExpr) bool {
	cal := Callee(info, call)
	return cal != nil && cal.Pkg() != nil && cal.Pkg().Path() == "unicode/utf8" && strings.HasPrefix(cal.Name(), "Decode")
}

func (e *unitEnv) unit(x ast.Expr) strUnit {
	x = ast.Unparen(x)
	switch t := x.(type) {
	case *ast.Ident:
		return e.vars[e.info.ObjectOf(t)]
	case *ast.CallExpr:
		// conversions keep the unit
		if tv, ok := e.info.Types[t.Fun]; ok && tv.IsType() && len(t.Args) == 1 {
			if bt, ok := tv.Type.Underlying().(*types.Basic); ok && bt.Info()&types.IsInteger != 0 {
				return e.unit(t.Args[0])
			}
			return unitNone
		}
		if id, ok := ast.Unparen(t.Fun).(*ast.Ident); ok && id.Name == "len" && len(t.Args) == 1 {
			if _, isB := e.info.Uses[id].(*types.Builtin); isB {
				at := e.info.TypeOf(t.Args[0])
				if isRuneSlice(at) {
					return unitRune
				}
				if isStringish(at) {
					return unitByte
				}
			}
			return unitNone
		}
		if cal := Callee(e.info, t); cal != nil && cal.Pkg() != nil {
			switch cal.Pkg().Path() {
			case "unicode/utf8":
				if strings.HasPrefix(cal.Name(), "RuneCount") {
					return unitRune
				}
				if cal.Name() == "RuneLen" {
					return unitByte
				}
			case "strings", "bytes":
				if strings.HasPrefix(cal.Name(), "Index") || strings.HasPrefix(cal.Name(), "LastIndex") {
					return unitByte
				}
			}
		}
	case *ast.BinaryExpr:
		if t.Op == token.ADD || t.Op == token.SUB {
			a, b := e.unit(t.X), e.unit(t.Y)
			if a == b {
				return a
			}
			if a == unitNone && e.info.Types[t.X].Value != nil {
				return b
			}
			if b == unitNone && e.info.Types[t.Y].Value != nil {
				return a
			}
		}
	}
	return unitNone
}

func (e *unitEnv) rootVar(x ast.Expr) types.Object {
	x = ast.Unparen(x)
	switch t := x.(type) {
	case *ast.Ident:
		return e.info.ObjectOf(t)
	case *ast.CallExpr:
		if tv, ok := e.info.Types[t.Fun]; ok && tv.IsType() && len(t.Args) == 1 {
			return e.rootVar(t.Args[0])
		}
	}
	return nil
}

func ruleR074(c *Ctx) {
	checked := 0
	{
		forEachFuncBody(c.RepoPkgs, func(pkg *packages.Package, fn ast.Node, body *ast.BlockStmt) {
			info := pkg.TypesInfo
			fd, isDecl := fn.(*ast.FuncDecl)
			if !isDecl {
				return // literals are visited with their declaration
			}
			name := declName(pkg, fd)
			// only functions that decode runes or count them are of interest
			interesting := false
			ast.Inspect(body, func(x ast.Node) bool {
				if call, ok := x.(*ast.CallExpr); ok {
					if cal := Callee(info, call); cal != nil && cal.Pkg() != nil && cal.Pkg().Path() == "unicode/utf8" {
						interesting = true
					}
					if tv, ok := info.Types[call.Fun]; ok && tv.IsType() && isRuneSlice(tv.Type) {
						interesting = true
					}
				}
				return !interesting
			})
			if !interesting {
				return
			}
			env := &unitEnv{c: c, info: info, vars: map[types.Object]strUnit{}}
			// rune loops: for i := ..; i < N; i++ { ... one DecodeRune per iteration ... }
			ast.Inspect(body, func(x ast.Node) bool {
				fs, ok := x.(*ast.ForStmt)
				if !ok || fs.Cond == nil || fs.Post == nil {
					return true
				}
				inc, ok := fs.Post.(*ast.IncDecStmt)
				if !ok || inc.Tok != token.INC {
					return true
				}
				decodes := 0
				inspectNoLit(fs.Body, func(y ast.Node) bool {
					switch t := y.(type) {
					case *ast.ForStmt, *ast.RangeStmt:
						return false
					case *ast.CallExpr:
						if isDecodeRune(info, t) {
							decodes++
						}
					}
					return true
				})
				if decodes != 1 {
					return true
				}
				cnt := env.rootVar(inc.X)
				be, ok := ast.Unparen(fs.Cond).(*ast.BinaryExpr)
				if cnt == nil || !ok {
					return true
				}
				env.vars[cnt] = unitRune
				for _, side := range []ast.Expr{be.X, be.Y} {
					if o := env.rootVar(side); o != nil && o != cnt {
						env.vars[o] = unitRune
					}
				}
				return true
			})
			// assignments: propagate units (two rounds are enough for the chains in this code base)
			for round := 0; round < 2; round++ {
				ast.Inspect(body, func(x ast.Node) bool {
					switch t := x.(type) {
					case *ast.AssignStmt:
						if len(t.Lhs) == 2 && len(t.Rhs) == 1 {
							if call, ok := ast.Unparen(t.Rhs[0]).(*ast.CallExpr); ok && isDecodeRune(info, call) {
								if id, ok := t.Lhs[1].(*ast.Ident); ok && id.Name != "_" {
									env.vars[info.ObjectOf(id)] = unitByte
								}
							}
							return true
						}
						if len(t.Lhs) == len(t.Rhs) {
							for i, l := range t.Lhs {
								id, ok := l.(*ast.Ident)
								if !ok || id.Name == "_" {
									continue
								}
								if u := env.unit(t.Rhs[i]); u != unitNone {
									obj := info.ObjectOf(id)
									if old, seen := env.vars[obj]; !seen || old == u {
										env.vars[obj] = u
									}
								}
							}
						}
					case *ast.RangeStmt:
						if id, ok := t.Key.(*ast.Ident); ok && id.Name != "_" && t.Tok == token.DEFINE {
							if bt, ok := info.TypeOf(t.X).Underlying().(*types.Basic); ok && bt.Info()&types.IsString != 0 {
								env.vars[info.ObjectOf(id)] = unitByte
							}
						}
					}
					return true
				})
			}
			n := 0
			ast.Inspect(body, func(x ast.Node) bool {
				be, ok := x.(*ast.BinaryExpr)
				if !ok {
					return true
				}
				switch be.Op {
				case token.LSS, token.LEQ, token.GTR, token.GEQ, token.EQL, token.NEQ, token.ADD, token.SUB:
				default:
					return true
				}
				a, b := env.unit(be.X), env.unit(be.Y)
				if a == unitNone && b == unitNone {
					return true
				}
				n++
				checked++
				key := fmt.Sprintf("%s#units[%d]:%s", name, n, nodeStr(c.Fset, be))
				ordering := be.Op == token.LSS || be.Op == token.LEQ || be.Op == token.GTR || be.Op == token.GEQ
				if a != unitNone && b != unitNone && a != b && ordering {
					// a rune count never exceeds the byte count of the same text, so an ordering test between the two is a
					// conservative bound one way round (runes >= bytes implies runes >= rune length); whether it is used
					// the sound way round is not visible here. R07.5 covers what goes wrong behind an incomplete bound.
					c.OK(key, be.Pos(), "ordering test between a rune count and a byte count: a conservative bound (runes <= bytes), not an equation of positions")
				} else if a != unitNone && b != unitNone && a != b {
					c.Violation(key, be.Pos(), "%s is counted in %s, %s in %s: for every string with a multi byte character the two differ, the position test is wrong (the function decodes runes for this position elsewhere)", nodeStr(c.Fset, be.X), a, nodeStr(c.Fset, be.Y), b)
				} else {
					c.OK(key, be.Pos(), "operands have the same unit (%s) or one is unit free", map[bool]strUnit{true: a, false: b}[a != unitNone])
				}
				return true
			})
		})
	}
	if checked == 0 {
		c.Undecided("value.String.Cut#units", token.NoPos, "no position arithmetic found in rune decoding functions")
	}
}

// ---------------------------------------------------------------------------
// R07.5 a rune that becomes part of a result is decoded from a non empty string

// ruleR075: utf8.DecodeRuneInString("") returns (U+FFFD, 0). Where the decoded
// rune is written into a result (WriteRune), the string it is decoded from has
// to be known non empty on every path: forward must-analysis on the CFG with
// the facts "checked" (the non-empty edge of a test of len(s) was taken since
// the last assignment to s) / "unchecked".
func ruleR075(c *Ctx) {
	n := 0
	forEachFuncBody(c.RepoPkgs, func(pkg *packages.Package, fn ast.Node, body *ast.BlockStmt) {
		if !strings.HasSuffix(pkg.PkgPath, "/value") {
			return
		}
		info := pkg.TypesInfo
		// decodes whose rune is written
		type site struct {
			call *ast.CallExpr
			sObj types.Object
		}
		var sites []site
		inspectNoLit(body, func(x ast.Node) bool {
			as, ok := x.(*ast.AssignStmt)
			if !ok || len(as.Lhs) != 2 || len(as.Rhs) != 1 {
				return true
			}
			call, ok := ast.Unparen(as.Rhs[0]).(*ast.CallExpr)
			if !ok || !isDecodeRune(info, call) || len(call.Args) != 1 {
				return true
			}
			rid, ok := as.Lhs[0].(*ast.Ident)
			if !ok || rid.Name == "_" {
				return true
			}
			robj := info.ObjectOf(rid)
			written := containsNode(body, func(y ast.Node) bool {
				wc, ok := y.(*ast.CallExpr)
				if !ok || len(wc.Args) != 1 {
					return false
				}
				sel, ok := ast.Unparen(wc.Fun).(*ast.SelectorExpr)
				if !ok || sel.Sel.Name != "WriteRune" {
					return false
				}
				id, ok := ast.Unparen(wc.Args[0]).(*ast.Ident)
				return ok && info.ObjectOf(id) == robj
			})
			if !written {
				return true
			}
			if sid, ok := ast.Unparen(call.Args[0]).(*ast.Ident); ok {
				sites = append(sites, site{call, info.ObjectOf(sid)})
			}
			return true
		})
		if len(sites) == 0 {
			return
		}
		g := c.CFG(fn)
		if g == nil {
			return
		}
		for _, st := range sites {
			n++
			key := fmt.Sprintf("%s#decode-of-nonempty[%d]", c.FuncName(fn)+litSuffix(c, fn), n)
			// is the edge (cond, val) the non-empty outcome of a test of len(s)?
			nonEmptyEdge := func(cond ast.Expr, val bool) (isTest, nonEmpty bool) {
				var facts []Guard
				expandGuard(cond, val, &facts)
				for _, gd := range facts {
					be, ok := ast.Unparen(gd.Cond).(*ast.BinaryExpr)
					if !ok {
						continue
					}
					lenOf := func(e ast.Expr) bool {
						call, ok := ast.Unparen(e).(*ast.CallExpr)
						if !ok || len(call.Args) != 1 {
							return false
						}
						id, ok := ast.Unparen(call.Fun).(*ast.Ident)
						if !ok || id.Name != "len" {
							return false
						}
						a, ok := ast.Unparen(call.Args[0]).(*ast.Ident)
						return ok && info.ObjectOf(a) == st.sObj
					}
					zero := func(e ast.Expr) bool {
						v, ok := constInt(info.Types[e])
						return ok && v == 0
					}
					if lenOf(be.X) && zero(be.Y) {
						isTest = true
						switch {
						case be.Op == token.EQL && !gd.Val, be.Op == token.NEQ && gd.Val, be.Op == token.GTR && gd.Val, be.Op == token.LEQ && !gd.Val:
							nonEmpty = true
						}
					}
				}
				return
			}
			// forward must-analysis over blocks: in[b] = AND over preds of out[p,edge]
			nb := len(g.G.Blocks)
			const (
				bottom = iota // not reached yet
				checked
				unchecked
			)
			in := make([]int, nb)
			in[0] = unchecked
			transfer := func(b int, state int) int {
				for _, node := range g.G.Blocks[b].Nodes {
					if containsNode(node, func(y ast.Node) bool { return y == ast.Node(st.call) }) {
						return state // the decode itself: state at the decode is what matters (handled below)
					}
					if as, ok := node.(*ast.AssignStmt); ok {
						for _, l := range as.Lhs {
							if id, ok := ast.Unparen(l).(*ast.Ident); ok && info.ObjectOf(id) == st.sObj {
								state = unchecked
							}
						}
					}
				}
				return state
			}
			stateAt := func(b int, state int) (int, bool) {
				// state right before the decode if it is in this block
				for _, node := range g.G.Blocks[b].Nodes {
					if containsNode(node, func(y ast.Node) bool { return y == ast.Node(st.call) }) {
						return state, true
					}
					if as, ok := node.(*ast.AssignStmt); ok {
						for _, l := range as.Lhs {
							if id, ok := ast.Unparen(l).(*ast.Ident); ok && info.ObjectOf(id) == st.sObj {
								state = unchecked
							}
						}
					}
				}
				return state, false
			}
			changed := true
			for iter := 0; changed && iter < 4*nb+8; iter++ {
				changed = false
				for b := 0; b < nb; b++ {
					if in[b] == bottom {
						continue
					}
					// the whole block, including what follows a decode
					out := in[b]
					for _, node := range g.G.Blocks[b].Nodes {
						if as, ok := node.(*ast.AssignStmt); ok {
							for _, l := range as.Lhs {
								if id, ok := ast.Unparen(l).(*ast.Ident); ok && info.ObjectOf(id) == st.sObj {
									out = unchecked
								}
							}
						}
					}
					_ = transfer
					cond := g.condOf(g.G.Blocks[b])
					for k, s := range g.G.Blocks[b].Succs {
						o := out
						if cond != nil {
							if isTest, nonEmpty := nonEmptyEdge(cond, k == 0); isTest {
								if nonEmpty {
									o = checked
								} else {
									o = unchecked
								}
							}
						}
						si := int(s.Index)
						nv := in[si]
						switch {
						case nv == bottom:
							nv = o
						case nv == checked && o == unchecked:
							nv = unchecked
						}
						if nv != in[si] {
							in[si] = nv
							changed = true
						}
					}
				}
			}
			verdict := -1
			for b := 0; b < nb; b++ {
				if in[b] == bottom {
					continue
				}
				if s, here := stateAt(b, in[b]); here {
					verdict = s
				}
			}
			switch verdict {
			case checked:
				c.OK(key, st.call.Pos(), "on every path the string is known non empty when its first rune is decoded and written")
			case unchecked:
				c.Violation(key, st.call.Pos(), "a rune is decoded from %s and written into the result although the string can be empty on some path: decoding the empty string yields U+FFFD, the result then contains a character that is not part of the input (e.g. \"\".cut(0,1))", nodeStr(c.Fset, st.call.Args[0]))
			default:
				c.Undecided(key, st.call.Pos(), "decode site not found in the control flow graph")
			}
		}
	})
	if n == 0 {
		c.Undecided("value#rune-decoding", token.NoPos, "no decoded rune that is written into a result found")
	}
}

// ---------------------------------------------------------------------------
// R07.6 no address of an element of a growing slice is kept

// ruleR076: `&s[i]` stored in a map, a field, another slice or a variable that
// outlives the loop iteration, while the same function appends to s: when the
// append reallocates, the stored pointers refer to the old array and later
// updates through them are lost (groups lose members once there are more
// groups than the initial capacity).
func ruleR076(c *Ctx) {
	n := 0
	forEachFuncBody(c.RepoPkgs, func(pkg *packages.Package, fn ast.Node, body *ast.BlockStmt) {
		info := pkg.TypesInfo
		// slices this function appends to: s = append(s, ...)
		grows := map[types.Object]bool{}
		ast.Inspect(body, func(x ast.Node) bool {
			as, ok := x.(*ast.AssignStmt)
			if !ok || len(as.Lhs) != 1 || len(as.Rhs) != 1 {
				return true
			}
			call, ok := ast.Unparen(as.Rhs[0]).(*ast.CallExpr)
			if !ok || len(call.Args) < 2 {
				return true
			}
			if id, ok := ast.Unparen(call.Fun).(*ast.Ident); !ok || id.Name != "append" {
				return true
			}
			l, ok1 := ast.Unparen(as.Lhs[0]).(*ast.Ident)
			a0, ok2 := ast.Unparen(call.Args[0]).(*ast.Ident)
			if ok1 && ok2 && info.ObjectOf(l) == info.ObjectOf(a0) {
				grows[info.ObjectOf(l)] = true
			}
			return true
		})
		if len(grows) == 0 {
			return
		}
		inspectNoLit(body, func(x ast.Node) bool {
			u, ok := x.(*ast.UnaryExpr)
			if !ok || u.Op != token.AND {
				return true
			}
			ix, ok := ast.Unparen(u.X).(*ast.IndexExpr)
			if !ok {
				return true
			}
			sid, ok := ast.Unparen(ix.X).(*ast.Ident)
			if !ok || !grows[info.ObjectOf(sid)] {
				return true
			}
			if _, isSlice := info.TypeOf(ix.X).Underlying().(*types.Slice); !isSlice {
				return true
			}
			n++
			key := fmt.Sprintf("%s#address-of-element[%d]:%s", c.FuncName(fn)+litSuffix(c, fn), n, sid.Name)
			// is the address kept? stored into a map/slice element or a field, appended, returned, or assigned to a variable
			kept := ""
			switch p := c.Parent(u).(type) {
			case *ast.AssignStmt:
				for i, r := range p.Rhs {
					if ast.Unparen(r) != ast.Expr(u) || i >= len(p.Lhs) {
						continue
					}
					switch l := ast.Unparen(p.Lhs[i]).(type) {
					case *ast.IndexExpr:
						kept = "stored in " + nodeStr(c.Fset, l.X)
					case *ast.SelectorExpr:
						kept = "stored in the field " + nodeStr(c.Fset, l)
					case *ast.Ident:
						// a variable declared outside the innermost loop survives the iteration
						if obj := info.ObjectOf(l); obj != nil {
							if loop := enclosingLoop(c, p, fn); loop == nil || obj.Pos() < loop.Pos() {
								kept = "kept in the variable " + l.Name
							}
						}
					}
				}
			case *ast.CallExpr:
				if id, ok := ast.Unparen(p.Fun).(*ast.Ident); ok && id.Name == "append" {
					kept = "appended to " + nodeStr(c.Fset, p.Args[0])
				}
			case *ast.ReturnStmt:
				kept = "returned"
			case *ast.KeyValueExpr, *ast.CompositeLit:
				kept = "stored in a composite value"
			}
			if kept == "" {
				c.OK(key, u.Pos(), "the address of the element is used at once and not kept")
			} else {
				c.Violation(key, u.Pos(), "the address of an element of %s is %s while this function appends to %s: when the append reallocates the array, the pointers kept so far refer to the old copy and updates through them are lost", sid.Name, kept, sid.Name)
			}
			return true
		})
	})
	if n == 0 {
		c.OK("repo#addresses-of-slice-elements", token.NoPos, "no address of an element of a slice that the same function appends to is taken")
	}
}

// ---------------------------------------------------------------------------
// R07.7 one number syntax: the conversions from text to a number inside the
// value package (string methods, helpers) read the same syntax as the number
// parser of the language (the NumberParser implementation the generator is
// configured with). Sibling agreement: the reference is what ParseNumber does
// today, normalised to (kind, base): strconv.Atoi(s) = ParseInt(s, 10, _).
// `"010".toInt()` and the literal `010` must not denote different numbers.

type numSyntax struct {
	kind string // "int" or "float"
	base string // constant base of an integer parser; "" for floats; "?" if not constant
}

func numSyntaxOf(info *types.Info, call *ast.CallExpr) (numSyntax, bool) {
	cal := Callee(info, call)
	if cal == nil || cal.Pkg() == nil || cal.Pkg().Path() != "strconv" {
		return numSyntax{}, false
	}
	switch cal.Name() {
	case "Atoi":
		return numSyntax{"int", "10"}, true
	case "ParseInt", "ParseUint":
		if len(call.Args) >= 2 {
			if tv, ok := info.Types[call.Args[1]]; ok && tv.Value != nil {
				return numSyntax{"int", tv.Value.ExactString()}, true
			}
		}
		return numSyntax{"int", "?"}, true
	case "ParseFloat":
		return numSyntax{"float", ""}, true
	}
	return numSyntax{}, false
}

func ruleR077(c *Ctx) {
	vp := c.Pkg("value")
	if vp == nil {
		c.Undecided("package value", token.NoPos, "not found")
		return
	}
	info := vp.TypesInfo
	ref := c.FuncDecl(vp, "FunctionGenerator", "ParseNumber")
	if ref == nil {
		c.Undecided("value.FunctionGenerator.ParseNumber", token.NoPos, "the number parser of the language was not found")
		return
	}
	want := map[string]string{}
	// the number parser itself and the private helpers it delegates to (parseInt, parseFloat): those are shared with
	// whoever else calls them and are the reference, not a sibling
	refBodies := map[*ast.FuncDecl]bool{ref: true}
	ast.Inspect(ref.Body, func(n ast.Node) bool {
		if call, ok := n.(*ast.CallExpr); ok {
			if cal := Callee(info, call); cal != nil && cal.Pkg() == vp.Types {
				if hd := findFuncDecl(vp, cal); hd != nil && hd.Body != nil {
					refBodies[hd] = true
				}
			}
		}
		return true
	})
	for rb := range refBodies {
		ast.Inspect(rb.Body, func(n ast.Node) bool {
			if call, ok := n.(*ast.CallExpr); ok {
				if ns, ok := numSyntaxOf(info, call); ok {
					want[ns.kind] = ns.base
				}
			}
			return true
		})
	}
	if len(want) == 0 {
		c.Undecided("value.FunctionGenerator.ParseNumber", ref.Pos(), "no strconv parser call found in the number parser of the language")
		return
	}
	n := 0
	forEachFuncBody([]*packages.Package{vp}, func(pkg *packages.Package, fn ast.Node, body *ast.BlockStmt) {
		if fd, ok := fn.(*ast.FuncDecl); ok && refBodies[fd] {
			if fd != ref {
				// a helper shared with the number parser: everything that converts through it agrees by construction
				shared := false
				ast.Inspect(vp.Syntax[0], func(ast.Node) bool { return false })
				for _, f := range vp.Syntax {
					ast.Inspect(f, func(y ast.Node) bool {
						cc, ok := y.(*ast.CallExpr)
						if !ok {
							return true
						}
						if cal := Callee(info, cc); cal != nil && findFuncDecl(vp, cal) == fd {
							if ed := c.EnclosingDecl(cc); ed != nil && ed != ref {
								shared = true
							}
						}
						return true
					})
				}
				if shared {
					n++
					c.OK(declName(vp, fd)+"#shared-number-syntax", fd.Pos(), "the conversion helper is shared by the number parser of the language and the text to number methods: one syntax by construction")
				}
			}
			return
		}
		ord := 0
		inspectNoLit(body, func(x ast.Node) bool {
			call, ok := x.(*ast.CallExpr)
			if !ok {
				return true
			}
			ns, ok := numSyntaxOf(info, call)
			if !ok {
				return true
			}
			ord++
			n++
			key := fmt.Sprintf("%s#parse-%s[%d]", c.FuncName(fn)+litSuffix(c, fn), ns.kind, ord)
			w, has := want[ns.kind]
			switch {
			case !has:
				c.OK(key, call.Pos(), "the language has no %s literals of its own; nothing to agree with", ns.kind)
			case ns.base == "?":
				c.Undecided(key, call.Pos(), "the base of this integer parser is not a constant")
			case ns.base != w:
				c.Violation(key, call.Pos(), "this conversion reads integers with base %s, the number parser of the language (ParseNumber) with base %s: a text like \"010\" (or \"0x10\", \"1_000\") converted at run time denotes another number than the same text written as a literal, or is accepted by one and rejected by the other", ns.base, w)
			default:
				c.OK(key, call.Pos(), "same number syntax as the number parser of the language (%s, base %q)", ns.kind, w)
			}
			return true
		})
	})
	if n == 0 {
		c.Undecided("value#text-to-number", token.NoPos, "no text to number conversion found besides the number parser (toInt/toFloat expected)")
	}
}

// ---------------------------------------------------------------------------
// R07.8 errors are not swallowed.
//
// In a function that reports failures through a last result of type error:
// on the branch on which an error obtained from a call is known to be
// non-nil, no path may reach a *success* return (a literal nil as the error
// result) without looking at the error again (passing it on, wrapping it,
// storing it, logging it). `if err != nil { return nil }` turns a failure of
// an element, a closure or a writer into an empty or truncated result.

func ruleR078(c *Ctx) {
	var pkgs []*packages.Package
	for _, rel := range []string{"value", "value/export", "value/export/xmlWriter", "funcGen", "listMap"} {
		if p := c.Pkg(rel); p != nil {
			pkgs = append(pkgs, p)
		}
	}
	nFn, nTests := 0, 0
	forEachFuncBody(pkgs, func(pkg *packages.Package, fn ast.Node, body *ast.BlockStmt) {
		info := pkg.TypesInfo
		var sig *types.Signature
		switch t := fn.(type) {
		case *ast.FuncDecl:
			if o, ok := info.Defs[t.Name].(*types.Func); ok {
				sig, _ = o.Type().(*types.Signature)
			}
		case *ast.FuncLit:
			sig, _ = info.TypeOf(t).(*types.Signature)
		}
		if sig == nil || sig.Results().Len() == 0 || !isErrorType(sig.Results().At(sig.Results().Len()-1).Type()) {
			return
		}
		g := c.CFG(fn)
		if g == nil {
			return
		}
		nFn++
		// error variables of this function that are defined by a call
		errVars := map[types.Object]string{}
		inspectNoLit(body, func(x ast.Node) bool {
			as, ok := x.(*ast.AssignStmt)
			if !ok || len(as.Rhs) != 1 {
				return true
			}
			call, ok := ast.Unparen(as.Rhs[0]).(*ast.CallExpr)
			if !ok {
				return true
			}
			// the try idiom of the language: func() (v, err) { defer recover…; return try(…) }() - its error is what the
			// catch part of the program handles; turning it into a value is the meaning of try/catch
			if lit, ok := ast.Unparen(call.Fun).(*ast.FuncLit); ok && c.startsWithRecoveringDefer(pkg, lit.Body) {
				return true
			}
			// the same idiom as a named function or method of the package (e.try(st, cs))
			if cal := Callee(info, call); cal != nil && cal.Pkg() == pkg.Types {
				if hd := findFuncDecl(pkg, cal); hd != nil && hd.Body != nil && c.startsWithRecoveringDefer(pkg, hd.Body) {
					return true
				}
			}
			for _, l := range as.Lhs {
				if id, ok := l.(*ast.Ident); ok && id.Name != "_" {
					if o := info.ObjectOf(id); o != nil && isErrorType(o.Type()) {
						errVars[o] = nodeStr(c.Fset, call.Fun)
					}
				}
			}
			return true
		})
		if len(errVars) == 0 {
			return
		}
		isSuccess := func(x ast.Node) bool {
			r, ok := x.(*ast.ReturnStmt)
			if !ok || len(r.Results) != sig.Results().Len() {
				return false
			}
			id, ok := ast.Unparen(r.Results[len(r.Results)-1]).(*ast.Ident)
			return ok && id.Name == "nil"
		}
		fname := c.FuncName(fn) + litSuffix(c, fn)
		reported := map[types.Object]bool{}
		for _, b := range g.G.Blocks {
			if !g.live[b.Index] || len(b.Succs) != 2 {
				continue
			}
			cond := g.condOf(b)
			if cond == nil {
				continue
			}
			for i, succ := range b.Succs {
				var leaves []Guard
				expandGuard(cond, i == 0, &leaves)
				for _, gd := range leaves {
					be, ok := ast.Unparen(gd.Cond).(*ast.BinaryExpr)
					if !ok || be.Op != token.NEQ || !gd.Val {
						continue
					}
					id, ok := ast.Unparen(be.X).(*ast.Ident)
					if !ok {
						continue
					}
					if y, ok := ast.Unparen(be.Y).(*ast.Ident); !ok || y.Name != "nil" {
						continue
					}
					obj := info.ObjectOf(id)
					from, isErr := errVars[obj]
					if !isErr || reported[obj] {
						continue
					}
					nTests++
					uses := func(x ast.Node) bool {
						return containsNodeDeep(x, func(y ast.Node) bool {
							uid, ok := y.(*ast.Ident)
							return ok && info.ObjectOf(uid) == obj
						})
					}
					// an edge on which another error is known to be non-nil: an earlier error was recorded and takes precedence
					otherErrKnown := func(cond ast.Expr, val bool) bool {
						var ls []Guard
						expandGuard(cond, val, &ls)
						for _, l := range ls {
							ob, ok := ast.Unparen(l.Cond).(*ast.BinaryExpr)
							if !ok || ob.Op != token.NEQ || !l.Val {
								continue
							}
							if y, ok := ast.Unparen(ob.Y).(*ast.Ident); !ok || y.Name != "nil" {
								continue
							}
							if !isErrorType(info.TypeOf(ob.X)) {
								continue
							}
							if oid, ok := ast.Unparen(ob.X).(*ast.Ident); ok && info.ObjectOf(oid) == obj {
								continue
							}
							return false
						}
						return true
					}
					if found, hit := g.PathEdgesFromBlock(succ, isSuccess, uses, otherErrKnown); found {
						reported[obj] = true
						at := c.posStr(hit.Pos())
						key := fmt.Sprintf("%s#swallowed-error:%s", fname, id.Name)
						c.Violation(key, cond.Pos(), "where the error %s returned by %s is known to be non-nil, a path leads to the success return at %s without the error being looked at again: the failure is turned into a (shortened, empty or default) result", id.Name, from, at)
					}
				}
			}
		}
	})
	if nFn < 100 {
		c.Undecided("value#functions-reporting-errors", token.NoPos, "only %d functions with an error result found", nFn)
		return
	}
	c.OK("value#errors-not-swallowed", token.NoPos, "%d functions with an error result, %d branches on a non-nil error from a call: none reaches a success return without using the error", nFn, nTests)
}
