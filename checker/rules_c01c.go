package main

import (
	"fmt"
	"go/ast"
	"go/token"
	"go/types"
	"strings"

	"golang.org/x/tools/go/packages"
)

// ---------------------------------------------------------------------------
// R01.5 frame layout algebra: the Stack primitives as linear normal forms

// symEnv evaluates int expressions over receiver fields and parameters.
type symEnv struct {
	info  *types.Info
	vals  map[string]lin // current value of a storage key
	depth int
}

// loadedPkgs: the packages of the module and the iterator dependency (set by the loader).
var loadedPkgs []*packages.Package

// inlineAccessor evaluates a call of a function or method of the same package
// whose body is a single return of one expression (an accessor such as
// `func (s Stack) top() int { return s.offs + s.size }`): parameters and the
// fields of the receiver are bound to their values at the call site.
func (e *symEnv) inlineAccessor(call *ast.CallExpr) (lin, bool) {
	if e.depth > 2 {
		return lin{}, false
	}
	cal := Callee(e.info, call)
	if cal == nil {
		return lin{}, false
	}
	var pkg *packages.Package
	for _, p := range loadedPkgs {
		if p.TypesInfo == e.info {
			pkg = p
		}
	}
	if pkg == nil || cal.Pkg() != pkg.Types {
		return lin{}, false
	}
	fd := findFuncDecl(pkg, cal)
	if fd == nil || fd.Body == nil || len(fd.Body.List) != 1 {
		return lin{}, false
	}
	ret, ok := fd.Body.List[0].(*ast.ReturnStmt)
	if !ok || len(ret.Results) != 1 {
		return lin{}, false
	}
	sub := &symEnv{info: e.info, vals: map[string]lin{}, depth: e.depth + 1}
	// parameters
	i := 0
	if fd.Type.Params != nil {
		for _, f := range fd.Type.Params.List {
			for _, nm := range f.Names {
				if i >= len(call.Args) {
					return lin{}, false
				}
				if k, ok := exprKey(e.info, nm); ok {
					sub.vals[k] = e.eval(call.Args[i])
				}
				i++
			}
		}
	}
	if i != len(call.Args) {
		return lin{}, false
	}
	// receiver fields
	if fd.Recv != nil && len(fd.Recv.List) == 1 && len(fd.Recv.List[0].Names) == 1 {
		sel, ok := ast.Unparen(call.Fun).(*ast.SelectorExpr)
		if !ok {
			return lin{}, false
		}
		baseKey, ok := exprKey(e.info, sel.X)
		if !ok {
			return lin{}, false
		}
		recvObj := e.info.Defs[fd.Recv.List[0].Names[0]]
		bad := false
		ast.Inspect(ret.Results[0], func(n ast.Node) bool {
			fs, ok := n.(*ast.SelectorExpr)
			if !ok {
				return true
			}
			id, ok := ast.Unparen(fs.X).(*ast.Ident)
			if !ok || e.info.ObjectOf(id) != recvObj {
				return true
			}
			ck, ok1 := exprKey(e.info, fs)
			name, rest, _ := strings.Cut(baseKey, "@")
			callerKey := name + "." + fs.Sel.Name + "@" + rest
			if !ok1 {
				bad = true
				return false
			}
			if v, ok := e.vals[callerKey]; ok {
				sub.vals[ck] = v
			} else {
				sub.vals[ck] = symVar(callerKey)
			}
			return false
		})
		if bad {
			return lin{}, false
		}
	}
	res := sub.eval(ret.Results[0])
	if res.top {
		return lin{}, false
	}
	return res, true
}

func symVar(k string) lin { return lin{terms: map[string]int{k: 1}} }

func (e *symEnv) eval(x ast.Expr) lin {
	x = ast.Unparen(x)
	if tv, ok := e.info.Types[x]; ok && tv.Value != nil {
		if v, ok := constInt(tv); ok {
			return linConst(v)
		}
	}
	switch t := x.(type) {
	case *ast.Ident, *ast.SelectorExpr:
		if k, ok := exprKey(e.info, x.(ast.Expr)); ok {
			if v, ok := e.vals[k]; ok {
				return v
			}
			return symVar(k)
		}
	case *ast.BinaryExpr:
		switch t.Op {
		case token.ADD:
			return e.eval(t.X).add(e.eval(t.Y))
		case token.SUB:
			return e.eval(t.X).sub(e.eval(t.Y))
		}
	case *ast.CallExpr:
		if id, ok := ast.Unparen(t.Fun).(*ast.Ident); ok && id.Name == "len" && len(t.Args) == 1 {
			if k, ok := exprKey(e.info, t.Args[0]); ok {
				return symVar("len:" + k)
			}
		}
		if v, ok := e.inlineAccessor(t); ok {
			return v
		}
	}
	return linTop()
}

// exec runs straight line statements; it returns false for unsupported shapes.
func (e *symEnv) exec(stmts []ast.Stmt, onCall func(*ast.CallExpr), onReturn func(*ast.ReturnStmt), onRange func(*ast.RangeStmt)) bool {
	for _, s := range stmts {
		switch t := s.(type) {
		case *ast.AssignStmt:
			if len(t.Lhs) != 1 || len(t.Rhs) != 1 {
				return false
			}
			k, ok := exprKey(e.info, t.Lhs[0])
			if !ok {
				return false
			}
			if call, ok := ast.Unparen(t.Rhs[0]).(*ast.CallExpr); ok && onCall != nil {
				onCall(call)
			}
			if cl, ok := ast.Unparen(t.Rhs[0]).(*ast.CompositeLit); ok {
				// st := Stack{...}: remember the literal's fields under k.field
				name, rest, _ := strings.Cut(k, "@")
				for _, el := range cl.Elts {
					if kv, ok := el.(*ast.KeyValueExpr); ok {
						if f, ok := kv.Key.(*ast.Ident); ok {
							e.vals[name+"."+f.Name+"@"+rest] = e.eval(kv.Value)
						}
					}
				}
				continue
			}
			if call, ok := ast.Unparen(t.Rhs[0]).(*ast.CallExpr); ok {
				// st := newFrame(storage, offs, size): a private constructor whose body is one literal
				if cl, argOf := ctorLiteralOf(e.info, call); cl != nil {
					name, rest, _ := strings.Cut(k, "@")
					for _, el := range cl.Elts {
						if kv, ok := el.(*ast.KeyValueExpr); ok {
							if f, ok := kv.Key.(*ast.Ident); ok {
								e.vals[name+"."+f.Name+"@"+rest] = e.eval(argOf(kv.Value))
							}
						}
					}
					continue
				}
			}
			switch t.Tok {
			case token.ASSIGN, token.DEFINE:
				e.vals[k] = e.eval(t.Rhs[0])
			case token.ADD_ASSIGN:
				e.vals[k] = e.eval(t.Lhs[0]).add(e.eval(t.Rhs[0]))
			case token.SUB_ASSIGN:
				e.vals[k] = e.eval(t.Lhs[0]).sub(e.eval(t.Rhs[0]))
			default:
				return false
			}
		case *ast.IncDecStmt:
			k, ok := exprKey(e.info, t.X)
			if !ok {
				return false
			}
			d := 1
			if t.Tok == token.DEC {
				d = -1
			}
			e.vals[k] = e.eval(t.X).add(linConst(d))
		case *ast.ExprStmt:
			call, ok := t.X.(*ast.CallExpr)
			if !ok {
				return false
			}
			if onCall != nil {
				onCall(call)
			}
		case *ast.ReturnStmt:
			if onReturn != nil {
				onReturn(t)
			}
			return true
		case *ast.RangeStmt:
			if onRange == nil {
				return false
			}
			onRange(t)
		default:
			return false
		}
	}
	return true
}

func ruleR015(c *Ctx) {
	a := c.genAnchors()
	if len(a.missing) > 0 {
		c.Undecided(strings.Join(a.missing, ","), token.NoPos, "anchors not found")
		return
	}
	info := a.fg.TypesInfo
	roles := c.fieldRoles(a)
	for _, p := range roles.problems {
		c.Undecided("funcGen#field-roles", token.NoPos, "%s", p)
	}
	storageGet := LookupMethod(a.fg, "stackStorage", "get")
	storageSet := LookupMethod(a.fg, "stackStorage", "set")
	if storageGet == nil || storageSet == nil {
		c.Undecided("funcGen.stackStorage.get/set", token.NoPos, "anchor not found")
		return
	}
	method := func(name string) (*ast.FuncDecl, string, bool) {
		fd := c.FuncDecl(a.fg, "Stack", name)
		if fd == nil || fd.Recv == nil || len(fd.Recv.List[0].Names) == 0 {
			c.Undecided("funcGen.Stack."+name, token.NoPos, "method not found")
			return nil, "", false
		}
		rk, _ := exprKey(info, fd.Recv.List[0].Names[0])
		_, ptr := fd.Recv.List[0].Type.(*ast.StarExpr)
		return fd, rk, ptr
	}
	field := func(recvKey, f string) string {
		name, rest, _ := strings.Cut(recvKey, "@")
		return name + "." + f + "@" + rest
	}
	paramKey := func(fd *ast.FuncDecl, i int) string {
		n := 0
		for _, f := range fd.Type.Params.List {
			for _, nm := range f.Names {
				if n == i {
					k, _ := exprKey(info, nm)
					return k
				}
				n++
			}
		}
		return ""
	}
	offsPlus := func(rk string, more ...lin) lin {
		l := symVar(field(rk, roles.offs))
		for _, m := range more {
			l = l.add(m)
		}
		return l
	}

	// Get(n) reads slot offs+n
	if fd, rk, _ := method("Get"); fd != nil {
		key := "funcGen.Stack.Get"
		env := &symEnv{info: info, vals: map[string]lin{}}
		decided := false
		ok := env.exec(fd.Body.List, nil, func(r *ast.ReturnStmt) {
			if len(r.Results) == 1 {
				if call, ok := ast.Unparen(r.Results[0]).(*ast.CallExpr); ok && isCallTo(info, call, storageGet) && len(call.Args) == 1 {
					got := env.eval(call.Args[0])
					want := offsPlus(rk, symVar(paramKey(fd, 0)))
					decided = true
					c.Check(got.eq(want), key, r.Pos(), "Get(n) reads slot offs+n", fmt.Sprintf("Get(n) reads slot %s, not offs+n: compile time indices address the wrong frame slot", symStr(got)))
				}
			}
		}, nil)
		if !ok || !decided {
			c.Undecided(key, fd.Pos(), "shape of Get not recognised")
		}
	}
	// Push(v) stores at offs+size, then size+1; pointer receiver
	if fd, rk, ptr := method("Push"); fd != nil {
		key := "funcGen.Stack.Push"
		env := &symEnv{info: info, vals: map[string]lin{}}
		var stored *lin
		var storedVal ast.Expr
		ok := env.exec(fd.Body.List, func(call *ast.CallExpr) {
			if isCallTo(info, call, storageSet) && len(call.Args) == 2 {
				l := env.eval(call.Args[0])
				stored = &l
				storedVal = call.Args[1]
			}
		}, nil, nil)
		if !ok || stored == nil {
			c.Undecided(key, fd.Pos(), "shape of Push not recognised")
		} else {
			sizeK := field(rk, roles.size)
			wantSlot := offsPlus(rk, symVar(sizeK))
			finalSize := env.eval(&ast.SelectorExpr{X: fd.Recv.List[0].Names[0], Sel: ast.NewIdent(roles.size)})
			if v, ok := env.vals[sizeK]; ok {
				finalSize = v
			} else {
				finalSize = symVar(sizeK)
			}
			_, offsChanged := env.vals[field(rk, roles.offs)]
			vk, _ := exprKey(info, storedVal)
			var problems []string
			if !stored.eq(wantSlot) {
				problems = append(problems, "stores at slot "+symStr(*stored)+" instead of offs+size")
			}
			if !finalSize.eq(symVar(sizeK).add(linConst(1))) {
				problems = append(problems, "leaves size = "+symStr(finalSize)+" instead of size+1")
			}
			if offsChanged {
				problems = append(problems, "changes offs")
			}
			if vk != paramKey(fd, 0) {
				problems = append(problems, "does not store its argument")
			}
			if !ptr {
				problems = append(problems, "has a value receiver, so the size increment is lost")
			}
			c.Check(len(problems) == 0, key, fd.Pos(), "Push stores its argument at offs+size and increments size (pointer receiver)", "Push "+strings.Join(problems, ", "))
		}
	}
	// CreateFrame(k): receiver keeps size-k; result {storage, offs+size-k, k}
	if fd, rk, ptr := method("CreateFrame"); fd != nil {
		key := "funcGen.Stack.CreateFrame"
		env := &symEnv{info: info, vals: map[string]lin{}}
		var ret ast.Expr
		ok := env.exec(fd.Body.List, nil, func(r *ast.ReturnStmt) {
			if len(r.Results) == 1 {
				ret = r.Results[0]
			}
		}, nil)
		if !ok || ret == nil {
			c.Undecided(key, fd.Pos(), "shape of CreateFrame not recognised")
		} else {
			sizeK, offsK := field(rk, roles.size), field(rk, roles.offs)
			k := symVar(paramKey(fd, 0))
			var rOffs, rSize, rStorage lin
			found := false
			if id, ok := ast.Unparen(ret).(*ast.Ident); ok {
				rkey, _ := exprKey(info, id)
				o, ok1 := env.vals[field(rkey, roles.offs)]
				s, ok2 := env.vals[field(rkey, roles.size)]
				st, ok3 := env.vals[field(rkey, roles.storage)]
				if ok1 && ok2 && ok3 {
					rOffs, rSize, rStorage, found = o, s, st, true
				}
			} else if cl, ok := ast.Unparen(ret).(*ast.CompositeLit); ok {
				vals := map[string]lin{}
				for _, el := range cl.Elts {
					if kv, ok := el.(*ast.KeyValueExpr); ok {
						if f, ok := kv.Key.(*ast.Ident); ok {
							vals[f.Name] = env.eval(kv.Value)
						}
					}
				}
				if len(vals) == 3 {
					rOffs, rSize, rStorage, found = vals[roles.offs], vals[roles.size], vals[roles.storage], true
				}
			} else if call, ok := ast.Unparen(ret).(*ast.CallExpr); ok {
				if cl, argOf := ctorLiteralOf(info, call); cl != nil {
					vals := map[string]lin{}
					for _, el := range cl.Elts {
						if kv, ok := el.(*ast.KeyValueExpr); ok {
							if f, ok := kv.Key.(*ast.Ident); ok {
								vals[f.Name] = env.eval(argOf(kv.Value))
							}
						}
					}
					if len(vals) == 3 {
						rOffs, rSize, rStorage, found = vals[roles.offs], vals[roles.size], vals[roles.storage], true
					}
				}
			}
			if !found {
				c.Undecided(key, fd.Pos(), "returned frame not recognised")
			} else {
				finalSize := symVar(sizeK)
				if v, ok := env.vals[sizeK]; ok {
					finalSize = v
				}
				_, offsChanged := env.vals[offsK]
				var problems []string
				if !finalSize.eq(symVar(sizeK).sub(k)) {
					problems = append(problems, "leaves the caller with size = "+symStr(finalSize)+" instead of size-n")
				}
				if offsChanged {
					problems = append(problems, "changes the caller's offs")
				}
				if !rOffs.eq(symVar(offsK).add(symVar(sizeK)).sub(k)) {
					problems = append(problems, "new frame starts at "+symStr(rOffs)+" instead of offs+size-n")
				}
				if !rSize.eq(k) {
					problems = append(problems, "new frame has size "+symStr(rSize)+" instead of n")
				}
				if !rStorage.eq(symVar(field(rk, roles.storage))) {
					problems = append(problems, "new frame does not share the storage")
				}
				if !ptr {
					problems = append(problems, "has a value receiver, so the pushed arguments are never removed from the caller's frame")
				}
				c.Check(len(problems) == 0, key, fd.Pos(), "CreateFrame(n) yields {storage, offs+size-n, n} and leaves size-n in the caller (pointer receiver)", "CreateFrame(n) "+strings.Join(problems, ", "))
			}
		}
	}
	// Init resets offs and size before pushing; value receiver; returns the receiver
	if fd, rk, ptr := method("Init"); fd != nil {
		key := "funcGen.Stack.Init"
		env := &symEnv{info: info, vals: map[string]lin{}}
		var atLoopOffs, atLoopSize *lin
		pushesAll := false
		workKey := rk
		var ret ast.Expr
		ok := env.exec(fd.Body.List, nil, func(r *ast.ReturnStmt) {
			if len(r.Results) == 1 {
				ret = r.Results[0]
			}
		}, func(rs *ast.RangeStmt) {
			// the stack that is filled: the receiver (a copy, value receiver) or a local built on the receiver's storage
			wk := rk
			if len(rs.Body.List) == 1 {
				if es, ok := rs.Body.List[0].(*ast.ExprStmt); ok {
					if call, ok := es.X.(*ast.CallExpr); ok && isCallTo(info, call, a.push) {
						if sel, _ := ast.Unparen(call.Fun).(*ast.SelectorExpr); sel != nil {
							if k2, ok := exprKey(info, sel.X); ok && k2 != rk {
								if st, ok := env.vals[field(k2, roles.storage)]; ok && st.eq(symVar(field(rk, roles.storage))) {
									wk = k2
								}
							}
						}
					}
				}
			}
			workKey = wk
			o, okO := env.vals[field(wk, roles.offs)]
			s, okS := env.vals[field(wk, roles.size)]
			if okO {
				atLoopOffs = &o
			}
			if okS {
				atLoopSize = &s
			}
			// body: exactly s.Push(rangeValue) over the variadic parameter
			if k, ok := exprKey(info, rs.X); ok && k == paramKey(fd, 0) && len(rs.Body.List) == 1 {
				if es, ok := rs.Body.List[0].(*ast.ExprStmt); ok {
					if call, ok := es.X.(*ast.CallExpr); ok && isCallTo(info, call, a.push) && len(call.Args) == 1 {
						vk, _ := exprKey(info, call.Args[0])
						if v, ok := rs.Value.(*ast.Ident); ok {
							rvk, _ := exprKey(info, v)
							sel, _ := ast.Unparen(call.Fun).(*ast.SelectorExpr)
							if sel != nil {
								recvK, _ := exprKey(info, sel.X)
								pushesAll = vk == rvk && recvK == workKey
							}
						}
					}
				}
			}
		})
		if !ok || ret == nil {
			c.Undecided(key, fd.Pos(), "shape of Init not recognised")
		} else {
			var problems []string
			if atLoopOffs == nil || !atLoopOffs.eq(linConst(0)) {
				problems = append(problems, "does not reset offs to 0 before pushing")
			}
			if atLoopSize == nil || !atLoopSize.eq(linConst(0)) {
				problems = append(problems, "does not reset size to 0 before pushing")
			}
			if !pushesAll {
				problems = append(problems, "does not push every argument in order")
			}
			if k, _ := exprKey(info, ret); k != workKey {
				problems = append(problems, "does not return the initialised stack")
			}
			if ptr {
				problems = append(problems, "has a pointer receiver (the design relies on Init working on a copy)")
			}
			c.Check(len(problems) == 0, key, fd.Pos(), "Init zeroes offs and size, pushes all arguments in order and returns the stack", "Init "+strings.Join(problems, ", "))
		}
	}
	// stackStorage.set / get address exactly slot n
	if fd := c.FuncDecl(a.fg, "stackStorage", "get"); fd != nil {
		key := "funcGen.stackStorage.get"
		okShape := false
		if len(fd.Body.List) == 1 {
			if r, ok := fd.Body.List[0].(*ast.ReturnStmt); ok && len(r.Results) == 1 {
				if ix, ok := ast.Unparen(r.Results[0]).(*ast.IndexExpr); ok {
					ik, _ := exprKey(info, ix.Index)
					okShape = true
					c.Check(ik == paramKey(fd, 0), key, fd.Pos(), "get(n) reads data[n]", "get(n) reads data["+nodeStr(c.Fset, ix.Index)+"]")
				}
			}
		}
		if !okShape {
			c.Undecided(key, fd.Pos(), "shape of stackStorage.get not recognised")
		}
	} else {
		c.Undecided("funcGen.stackStorage.get", token.NoPos, "not found")
	}
	if fd := c.FuncDecl(a.fg, "stackStorage", "set"); fd != nil {
		key := "funcGen.stackStorage.set"
		nk, vk := paramKey(fd, 0), paramKey(fd, 1)
		stores, appends, bad := 0, 0, 0
		ast.Inspect(fd.Body, func(n ast.Node) bool {
			as, ok := n.(*ast.AssignStmt)
			if !ok || len(as.Lhs) != 1 || len(as.Rhs) != 1 {
				return true
			}
			if ix, ok := ast.Unparen(as.Lhs[0]).(*ast.IndexExpr); ok {
				ik, _ := exprKey(info, ix.Index)
				rk, _ := exprKey(info, as.Rhs[0])
				if ik == nk && rk == vk {
					stores++
				} else {
					bad++
				}
			} else if call, ok := ast.Unparen(as.Rhs[0]).(*ast.CallExpr); ok {
				if id, ok := ast.Unparen(call.Fun).(*ast.Ident); ok && id.Name == "append" && len(call.Args) == 2 {
					lk, _ := exprKey(info, as.Lhs[0])
					ak, _ := exprKey(info, call.Args[0])
					rk, _ := exprKey(info, call.Args[1])
					// the append must be guarded by n == len(data)
					guarded := false
					for _, g := range c.CFG(fd).Guards(as) {
						if be, ok := ast.Unparen(g.Cond).(*ast.BinaryExpr); ok && g.Val && be.Op == token.EQL {
							x, _ := exprKey(info, be.X)
							if x == nk && nodeStr(c.Fset, be.Y) == "len("+nodeStr(c.Fset, call.Args[0])+")" {
								guarded = true
							}
						}
					}
					if lk == ak && rk == vk && guarded {
						appends++
					} else {
						bad++
					}
				}
			}
			return true
		})
		if stores+appends+bad == 0 {
			c.Undecided(key, fd.Pos(), "shape of stackStorage.set not recognised")
		} else {
			c.Check(stores >= 1 && appends == 1 && bad == 0, key, fd.Pos(), "set(n,v) writes data[n]=v, growing by append only when n == len(data)", fmt.Sprintf("set(n,v): %d store(s) to data[n], %d guarded append(s), %d store(s) to another slot or of another value", stores, appends, bad))
		}
	} else {
		c.Undecided("funcGen.stackStorage.set", token.NoPos, "not found")
	}
	// constructors
	for _, name := range []string{"NewEmptyStack", "NewStack"} {
		fd := c.FuncDecl(a.fg, "", name)
		key := "funcGen." + name
		if fd == nil {
			c.Undecided(key, token.NoPos, "not found")
			continue
		}
		var cl *ast.CompositeLit
		ast.Inspect(fd.Body, func(n ast.Node) bool {
			if x, ok := n.(*ast.CompositeLit); ok && cl == nil && a.isStack(info.TypeOf(x)) {
				cl = x
			}
			return true
		})
		argOf := func(e ast.Expr) ast.Expr { return e }
		if cl == nil {
			// the literal lives in a private constructor: return newFrame(storage, 0, len(v))
			ast.Inspect(fd.Body, func(n ast.Node) bool {
				if call, ok := n.(*ast.CallExpr); ok && cl == nil {
					if l, ao := ctorLiteralOf(info, call); l != nil && a.isStack(info.TypeOf(l)) {
						cl, argOf = l, ao
					}
				}
				return true
			})
		}
		if cl == nil {
			c.Undecided(key, fd.Pos(), "no Stack literal")
			continue
		}
		env := &symEnv{info: info, vals: map[string]lin{}}
		vals := map[string]lin{}
		for _, el := range cl.Elts {
			if kv, ok := el.(*ast.KeyValueExpr); ok {
				if f, ok := kv.Key.(*ast.Ident); ok {
					vals[f.Name] = env.eval(argOf(kv.Value))
				}
			}
		}
		wantSize := linConst(0)
		if name == "NewStack" {
			wantSize = symVar("len:" + paramKey(fd, 0))
		}
		offs, okO := vals[roles.offs]
		size, okS := vals[roles.size]
		good := (!okO || offs.eq(linConst(0))) && ((okS && size.eq(wantSize)) || (!okS && name == "NewEmptyStack"))
		c.Check(good, key, cl.Pos(), "new stack starts at offs 0 with the right size", fmt.Sprintf("new stack starts with offs=%s size=%s", symStr(offs), symStr(size)))
	}
}

func symStr(l lin) string {
	if l.top {
		return "⊤"
	}
	var parts []string
	for _, k := range keysOfLin(l) {
		name := strings.TrimPrefix(strings.SplitN(k, "@", 2)[0], "len:")
		if strings.HasPrefix(k, "len:") {
			name = "len(" + name + ")"
		}
		switch l.terms[k] {
		case 1:
			parts = append(parts, "+"+name)
		case -1:
			parts = append(parts, "-"+name)
		default:
			parts = append(parts, fmt.Sprintf("%+d*%s", l.terms[k], name))
		}
	}
	if l.c != 0 || len(parts) == 0 {
		parts = append(parts, fmt.Sprintf("%+d", l.c))
	}
	return strings.TrimPrefix(strings.Join(parts, ""), "+")
}

func keysOfLin(l lin) []string {
	var r []string
	for k := range l.terms {
		r = append(r, k)
	}
	sortStrings(r)
	return r
}

var _ = types.Typ
