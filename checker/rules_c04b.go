package main

import (
	"fmt"
	"go/ast"
	"go/constant"
	"go/token"
	"go/types"
	"sort"
	"strings"
)

// ---------------------------------------------------------------------------
// R04.6 default matchers: the continuation predicate accepts every rune the
// start test announces (otherwise the tokenizer emits an empty token without
// consuming anything, forever). Decided symbolically: a propositional
// implication over the predicate atoms with a few axioms about unicode
// classes, no predicate is evaluated.

type bform struct {
	op   string // "atom", "and", "or", "not", "true", "false"
	atom string
	sub  []*bform
}

func (f *bform) eval(v map[string]bool) bool {
	switch f.op {
	case "atom":
		return v[f.atom]
	case "and":
		for _, s := range f.sub {
			if !s.eval(v) {
				return false
			}
		}
		return true
	case "or":
		for _, s := range f.sub {
			if s.eval(v) {
				return true
			}
		}
		return false
	case "not":
		return !f.sub[0].eval(v)
	case "true":
		return true
	}
	return false
}

func (f *bform) atoms(out map[string]bool) {
	if f.op == "atom" {
		out[f.atom] = true
	}
	for _, s := range f.sub {
		s.atoms(out)
	}
}

// toForm translates a boolean expression over the rune parameter.
func toForm(c *Ctx, info *types.Info, e ast.Expr, param types.Object) *bform {
	e = ast.Unparen(e)
	if tv := info.Types[e]; tv.Value != nil && tv.Value.Kind() == constant.Bool {
		if constant.BoolVal(tv.Value) {
			return &bform{op: "true"}
		}
		return &bform{op: "false"}
	}
	isParam := func(x ast.Expr) bool {
		id, ok := ast.Unparen(x).(*ast.Ident)
		return ok && info.ObjectOf(id) == param
	}
	switch t := e.(type) {
	case *ast.BinaryExpr:
		switch t.Op {
		case token.LAND:
			return &bform{op: "and", sub: []*bform{toForm(c, info, t.X, param), toForm(c, info, t.Y, param)}}
		case token.LOR:
			return &bform{op: "or", sub: []*bform{toForm(c, info, t.X, param), toForm(c, info, t.Y, param)}}
		case token.EQL, token.NEQ:
			x, y := t.X, t.Y
			if !isParam(x) {
				x, y = y, x
			}
			if isParam(x) {
				if tv := info.Types[y]; tv.Value != nil && tv.Value.Kind() == constant.Int {
					a := &bform{op: "atom", atom: "eq:" + tv.Value.ExactString()}
					if t.Op == token.NEQ {
						return &bform{op: "not", sub: []*bform{a}}
					}
					return a
				}
			}
		}
	case *ast.UnaryExpr:
		if t.Op == token.NOT {
			return &bform{op: "not", sub: []*bform{toForm(c, info, t.X, param)}}
		}
	case *ast.CallExpr:
		if cal := Callee(info, t); cal != nil && cal.Pkg() != nil {
			if cal.Pkg().Path() == "unicode" && len(t.Args) == 1 && isParam(t.Args[0]) {
				return &bform{op: "atom", atom: "unicode." + cal.Name()}
			}
			if cal.Pkg().Path() == "strings" && cal.Name() == "ContainsRune" && len(t.Args) == 2 && isParam(t.Args[1]) {
				if tv := info.Types[t.Args[0]]; tv.Value != nil && tv.Value.Kind() == constant.String {
					return &bform{op: "atom", atom: "in:" + constant.StringVal(tv.Value)}
				}
			}
		}
	}
	return &bform{op: "atom", atom: "free:" + nodeStr(c.Fset, e)}
}

func ruleR046(c *Ctx) {
	root := c.Pkg("")
	if root == nil {
		c.Undecided("package parser2", token.NoPos, "not found")
		return
	}
	info := root.TypesInfo
	// runes handled by the tokenizer before a matcher is consulted
	run := c.FuncDecl(root, "Tokenizer", "run")
	handled := map[string]bool{}
	if run != nil {
		ast.Inspect(run.Body, func(n ast.Node) bool {
			if cc, ok := n.(*ast.CaseClause); ok {
				for _, e := range cc.List {
					if tv := info.Types[e]; tv.Value != nil && tv.Value.Kind() == constant.Int {
						handled[tv.Value.ExactString()] = true
					}
				}
			}
			return true
		})
	}
	if len(handled) < 10 {
		c.Undecided("parser2.Tokenizer.run#handled-runes", token.NoPos, "case constants of the tokenizer switch not found")
		return
	}
	// default matchers: functions of type Matcher assigned in NewParser
	matcherType := LookupType(root, "Matcher")
	if matcherType == nil {
		c.Undecided("parser2.Matcher", token.NoPos, "not found")
		return
	}
	n := 0
	for _, f := range root.Syntax {
		for _, d := range f.Decls {
			fd, ok := d.(*ast.FuncDecl)
			if !ok || fd.Recv != nil || fd.Body == nil {
				continue
			}
			obj, _ := info.Defs[fd.Name].(*types.Func)
			if obj == nil || !types.AssignableTo(obj.Type(), matcherType.Type()) {
				continue
			}
			n++
			key := "parser2." + fd.Name.Name + "#start-implies-continue"
			if len(fd.Type.Params.List) != 1 || len(fd.Type.Params.List[0].Names) != 1 {
				c.Undecided(key, fd.Pos(), "parameter list not understood")
				continue
			}
			startParam := info.Defs[fd.Type.Params.List[0].Names[0]]
			// shape: if START { return func(r rune) bool {...}, true } else { return nil, false }
			var start ast.Expr
			var lit *ast.FuncLit
			for _, s := range fd.Body.List {
				if ifs, ok := s.(*ast.IfStmt); ok && start == nil {
					ast.Inspect(ifs.Body, func(x ast.Node) bool {
						if r, ok := x.(*ast.ReturnStmt); ok && len(r.Results) == 2 {
							if l, ok := ast.Unparen(r.Results[0]).(*ast.FuncLit); ok {
								start, lit = ifs.Cond, l
							}
						}
						return true
					})
				}
			}
			if start == nil || lit == nil || len(lit.Type.Params.List) != 1 || len(lit.Type.Params.List[0].Names) != 1 {
				c.Undecided(key, fd.Pos(), "shape of the matcher not recognised (if START { return func(r) bool {...}, true })")
				continue
			}
			contParam := info.Defs[lit.Type.Params.List[0].Names[0]]
			// the returned boolean of the literal
			var cont ast.Expr
			ast.Inspect(lit.Body, func(x ast.Node) bool {
				if r, ok := x.(*ast.ReturnStmt); ok && len(r.Results) == 1 && cont == nil {
					cont = r.Results[0]
					if id, ok := ast.Unparen(cont).(*ast.Ident); ok {
						if as, i := definingAssign(info, fd, info.ObjectOf(id)); as != nil && len(as.Rhs) == len(as.Lhs) {
							cont = as.Rhs[i]
						}
					}
				}
				return true
			})
			if cont == nil {
				c.Undecided(key, lit.Pos(), "no returned predicate")
				continue
			}
			S := toForm(c, info, start, startParam)
			C := toForm(c, info, cont, contParam)
			atomSet := map[string]bool{}
			S.atoms(atomSet)
			C.atoms(atomSet)
			var atoms []string
			for a := range atomSet {
				atoms = append(atoms, a)
			}
			sort.Strings(atoms)
			if len(atoms) > 16 {
				c.Undecided(key, fd.Pos(), "too many atoms (%d)", len(atoms))
				continue
			}
			// axioms
			consistent := func(v map[string]bool) bool {
				if v["unicode.IsDigit"] && !v["unicode.IsNumber"] && atomSet["unicode.IsNumber"] {
					return false
				}
				if v["unicode.IsLetter"] && (v["unicode.IsNumber"] || v["unicode.IsDigit"]) {
					return false
				}
				for _, sub := range []string{"unicode.IsUpper", "unicode.IsLower", "unicode.IsTitle"} {
					if v[sub] && atomSet["unicode.IsLetter"] && !v["unicode.IsLetter"] {
						return false
					}
				}
				nEq := 0
				for a, val := range v {
					if !val {
						continue
					}
					if strings.HasPrefix(a, "eq:") {
						nEq++
						if handled[strings.TrimPrefix(a, "eq:")] {
							return false // the tokenizer handles this rune itself
						}
					}
					if strings.HasPrefix(a, "in:") {
						all := true
						for _, r := range strings.TrimPrefix(a, "in:") {
							if !handled[fmt.Sprint(int(r))] {
								all = false
							}
						}
						if all {
							return false // every rune of the set is handled by the tokenizer switch
						}
					}
					if strings.HasPrefix(a, "free:") {
						// unknown sub conditions can not be relied on to hold
						return false
					}
				}
				return nEq <= 1
			}
			var witness []string
			for mask := 0; mask < 1<<len(atoms) && witness == nil; mask++ {
				v := map[string]bool{}
				for i, a := range atoms {
					v[a] = mask&(1<<i) != 0
				}
				if !consistent(v) {
					continue
				}
				if S.eval(v) && !C.eval(v) {
					for _, a := range atoms {
						if strings.HasPrefix(a, "free:") {
							continue
						}
						if v[a] {
							witness = append(witness, a)
						} else if strings.HasPrefix(a, "unicode.") {
							witness = append(witness, "!"+a)
						}
					}
				}
			}
			if witness == nil {
				c.OK(key, fd.Pos(), "for every rune that reaches the matcher, the start test (%s) implies the continuation predicate", nodeStr(c.Fset, start))
			} else {
				c.Violation(key, fd.Pos(), "the start test %s accepts runes that the continuation predicate rejects (a rune with %s): the tokenizer then emits an empty token without consuming the rune and never terminates", nodeStr(c.Fset, start), strings.Join(witness, ", "))
			}
		}
	}
	if n == 0 {
		c.Undecided("parser2#default-matchers", token.NoPos, "no function of type Matcher found")
	}
}
