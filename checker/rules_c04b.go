package main

import (
	"fmt"
	"go/ast"
	"go/constant"
	"go/token"
	"go/types"
	"sort"
	"strings"

	"golang.org/x/tools/go/packages"
)

// ---------------------------------------------------------------------------
// R04.6 default matchers: the continuation predicate accepts every rune the
// start test announces (otherwise the tokenizer emits an empty token without
// consuming anything, forever). Decided symbolically: a propositional
// implication over the predicate atoms with a few axioms about unicode
// classes, no predicate is evaluated.

type bform struct {
	op   string // "atom", "and", "or", "not", "true", "false"
	atom string
	sub  []*bform
}

func (f *bform) eval(v map[string]bool) bool {
	switch f.op {
	case "atom":
		return v[f.atom]
	case "and":
		for _, s := range f.sub {
			if !s.eval(v) {
				return false
			}
		}
		return true
	case "or":
		for _, s := range f.sub {
			if s.eval(v) {
				return true
			}
		}
		return false
	case "not":
		return !f.sub[0].eval(v)
	case "true":
		return true
	}
	return false
}

func (f *bform) atoms(out map[string]bool) {
	if f.op == "atom" {
		out[f.atom] = true
	}
	for _, s := range f.sub {
		s.atoms(out)
	}
}

// toForm translates a boolean expression over the rune parameter.
func toForm(c *Ctx, info *types.Info, e ast.Expr, param types.Object) *bform {
	e = ast.Unparen(e)
	if tv := info.Types[e]; tv.Value != nil && tv.Value.Kind() == constant.Bool {
		if constant.BoolVal(tv.Value) {
			return &bform{op: "true"}
		}
		return &bform{op: "false"}
	}
	isParam := func(x ast.Expr) bool {
		id, ok := ast.Unparen(x).(*ast.Ident)
		return ok && info.ObjectOf(id) == param
	}
	switch t := e.(type) {
	case *ast.BinaryExpr:
		switch t.Op {
		case token.LAND:
			return &bform{op: "and", sub: []*bform{toForm(c, info, t.X, param), toForm(c, info, t.Y, param)}}
		case token.LOR:
			return &bform{op: "or", sub: []*bform{toForm(c, info, t.X, param), toForm(c, info, t.Y, param)}}
		case token.EQL, token.NEQ:
			x, y := t.X, t.Y
			if !isParam(x) {
				x, y = y, x
			}
			if isParam(x) {
				if tv := info.Types[y]; tv.Value != nil && tv.Value.Kind() == constant.Int {
					a := &bform{op: "atom", atom: "eq:" + tv.Value.ExactString()}
					if t.Op == token.NEQ {
						return &bform{op: "not", sub: []*bform{a}}
					}
					return a
				}
			}
		}
	case *ast.UnaryExpr:
		if t.Op == token.NOT {
			return &bform{op: "not", sub: []*bform{toForm(c, info, t.X, param)}}
		}
	case *ast.Ident:
		// a boolean local with one definition stands for its defining expression
		if v, ok := info.ObjectOf(t).(*types.Var); ok && v != param && !v.IsField() && v.Parent() != nil && v.Parent() != v.Pkg().Scope() {
			if ed := c.EnclosingDecl(t); ed != nil && countAssignments(info, ed, v) == 1 {
				if as, i := definingAssign(info, ed, v); as != nil && len(as.Lhs) == len(as.Rhs) && as.Pos() < t.Pos() {
					return toForm(c, info, as.Rhs[i], param)
				}
			}
		}
	case *ast.CallExpr:
		// a predicate of the package over the rune: func isPlainDigit(r rune) bool { return <expr over r> }
		if cal := Callee(info, t); cal != nil && len(t.Args) == 1 && isParam(t.Args[0]) {
			if root := c.Pkg(""); root != nil && cal.Pkg() == root.Types {
				if hd := findFuncDecl(root, cal); hd != nil && hd.Body != nil && hd.Recv == nil && len(hd.Body.List) == 1 && hd.Type.Params.NumFields() == 1 && len(hd.Type.Params.List[0].Names) == 1 {
					if r, ok := hd.Body.List[0].(*ast.ReturnStmt); ok && len(r.Results) == 1 && !containsNode(r, func(y ast.Node) bool {
						cc, ok := y.(*ast.CallExpr)
						return ok && Callee(info, cc) == cal // no recursion
					}) {
						return toForm(c, info, r.Results[0], info.Defs[hd.Type.Params.List[0].Names[0]])
					}
				}
			}
		}
		if cal := Callee(info, t); cal != nil && cal.Pkg() != nil {
			if cal.Pkg().Path() == "unicode" && len(t.Args) == 1 && isParam(t.Args[0]) {
				return &bform{op: "atom", atom: "unicode." + cal.Name()}
			}
			if (cal.Pkg().Path() == "strings" && cal.Name() == "ContainsRune" || cal.Pkg().Path() == "slices" && cal.Name() == "Contains") && len(t.Args) == 2 && isParam(t.Args[1]) {
				// the table: a constant string, or a package level []rune("...") that is never assigned
				if tv, ok := constEval(info, t.Args[0], nil); ok && tv.Kind() == constant.String {
					return &bform{op: "atom", atom: "in:" + constant.StringVal(tv)}
				}
			}
		}
	}
	return &bform{op: "atom", atom: "free:" + nodeStr(c.Fset, e)}
}

func ruleR046(c *Ctx) {
	root := c.Pkg("")
	if root == nil {
		c.Undecided("package parser2", token.NoPos, "not found")
		return
	}
	info := root.TypesInfo
	// runes handled by the tokenizer before a matcher is consulted
	run := c.FuncDecl(root, "Tokenizer", "run")
	handled := map[string]bool{}
	if run != nil {
		ast.Inspect(run.Body, func(n ast.Node) bool {
			if cc, ok := n.(*ast.CaseClause); ok {
				for _, e := range cc.List {
					if tv := info.Types[e]; tv.Value != nil && tv.Value.Kind() == constant.Int {
						handled[tv.Value.ExactString()] = true
					}
				}
			}
			return true
		})
	}
	// runes taken out by a table lookup in front of the matchers: if i := slices.Index(table, n); i >= 0 { ...; break }
	if run != nil {
		ast.Inspect(run.Body, func(n ast.Node) bool {
			ifs, ok := n.(*ast.IfStmt)
			if !ok || len(ifs.Body.List) == 0 {
				return true
			}
			switch ifs.Body.List[len(ifs.Body.List)-1].(type) {
			case *ast.BranchStmt, *ast.ReturnStmt:
			default:
				return true // falls through to the matchers
			}
			as, ok := ifs.Init.(*ast.AssignStmt)
			if !ok || len(as.Lhs) != 1 || len(as.Rhs) != 1 {
				return true
			}
			call, ok := ast.Unparen(as.Rhs[0]).(*ast.CallExpr)
			if !ok || len(call.Args) != 2 {
				return true
			}
			cal := Callee(info, call)
			if cal == nil || cal.Pkg() == nil || !(cal.Pkg().Path() == "slices" && cal.Name() == "Index" || cal.Pkg().Path() == "strings" && cal.Name() == "IndexRune") {
				return true
			}
			tbl, ok := constEval(info, call.Args[0], nil)
			if !ok || tbl.Kind() != constant.String {
				return true
			}
			be, ok := ast.Unparen(ifs.Cond).(*ast.BinaryExpr)
			if !ok {
				return true
			}
			if id, ok := ast.Unparen(be.X).(*ast.Ident); !ok || info.ObjectOf(id) != info.ObjectOf(as.Lhs[0].(*ast.Ident)) {
				return true
			}
			bound, ok := constInt(info.Types[be.Y])
			if !ok {
				return true
			}
			for i, r := range []rune(constant.StringVal(tbl)) {
				in := false
				switch be.Op {
				case token.GEQ:
					in = i >= bound
				case token.GTR:
					in = i > bound
				case token.NEQ:
					in = bound == -1 || i != bound
				}
				if in {
					handled[fmt.Sprint(int(r))] = true
				}
			}
			return true
		})
	}
	if len(handled) < 10 {
		c.Undecided("parser2.Tokenizer.run#handled-runes", token.NoPos, "case constants of the tokenizer switch not found")
		return
	}
	// default matchers: functions of type Matcher assigned in NewParser
	matcherType := LookupType(root, "Matcher")
	if matcherType == nil {
		c.Undecided("parser2.Matcher", token.NoPos, "not found")
		return
	}
	n := 0
	for _, f := range root.Syntax {
		for _, d := range f.Decls {
			fd, ok := d.(*ast.FuncDecl)
			if !ok || fd.Recv != nil || fd.Body == nil {
				continue
			}
			obj, _ := info.Defs[fd.Name].(*types.Func)
			if obj == nil || !types.AssignableTo(obj.Type(), matcherType.Type()) {
				continue
			}
			n++
			key := "parser2." + fd.Name.Name + "#start-implies-continue"
			if len(fd.Type.Params.List) != 1 || len(fd.Type.Params.List[0].Names) != 1 {
				c.Undecided(key, fd.Pos(), "parameter list not understood")
				continue
			}
			startParam := info.Defs[fd.Type.Params.List[0].Names[0]]
			// shape: if START { return func(r rune) bool {...}, true } else { return nil, false }
			var start ast.Expr
			var lit *ast.FuncLit
			for _, s := range fd.Body.List {
				if ifs, ok := s.(*ast.IfStmt); ok && start == nil {
					ast.Inspect(ifs.Body, func(x ast.Node) bool {
						if r, ok := x.(*ast.ReturnStmt); ok && len(r.Results) == 2 {
							if l, ok := ast.Unparen(r.Results[0]).(*ast.FuncLit); ok {
								start, lit = ifs.Cond, l
							}
						}
						return true
					})
				}
			}
			var S *bform
			startText := ""
			exact := true
			var sGuards []Guard // the start test as branch outcomes (for the exact analysis)
			if start != nil {
				S = toForm(c, info, start, startParam)
				startText = nodeStr(c.Fset, start)
				sGuards = []Guard{{Cond: start, Val: true}}
			} else {
				// guard form: if !START { return nil, false }; return func(r) bool {...}, true. The start test is the
				// conjunction of the branch outcomes that dominate the one return of a literal.
				var rets []*ast.ReturnStmt
				inspectNoLit(fd.Body, func(x ast.Node) bool {
					if r, ok := x.(*ast.ReturnStmt); ok && len(r.Results) == 2 {
						if _, ok := ast.Unparen(r.Results[0]).(*ast.FuncLit); ok {
							rets = append(rets, r)
						}
					}
					return true
				})
				if g := c.CFG(fd); g != nil && len(rets) == 1 {
					lit = ast.Unparen(rets[0].Results[0]).(*ast.FuncLit)
					S = &bform{op: "and", sub: []*bform{{op: "true"}}}
					var texts []string
					for _, gd := range g.Guards(rets[0]) {
						if gd.Synth || gd.Derived {
							continue
						}
						sGuards = append(sGuards, gd)
						f := toForm(c, info, gd.Cond, startParam)
						t := nodeStr(c.Fset, gd.Cond)
						if !gd.Val {
							f = &bform{op: "not", sub: []*bform{f}}
							t = "!(" + t + ")"
						}
						S.sub = append(S.sub, f)
						texts = append(texts, t)
					}
					startText = strings.Join(texts, " && ")
					// the dominating outcomes are the whole path condition only if the return is reached on one path
					if b, _, ok := g.Pos(rets[0]); ok {
						for cur := b; cur.Index != 0; {
							ps := g.preds[cur.Index]
							if len(ps) != 1 {
								exact = false
								break
							}
							cur = g.G.Blocks[ps[0]]
						}
					} else {
						exact = false
					}
				}
			}
			if S == nil || lit == nil || len(lit.Type.Params.List) != 1 || len(lit.Type.Params.List[0].Names) != 1 {
				c.Undecided(key, fd.Pos(), "shape of the matcher not recognised (if START { return func(r) bool {...}, true } or guards in front of the one return of a literal)")
				continue
			}
			contParam := info.Defs[lit.Type.Params.List[0].Names[0]]
			// the returned boolean of the literal
			var cont ast.Expr
			ast.Inspect(lit.Body, func(x ast.Node) bool {
				if r, ok := x.(*ast.ReturnStmt); ok && len(r.Results) == 1 && cont == nil {
					cont = r.Results[0]
					if id, ok := ast.Unparen(cont).(*ast.Ident); ok {
						if as, i := definingAssign(info, fd, info.ObjectOf(id)); as != nil && len(as.Rhs) == len(as.Lhs) {
							cont = as.Rhs[i]
						}
					}
				}
				return true
			})
			if cont == nil {
				c.Undecided(key, lit.Pos(), "no returned predicate")
				continue
			}
			// exact analysis over code point sets where every condition can be read as a set of runes (unicode tables,
			// comparisons, constant tables, predicates of the package); conditions that do not mention the rune are false
			// for the first rune of a token (the closure's state is still initial). Falls back to the propositional check.
			if len(sGuards) > 0 {
				ps := &runePred{c: c, pkg: root, v: startParam, assume: map[string]bool{}}
				sSet := rsAll()
				for _, gd := range sGuards {
					set := ps.eval(gd.Cond)
					if !gd.Val {
						set = rsComplement(set)
					}
					sSet = rsIntersect(sSet, set)
				}
				assume := map[string]bool{}
				ast.Inspect(cont, func(y ast.Node) bool {
					e, ok := y.(ast.Expr)
					if !ok {
						return true
					}
					switch e.(type) {
					case *ast.BinaryExpr, *ast.CallExpr:
						if bt, ok := info.TypeOf(e).Underlying().(*types.Basic); ok && bt.Info()&types.IsBoolean != 0 && !mentions(info, e, contParam) {
							assume[nodeStr(c.Fset, e)] = false
							return false
						}
					}
					return true
				})
				pc := &runePred{c: c, pkg: root, v: contParam, assume: assume}
				cSet := pc.eval(cont)
				if ps.fail == "" && pc.fail == "" {
					var hSet runeSet
					for hk := range handled {
						var hv int
						if _, err := fmt.Sscanf(hk, "%d", &hv); err == nil {
							hSet = append(hSet, runeIv{rune(hv), rune(hv)})
						}
					}
					hSet = rsNorm(hSet)
					witnessSet := rsMinus(rsMinus(sSet, hSet), cSet)
					if len(witnessSet) == 0 {
						c.OK(key, fd.Pos(), "over all code points: every rune the start test (%s) accepts and the tokenizer does not handle itself is accepted by the continuation predicate", startText)
					} else if !exact {
						c.Undecided(key, fd.Pos(), "the literal is returned on several paths, the start test is not a conjunction of branch outcomes")
					} else {
						c.Violation(key, fd.Pos(), "the start test %s accepts runes that the continuation predicate rejects (%s): the tokenizer then emits an empty token without consuming the rune and never terminates", startText, rsString(witnessSet, 8))
					}
					continue
				}
			}
			C := toForm(c, info, cont, contParam)
			atomSet := map[string]bool{}
			S.atoms(atomSet)
			C.atoms(atomSet)
			var atoms []string
			for a := range atomSet {
				atoms = append(atoms, a)
			}
			sort.Strings(atoms)
			if len(atoms) > 16 {
				c.Undecided(key, fd.Pos(), "too many atoms (%d)", len(atoms))
				continue
			}
			// axioms
			consistent := func(v map[string]bool) bool {
				if v["unicode.IsDigit"] && !v["unicode.IsNumber"] && atomSet["unicode.IsNumber"] {
					return false
				}
				if v["unicode.IsLetter"] && (v["unicode.IsNumber"] || v["unicode.IsDigit"]) {
					return false
				}
				for _, sub := range []string{"unicode.IsUpper", "unicode.IsLower", "unicode.IsTitle"} {
					if v[sub] && atomSet["unicode.IsLetter"] && !v["unicode.IsLetter"] {
						return false
					}
				}
				nEq := 0
				for a, val := range v {
					if !val {
						continue
					}
					if strings.HasPrefix(a, "eq:") {
						nEq++
						if handled[strings.TrimPrefix(a, "eq:")] {
							return false // the tokenizer handles this rune itself
						}
					}
					if strings.HasPrefix(a, "in:") {
						all := true
						for _, r := range strings.TrimPrefix(a, "in:") {
							if !handled[fmt.Sprint(int(r))] {
								all = false
							}
						}
						if all {
							return false // every rune of the set is handled by the tokenizer switch
						}
					}
				}
				return nEq <= 1
			}
			// conditions the rule cannot interpret ("free" atoms: last == 'e', a call it does not know) take both values;
			// a witness that needs a particular value of one of them proves nothing - the check is then undecided
			var freeAtoms []string
			for _, a := range atoms {
				if strings.HasPrefix(a, "free:") {
					freeAtoms = append(freeAtoms, strings.TrimPrefix(a, "free:"))
				}
			}
			witnessAllFree := true // the witness holds whatever the free atoms are
			var witness []string
			for mask := 0; mask < 1<<len(atoms) && witness == nil; mask++ {
				v := map[string]bool{}
				for i, a := range atoms {
					v[a] = mask&(1<<i) != 0
				}
				if !consistent(v) {
					continue
				}
				if S.eval(v) && !C.eval(v) {
					// does it hold for every value of the free atoms?
					for fm := 0; fm < 1<<len(freeAtoms) && witnessAllFree; fm++ {
						w := map[string]bool{}
						for k, val := range v {
							w[k] = val
						}
						for i, fa := range freeAtoms {
							w["free:"+fa] = fm&(1<<i) != 0
						}
						if !(S.eval(w) && !C.eval(w)) {
							witnessAllFree = false
						}
					}
					for _, a := range atoms {
						if strings.HasPrefix(a, "free:") {
							continue
						}
						if v[a] {
							witness = append(witness, a)
						} else if strings.HasPrefix(a, "unicode.") {
							witness = append(witness, "!"+a)
						}
					}
				}
			}
			if witness == nil {
				c.OK(key, fd.Pos(), "for every rune that reaches the matcher, the start test (%s) implies the continuation predicate", startText)
			} else if !exact {
				c.Undecided(key, fd.Pos(), "the literal is returned on several paths, the start test is not a conjunction of branch outcomes")
			} else if !witnessAllFree {
				c.Undecided(key, fd.Pos(), "whether the start test implies the continuation predicate depends on a condition the rule cannot interpret (%s)", strings.Join(freeAtoms, "; "))
			} else {
				c.Violation(key, fd.Pos(), "the start test %s accepts runes that the continuation predicate rejects (a rune with %s): the tokenizer then emits an empty token without consuming the rune and never terminates", startText, strings.Join(witness, ", "))
			}
		}
	}
	if n == 0 {
		c.Undecided("parser2#default-matchers", token.NoPos, "no function of type Matcher found")
	}
}

// ---------------------------------------------------------------------------
// R04.7 slicing and indexing of strings on the parsing path is bounded

// ruleR047: in package parser2 every slice or index expression on a string
// has bounds that cannot exceed the string: absent, the constant 0, a sum of
// decode widths / lengths of that string (byte counts by construction), or an
// expression that is compared with len(s) on the way. A constant such as
// s[:4] without a length test is an index panic on short input - raised on
// the tokenizer goroutine, where no caller can recover it.
func ruleR047(c *Ctx) {
	root := c.Pkg("")
	if root == nil {
		c.Undecided("package parser2", token.NoPos, "not found")
		return
	}
	info := root.TypesInfo
	n := 0
	for _, f := range root.Syntax {
		for _, d := range f.Decls {
			fd, ok := d.(*ast.FuncDecl)
			if !ok || fd.Body == nil {
				continue
			}
			env := &unitEnv{c: c, info: info, vars: map[types.Object]strUnit{}}
			// widths of decoded runes and lengths are byte counts
			for round := 0; round < 2; round++ {
				ast.Inspect(fd.Body, func(x ast.Node) bool {
					as, ok := x.(*ast.AssignStmt)
					if !ok {
						return true
					}
					if len(as.Lhs) == 2 && len(as.Rhs) == 1 {
						if call, ok := ast.Unparen(as.Rhs[0]).(*ast.CallExpr); ok && isDecodeRune(info, call) {
							if id, ok := ast.Unparen(as.Lhs[1]).(*ast.Ident); ok && id.Name != "_" {
								env.vars[info.ObjectOf(id)] = unitByte
							}
						}
						return true
					}
					if len(as.Lhs) == len(as.Rhs) {
						for i, l := range as.Lhs {
							if id, ok := l.(*ast.Ident); ok && id.Name != "_" {
								if u := env.unit(as.Rhs[i]); u == unitByte {
									if call, isCall := ast.Unparen(as.Rhs[i]).(*ast.CallExpr); isCall {
										if cal := Callee(info, call); cal != nil && cal.Pkg() != nil && (cal.Pkg().Path() == "strings" || cal.Pkg().Path() == "bytes") {
											continue // Index results can be -1: not a safe bound on their own
										}
									}
									env.vars[info.ObjectOf(id)] = unitByte
								}
							}
						}
					}
					return true
				})
			}
			fname := declName(root, fd)
			k := 0
			ast.Inspect(fd.Body, func(x ast.Node) bool {
				var base ast.Expr
				var bounds []ast.Expr
				switch t := x.(type) {
				case *ast.SliceExpr:
					base, bounds = t.X, []ast.Expr{t.Low, t.High, t.Max}
				case *ast.IndexExpr:
					base, bounds = t.X, []ast.Expr{t.Index}
				default:
					return true
				}
				bt, ok := info.TypeOf(base).Underlying().(*types.Basic)
				if !ok || bt.Info()&types.IsString == 0 {
					return true
				}
				k++
				n++
				key := fmt.Sprintf("%s#string-bounds[%d]:%s", fname, k, nodeStr(c.Fset, x))
				// a constant table indexed with values computed from the scanned rune inside a switch case: the expression
				// is folded for every constant of the case; it is in bounds if folding succeeds for all of them
				// (constEval refuses an out-of-range slice)
				if tvb := info.Types[base]; tvb.Value != nil {
					var cc *ast.CaseClause
					for q := c.Parent(x); q != nil && q != ast.Node(fd); q = c.Parent(q) {
						if t, ok := q.(*ast.CaseClause); ok {
							cc = t
							break
						}
					}
					if cc != nil && len(cc.List) > 0 {
						if sw, ok := c.Parent(c.Parent(cc)).(*ast.SwitchStmt); ok {
							var tagObjs []types.Object
							if tg, ok := sw.Tag.(*ast.Ident); ok {
								tagObjs = append(tagObjs, info.ObjectOf(tg))
							}
							if as, ok := sw.Init.(*ast.AssignStmt); ok && len(as.Lhs) == 1 {
								if id, ok := as.Lhs[0].(*ast.Ident); ok {
									tagObjs = append(tagObjs, info.ObjectOf(id))
								}
							}
							all := len(tagObjs) > 0
							for _, e := range cc.List {
								tv := info.Types[e]
								if tv.Value == nil {
									all = false
									break
								}
								bind := map[types.Object]constant.Value{}
								for _, o := range tagObjs {
									bind[o] = tv.Value
								}
								if _, ok := constEval(info, x.(ast.Expr), bind); !ok {
									all = false
									break
								}
							}
							if all {
								c.OK(key, x.Pos(), "a constant table indexed with values computed from the case constants: in bounds for every constant of the case (folded)")
								return true
							}
						}
					}
				}
				var bad []string
				for _, b := range bounds {
					if b == nil {
						continue
					}
					if tv := info.Types[b]; tv.Value != nil {
						if v, ok := constInt(tv); ok && v == 0 {
							continue
						}
					} else if env.unit(b) == unitByte {
						if call, isCall := ast.Unparen(b).(*ast.CallExpr); !isCall || !strings.HasPrefix(nodeStr(c.Fset, call.Fun), "strings.") {
							continue
						}
					}
					// a length test on the way
					guarded := false
					fn := c.EnclosingFunc(x)
					if g := c.CFG(fn); g != nil {
						for _, gd := range g.Guards(x) {
							if containsNode(gd.Cond, func(y ast.Node) bool {
								call, ok := y.(*ast.CallExpr)
								if !ok || len(call.Args) != 1 {
									return false
								}
								id, ok := ast.Unparen(call.Fun).(*ast.Ident)
								return ok && id.Name == "len" && nodeStr(c.Fset, call.Args[0]) == nodeStr(c.Fset, base)
							}) {
								guarded = true
							}
						}
					}
					if !guarded {
						bad = append(bad, nodeStr(c.Fset, b))
					}
				}
				if len(bad) == 0 {
					c.OK(key, x.Pos(), "bounds are decode widths/lengths of the string, zero, or tested against its length")
				} else {
					c.Violation(key, x.Pos(), "%s is sliced/indexed with %s, which is neither derived from the string's own decode widths nor compared with len(%s): input that ends early raises an index panic (on the tokenizer goroutine no caller can recover it, the process dies)", nodeStr(c.Fset, base), strings.Join(bad, ", "), nodeStr(c.Fset, base))
				}
				return true
			})
		}
	}
	if n < 6 {
		c.Undecided("parser2#string-slicing", token.NoPos, "only %d slice/index expressions on strings found", n)
	}
}

// ---------------------------------------------------------------------------
// R04.8 the end-of-input mark cannot be forged by the input

// ruleR048: peek returns a constant sentinel when the input is exhausted
// (R04.1). Every consumer takes that constant for the end of the input, so a
// rune decoded *from* the input must never be returned with that value:
// otherwise the text behind it is silently ignored. Required shape: behind the
// last decode of a rune into the cache field, and dominating the return of the
// cache field, a test `field == sentinel` replaces the value by another
// constant.
func ruleR048(c *Ctx) {
	root := c.Pkg("")
	if root == nil {
		c.Undecided("package parser2", token.NoPos, "not found")
		return
	}
	info := root.TypesInfo
	fd := c.FuncDecl(root, "Tokenizer", "peek")
	key := "parser2.Tokenizer.peek#sentinel-not-forgeable"
	if fd == nil {
		c.Undecided(key, token.NoPos, "peek not found")
		return
	}
	g := c.CFG(fd)
	// sentinel: the constant returned under len(t.str) == 0
	var sentinel constant.Value
	inspectNoLit(fd.Body, func(n ast.Node) bool {
		r, ok := n.(*ast.ReturnStmt)
		if !ok || len(r.Results) != 1 {
			return true
		}
		tv := info.Types[r.Results[0]]
		if tv.Value == nil {
			return true
		}
		for _, gd := range g.Guards(r) {
			if isLenZeroTest(info, gd.Cond) && gd.Val && sentinel == nil {
				sentinel = tv.Value
			}
		}
		return true
	})
	if sentinel == nil {
		c.Undecided(key, fd.Pos(), "end-of-input sentinel not found")
		return
	}
	// the cache field: returned by the last statement
	last, ok := fd.Body.List[len(fd.Body.List)-1].(*ast.ReturnStmt)
	if !ok || len(last.Results) != 1 {
		c.Undecided(key, fd.Pos(), "peek does not end with the return of the cached rune")
		return
	}
	cache, ok := ast.Unparen(last.Results[0]).(*ast.SelectorExpr)
	if !ok {
		c.Undecided(key, last.Pos(), "peek does not return a field")
		return
	}
	cacheObj := info.Selections[cache].Obj()
	// decodes into the cache field
	var lastDecode token.Pos
	ast.Inspect(fd.Body, func(n ast.Node) bool {
		as, ok := n.(*ast.AssignStmt)
		if !ok || len(as.Rhs) != 1 {
			return true
		}
		if call, ok := ast.Unparen(as.Rhs[0]).(*ast.CallExpr); ok && isDecodeRune(info, call) {
			if l, ok := ast.Unparen(as.Lhs[0]).(*ast.SelectorExpr); ok {
				if s, ok := info.Selections[l]; ok && s.Obj() == cacheObj && as.Pos() > lastDecode {
					lastDecode = as.Pos()
				}
			}
		}
		return true
	})
	if !lastDecode.IsValid() {
		c.Undecided(key, fd.Pos(), "no decode into the rune cache found")
		return
	}
	// the sanitising test
	found := false
	for _, s := range fd.Body.List {
		ifs, ok := s.(*ast.IfStmt)
		if !ok || ifs.Pos() < lastDecode || ifs.Else != nil || ifs.Init != nil {
			continue
		}
		be, ok := ast.Unparen(ifs.Cond).(*ast.BinaryExpr)
		if !ok || be.Op != token.EQL {
			continue
		}
		l, ok := ast.Unparen(be.X).(*ast.SelectorExpr)
		if !ok {
			continue
		}
		if sl, ok := info.Selections[l]; !ok || sl.Obj() != cacheObj {
			continue
		}
		if tv := info.Types[be.Y]; tv.Value == nil || !constant.Compare(tv.Value, token.EQL, sentinel) {
			continue
		}
		for _, b := range ifs.Body.List {
			if as, ok := b.(*ast.AssignStmt); ok && len(as.Lhs) == 1 && len(as.Rhs) == 1 {
				if al, ok := ast.Unparen(as.Lhs[0]).(*ast.SelectorExpr); ok {
					if sl, ok := info.Selections[al]; ok && sl.Obj() == cacheObj {
						if tv := info.Types[as.Rhs[0]]; tv.Value != nil && !constant.Compare(tv.Value, token.EQL, sentinel) {
							found = true
						}
					}
				}
			}
		}
	}
	c.Check(found, key, fd.Pos(), fmt.Sprintf("a rune decoded from the input that equals the end-of-input mark %s is replaced before it is returned", sentinel),
		fmt.Sprintf("a character of the input that decodes to %s is returned as it is, and every consumer takes %s for the end of the input: the text behind a NUL character is silently ignored (1\\x00*2 parses as 1)", sentinel, sentinel))
}

// ---------------------------------------------------------------------------
// R04.9 error decoration that scales with the configuration is added once

// ruleR049: a function err -> err that appends a payload built in a loop (the
// documentation of all registered functions) is called on the error of nested
// generator calls, once per nesting level. Unless it recognises an error it
// has already decorated and returns it unchanged, message size and run time
// grow with depth x payload, and because every level copies the message,
// quadratically with the depth of the input.
func ruleR049(c *Ctx) {
	n := 0
	for _, pkg := range c.RepoPkgs {
		info := pkg.TypesInfo
		for _, f := range pkg.Syntax {
			for _, d := range f.Decls {
				fd, ok := d.(*ast.FuncDecl)
				if !ok || fd.Body == nil || fd.Type.Params == nil || fd.Type.Results == nil {
					continue
				}
				obj, _ := info.Defs[fd.Name].(*types.Func)
				if obj == nil {
					continue
				}
				sig := obj.Type().(*types.Signature)
				if sig.Params().Len() != 1 || sig.Results().Len() != 1 || !isErrorType(sig.Params().At(0).Type()) || !isErrorType(sig.Results().At(0).Type()) {
					continue
				}
				if len(fd.Type.Params.List[0].Names) != 1 {
					continue
				}
				param := info.Defs[fd.Type.Params.List[0].Names[0]]
				loops := containsNode(fd.Body, func(x ast.Node) bool {
					switch x.(type) {
					case *ast.RangeStmt, *ast.ForStmt:
						return true
					}
					return false
				})
				if !loops {
					continue
				}
				// is it used on errors at all (called somewhere in the repository)?
				n++
				key := declName(pkg, fd) + "#decorates-once"
				// the guard: an if statement before the first loop that inspects the parameter with errors.As/Is or a type
				// assertion and returns the parameter unchanged
				idempotent := false
				for _, s := range fd.Body.List {
					if _, isLoop := s.(*ast.RangeStmt); isLoop {
						break
					}
					if _, isLoop := s.(*ast.ForStmt); isLoop {
						break
					}
					ifs, ok := s.(*ast.IfStmt)
					if !ok {
						continue
					}
					inspects := containsNode(ifs, func(x ast.Node) bool {
						switch t := x.(type) {
						case *ast.CallExpr:
							if cal := Callee(info, t); cal != nil && cal.Pkg() != nil && cal.Pkg().Path() == "errors" && (cal.Name() == "As" || cal.Name() == "Is") && len(t.Args) >= 1 {
								if id, ok := ast.Unparen(t.Args[0]).(*ast.Ident); ok && info.ObjectOf(id) == param {
									return true
								}
							}
						case *ast.TypeAssertExpr:
							if id, ok := ast.Unparen(t.X).(*ast.Ident); ok && info.ObjectOf(id) == param {
								return true
							}
						}
						return false
					})
					returnsParam := false
					for _, b := range ifs.Body.List {
						if r, ok := b.(*ast.ReturnStmt); ok && len(r.Results) == 1 {
							if id, ok := ast.Unparen(r.Results[0]).(*ast.Ident); ok && info.ObjectOf(id) == param {
								returnsParam = true
							}
						}
					}
					if inspects && returnsParam {
						idempotent = true
					}
				}
				c.Check(idempotent, key, fd.Pos(), "an error that already carries the payload is returned unchanged: the payload is added once, whatever the nesting depth",
					"the function appends a payload built in a loop to every error it is handed, also to one it has decorated before: called once per nesting level of the input, the message grows by the whole payload at each level and is copied each time (Generate needs time quadratic in the depth of the input: 15 s for 4.8 kB)")
			}
		}
	}
	if n == 0 {
		c.Undecided("repo#error-decorators", token.NoPos, "no error decorator with a loop found")
	}
}

// ---------------------------------------------------------------------------
// R04.10 optional handlers are not dereferenced unchecked at Generate time

// ruleR0410: the generator's handlers (closure, list, map, method handler,
// custom generator, ...) are optional: interface typed fields that some code
// tests against nil. A method call on such a field inside a generated closure
// runs at evaluation time, where the recover of the generated function turns a
// nil dereference into an error. At Generate time nothing recovers: there the
// call has to be dominated by the nil test of that field.
func ruleR0410(c *Ctx) {
	a := c.genAnchors()
	if len(a.missing) > 0 {
		c.Undecided(strings.Join(a.missing, ","), token.NoPos, "anchors not found")
		return
	}
	info := a.fg.TypesInfo
	fgType := LookupType(a.fg, "FunctionGenerator")
	if fgType == nil {
		c.Undecided("funcGen.FunctionGenerator", token.NoPos, "not found")
		return
	}
	// optional fields: interface typed fields of FunctionGenerator compared with nil somewhere
	// (by name: the field objects of a generic type differ between its instantiations in the methods)
	optional := map[string]bool{}
	for _, f := range a.fg.Syntax {
		ast.Inspect(f, func(x ast.Node) bool {
			be, ok := x.(*ast.BinaryExpr)
			if !ok || (be.Op != token.EQL && be.Op != token.NEQ) {
				return true
			}
			if y, ok := ast.Unparen(be.Y).(*ast.Ident); !ok || y.Name != "nil" {
				return true
			}
			if sel, ok := ast.Unparen(be.X).(*ast.SelectorExpr); ok {
				if fs, ok := info.Selections[sel]; ok && fs.Kind() == types.FieldVal {
					if _, isIface := fs.Obj().Type().Underlying().(*types.Interface); isIface && isNamed(fs.Recv(), modPath+"/funcGen", "FunctionGenerator") {
						optional[fs.Obj().Name()] = true
					}
				}
			}
			return true
		})
	}
	if len(optional) < 2 {
		c.Undecided("funcGen.FunctionGenerator#optional-handlers", token.NoPos, "only %d optional handler fields found", len(optional))
		return
	}
	fwd := c.forwarders(a)
	n := 0
	for _, gi := range c.generatorFuncs(a, fwd) {
		if gi.pkg != a.fg {
			continue
		}
		gname := declName(gi.pkg, gi.decl)
		k := 0
		ast.Inspect(gi.decl.Body, func(x ast.Node) bool {
			if lit, ok := x.(*ast.FuncLit); ok {
				// run time code: recovered by the generated function
				if lit.Type.Params != nil && len(lit.Type.Params.List) > 0 && a.isStack(info.TypeOf(lit.Type.Params.List[0].Type)) {
					return false
				}
				return true
			}
			call, ok := x.(*ast.CallExpr)
			if !ok {
				return true
			}
			msel, ok := ast.Unparen(call.Fun).(*ast.SelectorExpr)
			if !ok {
				return true
			}
			fsel, ok := ast.Unparen(msel.X).(*ast.SelectorExpr)
			if !ok {
				return true
			}
			fs, ok := info.Selections[fsel]
			if !ok || fs.Kind() != types.FieldVal || !optional[fs.Obj().Name()] || !isNamed(fs.Recv(), modPath+"/funcGen", "FunctionGenerator") {
				return true
			}
			n++
			k++
			key := fmt.Sprintf("%s#generate-time-handler-call[%d]:%s.%s", gname, k, fsel.Sel.Name, msel.Sel.Name)
			guarded := false
			for _, gd := range c.GuardsDeep(call) {
				be, ok := ast.Unparen(gd.Cond).(*ast.BinaryExpr)
				if !ok {
					continue
				}
				if y, ok := ast.Unparen(be.Y).(*ast.Ident); !ok || y.Name != "nil" {
					continue
				}
				if gs, ok := ast.Unparen(be.X).(*ast.SelectorExpr); ok {
					if g2, ok := info.Selections[gs]; ok && g2.Obj().Name() == fs.Obj().Name() {
						if (be.Op == token.NEQ && gd.Val) || (be.Op == token.EQL && !gd.Val) {
							guarded = true
						}
					}
				}
			}
			if guarded {
				c.OK(key, call.Pos(), "called at Generate time under the nil test of the optional handler")
			} else {
				c.Violation(key, call.Pos(), "the optional handler %s is called at Generate time without a nil test: a generator configured without it (e.g. example/minimal.go has no closure handler) panics in Generate with a nil dereference instead of returning an error or a function", fsel.Sel.Name)
			}
			return true
		})
	}
	if n == 0 {
		c.OK("funcGen#generate-time-handler-calls", token.NoPos, "no optional handler (%d fields) is called at Generate time outside the generated closures", len(optional))
	}
}

// ---------------------------------------------------------------------------
// R04.11 a scope lookup asks its parent scope at most once

// ruleR0411: identifier scopes are chains of closures, one link per nesting
// level of the program. A lookup that calls its parent lookup twice on one
// path costs 2^depth parent calls for a name that is resolved at the bottom of
// the chain: Parse and Generate then need time exponential in the nesting
// depth of closures. Forward max-analysis on the CFG of every lookup function
// (literal or method value) returned by a method of Identifiers; calls of
// other methods on the parent count with their own maximum.
func ruleR0411(c *Ctx) {
	root := c.Pkg("")
	if root == nil {
		c.Undecided("package parser2", token.NoPos, "not found")
		return
	}
	info := root.TypesInfo
	isScope := func(t types.Type) bool { return isNamed(t, modPath, "Identifiers") }
	// maxCalls: the maximal number (capped at 2) of calls of the scope value `parent` on a path through fn
	var maxCalls func(fn ast.Node, body *ast.BlockStmt, isParent func(ast.Expr) bool, depth int) int
	maxCalls = func(fn ast.Node, body *ast.BlockStmt, isParent func(ast.Expr) bool, depth int) int {
		g := c.CFG(fn)
		if g == nil {
			return 0
		}
		count := func(n ast.Node) int {
			k := 0
			ast.Inspect(n, func(x ast.Node) bool {
				if _, isLit := x.(*ast.FuncLit); isLit {
					return false
				}
				call, ok := x.(*ast.CallExpr)
				if !ok {
					return true
				}
				if isParent(call.Fun) {
					k++
					return true
				}
				// a method of the scope type called on the parent: counts with its own maximum
				if sel, ok := ast.Unparen(call.Fun).(*ast.SelectorExpr); ok && isParent(sel.X) && depth < 2 {
					if cal := Callee(info, call); cal != nil {
						if md := findFuncDecl(root, cal); md != nil && md.Body != nil && md.Recv != nil && len(md.Recv.List[0].Names) == 1 {
							recv := info.Defs[md.Recv.List[0].Names[0]]
							// only methods that run the lookup themselves (not the constructors, which return a new scope)
							if sig := cal.Type().(*types.Signature); sig.Results().Len() == 1 && isScope(sig.Results().At(0).Type()) {
								return true
							}
							k += maxCalls(md, md.Body, func(e ast.Expr) bool {
								id, ok := ast.Unparen(e).(*ast.Ident)
								return ok && info.ObjectOf(id) == recv
							}, depth+1)
						}
					}
				}
				return true
			})
			return k
		}
		nb := len(g.G.Blocks)
		in := make([]int, nb)
		reached := make([]bool, nb)
		reached[0] = true
		best := 0
		for iter, changed := 0, true; changed && iter < 6*nb+8; iter++ {
			changed = false
			for b := 0; b < nb; b++ {
				if !reached[b] {
					continue
				}
				out := in[b]
				for _, n := range g.G.Blocks[b].Nodes {
					out += count(n)
				}
				if out > 2 {
					out = 2
				}
				if out > best {
					best = out
				}
				for _, s := range g.G.Blocks[b].Succs {
					si := int(s.Index)
					if !reached[si] || out > in[si] {
						if !reached[si] || out > in[si] {
							changed = true
						}
						reached[si] = true
						if out > in[si] {
							in[si] = out
						}
					}
				}
			}
		}
		return best
	}
	n := 0
	for _, f := range root.Syntax {
		for _, d := range f.Decls {
			fd, ok := d.(*ast.FuncDecl)
			if !ok || fd.Body == nil || fd.Recv == nil || recvTypeName(fd.Recv.List[0].Type) != "Identifiers" || len(fd.Recv.List[0].Names) != 1 {
				continue
			}
			obj, _ := info.Defs[fd.Name].(*types.Func)
			if obj == nil {
				continue
			}
			if sig := obj.Type().(*types.Signature); sig.Results().Len() != 1 || !isScope(sig.Results().At(0).Type()) {
				continue
			}
			recv := info.Defs[fd.Recv.List[0].Names[0]]
			for _, rf := range c.returnedFuncs(root, fd) {
				n++
				key := declName(root, fd) + "#parent-lookups"
				var isParent func(e ast.Expr) bool
				if rf.bind == nil {
					isParent = func(e ast.Expr) bool {
						id, ok := ast.Unparen(e).(*ast.Ident)
						return ok && info.ObjectOf(id) == recv
					}
				} else {
					// method value form: the field bound to the constructor's receiver
					parentField := ""
					for fname, e := range rf.bind {
						if id, ok := ast.Unparen(e).(*ast.Ident); ok && info.ObjectOf(id) == recv {
							parentField = fname
						}
					}
					isParent = func(e ast.Expr) bool {
						sel, ok := ast.Unparen(e).(*ast.SelectorExpr)
						if !ok || sel.Sel.Name != parentField {
							return false
						}
						id, ok := ast.Unparen(sel.X).(*ast.Ident)
						return ok && info.ObjectOf(id) == rf.recv
					}
				}
				m := maxCalls(rf.fn, rf.body, isParent, 0)
				if m >= 2 {
					c.Violation(key, rf.fn.Pos(), "the lookup function asks its parent scope more than once on some path (directly or through a method of the parent): resolving a name costs 2^d parent calls for d nested closures, Parse and Generate need exponential time (a 200 byte program of 64 nested closures does not return)")
				} else {
					c.OK(key, rf.fn.Pos(), "on every path the parent scope is asked at most once (%d): a lookup is linear in the nesting depth", m)
				}
			}
		}
	}
	if n < 3 {
		c.Undecided("parser2.Identifiers#lookup-functions", token.NoPos, "only %d lookup functions found", n)
	}
}

// ---------------------------------------------------------------------------
// R04.12 Generate-time execution of program-defined code.
//
// C04 bounds the running time of Parse and Generate by the length of the
// input. The optimizer folds constant sub-expressions by *running* them. For
// operators and static functions the cost is that of one library call on
// constant operands. Where it applies a constant closure of the program, or a
// method (which may drive a lazy list of any length, or call closures), the
// cost is that of an arbitrary computation of the program: nothing in the
// code bounds it (no step budget, no size limit, no deadline). Every such
// site is an obligation; there is no accepted idiom yet, so each site is
// either a known finding with its failing input or a violation.

func ruleR0412(c *Ctx) {
	decls, fg := c.optimizerMethods()
	if len(decls) == 0 {
		c.Undecided("funcGen:Optimizer-implementations", token.NoPos, "no type implementing parser2.Optimizer found in funcGen")
		return
	}
	a := c.genAnchors()
	if len(a.missing) > 0 {
		c.Undecided(strings.Join(a.missing, ","), token.NoPos, "anchors not found")
		return
	}
	info := fg.TypesInfo
	// origin of a Function valued expression inside fd
	classify := func(fd *ast.FuncDecl, e ast.Expr) (kind, origin string) {
		kind, origin = "unknown", nodeStr(c.Fset, e)
		id, ok := ast.Unparen(e).(*ast.Ident)
		if !ok {
			return
		}
		as, i := definingAssign(info, fd, info.ObjectOf(id))
		if as == nil {
			return
		}
		var rhs ast.Expr
		if len(as.Rhs) == len(as.Lhs) {
			rhs = as.Rhs[i]
		} else if len(as.Rhs) == 1 {
			rhs = as.Rhs[0]
		}
		switch r := ast.Unparen(rhs).(type) {
		case *ast.IndexExpr:
			if _, isMap := info.TypeOf(r.X).Underlying().(*types.Map); isMap {
				kind, origin = "static-function", nodeStr(c.Fset, r.X)
			}
		case *ast.CallExpr:
			if cal := Callee(info, r); cal != nil {
				origin = cal.Name()
				if sig, ok := cal.Type().(*types.Signature); ok && sig.Recv() != nil {
					if rn := namedOf(sig.Recv().Type()); rn != nil {
						switch {
						case strings.Contains(rn.Obj().Name(), "Closure"):
							kind = "closure"
						case strings.Contains(rn.Obj().Name(), "Method"):
							kind = "method"
						}
					}
				}
			}
		}
		return
	}
	n := 0
	ord := map[string]map[string]int{}
	report := func(fname, kind, origin string, pos token.Pos) {
		n++
		if ord[fname] == nil {
			ord[fname] = map[string]int{}
		}
		ord[fname][kind]++
		key := fmt.Sprintf("%s#generate-time-exec:%s[%d]", fname, kind, ord[fname][kind])
		switch kind {
		case "static-function":
			c.OK(key, pos, "a static function (%s) is applied to constant arguments: one call of library or host code, whose cost the host declares acceptable by registering the function as pure", origin)
		case "closure":
			c.Violation(key, pos, "the optimizer applies a constant closure of the program (%s) to constant arguments while Parse/Generate runs, without a step budget, size limit or deadline: the running time of Parse/Generate is that of the program's constant sub-expressions, not a function of the length of the input", origin)
		case "method":
			c.Violation(key, pos, "the optimizer calls a method (%s) on a constant value while Parse/Generate runs, without a step budget, size limit or deadline: a method may consume a lazy list of any length or call closures, so the running time of Parse/Generate is not a function of the length of the input", origin)
		default:
			c.Undecided(key, pos, "a Function value of unknown origin (%s) is executed by the optimizer", origin)
		}
	}
	for _, fd := range decls {
		fname := declName(fg, fd)
		ast.Inspect(fd.Body, func(x ast.Node) bool {
			call, ok := x.(*ast.CallExpr)
			if !ok {
				return true
			}
			// the implementation handed to a helper that runs it: foldCall(ast, closure.Func, args, line)
			if d := funcValueExec(c, fg, call); d != nil {
				kind, origin := classify(fd, d)
				report(fname, kind, origin, call.Pos())
				return true
			}
			sel, ok := ast.Unparen(call.Fun).(*ast.SelectorExpr)
			if !ok {
				return true
			}
			fs, ok := info.Selections[sel]
			if !ok || fs.Kind() != types.FieldVal {
				return true
			}
			if nm := namedOf(info.TypeOf(sel.X)); nm == nil || nm.Obj() != a.funcType {
				return true
			}
			if _, isSig := fs.Obj().Type().Underlying().(*types.Signature); !isSig {
				return true
			}
			// the Function is a parameter of a private helper (evalConstCall(ast, fu, args, line)): the origin is decided
			// at the helper's call sites, which keep the name of the calling optimizer method in the key
			if id, ok := ast.Unparen(sel.X).(*ast.Ident); ok && fd.Type.Params != nil {
				pidx, k := -1, 0
				for _, fl := range fd.Type.Params.List {
					for _, nm := range fl.Names {
						if info.Defs[nm] == info.ObjectOf(id) {
							pidx = k
						}
						k++
					}
				}
				if pidx >= 0 {
					hobj := info.Defs[fd.Name]
					found := false
					for _, cd := range decls {
						if cd == fd {
							continue
						}
						cname := declName(fg, cd)
						ast.Inspect(cd.Body, func(y ast.Node) bool {
							cc, ok := y.(*ast.CallExpr)
							if !ok || pidx >= len(cc.Args) {
								return true
							}
							if cal := Callee(info, cc); cal == nil || types.Object(cal) != hobj && cal.Origin() != hobj {
								return true
							}
							found = true
							kind, origin := classify(cd, cc.Args[pidx])
							report(cname, kind, origin, cc.Pos())
							return true
						})
					}
					if found {
						return true
					}
				}
			}
			kind, origin := classify(fd, sel.X)
			report(fname, kind, origin, call.Pos())
			return true
		})
	}
	if n == 0 {
		c.Undecided("funcGen.optimizer#generate-time-exec", token.NoPos, "no execution of a Function by the optimizer found (constant folding of calls expected)")
	}
}

// ---------------------------------------------------------------------------
// R04.13 no unchecked type assertion on a language value in Generate-time code.
//
// Code that runs while Generate runs (the generator functions - those that
// call GenerateFunc - including the custom generators of the packages, and
// the functions they call in their own package; not the closures they return,
// which run during evaluation and are covered by C05) sees constants of the
// program. Their dynamic type is whatever the program wrote: a single-value
// type assertion x.(T) on a value of the language panics for `3 & x` where it
// expected a Bool - and Generate has no recover. The comma-ok form, a type
// switch, or an assertion dominated by a successful test of the same operand
// for the same type are the accepted forms.

func ruleR0413(c *Ctx) {
	a := c.genAnchors()
	if len(a.missing) > 0 {
		c.Undecided(strings.Join(a.missing, ","), token.NoPos, "anchors not found")
		return
	}
	vp := c.Pkg("value")
	var valueIface *types.Interface
	if vp != nil {
		if vt := LookupType(vp, "Value"); vt != nil {
			valueIface, _ = vt.Type().Underlying().(*types.Interface)
		}
	}
	isLangValue := func(t types.Type) bool {
		if t == nil {
			return false
		}
		if _, ok := t.(*types.TypeParam); ok {
			return true
		}
		if vp != nil && isNamed(t, modPath+"/value", "Value") {
			return true
		}
		_ = valueIface
		return false
	}
	fwd := c.forwarders(a)
	// generate-time bodies: generator functions and the same-package functions they call outside returned closures
	type gbody struct {
		pkg *packages.Package
		fd  *ast.FuncDecl
	}
	var work []gbody
	seen := map[*ast.FuncDecl]bool{}
	for _, gi := range c.generatorFuncs(a, fwd) {
		work = append(work, gbody{gi.pkg, gi.decl})
	}
	isEvalLit := func(pkg *packages.Package, lit *ast.FuncLit) bool {
		if lit.Type.Params == nil {
			return false
		}
		for _, f := range lit.Type.Params.List {
			if a.isStack(pkg.TypesInfo.TypeOf(f.Type)) {
				return true
			}
		}
		return false
	}
	nBodies, nAssert := 0, 0
	for len(work) > 0 {
		b := work[len(work)-1]
		work = work[:len(work)-1]
		if seen[b.fd] || b.fd.Body == nil {
			continue
		}
		seen[b.fd] = true
		if strings.HasSuffix(b.pkg.PkgPath, "/gen") || strings.Contains(b.pkg.PkgPath, "/example") {
			continue
		}
		nBodies++
		info := b.pkg.TypesInfo
		fname := declName(b.pkg, b.fd)
		g := c.CFG(b.fd)
		ord := 0
		var walk func(n ast.Node) bool
		walk = func(n ast.Node) bool {
			switch t := n.(type) {
			case *ast.FuncLit:
				if isEvalLit(b.pkg, t) {
					return false // runs during evaluation
				}
			case *ast.CallExpr:
				if cal := Callee(info, t); cal != nil && cal.Pkg() == b.pkg.Types {
					if fd := findFuncDecl(b.pkg, cal); fd != nil && !seen[fd] {
						// registration code and constructors are not generate-time code: follow only helpers that take part of the AST
						takesAST := false
						if fd.Type.Params != nil {
							for _, f := range fd.Type.Params.List {
								if isNamed(info.TypeOf(f.Type), modPath, "AST") {
									takesAST = true
								}
							}
						}
						if takesAST {
							work = append(work, gbody{b.pkg, fd})
						}
					}
				}
			case *ast.TypeSwitchStmt:
				// the assertion of a type switch cannot fail
				if t.Init != nil {
					ast.Inspect(t.Init, walk)
				}
				ast.Inspect(t.Body, walk)
				return false
			case *ast.TypeAssertExpr:
				if t.Type == nil || !isLangValue(info.TypeOf(t.X)) {
					return true
				}
				// comma-ok form?
				switch p := c.Parent(t).(type) {
				case *ast.AssignStmt:
					if len(p.Lhs) == 2 && len(p.Rhs) == 1 && ast.Unparen(p.Rhs[0]) == ast.Expr(t) {
						return true
					}
				case *ast.ValueSpec:
					if len(p.Names) == 2 && len(p.Values) == 1 {
						return true
					}
				}
				nAssert++
				ord++
				key := fmt.Sprintf("%s#unchecked-assertion[%d]:%s", fname, ord, nodeStr(c.Fset, t))
				// dominated by a successful comma-ok test of the same operand and type
				safe := false
				if g != nil {
					for _, gd := range g.Guards(t) {
						id, ok := ast.Unparen(gd.Cond).(*ast.Ident)
						if !ok || !gd.Val {
							continue
						}
						if as, i := definingAssign(info, b.fd, info.ObjectOf(id)); as != nil && i == 1 && len(as.Rhs) == 1 {
							if ta, ok := ast.Unparen(as.Rhs[0]).(*ast.TypeAssertExpr); ok && ta.Type != nil &&
								nodeStr(c.Fset, ta.X) == nodeStr(c.Fset, t.X) && nodeStr(c.Fset, ta.Type) == nodeStr(c.Fset, t.Type) {
								safe = true
							}
						}
					}
				}
				if safe {
					c.OK(key, t.Pos(), "dominated by a successful test of the same operand for the same type")
				} else {
					c.Violation(key, t.Pos(), "Generate-time code asserts the dynamic type of a value of the language with the single-value form %s: a constant of another type written by the program (e.g. `3 & x` where a Bool is expected) makes Generate panic, and Generate has no recover", nodeStr(c.Fset, t))
				}
			}
			return true
		}
		ast.Inspect(b.fd.Body, walk)
	}
	if nBodies < 5 {
		c.Undecided("funcGen#generate-time-code", token.NoPos, "only %d generate-time function bodies found", nBodies)
		return
	}
	c.OK("funcGen#generate-time-code", token.NoPos, "%d generate-time function bodies examined (closures that run during evaluation excluded): %d single-value type assertions on language values", nBodies, nAssert)
}

// ---------------------------------------------------------------------------
// R04.15 the recursive descent hands the error of a nested call up unchanged
//
// An error wrapper of this code base (EnhanceErrorf, fmt.Errorf with %w/%v)
// copies the text of its cause when the message is formatted. If a function of
// the recursive descent wraps the error of a nested parse call, an error found
// d levels deep is wrapped d times and formatting it copies O(d^2) bytes;
// Generate formats the parser's error eagerly, and d grows linearly with the
// length of the input ("[[[[[..."): parsing is no longer linear-ish.

func ruleR0415(c *Ctx) {
	root := c.Pkg("")
	if root == nil {
		c.Undecided("package parser2", token.NoPos, "not found")
		return
	}
	info := root.TypesInfo
	decls := map[*types.Func]*ast.FuncDecl{}
	takesTokenizer := func(sig *types.Signature) bool {
		for i := 0; i < sig.Params().Len(); i++ {
			t := sig.Params().At(i).Type()
			if p, ok := t.(*types.Pointer); ok {
				t = p.Elem()
			}
			if isNamed(t, modPath, "Tokenizer") {
				return true
			}
		}
		return false
	}
	returnsError := func(sig *types.Signature) bool {
		return sig.Results().Len() > 0 && isErrorType(sig.Results().At(sig.Results().Len()-1).Type())
	}
	for _, f := range root.Syntax {
		for _, d := range f.Decls {
			if fd, ok := d.(*ast.FuncDecl); ok && fd.Body != nil && fd.Recv != nil && recvTypeName(fd.Recv.List[0].Type) == "Parser" {
				if obj, ok := info.Defs[fd.Name].(*types.Func); ok {
					sig := obj.Type().(*types.Signature)
					if takesTokenizer(sig) && returnsError(sig) {
						decls[obj.Origin()] = fd
					}
				}
			}
		}
	}
	// call graph among the parse functions; a call of a function value with a parse signature may reach any of them
	succ := map[*types.Func]map[*types.Func]bool{}
	isParseCall := func(call *ast.CallExpr) (target *types.Func, dynamic bool, ok bool) {
		if cal := Callee(info, call); cal != nil {
			if decls[cal.Origin()] != nil {
				return cal.Origin(), false, true
			}
			return nil, false, false
		}
		if sig, isSig := info.TypeOf(call.Fun).Underlying().(*types.Signature); isSig && takesTokenizer(sig) && returnsError(sig) {
			return nil, true, true
		}
		return nil, false, false
	}
	for fn, fd := range decls {
		succ[fn] = map[*types.Func]bool{}
		ast.Inspect(fd.Body, func(x ast.Node) bool {
			if call, ok := x.(*ast.CallExpr); ok {
				if t, dyn, ok := isParseCall(call); ok {
					if dyn {
						for g := range decls {
							succ[fn][g] = true
						}
					} else {
						succ[fn][t] = true
					}
				}
			}
			return true
		})
	}
	reaches := func(from, to *types.Func) bool {
		seen := map[*types.Func]bool{}
		var walk func(f *types.Func) bool
		walk = func(f *types.Func) bool {
			for g := range succ[f] {
				if g == to {
					return true
				}
				if !seen[g] {
					seen[g] = true
					if walk(g) {
						return true
					}
				}
			}
			return false
		}
		return walk(from)
	}
	recursive := map[*types.Func]bool{}
	for fn := range decls {
		if reaches(fn, fn) {
			recursive[fn] = true
		}
	}
	if len(recursive) < 5 {
		c.Undecided("parser2.Parser#recursive-descent", token.NoPos, "only %d mutually recursive parse functions found", len(recursive))
		return
	}
	n := 0
	for fn, fd := range decls {
		if !recursive[fn] {
			continue
		}
		name := declName(root, fd)
		// error variables that hold the error of a nested (recursive) parse call
		nested := map[types.Object]ast.Node{}
		ast.Inspect(fd.Body, func(x ast.Node) bool {
			as, ok := x.(*ast.AssignStmt)
			if !ok || len(as.Rhs) != 1 {
				return true
			}
			call, ok := ast.Unparen(as.Rhs[0]).(*ast.CallExpr)
			if !ok {
				return true
			}
			t, dyn, ok := isParseCall(call)
			if !ok || (!dyn && !recursive[t]) {
				return true
			}
			if id, ok := as.Lhs[len(as.Lhs)-1].(*ast.Ident); ok && id.Name != "_" {
				nested[info.ObjectOf(id)] = call
			}
			return true
		})
		k := 0
		ast.Inspect(fd.Body, func(x ast.Node) bool {
			r, ok := x.(*ast.ReturnStmt)
			if !ok || len(r.Results) == 0 {
				return true
			}
			last := ast.Unparen(r.Results[len(r.Results)-1])
			call, ok := last.(*ast.CallExpr)
			if !ok {
				return true
			}
			// a call that gets the nested error as an argument builds a new error around it
			var wrapped types.Object
			for _, a := range call.Args {
				if id, ok := ast.Unparen(a).(*ast.Ident); ok {
					if _, isNested := nested[info.ObjectOf(id)]; isNested {
						// the variable must still hold the nested error here: the return is guarded by err != nil of it
						wrapped = info.ObjectOf(id)
					}
				}
			}
			if wrapped == nil {
				return true
			}
			// a function of the module that hands its error parameter back as it is (tracing, logging) wraps nothing
			if cal := Callee(info, call); cal != nil && cal.Pkg() == root.Types {
				if hd := findFuncDecl(root, cal); hd != nil && hd.Body != nil {
					identity, nr := true, 0
					var eparams []types.Object
					if hd.Type.Params != nil {
						for _, fl := range hd.Type.Params.List {
							for _, nm := range fl.Names {
								if isErrorType(info.TypeOf(nm)) {
									eparams = append(eparams, info.Defs[nm])
								}
							}
						}
					}
					inspectNoLit(hd.Body, func(y ast.Node) bool {
						if rr, ok := y.(*ast.ReturnStmt); ok && len(rr.Results) > 0 {
							nr++
							id, ok := ast.Unparen(rr.Results[len(rr.Results)-1]).(*ast.Ident)
							isParam := false
							if ok {
								for _, ep := range eparams {
									if info.ObjectOf(id) == ep && countAssignments(info, hd, ep) == 0 {
										isParam = true
									}
								}
							}
							if !isParam {
								identity = false
							}
						}
						return true
					})
					if identity && nr > 0 {
						return true
					}
				}
			}
			k++
			n++
			key := fmt.Sprintf("%s#wraps-nested-error[%d]", name, k)
			c.Violation(key, r.Pos(), "the error %s of a nested call of the recursive descent (%s) is wrapped in a new error (%s) before it is handed up: an error found d levels deep is wrapped d times, and every wrapper copies the text of its cause when the message is built - formatting it takes time and memory quadratic in the nesting depth, which grows linearly with the input", wrapped.Name(), nodeStr(c.Fset, nested[wrapped]), nodeStr(c.Fset, call.Fun))
			return true
		})
		if k == 0 {
			n++
			c.OK(name+"#nested-errors-unchanged", fd.Pos(), "errors of nested parse calls are returned as they are")
		}
	}
}
