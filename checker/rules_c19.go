package main

import (
	"fmt"
	"go/ast"
	"go/constant"
	"go/token"
	"go/types"
	"strings"
)

// ---------------------------------------------------------------------------
// R19.2 AddOpBehind inserts directly behind the reference operator

func ruleR192(c *Ctx) {
	a := c.genAnchors()
	if len(a.missing) > 0 {
		c.Undecided(strings.Join(a.missing, ","), token.NoPos, "anchors not found")
		return
	}
	info := a.fg.TypesInfo
	fd := c.FuncDecl(a.fg, "FunctionGenerator", "AddOpBehind")
	key := "funcGen.FunctionGenerator.AddOpBehind#insert-position"
	if fd == nil {
		c.Undecided(key, token.NoPos, "not found")
		return
	}
	env := &symEnv{info: info, vals: map[string]lin{}}
	isAppend := func(call *ast.CallExpr) bool {
		id, ok := ast.Unparen(call.Fun).(*ast.Ident)
		return ok && id.Name == "append"
	}
	// the insertion index, from one of the idioms
	//   x = append(x[:I], append([]T{item}, x[I:]...)...)
	//   x = append(x, item); copy(x[I+1:], x[I:]); x[I] = item
	//   x = slices.Insert(x, I, item)
	var at lin
	var pos token.Pos
	found := false
	shapeErr := ""
	ast.Inspect(fd.Body, func(x ast.Node) bool {
		call, ok := x.(*ast.CallExpr)
		if !ok {
			return true
		}
		if isAppend(call) && len(call.Args) == 2 {
			head, ok1 := ast.Unparen(call.Args[0]).(*ast.SliceExpr)
			inner, ok2 := ast.Unparen(call.Args[1]).(*ast.CallExpr)
			if ok1 && ok2 && isAppend(inner) && len(inner.Args) == 2 {
				tail, ok3 := ast.Unparen(inner.Args[1]).(*ast.SliceExpr)
				if ok3 && head.High != nil && tail.Low != nil && head.Low == nil && tail.High == nil {
					e1, e2 := env.eval(head.High), env.eval(tail.Low)
					found, pos, at = true, call.Pos(), e1
					if !e1.eq(e2) {
						shapeErr = fmt.Sprintf("the table is split at [:%s] and [%s:]: an operator is lost or duplicated", symStr(e1), symStr(e2))
					}
				}
			}
		}
		if id, ok := ast.Unparen(call.Fun).(*ast.Ident); ok && id.Name == "copy" && len(call.Args) == 2 {
			dst, ok1 := ast.Unparen(call.Args[0]).(*ast.SliceExpr)
			src, ok2 := ast.Unparen(call.Args[1]).(*ast.SliceExpr)
			if ok1 && ok2 && dst.Low != nil && src.Low != nil && dst.High == nil && src.High == nil {
				d, s := env.eval(dst.Low), env.eval(src.Low)
				found, pos, at = true, call.Pos(), s
				if !d.eq(s.add(linConst(1))) {
					shapeErr = fmt.Sprintf("the tail is shifted from [%s:] to [%s:], not by one", symStr(s), symStr(d))
				}
				// the element store
				stored := false
				ast.Inspect(fd.Body, func(y ast.Node) bool {
					if as, ok := y.(*ast.AssignStmt); ok && len(as.Lhs) == 1 && as.Pos() > call.Pos() {
						if ix, ok := ast.Unparen(as.Lhs[0]).(*ast.IndexExpr); ok && nodeStr(c.Fset, ix.X) == nodeStr(c.Fset, dst.X) {
							stored = true
							if !env.eval(ix.Index).eq(s) {
								shapeErr = fmt.Sprintf("the tail is shifted from index %s but the new operator is stored at %s", symStr(s), symStr(env.eval(ix.Index)))
							}
						}
					}
					return true
				})
				if !stored {
					shapeErr = "the new operator is not stored into the gap"
				}
			}
		}
		if cal := Callee(info, call); cal != nil && cal.Pkg() != nil && cal.Pkg().Path() == "slices" && cal.Name() == "Insert" && len(call.Args) >= 3 {
			found, pos, at = true, call.Pos(), env.eval(call.Args[1])
		}
		return true
	})
	if !found {
		c.Undecided(key, fd.Pos(), "no known insertion idiom found (append/append, append+copy+store, slices.Insert)")
		return
	}
	if shapeErr != "" {
		c.Violation(key, pos, "%s", shapeErr)
		return
	}
	// at = found + 1 where found is the table index of the reference operator
	foundSym := ""
	for k := range at.terms {
		foundSym = k
	}
	if foundSym == "" || len(at.terms) != 1 {
		c.Undecided(key, pos, "insertion index %s not understood", symStr(at))
		return
	}
	okFound := false
	ast.Inspect(fd.Body, func(x ast.Node) bool {
		as, ok := x.(*ast.AssignStmt)
		if !ok || len(as.Lhs) != 1 || len(as.Rhs) != 1 {
			return true
		}
		lk, _ := exprKey(info, as.Lhs[0])
		if lk != foundSym {
			return true
		}
		// found := slices.IndexFunc(ops, pred) / slices.Index(ops, x)
		if call, ok := ast.Unparen(as.Rhs[0]).(*ast.CallExpr); ok {
			if cal := Callee(info, call); cal != nil && cal.Pkg() != nil && cal.Pkg().Path() == "slices" && (cal.Name() == "IndexFunc" || cal.Name() == "Index") {
				okFound = true
			}
			// a search helper of the package: a range loop over the table that stores the loop key into the variable it returns
			if cal := Callee(info, call); cal != nil && cal.Pkg() != nil {
				if hp := c.Pkgs[cal.Pkg().Path()]; hp != nil && strings.HasPrefix(cal.Pkg().Path(), modPath) {
					if hd := findFuncDecl(hp, cal); hd != nil && hd.Body != nil {
						hinfo := hp.TypesInfo
						var retObj types.Object
						nRet := 0
						inspectNoLit(hd.Body, func(y ast.Node) bool {
							if r, ok := y.(*ast.ReturnStmt); ok && len(r.Results) == 1 {
								nRet++
								if id, ok := ast.Unparen(r.Results[0]).(*ast.Ident); ok {
									retObj = hinfo.ObjectOf(id)
								}
							}
							return true
						})
						if nRet == 1 && retObj != nil {
							ast.Inspect(hd.Body, func(y ast.Node) bool {
								rs, ok := y.(*ast.RangeStmt)
								if !ok {
									return true
								}
								kid, ok := rs.Key.(*ast.Ident)
								if !ok {
									return true
								}
								ast.Inspect(rs.Body, func(z ast.Node) bool {
									a2, ok := z.(*ast.AssignStmt)
									if !ok || len(a2.Lhs) != 1 || len(a2.Rhs) != 1 {
										return true
									}
									l, ok1 := a2.Lhs[0].(*ast.Ident)
									r, ok2 := ast.Unparen(a2.Rhs[0]).(*ast.Ident)
									if ok1 && ok2 && hinfo.ObjectOf(l) == retObj && hinfo.ObjectOf(r) == hinfo.ObjectOf(kid) {
										okFound = true
									}
									return true
								})
								return true
							})
						}
					}
				}
			}
		}
		if r, ok := enclosingLoop(c, as, fd).(*ast.RangeStmt); ok {
			if kid, ok := r.Key.(*ast.Ident); ok {
				rk, _ := exprKey(info, as.Rhs[0])
				kk, _ := exprKey(info, kid)
				if rk == kk {
					okFound = true
				}
			}
		}
		return true
	})
	if !okFound {
		// a search loop that stops at the matching entry: for found >= 0 && table[found].Operator != ref { found-- }
		ast.Inspect(fd.Body, func(x ast.Node) bool {
			fs, ok := x.(*ast.ForStmt)
			if !ok || fs.Cond == nil {
				return true
			}
			var conj []ast.Expr
			conjuncts(fs.Cond, &conj)
			for _, cj := range conj {
				be, ok := ast.Unparen(cj).(*ast.BinaryExpr)
				if !ok || be.Op != token.NEQ {
					continue
				}
				for _, side := range []ast.Expr{be.X, be.Y} {
					sel, ok := ast.Unparen(side).(*ast.SelectorExpr)
					if !ok {
						continue
					}
					ix, ok := ast.Unparen(sel.X).(*ast.IndexExpr)
					if !ok {
						continue
					}
					if k, _ := exprKey(info, ix.Index); k != foundSym {
						continue
					}
					// the index moves in the loop
					moves := containsNode(fs, func(y ast.Node) bool {
						inc, ok := y.(*ast.IncDecStmt)
						if !ok {
							return false
						}
						k2, _ := exprKey(info, inc.X)
						return k2 == foundSym
					})
					if moves {
						okFound = true
					}
				}
			}
			return true
		})
	}
	want := symVar(foundSym).add(linConst(1))
	switch {
	case !okFound:
		c.Undecided(key, pos, "the insertion index %s is not derived from the table index at which the reference operator was found", symStr(at))
	case at.eq(want):
		c.OK(key, pos, "the new operator is inserted at index found+1: directly behind the reference operator, i.e. with the next higher priority")
	default:
		c.Violation(key, pos, "the new operator is inserted at index %s instead of found+1: it does not land directly behind the reference operator and gets a different priority than requested", symStr(at))
	}
}

// ---------------------------------------------------------------------------
// R19.1 regrouping keeps the variable operand (extends R02.2)

func ruleR191(c *Ctx) {
	decls, fg := c.optimizerMethods()
	if len(decls) == 0 {
		c.Undecided("funcGen:Optimizer-implementations", token.NoPos, "not found")
		return
	}
	info := fg.TypesInfo
	n := 0
	for _, fd := range decls {
		fname := declName(fg, fd)
		g := c.CFG(fd)
		ast.Inspect(fd.Body, func(x ast.Node) bool {
			cl, ok := x.(*ast.CompositeLit)
			if !ok || !isNamed(info.TypeOf(cl), modPath, "Operate") {
				return true
			}
			n++
			key := fmt.Sprintf("%s#regroup-operands[%d]", fname, n)
			var kept *ast.SelectorExpr
			nConst := 0
			for _, el := range cl.Elts {
				kv, ok := el.(*ast.KeyValueExpr)
				if !ok {
					continue
				}
				k, ok := kv.Key.(*ast.Ident)
				if !ok || (k.Name != "A" && k.Name != "B") {
					continue
				}
				v := ast.Unparen(kv.Value)
				if u, ok := v.(*ast.UnaryExpr); ok && u.Op == token.AND {
					if inner, ok := u.X.(*ast.CompositeLit); ok && isNamed(info.TypeOf(inner), modPath, "Const") {
						nConst++
						continue
					}
				}
				if call, ok := v.(*ast.CallExpr); ok {
					// newConst(co, line): the literal lives in a private constructor
					if inner, _ := c.ctorLiteral(info, call); inner != nil && isNamed(c.typeOfAny(inner), modPath, "Const") {
						nConst++
						continue
					}
				}
				if sel, ok := v.(*ast.SelectorExpr); ok {
					kept = sel
				}
			}
			if kept == nil || nConst != 1 {
				c.Undecided(key, cl.Pos(), "the rebuilt node does not consist of one folded constant and one operand of the inner node")
				return true
			}
			// the operand of the inner node that was proven constant on this path
			constField := ""
			for _, gd := range g.Guards(cl) {
				id, ok := ast.Unparen(gd.Cond).(*ast.Ident)
				if !ok || !gd.Val {
					continue
				}
				as, i := definingAssign(info, fd, info.ObjectOf(id))
				if as == nil || i != 1 || len(as.Rhs) != 1 {
					continue
				}
				call, ok := ast.Unparen(as.Rhs[0]).(*ast.CallExpr)
				if !ok || len(call.Args) != 1 {
					continue
				}
				// the constant test: a function or method (V, bool) of one AST argument (o.isConst(x) / isConst[V](x))
				if cal := Callee(info, call); cal == nil {
					continue
				} else if sig, ok := cal.Type().(*types.Signature); !ok || sig.Results().Len() != 2 || sig.Params().Len() != 1 || !isNamed(sig.Params().At(0).Type(), modPath, "AST") {
					continue
				} else if bt, ok := sig.Results().At(1).Type().Underlying().(*types.Basic); !ok || bt.Kind() != types.Bool {
					continue
				}
				if arg, ok := ast.Unparen(call.Args[0]).(*ast.SelectorExpr); ok && nodeStr(c.Fset, arg.X) == nodeStr(c.Fset, kept.X) {
					constField = arg.Sel.Name
				}
			}
			if constField == "" {
				c.Undecided(key, cl.Pos(), "no isConst test of an operand of %s dominates the rebuilt node", nodeStr(c.Fset, kept.X))
				return true
			}
			if kept.Sel.Name == constField {
				c.Violation(key, cl.Pos(), "the regrouped node keeps %s, the operand that was just folded into the constant, and drops the other (variable) operand of %s: the expression becomes a constant", nodeStr(c.Fset, kept), nodeStr(c.Fset, kept.X))
			} else {
				c.OK(key, cl.Pos(), "the operand %s that was proven constant is folded, the other operand %s is kept", constField, nodeStr(c.Fset, kept))
			}
			return true
		})
	}
	if n < 2 {
		c.Undecided("funcGen.optimizer#regroup-nodes", token.NoPos, "only %d regrouped nodes found", n)
	}
}

// ---------------------------------------------------------------------------
// R19.3 implicit multiplication table of comfort mode

// reachEval decides for a concrete (lastTokenType, lastWasBlank) whether a
// statement list executes the send of the implicit '*' token.
type reachEval struct {
	c     *Ctx
	info  *types.Info
	env   map[string]constant.Value // variable name -> value
	root  ast.Node                  // function in which single definition locals are resolved
	depth int
}

func (e *reachEval) tri(x ast.Expr) int {
	x = ast.Unparen(x)
	if tv := e.info.Types[x]; tv.Value != nil && tv.Value.Kind() == constant.Bool {
		if constant.BoolVal(tv.Value) {
			return 1
		}
		return 0
	}
	switch t := x.(type) {
	case *ast.Ident:
		if v, ok := e.env[t.Name]; ok && v.Kind() == constant.Bool {
			if constant.BoolVal(v) {
				return 1
			}
			return 0
		}
		// a local that names a condition: implicitMul := lastTokenType == tNumber || ...
		if e.root != nil && e.depth < 3 {
			if obj := e.info.ObjectOf(t); obj != nil && countAssignments(e.info, e.root, obj) == 1 {
				if as, i := definingAssign(e.info, e.root, obj); as != nil && len(as.Lhs) == len(as.Rhs) {
					e.depth++
					r := e.tri(as.Rhs[i])
					e.depth--
					return r
				}
			}
		}
	case *ast.UnaryExpr:
		if t.Op == token.NOT {
			switch e.tri(t.X) {
			case 1:
				return 0
			case 0:
				return 1
			}
		}
	case *ast.BinaryExpr:
		switch t.Op {
		case token.LAND:
			a, b := e.tri(t.X), e.tri(t.Y)
			if a == 0 || b == 0 {
				return 0
			}
			if a == 1 && b == 1 {
				return 1
			}
		case token.LOR:
			a, b := e.tri(t.X), e.tri(t.Y)
			if a == 1 || b == 1 {
				return 1
			}
			if a == 0 && b == 0 {
				return 0
			}
		case token.EQL, token.NEQ:
			l, lok := e.val(t.X)
			r, rok := e.val(t.Y)
			if lok && rok {
				eq := constant.Compare(l, token.EQL, r)
				if (t.Op == token.EQL) == eq {
					return 1
				}
				return 0
			}
		}
	}
	return -1
}

func (e *reachEval) val(x ast.Expr) (constant.Value, bool) {
	x = ast.Unparen(x)
	if id, ok := x.(*ast.Ident); ok {
		if v, ok := e.env[id.Name]; ok {
			return v, true
		}
	}
	if tv := e.info.Types[x]; tv.Value != nil {
		return tv.Value, true
	}
	return nil, false
}

func isStarSend(info *types.Info, s ast.Stmt) bool {
	ss, ok := s.(*ast.SendStmt)
	if !ok {
		return false
	}
	cl, ok := ast.Unparen(ss.Value).(*ast.CompositeLit)
	if !ok || len(cl.Elts) < 2 {
		return false
	}
	tv := info.Types[cl.Elts[1]]
	id, isId := cl.Elts[0].(*ast.Ident)
	return isId && id.Name == "tOperate" && tv.Value != nil && tv.Value.Kind() == constant.String && constant.StringVal(tv.Value) == "*"
}

// sends: 1 = the '*' is sent, 0 = not, -1 = unknown; stops at the first other send
func (e *reachEval) sends(stmts []ast.Stmt) (int, bool) {
	for _, s := range stmts {
		if isStarSend(e.info, s) {
			return 1, true
		}
		switch t := s.(type) {
		case *ast.SendStmt:
			return 0, true // another token is sent first: no implicit '*'
		case *ast.IfStmt:
			switch e.tri(t.Cond) {
			case 1:
				if r, done := e.sends(t.Body.List); done {
					return r, true
				}
			case 0:
				if t.Else != nil {
					if r, done := e.sends([]ast.Stmt{t.Else}); done {
						return r, true
					}
				}
			default:
				if containsNode(t, func(n ast.Node) bool { st, ok := n.(ast.Stmt); return ok && isStarSend(e.info, st) }) {
					return -1, true
				}
			}
		case *ast.BlockStmt:
			if r, done := e.sends(t.List); done {
				return r, true
			}
		case *ast.SwitchStmt:
			var def *ast.CaseClause
			matched := false
			for _, cl := range t.Body.List {
				cc := cl.(*ast.CaseClause)
				if cc.List == nil {
					def = cc
					continue
				}
				for _, ce := range cc.List {
					res := -1
					if t.Tag != nil {
						tv, ok1 := e.val(t.Tag)
						cv, ok2 := e.val(ce)
						if ok1 && ok2 {
							res = 0
							if constant.Compare(tv, token.EQL, cv) {
								res = 1
							}
						}
					} else {
						res = e.tri(ce)
					}
					if res == 1 {
						matched = true
						if r, done := e.sends(cc.Body); done {
							return r, true
						}
						break
					}
					if res == -1 {
						return -1, true
					}
				}
				if matched {
					break
				}
			}
			if !matched && def != nil {
				if r, done := e.sends(def.Body); done {
					return r, true
				}
			}
		}
	}
	return 0, false
}

func ruleR193(c *Ctx) {
	ta := c.tokAnchors()
	root := c.Pkg("")
	if len(ta.missing) > 0 || root == nil {
		c.Undecided(strings.Join(ta.missing, ","), token.NoPos, "anchors not found")
		return
	}
	info := ta.info
	constOf := func(name string) constant.Value {
		if cobj, ok := root.Types.Scope().Lookup(name).(*types.Const); ok {
			return cobj.Val()
		}
		return nil
	}
	kinds := []string{"tNumber", "tIdent", "tClose", "tInvalid"}
	// the three sites: in front of '(' , of a number, of an identifier
	type site struct {
		name  string
		stmts []ast.Stmt
		pos   token.Pos
		want  func(last string, blank bool) bool
	}
	var sites []site
	ast.Inspect(ta.run.Body, func(x ast.Node) bool {
		switch t := x.(type) {
		case *ast.CaseClause:
			for _, e := range t.List {
				if bl, ok := ast.Unparen(e).(*ast.BasicLit); ok && bl.Value == "'('" {
					sites = append(sites, site{"in front of '('", t.Body, t.Pos(), func(last string, blank bool) bool {
						return last == "tNumber" || last == "tClose" || (last == "tIdent" && blank)
					}})
				}
			}
		case *ast.IfStmt:
			// if f, ok := t.number(c); ok { ... } else if f, ok := t.identifier(c); ok { ... }
			if as, ok := t.Init.(*ast.AssignStmt); ok && len(as.Rhs) == 1 {
				if call, ok := ast.Unparen(as.Rhs[0]).(*ast.CallExpr); ok {
					if sel, ok := ast.Unparen(call.Fun).(*ast.SelectorExpr); ok {
						switch sel.Sel.Name {
						case "number":
							sites = append(sites, site{"in front of a number", t.Body.List, t.Body.Pos(), func(last string, blank bool) bool {
								return last == "tNumber" || last == "tIdent" || last == "tClose"
							}})
						case "identifier":
							// the identifier branch: behind the text operator / keyword tests
							sites = append(sites, site{"in front of an identifier", identTail(info, t.Body.List), t.Body.Pos(), func(last string, blank bool) bool {
								return last == "tNumber" || last == "tIdent" || last == "tClose"
							}})
						}
					}
				}
			}
		}
		return true
	})
	if len(sites) != 3 {
		c.Undecided("parser2.Tokenizer.run#implicit-multiplication", ta.run.Pos(), "expected three sites that can emit the implicit '*', found %d", len(sites))
		return
	}
	for _, s := range sites {
		key := "parser2.Tokenizer.run#implicit-multiplication " + s.name
		var problems []string
		undecided := false
		for _, last := range kinds {
			for _, blank := range []bool{false, true} {
				ev := &reachEval{c: c, info: info, root: ta.run, env: map[string]constant.Value{"lastTokenType": constOf(last), "lastWasBlank": constant.MakeBool(blank)}}
				got, _ := ev.sends(s.stmts)
				if got == -1 {
					undecided = true
					continue
				}
				if (got == 1) != s.want(last, blank) {
					problems = append(problems, fmt.Sprintf("after %s%s it %s", strings.TrimPrefix(last, "t"), map[bool]string{true: " and a blank", false: ""}[blank], map[bool]string{true: "inserts '*' (unexpected)", false: "does not insert '*' (expected)"}[got == 1]))
				}
			}
		}
		switch {
		case len(problems) > 0:
			c.Violation(key, s.pos, "the implicit multiplication %s deviates from the documented table (number/identifier/')' followed by number/identifier/'(', an identifier directly followed by '(' being a call): %s", s.name, strings.Join(problems, "; "))
		case undecided:
			c.Undecided(key, s.pos, "the condition of the implicit '*' could not be evaluated")
		default:
			c.OK(key, s.pos, "abstract evaluation for all 8 combinations of previous token kind and blank: '*' is inserted exactly as documented")
		}
	}
}

// identTail returns the statements of the identifier branch that run for a plain identifier
// (else branches of the text operator and keyword tests).
func identTail(info *types.Info, stmts []ast.Stmt) []ast.Stmt {
	// the statement list that decides about the '*': the innermost list, following else branches of the
	// text operator / keyword tests, that holds the send or the if statement whose body holds it directly
	direct := func(list []ast.Stmt) bool {
		for _, s := range list {
			if isStarSend(info, s) {
				return true
			}
			if ifs, ok := s.(*ast.IfStmt); ok {
				for _, b := range ifs.Body.List {
					if isStarSend(info, b) {
						return true
					}
				}
			}
			if sw, ok := s.(*ast.SwitchStmt); ok {
				for _, cl := range sw.Body.List {
					for _, b := range cl.(*ast.CaseClause).Body {
						if isStarSend(info, b) {
							return true
						}
					}
				}
			}
		}
		return false
	}
	cur := stmts
	for depth := 0; depth < 6 && !direct(cur); depth++ {
		var next []ast.Stmt
		for _, s := range cur {
			if ifs, ok := s.(*ast.IfStmt); ok && ifs.Else != nil {
				switch e := ifs.Else.(type) {
				case *ast.BlockStmt:
					next = e.List
				case *ast.IfStmt:
					next = []ast.Stmt{e}
				}
			}
		}
		if next == nil {
			return stmts
		}
		cur = next
	}
	return cur
}
