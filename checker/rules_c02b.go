package main

import (
	"fmt"
	"go/ast"
	"go/constant"
	"go/token"
	"go/types"
	"sort"
	"strings"

	"golang.org/x/tools/go/packages"
)

// ---------------------------------------------------------------------------
// R02.4 declared flags agree with the implementations (witness based)

// mentions reports whether the expression mentions the object.
func mentions(info *types.Info, e ast.Node, obj types.Object) bool {
	if obj == nil || e == nil {
		return false
	}
	found := false
	ast.Inspect(e, func(n ast.Node) bool {
		if id, ok := n.(*ast.Ident); ok && info.ObjectOf(id) == obj {
			found = true
		}
		return !found
	})
	return found
}

// asymmetryWitness looks for a Go operation in body that treats the two
// operand parameters differently.
// derivedFrom computes the variables whose value is computed from obj
// (flow insensitive closure over the assignments in body).
func derivedFrom(info *types.Info, body ast.Node, obj types.Object) map[types.Object]bool {
	set := map[types.Object]bool{obj: true}
	mentionsAny := func(e ast.Node) bool {
		found := false
		ast.Inspect(e, func(n ast.Node) bool {
			if id, ok := n.(*ast.Ident); ok && set[info.ObjectOf(id)] {
				found = true
			}
			return !found
		})
		return found
	}
	for changed := true; changed; {
		changed = false
		ast.Inspect(body, func(n ast.Node) bool {
			as, ok := n.(*ast.AssignStmt)
			if !ok {
				return true
			}
			for i, l := range as.Lhs {
				id, ok := l.(*ast.Ident)
				if !ok {
					continue
				}
				o := info.ObjectOf(id)
				if o == nil || set[o] {
					continue
				}
				var rhs ast.Expr
				if len(as.Rhs) == len(as.Lhs) {
					rhs = as.Rhs[i]
				} else if len(as.Rhs) == 1 {
					rhs = as.Rhs[0]
				}
				if rhs != nil && mentionsAny(rhs) {
					set[o] = true
					changed = true
				}
			}
			return true
		})
	}
	return set
}

func mentionsSet(info *types.Info, e ast.Node, set map[types.Object]bool) bool {
	found := false
	ast.Inspect(e, func(n ast.Node) bool {
		if id, ok := n.(*ast.Ident); ok && set[info.ObjectOf(id)] {
			found = true
		}
		return !found
	})
	return found
}

var asymmetricStdlib = map[string]bool{
	"math.Pow": true, "math.Atan2": true, "math.Mod": true, "math.Remainder": true, "math.Copysign": true,
	"math.Dim": true, "math.Ldexp": true, "math.Nextafter": true, "math.Log": false,
	"strings.Contains": true, "strings.HasPrefix": true, "strings.HasSuffix": true, "strings.Index": true,
	"strings.LastIndex": true, "strings.TrimPrefix": true, "strings.TrimSuffix": true, "strings.Split": true,
	"strings.Count": true, "strings.Repeat": true, "strings.Compare": true, "strings.Trim": true,
}

func asymmetryWitness(c *Ctx, info *types.Info, body ast.Node, a, b types.Object) (string, token.Pos) {
	var w string
	var pos token.Pos
	if a == nil || b == nil {
		return "", token.NoPos
	}
	da, db := derivedFrom(info, body, a), derivedFrom(info, body, b)
	ast.Inspect(body, func(n ast.Node) bool {
		if w != "" {
			return false
		}
		if call, ok := n.(*ast.CallExpr); ok && len(call.Args) == 2 {
			// two-argument standard library functions that are not symmetric in their arguments
			if cal := Callee(info, call); cal != nil && cal.Pkg() != nil && asymmetricStdlib[cal.Pkg().Path()+"."+cal.Name()] {
				xa, xb := mentionsSet(info, call.Args[0], da), mentionsSet(info, call.Args[0], db)
				ya, yb := mentionsSet(info, call.Args[1], da), mentionsSet(info, call.Args[1], db)
				if (xa && !xb && yb && !ya) || (xb && !xa && ya && !yb) {
					w = fmt.Sprintf("%s.%s, which is not symmetric in its arguments, is applied to the two operands (%s)", cal.Pkg().Name(), cal.Name(), nodeStr(c.Fset, call))
					pos = call.Pos()
				}
			}
			return true
		}
		be, ok := n.(*ast.BinaryExpr)
		if !ok {
			return true
		}
		xa, xb := mentionsSet(info, be.X, da), mentionsSet(info, be.X, db)
		ya, yb := mentionsSet(info, be.Y, da), mentionsSet(info, be.Y, db)
		split := (xa && !xb && yb && !ya) || (xb && !xa && ya && !yb)
		if !split {
			return true
		}
		switch be.Op {
		case token.SUB, token.QUO, token.REM, token.SHL, token.SHR, token.LSS, token.LEQ, token.GTR, token.GEQ, token.AND_NOT:
			w = fmt.Sprintf("the Go operator %s is applied between the two operands (%s)", be.Op, nodeStr(c.Fset, be))
			pos = be.Pos()
		case token.EQL, token.NEQ:
			// a comparison of non boolean operands yields a value of another kind: commutative, but not
			// associative, and the regrouping (c1 op x) op c2 -> (c1 op c2) op x needs both
			if t := info.TypeOf(be.X); t != nil {
				if bt, ok := t.Underlying().(*types.Basic); !ok || bt.Info()&types.IsBoolean == 0 {
					w = fmt.Sprintf("it compares non boolean operands (%s), so its result is not of the operand kind and the operator is not associative", nodeStr(c.Fset, be))
					pos = be.Pos()
				}
			}
		case token.ADD:
			if t := info.TypeOf(be); t != nil {
				if bt, ok := t.Underlying().(*types.Basic); ok && bt.Info()&types.IsString != 0 {
					w = fmt.Sprintf("string concatenation of the two operands (%s)", nodeStr(c.Fset, be))
					pos = be.Pos()
				}
			}
		}
		return true
	})
	return w, pos
}

// operandParams returns the last two parameters of a function literal.
func operandParams(info *types.Info, lit *ast.FuncLit) (types.Object, types.Object) {
	var objs []types.Object
	for _, f := range lit.Type.Params.List {
		for _, n := range f.Names {
			objs = append(objs, info.Defs[n])
		}
	}
	if len(objs) < 2 {
		return nil, nil
	}
	return objs[len(objs)-2], objs[len(objs)-1]
}

// lazyOperators returns the operator spellings for which a custom generator
// produces code that does not always evaluate both operands (the cases of a
// switch on Operate.Operator inside a GenerateCustom implementation).
func (c *Ctx) lazyOperators() map[string]token.Pos {
	res, _ := c.lazyOperatorsIn()
	return res
}

// lazyOperatorsIn also returns the packages declaring such a custom generator:
// only generators built in (or on top of) these packages can have it installed.
func (c *Ctx) lazyOperatorsIn() (map[string]token.Pos, map[string]bool) {
	res := map[string]token.Pos{}
	declaring := map[string]bool{}
	for _, pkg := range c.RepoPkgs {
		info := pkg.TypesInfo
		for _, f := range pkg.Syntax {
			for _, d := range f.Decls {
				fd, ok := d.(*ast.FuncDecl)
				if !ok || fd.Name.Name != "GenerateCustom" || fd.Body == nil {
					continue
				}
				ast.Inspect(fd.Body, func(n ast.Node) bool {
					sw, ok := n.(*ast.SwitchStmt)
					if !ok || sw.Tag == nil {
						return true
					}
					sel, ok := ast.Unparen(sw.Tag).(*ast.SelectorExpr)
					if !ok || sel.Sel.Name != "Operator" || !isNamed(info.TypeOf(sel.X), modPath, "Operate") {
						return true
					}
					for _, cl := range sw.Body.List {
						cc := cl.(*ast.CaseClause)
						for _, e := range cc.List {
							if tv, ok := info.Types[e]; ok && tv.Value != nil && tv.Value.Kind() == constant.String {
								res[constant.StringVal(tv.Value)] = e.Pos()
								declaring[pkg.PkgPath] = true
							}
						}
					}
					return true
				})
			}
		}
	}
	return res, declaring
}

func ruleR024(pkgFilter func(*packages.Package) bool) func(c *Ctx) {
	return func(c *Ctx) {
		a := c.genAnchors()
		if len(a.missing) > 0 {
			c.Undecided(strings.Join(a.missing, ","), token.NoPos, "anchors not found")
			return
		}
		lazyAll, lazyPkgs := c.lazyOperatorsIn()
		addOps := map[*types.Func]int{} // method -> index of the impl argument
		for name, idx := range map[string]int{"AddOp": 2, "AddOpImpl": 2, "AddSimpleOp": 2, "AddOpPure": 2, "AddOpBehind": 3} {
			if m := LookupMethod(a.fg, "FunctionGenerator", name); m != nil {
				addOps[m.Origin()] = idx
			}
		}
		if len(addOps) < 5 {
			c.Undecided("funcGen.FunctionGenerator.AddOp*", token.NoPos, "operator registration methods not found")
			return
		}
		for _, pkg := range c.RepoPkgs {
			if !pkgFilter(pkg) {
				continue
			}
			info := pkg.TypesInfo
			for _, f := range pkg.Syntax {
				// the custom generator can only be installed where its package is visible
				lazy := map[string]token.Pos{}
				usesLazy := lazyPkgs[pkg.PkgPath]
				for _, imp := range f.Imports {
					if lazyPkgs[strings.Trim(imp.Path.Value, "\"")] {
						usesLazy = true
					}
				}
				if usesLazy {
					lazy = lazyAll
				}
				ast.Inspect(f, func(n ast.Node) bool {
					call, ok := n.(*ast.CallExpr)
					if !ok {
						return true
					}
					cal := Callee(info, call)
					implIdx, isAdd := addOps[cal]
					if !isAdd || len(call.Args) <= implIdx {
						return true
					}
					opIdx := implIdx - 2
					tvOp := info.Types[call.Args[opIdx]]
					tvComm := info.Types[call.Args[opIdx+1]]
					if tvOp.Value == nil || tvComm.Value == nil {
						// a forwarding wrapper (AddOp -> AddOpPure): parameters, not constants
						return true
					}
					op := constant.StringVal(tvOp.Value)
					comm := constant.BoolVal(tvComm.Value)
					short := strings.TrimPrefix(strings.TrimPrefix(pkg.PkgPath, modPath), "/")
					key := fmt.Sprintf("%s#operator %q", short, op)
					if !comm {
						c.OK(key, call.Pos(), "declared not commutative (never regrouped)")
						return true
					}
					if p, isLazy := lazy[op]; isLazy {
						c.Violation(key, call.Pos(), "operator %q is declared commutative, but a custom generator (%s) compiles it with short circuit evaluation: regrouping (c1 %s x) %s c2 changes which operands are evaluated", op, c.posStr(p), op, op)
						return true
					}
					// a relation is no operation: = and <, and everything derived from them (!=, <=, >=, >), map any two
					// comparable operands to a Bool. Declaring one commutative lets the optimizer regroup
					// (x op c1) op c2 to x op (c1 op c2), which needs associativity - for a relation the regrouped
					// expression compares x with a Bool: a value where the original has an error (or the other way round)
					{
						relationCtor := func(e ast.Expr) string {
							e = ast.Unparen(e)
							if id, ok := e.(*ast.Ident); ok {
								if v, ok := info.ObjectOf(id).(*types.Var); ok {
									if rhs, has := singleDefExpr[v]; has {
										e = ast.Unparen(rhs)
									}
								}
							}
							if cc, ok := e.(*ast.CallExpr); ok {
								if cal2 := Callee(info, cc); cal2 != nil && cal2.Pkg() == pkg.Types && (cal2.Name() == "Equal" || cal2.Name() == "Less") {
									return cal2.Name()
								}
							}
							return ""
						}
						rel := relationCtor(call.Args[implIdx])
						if rel == "" {
							if fl, ok := ast.Unparen(call.Args[implIdx]).(*ast.FuncLit); ok {
								ast.Inspect(fl.Body, func(m ast.Node) bool {
									cc, ok := m.(*ast.CallExpr)
									if !ok || rel != "" {
										return true
									}
									if sel, ok := ast.Unparen(cc.Fun).(*ast.SelectorExpr); ok && sel.Sel.Name == "Calc" {
										rel = relationCtor(sel.X)
									}
									return true
								})
							}
						}
						if rel != "" {
							c.Violation(key, call.Pos(), "operator %q is declared commutative, i.e. the optimizer may regroup (x %s c1) %s c2 to x %s (c1 %s c2), but it is (derived from) the relation %s, which maps any two comparable operands to a Bool: the regrouped expression compares x with a Bool - `x != 1 != 2` is an error for a bool x without the optimizer and a value with it", op, op, op, op, op, rel)
							return true
						}
					}
					// collect implementation bodies
					var lits []*ast.FuncLit
					var pairs [][2]string
					impl := ast.Unparen(call.Args[implIdx])
					if id, ok := impl.(*ast.Ident); ok {
						// a local variable holding the implementation: equal := Equal(f)
						if decl := c.EnclosingDecl(call); decl != nil {
							if as, i := definingAssign(info, decl, info.ObjectOf(id)); as != nil && len(as.Rhs) == len(as.Lhs) {
								impl = ast.Unparen(as.Rhs[i])
							}
						}
					}
					switch t := impl.(type) {
					case *ast.FuncLit:
						lits = append(lits, t)
					case *ast.CallExpr:
						// Mul(f): a constructor of an operation matrix in the same package
						if cal2 := Callee(info, t); cal2 != nil && cal2.Pkg() == pkg.Types {
							if fd := c.FuncDecl(pkg, "", cal2.Name()); fd != nil {
								ast.Inspect(fd.Body, func(m ast.Node) bool {
									rc, ok := m.(*ast.CallExpr)
									if !ok {
										return true
									}
									if sel, ok := ast.Unparen(rc.Fun).(*ast.SelectorExpr); ok && sel.Sel.Name == "Register" && len(rc.Args) == 3 {
										pairs = append(pairs, [2]string{nodeStr(c.Fset, rc.Args[0]), nodeStr(c.Fset, rc.Args[1])})
										if l, ok := rc.Args[2].(*ast.FuncLit); ok {
											lits = append(lits, l)
										}
									}
									return true
								})
								// wrappers returned by the constructor (operationMatrixStringAdd{m}): their Calc methods
								ast.Inspect(fd.Body, func(m ast.Node) bool {
									r, ok := m.(*ast.ReturnStmt)
									if !ok || len(r.Results) != 1 {
										return true
									}
									if nm := namedOf(info.TypeOf(r.Results[0])); nm != nil && nm.Obj().Pkg() == pkg.Types {
										if calc := c.FuncDecl(pkg, nm.Obj().Name(), "Calc"); calc != nil {
											// treat the method as a literal with params (st, a, b)
											lits = append(lits, &ast.FuncLit{Type: calc.Type, Body: calc.Body})
										}
									}
									return true
								})
							}
						}
					}
					if len(lits) == 0 {
						c.Note(key, call.Pos(), "implementation of commutative operator %q is not visible (%s); flag taken as declared", op, nodeStr(c.Fset, impl))
						return true
					}
					// unmirrored pair
					for _, p := range pairs {
						if p[0] == p[1] {
							continue
						}
						mirrored := false
						for _, q := range pairs {
							if q[0] == p[1] && q[1] == p[0] {
								mirrored = true
							}
						}
						if !mirrored {
							c.Violation(key, call.Pos(), "operator %q is declared commutative but is registered for (%s, %s) and not for (%s, %s)", op, p[0], p[1], p[1], p[0])
							return true
						}
					}
					for _, l := range lits {
						pa, pb := operandParams(info, l)
						if w, p := asymmetryWitness(c, info, l.Body, pa, pb); w != "" {
							c.Violation(key, call.Pos(), "operator %q is declared commutative (= may be regrouped), but its implementation does not allow that: %s at %s; the optimizer would regroup/reorder the operands of %s", op, w, c.posStr(p), op)
							return true
						}
					}
					c.OK(key, call.Pos(), "declared commutative; %d implementation bodies and %d registered type pairs show no asymmetry witness", len(lits), len(pairs))
					return true
				})
			}
		}
	}
}

// R02.4a: functions declared pure must not reach a source of non-determinism
func ruleR024a(c *Ctx) {
	a := c.genAnchors()
	if len(a.missing) > 0 {
		c.Undecided(strings.Join(a.missing, ","), token.NoPos, "anchors not found")
		return
	}
	impureCallee := func(fn *types.Func) bool {
		if fn == nil || fn.Pkg() == nil {
			return false
		}
		switch fn.Pkg().Path() {
		case "math/rand", "math/rand/v2", "crypto/rand", "os":
			return true
		case "time":
			return fn.Name() == "Now" || fn.Name() == "Since" || fn.Name() == "Until"
		}
		return false
	}
	for _, pkg := range c.RepoPkgs {
		info := pkg.TypesInfo
		var witness func(n ast.Node, depth int) (string, token.Pos)
		witness = func(n ast.Node, depth int) (string, token.Pos) {
			var w string
			var pos token.Pos
			ast.Inspect(n, func(x ast.Node) bool {
				if w != "" {
					return false
				}
				call, ok := x.(*ast.CallExpr)
				if !ok {
					return true
				}
				cal := Callee(info, call)
				if impureCallee(cal) {
					w, pos = cal.Pkg().Path()+"."+cal.Name(), call.Pos()
					return false
				}
				if cal != nil && cal.Pkg() == pkg.Types && depth < 2 {
					sig := cal.Type().(*types.Signature)
					if sig.Recv() == nil {
						if fd := c.FuncDecl(pkg, "", cal.Name()); fd != nil && fd.Body != nil {
							w, pos = witness(fd.Body, depth+1)
						}
					}
				}
				return true
			})
			return w, pos
		}
		for _, f := range pkg.Syntax {
			ast.Inspect(f, func(n ast.Node) bool {
				cl, ok := n.(*ast.CompositeLit)
				if !ok || namedOf(info.TypeOf(cl)) == nil || namedOf(info.TypeOf(cl)).Obj() != a.funcType {
					return true
				}
				var funcVal, pureVal ast.Expr
				for _, el := range cl.Elts {
					if kv, ok := el.(*ast.KeyValueExpr); ok {
						if k, ok := kv.Key.(*ast.Ident); ok {
							switch k.Name {
							case "Func":
								funcVal = kv.Value
							case "IsPure":
								pureVal = kv.Value
							}
						}
					}
				}
				if funcVal == nil || pureVal == nil {
					return true
				}
				tv := info.Types[pureVal]
				if tv.Value == nil || !constant.BoolVal(tv.Value) {
					return true
				}
				// name of the static function, if the literal is registered directly
				name := ""
				for q := c.Parent(cl); q != nil; q = c.Parent(q) {
					if call, ok := q.(*ast.CallExpr); ok {
						if sel, ok := ast.Unparen(call.Fun).(*ast.SelectorExpr); ok && sel.Sel.Name == "AddStaticFunction" && len(call.Args) == 2 {
							if tvn := info.Types[call.Args[0]]; tvn.Value != nil && containsNode(call.Args[1], func(y ast.Node) bool { return y == cl }) {
								name = constant.StringVal(tvn.Value)
							}
							break
						}
					}
					if _, ok := q.(*ast.FuncDecl); ok {
						break
					}
				}
				short := strings.TrimPrefix(strings.TrimPrefix(pkg.PkgPath, modPath), "/")
				decl := c.EnclosingDecl(cl)
				ord := 0
				if decl != nil {
					ord = ordinalIn(decl, cl, func(y ast.Node) bool {
						c2, ok := y.(*ast.CompositeLit)
						return ok && namedOf(info.TypeOf(c2)) != nil && namedOf(info.TypeOf(c2)).Obj() == a.funcType
					})
				}
				key := fmt.Sprintf("%s#pure-function %q", short, name)
				if name == "" {
					key = fmt.Sprintf("%s#pure-function-literal[%d]", c.FuncName(cl), ord)
				}
				w, p := witness(funcVal, 0)
				if w == "" {
					c.OK(key, cl.Pos(), "declared pure; its code reaches no source of non-determinism (math/rand, time.Now, os)")
				} else if name == "randomConst" {
					c.Note(key, cl.Pos(), "randomConst is declared pure on purpose (documented; excluded by the property text)")
				} else {
					c.Violation(key, cl.Pos(), "the function is declared IsPure but calls %s (%s): the optimizer executes it once at Generate time and freezes the result", w, c.posStr(p))
				}
				return true
			})
		}
	}
}

// ---------------------------------------------------------------------------
// R02.6 generator and optimizer consult the same handlers per AST node kind

func ruleR026(c *Ctx) {
	a := c.genAnchors()
	if len(a.missing) > 0 {
		c.Undecided(strings.Join(a.missing, ","), token.NoPos, "anchors not found")
		return
	}
	info := a.fg.TypesInfo
	genDecl := c.FuncDecl(a.fg, "FunctionGenerator", "GenerateFunc")
	optDecls, _ := c.optimizerMethods()
	if genDecl == nil || len(optDecls) == 0 {
		c.Undecided("funcGen.GenerateFunc/optimizer", token.NoPos, "not found")
		return
	}
	handlerFields := map[string]bool{"listHandler": true, "mapHandler": true, "closureHandler": true, "methodHandler": true, "toBool": true, "isEqual": true, "staticFunctions": true}
	// handlers consulted inside node, following FunctionGenerator helper methods one level
	var consulted func(n ast.Node, depth int, out map[string]bool)
	consulted = func(n ast.Node, depth int, out map[string]bool) {
		ast.Inspect(n, func(x ast.Node) bool {
			switch t := x.(type) {
			case *ast.SelectorExpr:
				// g.mapHandler.AccessMap / o.g.methodHandler.GetMethod / g.toBool / g.staticFunctions
				if s2, ok := ast.Unparen(t.X).(*ast.SelectorExpr); ok && handlerFields[s2.Sel.Name] && isNamed(info.TypeOf(s2.X), modPath+"/funcGen", "FunctionGenerator") {
					out[s2.Sel.Name+"."+t.Sel.Name] = true
				} else if handlerFields[t.Sel.Name] && isNamed(info.TypeOf(t.X), modPath+"/funcGen", "FunctionGenerator") {
					if _, isFunc := info.TypeOf(t).Underlying().(*types.Signature); isFunc || t.Sel.Name == "staticFunctions" {
						out[t.Sel.Name] = true
					}
				}
			case *ast.CallExpr:
				if cal := Callee(info, t); cal != nil && depth < 2 {
					if sig, ok := cal.Type().(*types.Signature); ok && sig.Recv() != nil && isNamed(sig.Recv().Type(), modPath+"/funcGen", "FunctionGenerator") {
						switch cal.Name() {
						case "GenerateFunc", "genFuncList", "genCodeMap", "GetParser", "createClosureLiteralFunc":
						default:
							if fd := c.FuncDecl(a.fg, "FunctionGenerator", cal.Name()); fd != nil && fd.Body != nil {
								consulted(fd.Body, depth+1, out)
							}
						}
					}
				}
			}
			return true
		})
	}
	nodeKind := func(e ast.Expr) string {
		// *parser2.MethodCall or *parser2.Const[V]
		st, ok := ast.Unparen(e).(*ast.StarExpr)
		if !ok {
			return ""
		}
		if nm := namedOf(info.TypeOf(st.X)); nm != nil && nm.Obj().Pkg() != nil && nm.Obj().Pkg().Path() == modPath {
			return nm.Obj().Name()
		}
		return ""
	}
	gen := map[string]map[string]bool{}
	ast.Inspect(genDecl.Body, func(n ast.Node) bool {
		ts, ok := n.(*ast.TypeSwitchStmt)
		if !ok {
			return true
		}
		for _, cl := range ts.Body.List {
			cc := cl.(*ast.CaseClause)
			for _, e := range cc.List {
				if k := nodeKind(e); k != "" {
					if gen[k] == nil {
						gen[k] = map[string]bool{}
					}
					for _, s := range cc.Body {
						consulted(s, 0, gen[k])
					}
				}
			}
		}
		return false
	})
	opt := map[string]map[string]bool{}
	for _, od := range optDecls {
		if od.Name.Name != "Optimize" {
			continue
		}
		ast.Inspect(od.Body, func(n ast.Node) bool {
			// switch node := ast.(type) { case *parser2.FunctionCall: ... }
			if ts, ok := n.(*ast.TypeSwitchStmt); ok {
				var subj ast.Expr
				switch a := ts.Assign.(type) {
				case *ast.AssignStmt:
					if len(a.Rhs) == 1 {
						if ta, ok := ast.Unparen(a.Rhs[0]).(*ast.TypeAssertExpr); ok {
							subj = ta.X
						}
					}
				case *ast.ExprStmt:
					if ta, ok := ast.Unparen(a.X).(*ast.TypeAssertExpr); ok {
						subj = ta.X
					}
				}
				if id, ok := ast.Unparen(subj).(*ast.Ident); ok && isNamed(info.TypeOf(id), modPath, "AST") && info.ObjectOf(id) != nil && info.ObjectOf(id).Pos() <= od.Body.Pos() {
					for _, cl := range ts.Body.List {
						cc := cl.(*ast.CaseClause)
						if len(cc.List) != 1 {
							continue
						}
						if k := nodeKind(cc.List[0]); k != "" {
							if opt[k] == nil {
								opt[k] = map[string]bool{}
							}
							for _, st := range cc.Body {
								consulted(st, 0, opt[k])
							}
						}
					}
				}
				return true
			}
			ifs, ok := n.(*ast.IfStmt)
			if !ok {
				return true
			}
			as, ok := ifs.Init.(*ast.AssignStmt)
			if !ok || len(as.Rhs) != 1 {
				return true
			}
			ta, ok := ast.Unparen(as.Rhs[0]).(*ast.TypeAssertExpr)
			if !ok || ta.Type == nil {
				return true
			}
			// only assertions on the node being optimized itself
			if id, ok := ast.Unparen(ta.X).(*ast.Ident); !ok || !isNamed(info.TypeOf(id), modPath, "AST") || info.ObjectOf(id) == nil || info.ObjectOf(id).Pos() > od.Body.Pos() {
				return true
			}
			if k := nodeKind(ta.Type); k != "" {
				if opt[k] == nil {
					opt[k] = map[string]bool{}
				}
				consulted(ifs.Body, 0, opt[k])
			}
			return true
		})
	}
	if len(gen) < 10 || len(opt) < 6 {
		c.Undecided("funcGen#node-kind-clauses", genDecl.Pos(), "found %d generator clauses and %d optimizer clauses; the dispatch structure is not recognised", len(gen), len(opt))
		return
	}
	// dispatch relevant: who is asked for the thing that gets called
	for _, k := range []string{"MethodCall", "FunctionCall"} {
		g, o := gen[k], opt[k]
		key := "funcGen#call-dispatch:" + k
		if g == nil || o == nil {
			c.Undecided(key, genDecl.Pos(), "clause for %s not found in generator or optimizer", k)
			continue
		}
		var missing []string
		for h := range g {
			if !o[h] {
				missing = append(missing, h)
			}
		}
		sort.Strings(missing)
		if len(missing) == 0 {
			c.OK(key, genDecl.Pos(), "optimizer consults every handler the generated code consults to find the callee (%s)", strings.Join(keysOf(g), ", "))
		} else {
			c.Violation(key, genDecl.Pos(), "to find the callee of a %s the generated code consults %s, the optimizer only %s (missing: %s): a constant call can be folded to a different callee than the one the unoptimized program invokes", k, strings.Join(keysOf(g), ", "), strings.Join(keysOf(o), ", "), strings.Join(missing, ", "))
		}
	}
	// the choice "static function or value" must not depend on the compile time scope: the optimizer has none
	{
		key := "funcGen#call-dispatch:static-function-choice"
		nLookups := 0
		var scoped []string
		ast.Inspect(genDecl.Body, func(n ast.Node) bool {
			ix, ok := n.(*ast.IndexExpr)
			if !ok {
				return true
			}
			sel, ok := ast.Unparen(ix.X).(*ast.SelectorExpr)
			if !ok || sel.Sel.Name != "staticFunctions" {
				return true
			}
			nLookups++
			for _, gd := range c.GuardsDeep(ix) {
				if containsNode(gd.Cond, func(y ast.Node) bool {
					e, ok := y.(ast.Expr)
					return ok && a.isCtx(info.TypeOf(e))
				}) {
					scoped = append(scoped, nodeStr(c.Fset, gd.Cond))
				}
			}
			return true
		})
		// ... and only a name the parser resolved to a static function (Ident.IsFunc) is one: in the generator and in
		// the optimizer alike (a local value of the same name hides the function)
		resolvedTest := func(root ast.Node) (lookups, tested int) {
			ast.Inspect(root, func(n ast.Node) bool {
				ix, ok := n.(*ast.IndexExpr)
				if !ok {
					return true
				}
				sel, ok := ast.Unparen(ix.X).(*ast.SelectorExpr)
				if !ok || sel.Sel.Name != "staticFunctions" {
					return true
				}
				lookups++
				for _, gd := range c.GuardsDeep(ix) {
					if gs, ok := ast.Unparen(gd.Cond).(*ast.SelectorExpr); ok && gd.Val && gs.Sel.Name == "IsFunc" && isNamed(info.TypeOf(gs.X), modPath, "Ident") {
						tested++
						break
					}
				}
				return true
			})
			return
		}
		gl, gt := resolvedTest(genDecl.Body)
		ol, ot := 0, 0
		for _, od := range optDecls {
			l, t := resolvedTest(od.Body)
			ol, ot = ol+l, ot+t
		}
		switch {
		case nLookups == 0 || ol == 0:
			c.Undecided(key, genDecl.Pos(), "lookup of static functions not found in the generator or the optimizer")
		case gt < gl || ot < ol:
			c.Violation(key, genDecl.Pos(), "a call by name is taken for a call of a static function without the test that the parser resolved the name to one (Ident.IsFunc; generator: %d of %d lookups tested, optimizer: %d of %d): a parameter, let or func of the same name is ignored, and since constant closures are substituted at parse time the result differs with and without the optimizer (func sqr(x) x+1; sqr(3) gives 4 resp. 9)", gt, gl, ot, ol)
		case len(scoped) > 0:
			c.Violation(key, genDecl.Pos(), "the generated code decides between a static function and a value of the same name by looking at the compile time scope (%s), the optimizer folds calls of static functions by name without any scope: a call like (sqr->sqr(3))(x->x+1) is folded to the static function's result but calls the argument when it is not optimized", strings.Join(scoped, ", "))
		default:
			c.OK(key, genDecl.Pos(), "whether a call by name goes to a static function depends on the name only, in the generator as in the optimizer")
		}
	}
	for k, g := range gen {
		if k == "MethodCall" || k == "FunctionCall" {
			continue
		}
		if o := opt[k]; o != nil {
			c.Note("funcGen#handlers:"+k, genDecl.Pos(), "generator: %s; optimizer: %s", strings.Join(keysOf(g), ", "), strings.Join(keysOf(o), ", "))
		}
	}
}
