package main

import (
	"fmt"
	"go/ast"
	"go/constant"
	"go/token"
	"go/types"
	"sort"
	"strings"

	"golang.org/x/tools/go/packages"
)

// ---------------------------------------------------------------------------
// R13.1 key domain agreement of the MapStorage implementations
//
// For every implementation the key set seen by Get, by Iter and by Size is
// extracted from the (small) method bodies as a symbolic expression over
// atoms, in disjunctive normal form:
//   F:<field>      all keys of the sub storage held in a receiver field
//   SELF           the receiver itself is the container (Go map, slice of entries)
//   MAPFIELD:<f>   a Go map held in a receiver field
//   DECL:<f>       a slice of declared key names in a receiver field
//   KEY:<field>    the one key stored in a receiver field
//   CONST:<text>   a constant key
//   COND:<field>   a boolean receiver field that switches an own key on
//   HOST           the answer of a host supplied function

type conj map[string]bool

func (a conj) key() string {
	var k []string
	for x := range a {
		k = append(k, x)
	}
	sort.Strings(k)
	return strings.Join(k, " & ")
}

func (a conj) subsetOf(b conj) bool {
	for x := range a {
		if !b[x] {
			return false
		}
	}
	return true
}

// minimalDNF removes conjunctions that are absorbed by a smaller one.
func minimalDNF(in []conj) []string {
	var out []conj
	for i, a := range in {
		absorbed := false
		for j, b := range in {
			if i == j {
				continue
			}
			if b.subsetOf(a) && (len(b) < len(a) || j < i && len(b) == len(a)) {
				absorbed = true
			}
		}
		if !absorbed {
			out = append(out, a)
		}
	}
	var keys []string
	for _, a := range out {
		keys = append(keys, a.key())
	}
	sort.Strings(keys)
	// unique
	var res []string
	for i, k := range keys {
		if i == 0 || keys[i-1] != k {
			res = append(res, k)
		}
	}
	return res
}

type storageAnalysis struct {
	c      *Ctx
	pkg    *packages.Package
	info   *types.Info
	recv   types.Object
	fails  []string
	viol   []string // definite disagreements found while extracting (e.g. a cached size that a construction site does not set)
	method *ast.FuncDecl
	depth  int
}

func (s *storageAnalysis) fail(format string, args ...any) {
	s.fails = append(s.fails, fmt.Sprintf(format, args...))
}

func hasStorageMethods(t types.Type) bool {
	ms := types.NewMethodSet(t)
	if ms.Lookup(nil, "Get") == nil {
		ms = types.NewMethodSet(types.NewPointer(t))
	}
	need := 0
	for _, n := range []string{"Get", "Iter", "Size"} {
		for i := 0; i < ms.Len(); i++ {
			if ms.At(i).Obj().Name() == n {
				need++
				break
			}
		}
	}
	return need == 3
}

// atomOfContainer classifies the expression a key is looked up in / iterated over.
func (s *storageAnalysis) atomOfContainer(e ast.Expr) (string, bool) {
	e = ast.Unparen(e)
	if id, ok := e.(*ast.Ident); ok && s.info.ObjectOf(id) == s.recv {
		return "SELF", true
	}
	// a private accessor of the receiver: f.keys() with `func (f T) keys() []string { return f.mff.keys }`
	if call, ok := e.(*ast.CallExpr); ok && len(call.Args) == 0 && s.depth < 2 {
		if fs, ok := ast.Unparen(call.Fun).(*ast.SelectorExpr); ok {
			if id, ok := ast.Unparen(fs.X).(*ast.Ident); ok && s.info.ObjectOf(id) == s.recv {
				if cal := Callee(s.info, call); cal != nil {
					if fd := findFuncDecl(s.pkg, cal); fd != nil && fd.Body != nil && len(fd.Body.List) == 1 && fd.Recv != nil && len(fd.Recv.List[0].Names) == 1 {
						if ret, ok := fd.Body.List[0].(*ast.ReturnStmt); ok && len(ret.Results) == 1 {
							sub := &storageAnalysis{c: s.c, pkg: s.pkg, info: s.info, recv: s.info.Defs[fd.Recv.List[0].Names[0]], method: fd, depth: s.depth + 1}
							return sub.atomOfContainer(ret.Results[0])
						}
					}
				}
			}
		}
	}
	// field chain rooted in the receiver
	root := rootIdent(e)
	if root == nil || s.info.ObjectOf(root) != s.recv {
		return "", false
	}
	sel, ok := e.(*ast.SelectorExpr)
	if !ok {
		return "", false
	}
	t := s.info.TypeOf(e)
	path := strings.TrimPrefix(nodeStr(s.c.Fset, e), root.Name+".")
	switch u := t.Underlying().(type) {
	case *types.Map:
		return "MAPFIELD:" + path, true
	case *types.Slice:
		if b, ok := u.Elem().Underlying().(*types.Basic); ok && b.Kind() == types.String {
			return "DECL:" + path, true
		}
	case *types.Signature:
		return "HOST", true
	}
	if hasStorageMethods(t) {
		return "F:" + path, true
	}
	_ = sel
	return "", false
}

// atomOfHit: the atom that being true of an `ok` style expression stands for.
func (s *storageAnalysis) atomOfHit(e ast.Expr, fn ast.Node) (string, bool) {
	e = ast.Unparen(e)
	switch t := e.(type) {
	case *ast.Ident:
		if t.Name == "true" {
			return "", true
		}
		obj := s.info.ObjectOf(t)
		as, i := definingAssign(s.info, s.method, obj)
		if as == nil || i != 1 || len(as.Rhs) != 1 {
			return "", false
		}
		return s.atomOfLookup(as.Rhs[0])
	case *ast.SelectorExpr:
		// boolean field of the receiver
		if id, ok := ast.Unparen(t.X).(*ast.Ident); ok && s.info.ObjectOf(id) == s.recv {
			if b, ok := s.info.TypeOf(t).Underlying().(*types.Basic); ok && b.Kind() == types.Bool {
				return "COND:" + t.Sel.Name, true
			}
		}
	case *ast.BinaryExpr:
		if t.Op == token.EQL {
			return s.atomOfKeyCompare(t)
		}
		// i >= 0 / i > -1 / i != -1 with i the index found by a search for the key
		if id, ok := ast.Unparen(t.X).(*ast.Ident); ok {
			if v, isC := constInt(s.info.Types[t.Y]); isC && ((t.Op == token.GEQ && v == 0) || (t.Op == token.GTR && v == -1) || (t.Op == token.NEQ && v == -1)) {
				if as, i := definingAssign(s.info, s.method, s.info.ObjectOf(id)); as != nil && len(as.Lhs) == len(as.Rhs) {
					if call, ok := ast.Unparen(as.Rhs[i]).(*ast.CallExpr); ok {
						return s.atomOfIndexSearch(call, 0)
					}
				}
			}
		}
	}
	return "", false
}

// atomOfIndexSearch: slices.IndexFunc(X, func(e) bool { return e.key == key }) or a method of the receiver that
// returns such a search over the receiver.
func (s *storageAnalysis) atomOfIndexSearch(call *ast.CallExpr, depth int) (string, bool) {
	cal := Callee(s.info, call)
	if cal == nil || cal.Pkg() == nil {
		return "", false
	}
	if cal.Pkg().Path() == "slices" && (cal.Name() == "IndexFunc" || cal.Name() == "ContainsFunc") && len(call.Args) == 2 {
		lit, ok := ast.Unparen(call.Args[1]).(*ast.FuncLit)
		if !ok || len(lit.Body.List) != 1 {
			return "", false
		}
		ret, ok := lit.Body.List[0].(*ast.ReturnStmt)
		if !ok || len(ret.Results) != 1 {
			return "", false
		}
		if be, ok := ast.Unparen(ret.Results[0]).(*ast.BinaryExpr); !ok || be.Op != token.EQL {
			return "", false
		}
		return s.atomOfContainer(call.Args[0])
	}
	// x.indexOf(key) on the receiver itself
	if depth < 2 && cal.Pkg() == s.pkg.Types {
		if sel, ok := ast.Unparen(call.Fun).(*ast.SelectorExpr); ok {
			if id, ok := ast.Unparen(sel.X).(*ast.Ident); ok && s.info.ObjectOf(id) == s.recv {
				if fd := findFuncDecl(s.pkg, cal); fd != nil && fd.Body != nil && len(fd.Body.List) == 1 && fd.Recv != nil && len(fd.Recv.List[0].Names) == 1 {
					if ret, ok := fd.Body.List[0].(*ast.ReturnStmt); ok && len(ret.Results) == 1 {
						if inner, ok := ast.Unparen(ret.Results[0]).(*ast.CallExpr); ok {
							// evaluate in the helper with its own receiver standing for ours
							saveRecv, saveMethod := s.recv, s.method
							s.recv, s.method = s.info.Defs[fd.Recv.List[0].Names[0]], fd
							a, ok := s.atomOfIndexSearch(inner, depth+1)
							s.recv, s.method = saveRecv, saveMethod
							return a, ok
						}
					}
				}
			}
		}
	}
	return "", false
}

// atomOfLookup: X.Get(key) / X[key] / hostFunc(value, key)
func (s *storageAnalysis) atomOfLookup(e ast.Expr) (string, bool) {
	e = ast.Unparen(e)
	switch t := e.(type) {
	case *ast.CallExpr:
		if sel, ok := ast.Unparen(t.Fun).(*ast.SelectorExpr); ok {
			if sel.Sel.Name == "Get" {
				// the receiver's own Get: the lookup is whatever Get itself looks at (one atom only)
				if id, ok := ast.Unparen(sel.X).(*ast.Ident); ok && s.info.ObjectOf(id) == s.recv && s.depth < 2 {
					if cal := Callee(s.info, t); cal != nil {
						if fd := findFuncDecl(s.pkg, cal); fd != nil && fd.Body != nil && fd.Recv != nil && len(fd.Recv.List[0].Names) == 1 && fd != s.method {
							sub := &storageAnalysis{c: s.c, pkg: s.pkg, info: s.info, recv: s.info.Defs[fd.Recv.List[0].Names[0]], depth: s.depth + 1}
							dom := sub.getDomain(fd)
							if len(sub.fails) == 0 && len(dom) == 1 && len(dom[0]) == 1 {
								for a, v := range dom[0] {
									if v {
										return a, true
									}
								}
							}
							return "", false
						}
					}
				}
				return s.atomOfContainer(sel.X)
			}
			if _, isSig := s.info.TypeOf(sel).Underlying().(*types.Signature); isSig {
				if a, ok := s.atomOfContainer(sel); ok && a == "HOST" {
					return "HOST", true
				}
			}
		}
	case *ast.IndexExpr:
		return s.atomOfContainer(t.X)
	}
	return "", false
}

// atomOfKeyCompare: key == a.key / key == constant / e.key == key
func (s *storageAnalysis) atomOfKeyCompare(be *ast.BinaryExpr) (string, bool) {
	for _, side := range []ast.Expr{be.X, be.Y} {
		side = ast.Unparen(side)
		if tv := s.info.Types[side]; tv.Value != nil && tv.Value.Kind() == constant.String {
			return "CONST:" + constant.StringVal(tv.Value), true
		}
		if sel, ok := side.(*ast.SelectorExpr); ok {
			// element of the receiver addressed by index: l[i].key == key
			if ix, ok := ast.Unparen(sel.X).(*ast.IndexExpr); ok {
				if a, ok := s.atomOfContainer(ix.X); ok {
					return a, true
				}
			}
			if id, ok := ast.Unparen(sel.X).(*ast.Ident); ok {
				if s.info.ObjectOf(id) == s.recv {
					return "KEY:" + sel.Sel.Name, true
				}
				// element of the receiver: for _, e := range l { e.key == key }
				if rs := rangeOver(s.c, s.info, id); rs != nil {
					if a, ok := s.atomOfContainer(rs.X); ok {
						return a, true
					}
				}
			}
		}
	}
	return "", false
}

// rangeOver returns the range statement that binds id as key or value.
func rangeOver(c *Ctx, info *types.Info, id *ast.Ident) *ast.RangeStmt {
	obj := info.ObjectOf(id)
	for q := c.Parent(id); q != nil; q = c.Parent(q) {
		if rs, ok := q.(*ast.RangeStmt); ok {
			for _, e := range []ast.Expr{rs.Key, rs.Value} {
				if eid, ok := e.(*ast.Ident); ok && info.ObjectOf(eid) == obj {
					return rs
				}
			}
		}
	}
	return nil
}

// pathAtoms: atoms implied by the positive branch facts at n.
func (s *storageAnalysis) pathAtoms(n ast.Node) conj {
	res := conj{}
	for _, gd := range s.c.GuardsDeep(n) {
		if !gd.Val {
			continue
		}
		if a, ok := s.atomOfHit(gd.Cond, nil); ok && a != "" {
			res[a] = true
		}
	}
	return res
}

func (s *storageAnalysis) getDomain(fd *ast.FuncDecl) []conj {
	s.method = fd
	var res []conj
	inspectNoLit(fd.Body, func(n ast.Node) bool {
		r, ok := n.(*ast.ReturnStmt)
		if !ok {
			return true
		}
		cj := s.pathAtoms(r)
		switch len(r.Results) {
		case 2:
			if tv := s.info.Types[r.Results[1]]; tv.Value != nil && tv.Value.Kind() == constant.Bool && !constant.BoolVal(tv.Value) {
				return true // not found
			}
			a, ok := s.atomOfHit(r.Results[1], fd)
			if !ok {
				s.fail("Get: second result %s not understood", nodeStr(s.c.Fset, r.Results[1]))
				return true
			}
			if a != "" {
				cj[a] = true
			}
		case 1:
			a, ok := s.atomOfLookup(r.Results[0])
			if !ok {
				s.fail("Get: forwarded lookup %s not understood", nodeStr(s.c.Fset, r.Results[0]))
				return true
			}
			cj[a] = true
		default:
			s.fail("Get: return without results")
			return true
		}
		if len(cj) == 0 {
			s.fail("Get: a key is reported present unconditionally")
			return true
		}
		res = append(res, cj)
		return true
	})
	return res
}

func (s *storageAnalysis) iterDomain(fd *ast.FuncDecl) []conj {
	s.method = fd
	var res []conj
	if fd.Type.Params == nil || len(fd.Type.Params.List) != 1 || len(fd.Type.Params.List[0].Names) != 1 {
		// unnamed parameter: nothing can be yielded
		return res
	}
	yobj := s.info.Defs[fd.Type.Params.List[0].Names[0]]
	ast.Inspect(fd.Body, func(n ast.Node) bool {
		call, ok := n.(*ast.CallExpr)
		if !ok {
			return true
		}
		// yield handed on: X.Iter(yield)
		if sel, ok := ast.Unparen(call.Fun).(*ast.SelectorExpr); ok && sel.Sel.Name == "Iter" && len(call.Args) == 1 {
			if id, ok := ast.Unparen(call.Args[0]).(*ast.Ident); ok && s.info.ObjectOf(id) == yobj {
				a, ok := s.atomOfContainer(sel.X)
				if !ok {
					s.fail("Iter: %s not understood", nodeStr(s.c.Fset, sel.X))
					return true
				}
				cj := s.pathAtoms(call)
				cj[a] = true
				res = append(res, cj)
			}
			return true
		}
		id, ok := ast.Unparen(call.Fun).(*ast.Ident)
		if !ok || s.info.ObjectOf(id) != yobj || len(call.Args) < 1 {
			return true
		}
		cj := s.pathAtoms(call)
		keyArg := ast.Unparen(call.Args[0])
		a, ok := s.atomOfKeyExpr(keyArg)
		if !ok {
			s.fail("Iter: key expression %s not understood", nodeStr(s.c.Fset, keyArg))
			return true
		}
		cj[a] = true
		res = append(res, cj)
		return true
	})
	return res
}

// atomOfKeyExpr: where does a yielded key come from?
func (s *storageAnalysis) atomOfKeyExpr(e ast.Expr) (string, bool) {
	e = ast.Unparen(e)
	if tv := s.info.Types[e]; tv.Value != nil && tv.Value.Kind() == constant.String {
		return "CONST:" + constant.StringVal(tv.Value), true
	}
	switch t := e.(type) {
	case *ast.SelectorExpr:
		if id, ok := ast.Unparen(t.X).(*ast.Ident); ok {
			if s.info.ObjectOf(id) == s.recv {
				return "KEY:" + t.Sel.Name, true
			}
			if rs := rangeOver(s.c, s.info, id); rs != nil {
				return s.atomOfContainer(rs.X)
			}
		}
	case *ast.Ident:
		obj := s.info.ObjectOf(t)
		// range key/value
		if rs := rangeOver(s.c, s.info, t); rs != nil {
			x := ast.Unparen(rs.X)
			// range X.Iter (range over func)
			if sel, ok := x.(*ast.SelectorExpr); ok && sel.Sel.Name == "Iter" {
				if _, isSig := s.info.TypeOf(sel).Underlying().(*types.Signature); isSig {
					return s.atomOfContainer(sel.X)
				}
			}
			return s.atomOfContainer(x)
		}
		// parameter of a callback passed to X.Iter(func(key, v) ...)
		for q := s.c.Parent(t); q != nil; q = s.c.Parent(q) {
			lit, ok := q.(*ast.FuncLit)
			if !ok {
				continue
			}
			isParam := false
			for _, f := range lit.Type.Params.List {
				for _, nm := range f.Names {
					if s.info.Defs[nm] == obj {
						isParam = true
					}
				}
			}
			if !isParam {
				continue
			}
			if call, ok := s.c.Parent(lit).(*ast.CallExpr); ok {
				if sel, ok := ast.Unparen(call.Fun).(*ast.SelectorExpr); ok && sel.Sel.Name == "Iter" {
					return s.atomOfContainer(sel.X)
				}
			}
		}
	}
	return "", false
}

// sizeTerms: the summands of Size as atoms; own keys are counted in the int.
func (s *storageAnalysis) sizeTerms(fd *ast.FuncDecl) (terms []string, own int) {
	s.method = fd
	var visit func(e ast.Expr)
	visit = func(e ast.Expr) {
		e = ast.Unparen(e)
		if v, ok := constInt(s.info.Types[e]); ok {
			own += v
			return
		}
		switch t := e.(type) {
		case *ast.BinaryExpr:
			if t.Op == token.ADD {
				visit(t.X)
				visit(t.Y)
				return
			}
		case *ast.CallExpr:
			if sel, ok := ast.Unparen(t.Fun).(*ast.SelectorExpr); ok && sel.Sel.Name == "Size" && len(t.Args) == 0 {
				if a, ok := s.atomOfContainer(sel.X); ok {
					terms = append(terms, a)
					return
				}
			}
			if id, ok := ast.Unparen(t.Fun).(*ast.Ident); ok && id.Name == "len" && len(t.Args) == 1 {
				if a, ok := s.atomOfContainer(t.Args[0]); ok {
					terms = append(terms, a)
					return
				}
			}
		case *ast.SelectorExpr:
			// a cached size: an int field of the receiver. Its value is what the construction sites store: every
			// composite literal of the storage type has to set it, to a sum of constants and Size() of the values it
			// stores in other fields.
			if id, ok := ast.Unparen(t.X).(*ast.Ident); ok && s.info.ObjectOf(id) == s.recv {
				if fs, ok := s.info.Selections[t]; ok && fs.Kind() == types.FieldVal {
					if bt, ok := fs.Obj().Type().Underlying().(*types.Basic); ok && bt.Info()&types.IsInteger != 0 {
						recvNamed := namedOf(s.recv.Type())
						if recvNamed == nil {
							break
						}
						fname := fs.Obj().Name()
						var siteTerms [][]string
						var siteOwn []int
						nSites := 0
						for _, pkg := range s.c.RepoPkgs {
							pinfo := pkg.TypesInfo
							for _, f := range pkg.Syntax {
								ast.Inspect(f, func(x ast.Node) bool {
									cl, ok := x.(*ast.CompositeLit)
									if !ok {
										return true
									}
									if nm := namedOf(pinfo.TypeOf(cl)); nm == nil || nm.Obj() != recvNamed.Obj() {
										return true
									}
									nSites++
									fields := map[string]ast.Expr{}
									for _, el := range cl.Elts {
										if kv, ok := el.(*ast.KeyValueExpr); ok {
											if k, ok := kv.Key.(*ast.Ident); ok {
												fields[k.Name] = kv.Value
											}
										}
									}
									init, ok := fields[fname]
									if !ok {
										s.viol = append(s.viol, fmt.Sprintf("Size() returns the cached field %s, but the construction site %s (%s) does not set it: maps built there report the size 0 while Iter and Get deliver their entries", fname, nodeStr(s.c.Fset, cl.Type), s.c.posStr(cl.Pos())))
										return true
									}
									var tms []string
									o := 0
									var sum func(e ast.Expr) bool
									sum = func(e ast.Expr) bool {
										e = ast.Unparen(e)
										if v, ok := constInt(pinfo.Types[e]); ok {
											o += v
											return true
										}
										switch u := e.(type) {
										case *ast.BinaryExpr:
											if u.Op == token.ADD {
												return sum(u.X) && sum(u.Y)
											}
										case *ast.CallExpr:
											if sel, ok := ast.Unparen(u.Fun).(*ast.SelectorExpr); ok && sel.Sel.Name == "Size" && len(u.Args) == 0 {
												for g, ge := range fields {
													if nodeStr(s.c.Fset, ge) == nodeStr(s.c.Fset, sel.X) {
														tms = append(tms, "F:"+g)
														return true
													}
												}
											}
										}
										return false
									}
									if !sum(init) {
										s.fail("Size: cached field %s is initialised with %s at %s, which is not understood", fname, nodeStr(s.c.Fset, init), s.c.posStr(cl.Pos()))
										return true
									}
									sort.Strings(tms)
									siteTerms = append(siteTerms, tms)
									siteOwn = append(siteOwn, o)
									return true
								})
							}
						}
						if nSites == 0 {
							s.fail("Size: no construction site of the storage found for the cached field %s", fname)
							return
						}
						if len(s.viol) > 0 || len(siteTerms) == 0 {
							return
						}
						for i := 1; i < len(siteTerms); i++ {
							if strings.Join(siteTerms[i], ",") != strings.Join(siteTerms[0], ",") || siteOwn[i] != siteOwn[0] {
								s.viol = append(s.viol, fmt.Sprintf("the construction sites of the storage initialise the cached size %s differently", fname))
								return
							}
						}
						terms = append(terms, siteTerms[0]...)
						own += siteOwn[0]
						return
					}
				}
			}
		case *ast.Ident:
			// a counter: initial value plus conditional increments
			obj := s.info.ObjectOf(t)
			okAll := true
			seen := false
			ast.Inspect(fd.Body, func(n ast.Node) bool {
				switch st := n.(type) {
				case *ast.AssignStmt:
					for i, l := range st.Lhs {
						if id, ok := l.(*ast.Ident); ok && s.info.ObjectOf(id) == obj && len(st.Rhs) == len(st.Lhs) {
							seen = true
							if v, ok := constInt(s.info.Types[st.Rhs[i]]); ok {
								own += v
							} else {
								okAll = false
							}
						}
					}
				case *ast.IncDecStmt:
					if id, ok := ast.Unparen(st.X).(*ast.Ident); ok && s.info.ObjectOf(id) == obj && st.Tok == token.INC {
						seen = true
						cj := s.pathAtoms(st)
						// inside a loop over declared keys
						for q := s.c.Parent(st); q != nil && q != ast.Node(fd); q = s.c.Parent(q) {
							if rs, ok := q.(*ast.RangeStmt); ok {
								if a, ok := s.atomOfContainer(rs.X); ok {
									cj[a] = true
								}
							}
						}
						if len(cj) == 0 {
							own++
						} else {
							terms = append(terms, cj.key())
						}
					}
				}
				return true
			})
			if okAll && seen {
				return
			}
		}
		s.fail("Size: term %s not understood", nodeStr(s.c.Fset, e))
	}
	inspectNoLit(fd.Body, func(n ast.Node) bool {
		if r, ok := n.(*ast.ReturnStmt); ok && len(r.Results) == 1 {
			visit(r.Results[0])
		}
		return true
	})
	sort.Strings(terms)
	return
}

func ruleR131(c *Ctx) {
	vp := c.Pkg("value")
	lm := c.Pkg("listMap")
	if vp == nil || lm == nil {
		c.Undecided("package value/listMap", token.NoPos, "not found")
		return
	}
	storage := LookupType(vp, "MapStorage")
	if storage == nil {
		c.Undecided("value.MapStorage", token.NoPos, "not found")
		return
	}
	n := 0
	for _, pkg := range []*packages.Package{vp, lm} {
		scope := pkg.Types.Scope()
		for _, name := range scope.Names() {
			tn, ok := scope.Lookup(name).(*types.TypeName)
			if !ok || tn.IsAlias() {
				continue
			}
			if _, isIface := tn.Type().Underlying().(*types.Interface); isIface {
				continue
			}
			if !hasStorageMethods(tn.Type()) {
				continue
			}
			if name == "Map" && pkg == vp {
				continue // the wrapper delegates to its storage (checked by R13.3)
			}
			get, iter, size := c.FuncDecl(pkg, name, "Get"), c.FuncDecl(pkg, name, "Iter"), c.FuncDecl(pkg, name, "Size")
			if get == nil || iter == nil || size == nil {
				continue
			}
			n++
			short := strings.TrimPrefix(strings.TrimPrefix(pkg.PkgPath, modPath), "/")
			key := short + "." + name + "#key-domain"
			recvOf := func(fd *ast.FuncDecl) types.Object {
				if len(fd.Recv.List[0].Names) == 0 {
					return nil
				}
				return pkg.TypesInfo.Defs[fd.Recv.List[0].Names[0]]
			}
			sa := &storageAnalysis{c: c, pkg: pkg, info: pkg.TypesInfo}
			sa.recv = recvOf(get)
			gd := minimalDNF(sa.getDomain(get))
			sa.recv = recvOf(iter)
			id := minimalDNF(sa.iterDomain(iter))
			sa.recv = recvOf(size)
			terms, own := sa.sizeTerms(size)
			if len(sa.viol) > 0 {
				c.Violation(key, size.Pos(), "%s", strings.Join(sa.viol, "; "))
				continue
			}
			if len(sa.fails) > 0 {
				c.Undecided(key, get.Pos(), "shape of the storage not extracted: %s", strings.Join(sa.fails, "; "))
				continue
			}
			// Size expected from Iter: own keys (KEY/CONST without condition) are counted, every other conjunction is a term
			var wantTerms []string
			wantOwn := 0
			for _, k := range id {
				parts := strings.Split(k, " & ")
				if len(parts) == 1 && (strings.HasPrefix(parts[0], "KEY:") || strings.HasPrefix(parts[0], "CONST:")) {
					wantOwn++
					continue
				}
				// a conditional own key: drop the key atom, keep the condition
				var rest []string
				for _, p := range parts {
					if strings.HasPrefix(p, "KEY:") || strings.HasPrefix(p, "CONST:") {
						continue
					}
					rest = append(rest, p)
				}
				wantTerms = append(wantTerms, strings.Join(rest, " & "))
			}
			sort.Strings(wantTerms)
			// host functions: Get asks the host for any key, Iter for the declared ones (assumption: the host accepts declared keys only)
			norm := func(d []string) []string {
				var r []string
				for _, k := range d {
					if k == "HOST" {
						k = "DECL:mff.keys & HOST"
					}
					r = append(r, k)
				}
				sort.Strings(r)
				return r
			}
			gs, is := strings.Join(norm(gd), " | "), strings.Join(norm(id), " | ")
			var problems []string
			if gs != is {
				problems = append(problems, fmt.Sprintf("Get finds the keys {%s} but Iter yields the keys {%s}", strings.Join(gd, " | "), strings.Join(id, " | ")))
			}
			if strings.Join(terms, " + ") != strings.Join(wantTerms, " + ") || own != wantOwn {
				problems = append(problems, fmt.Sprintf("Size counts {%s} + %d own key(s) but Iter yields {%s} + %d own key(s)", strings.Join(terms, " + "), own, strings.Join(wantTerms, " + "), wantOwn))
			}
			if len(problems) == 0 {
				if is == "" {
					is = "∅"
				}
				c.OK(key, get.Pos(), "Get, Iter and Size agree on the key domain {%s}", is)
			} else {
				c.Violation(key, get.Pos(), "the observers of %s disagree: %s — member access, get, isAvail, ~, size(), list(), string() and equality see different key sets for the same map", name, strings.Join(problems, "; "))
			}
		}
	}
	if n < 8 {
		c.Undecided("value#MapStorage-implementations", token.NoPos, "only %d implementations found", n)
	}
}

// ---------------------------------------------------------------------------
// R13.2 uniqueness of keys

func ruleR132(c *Ctx) {
	vp := c.Pkg("value")
	root := c.Pkg("")
	if vp == nil || root == nil {
		c.Undecided("package value", token.NoPos, "not found")
		return
	}
	info := vp.TypesInfo
	n := 0
	// a wrapper literal or a call of a private constructor of one (newAppendMap(...))
	wrapperKind := func(x ast.Node) (isAppend, isMerge bool) {
		var t types.Type
		switch y := x.(type) {
		case *ast.CompositeLit:
			// the literal of a constructor (directly returned or wrapped: return Map{AppendMap{...}}) is checked at the
			// constructor's call sites
			if fd, ok := c.EnclosingFunc(y).(*ast.FuncDecl); ok && len(fd.Body.List) == 1 && !fd.Name.IsExported() {
				if r, ok := fd.Body.List[0].(*ast.ReturnStmt); ok && len(r.Results) == 1 {
					if containsNode(r.Results[0], func(z ast.Node) bool { return z == ast.Node(y) }) {
						return false, false
					}
				}
			}
			t = info.TypeOf(y)
		case *ast.CallExpr:
			if cal := Callee(info, y); cal != nil && !cal.Exported() && cal.Pkg() == vp.Types {
				if fd := findFuncDecl(vp, cal); fd != nil && fd.Body != nil && len(fd.Body.List) == 1 {
					if r, ok := fd.Body.List[0].(*ast.ReturnStmt); ok && len(r.Results) == 1 {
						ast.Inspect(r.Results[0], func(z ast.Node) bool {
							if cl, ok := z.(*ast.CompositeLit); ok && t == nil {
								lt := info.TypeOf(cl)
								if isNamed(lt, modPath+"/value", "AppendMap") || isNamed(lt, modPath+"/value", "MergeMap") {
									t = lt
								}
							}
							return true
						})
					}
				}
			}
		}
		if t == nil {
			return false, false
		}
		return isNamed(t, modPath+"/value", "AppendMap"), isNamed(t, modPath+"/value", "MergeMap")
	}
	for _, f := range vp.Syntax {
		ast.Inspect(f, func(x ast.Node) bool {
			isAppend, isMerge := wrapperKind(x)
			if !isAppend && !isMerge {
				return true
			}
			cl := x
			fn := c.EnclosingFunc(cl)
			n++
			key := fmt.Sprintf("%s#%s-literal[%d]", c.FuncName(cl)+litSuffix(c, fn), map[bool]string{true: "AppendMap", false: "MergeMap"}[isAppend], ordinalIn(fn, cl, func(y ast.Node) bool {
				a, m := wrapperKind(y)
				return a || m
			}))
			// guarded by the negative outcome of a presence test
			guarded := false
			for _, gd := range c.CFG(fn).Guards(cl) {
				if gd.Val {
					continue
				}
				cond := ast.Unparen(gd.Cond)
				id, ok := cond.(*ast.Ident)
				if !ok {
					continue
				}
				obj := info.ObjectOf(id)
				// ok := m.Get(key) directly
				if as, i := definingAssign(info, fn, obj); as != nil && i == 1 && len(as.Rhs) == 1 {
					if call, ok := ast.Unparen(as.Rhs[0]).(*ast.CallExpr); ok {
						if sel, ok := ast.Unparen(call.Fun).(*ast.SelectorExpr); ok && sel.Sel.Name == "Get" {
							guarded = true
						}
						// the presence test lives in a private helper that returns (…, found bool): the returned flag is
						// set under a successful Get inside the helper
						if cal := Callee(info, call); cal != nil && cal.Pkg() == vp.Types && !guarded {
							if hd := findFuncDecl(vp, cal); hd != nil && hd.Body != nil {
								inspectNoLit(hd.Body, func(z ast.Node) bool {
									r, ok := z.(*ast.ReturnStmt)
									if !ok || len(r.Results) < 2 {
										return true
									}
									rid, ok := ast.Unparen(r.Results[len(r.Results)-1]).(*ast.Ident)
									if !ok {
										return true
									}
									robj := info.ObjectOf(rid)
									ast.Inspect(hd.Body, func(w ast.Node) bool {
										was, ok := w.(*ast.AssignStmt)
										if !ok || was.Tok != token.ASSIGN {
											return true
										}
										for _, l := range was.Lhs {
											if lid, ok := l.(*ast.Ident); ok && info.ObjectOf(lid) == robj {
												for _, g2 := range c.GuardsDeep(was) {
													if okid, ok := ast.Unparen(g2.Cond).(*ast.Ident); ok && g2.Val {
														if as2, i2 := definingAssign(info, c.EnclosingFunc(was), info.ObjectOf(okid)); as2 != nil && i2 == 1 && len(as2.Rhs) == 1 {
															if gc, ok := ast.Unparen(as2.Rhs[0]).(*ast.CallExpr); ok {
																if gs, ok := ast.Unparen(gc.Fun).(*ast.SelectorExpr); ok && gs.Sel.Name == "Get" {
																	guarded = true
																}
															}
														}
													}
												}
											}
										}
										return true
									})
									return true
								})
							}
						}
					}
				}
				// a flag set inside an Iter callback under a successful Get
				ast.Inspect(funcBody(fn), func(y ast.Node) bool {
					as, ok := y.(*ast.AssignStmt)
					if !ok {
						return true
					}
					for _, l := range as.Lhs {
						if lid, ok := l.(*ast.Ident); ok && info.ObjectOf(lid) == obj && as.Tok == token.ASSIGN {
							for _, g2 := range c.GuardsDeep(as) {
								if g2.Val {
									if okid, ok := ast.Unparen(g2.Cond).(*ast.Ident); ok {
										if as2, i2 := definingAssign(info, c.EnclosingFunc(as), info.ObjectOf(okid)); as2 != nil && i2 == 1 && len(as2.Rhs) == 1 {
											if call, ok := ast.Unparen(as2.Rhs[0]).(*ast.CallExpr); ok {
												if sel, ok := ast.Unparen(call.Fun).(*ast.SelectorExpr); ok && sel.Sel.Name == "Get" {
													if b, ok := obj.Type().Underlying().(*types.Basic); ok && b.Kind() == types.Bool {
														guarded = true
													}
												}
											}
										}
									}
								}
							}
						}
					}
					return true
				})
			}
			if guarded {
				c.OK(key, cl.Pos(), "the wrapper is built only after a presence test found the key(s) absent")
			} else {
				c.Violation(key, cl.Pos(), "a map wrapper that adds keys is built without a (boolean) presence test of the new key(s) in the parent on this path: the result can contain a key twice, and the observers disagree on it")
			}
			return true
		})
	}
	if n < 3 {
		c.Undecided("value#map-wrapper-literals", token.NoPos, "only %d AppendMap/MergeMap literals found", n)
	}
	// literal maps: parseMap tests Get before Append
	pm := c.FuncDecl(root, "Parser", "parseMap")
	key := "parser2.Parser.parseMap#duplicate-key"
	if pm == nil {
		c.Undecided(key, token.NoPos, "not found")
		return
	}
	rinfo := root.TypesInfo
	var app *ast.CallExpr
	ast.Inspect(pm.Body, func(x ast.Node) bool {
		if call, ok := x.(*ast.CallExpr); ok {
			if sel, ok := ast.Unparen(call.Fun).(*ast.SelectorExpr); ok && sel.Sel.Name == "Append" && isNamed(rinfo.TypeOf(sel.X), modPath+"/listMap", "ListMap") {
				app = call
			}
		}
		return true
	})
	if app == nil {
		c.Undecided(key, pm.Pos(), "no Append in parseMap")
		return
	}
	ok := false
	for _, gd := range c.CFG(pm).Guards(app) {
		if id, isId := ast.Unparen(gd.Cond).(*ast.Ident); isId && !gd.Val {
			if as, i := definingAssign(rinfo, pm, rinfo.ObjectOf(id)); as != nil && i == 1 && len(as.Rhs) == 1 {
				if call, isCall := ast.Unparen(as.Rhs[0]).(*ast.CallExpr); isCall {
					if sel, isSel := ast.Unparen(call.Fun).(*ast.SelectorExpr); isSel && sel.Sel.Name == "Get" {
						ok = true
					}
				}
			}
		}
	}
	c.Check(ok, key, app.Pos(), "a key of a map literal is appended only after Get reported it absent", "parseMap appends a key without testing that the literal does not contain it yet (ListMap.Append silently overwrites): a duplicate key in a map literal is accepted")
}

// ---------------------------------------------------------------------------
// R13.3 observers use the abstract interface only

func ruleR133(c *Ctx) {
	vp := c.Pkg("value")
	if vp == nil {
		c.Undecided("package value", token.NoPos, "not found")
		return
	}
	info := vp.TypesInfo
	storage := LookupType(vp, "MapStorage")
	if storage == nil {
		c.Undecided("value.MapStorage", token.NoPos, "not found")
		return
	}
	n := 0
	for _, pkg := range []*packages.Package{vp, c.Pkg("value/export")} {
		if pkg == nil {
			continue
		}
		pinfo := pkg.TypesInfo
		forEachFuncBody([]*packages.Package{pkg}, func(_ *packages.Package, fn ast.Node, body *ast.BlockStmt) {
			inspectNoLit(body, func(x ast.Node) bool {
				ta, ok := x.(*ast.TypeAssertExpr)
				if !ok {
					return true
				}
				xt := pinfo.TypeOf(ta.X)
				if xt == nil || !isNamed(xt, modPath+"/value", "MapStorage") {
					return true
				}
				n++
				fname := c.FuncName(fn)
				key := fmt.Sprintf("%s#storage-assertion[%d]", fname+litSuffix(c, fn), n)
				target := "type switch"
				if ta.Type != nil {
					target = nodeStr(c.Fset, ta.Type)
				}
				// allowed: the depth bookkeeping of Replace (asserts ReplaceMap to read .depth) and optional description interfaces
				if fd := c.EnclosingDecl(ta); fd != nil {
					if fd.Name.Name == "Replace" && strings.Contains(target, "ReplaceMap") {
						c.OK(key, ta.Pos(), "depth bookkeeping of replace chains (reads only the depth counter)")
						return true
					}
					if ta.Type != nil {
						if _, isIface := pinfo.TypeOf(ta.Type).Underlying().(*types.Interface); isIface {
							c.OK(key, ta.Pos(), "optional capability interface (%s), not a concrete representation", target)
							return true
						}
					}
				}
				c.Violation(key, ta.Pos(), "%s inspects the concrete representation of a map (%s): its outcome then depends on how the map was built (literal, put, +, replace, eval), not only on its keys and values", fname, target)
				return true
			})
		})
	}
	_ = info
	// createFlat reads the replaced map through its own abstract view only
	key := "value.ReplaceMap.createFlat#abstract-view"
	// the flattening method: found by name, or (if it was renamed) as the one method of ReplaceMap that returns a
	// MapStorage and iterates (calls or ranges over an Iter)
	flatDecl := c.FuncDecl(vp, "ReplaceMap", "createFlat")
	if flatDecl == nil {
		var cands []*ast.FuncDecl
		for _, f := range vp.Syntax {
			for _, d := range f.Decls {
				fd, ok := d.(*ast.FuncDecl)
				if !ok || fd.Body == nil || fd.Recv == nil || recvTypeName(fd.Recv.List[0].Type) != "ReplaceMap" || fd.Type.Results.NumFields() != 1 {
					continue
				}
				if !isNamed(info.TypeOf(fd.Type.Results.List[0].Type), modPath+"/value", "MapStorage") {
					continue
				}
				if containsNodeDeep(fd.Body, func(y ast.Node) bool {
					s2, ok := y.(*ast.SelectorExpr)
					return ok && s2.Sel.Name == "Iter"
				}) {
					cands = append(cands, fd)
				}
			}
		}
		if len(cands) == 1 {
			flatDecl = cands[0]
		}
	}
	if fd := flatDecl; fd != nil && len(fd.Recv.List[0].Names) == 1 {
		recv := info.Defs[fd.Recv.List[0].Names[0]]
		bad := ""
		nIter := 0
		ast.Inspect(fd.Body, func(x ast.Node) bool {
			// called or used as a method value (for k, v := range m.orig.Iter)
			sel, ok := x.(*ast.SelectorExpr)
			if !ok || (sel.Sel.Name != "Iter" && sel.Sel.Name != "Get") {
				return true
			}
			if s2, isMethod := info.Selections[sel]; !isMethod || s2.Kind() == types.FieldVal {
				return true
			}
			if id, ok := ast.Unparen(sel.X).(*ast.Ident); ok && info.ObjectOf(id) == recv {
				nIter++
				return true
			}
			if root := rootIdent(sel.X); root != nil && info.ObjectOf(root) == recv {
				bad = nodeStr(c.Fset, sel)
			}
			return true
		})
		if bad != "" {
			c.Violation(key, fd.Pos(), "the flattening of a deep replace chain reads a part of the map directly (%s) instead of the map's own Iter: the flattened map can differ from the map it replaces (e.g. replacement keys outside the original key set appear after ten nested replace calls)", bad)
		} else if nIter == 0 {
			c.Undecided(key, fd.Pos(), "createFlat does not iterate its receiver")
		} else {
			c.OK(key, fd.Pos(), "the flattened copy is built from the map's own Iter, so it has exactly the keys and values the map had")
		}
	} else {
		c.Undecided(key, token.NoPos, "ReplaceMap.createFlat not found")
	}
}

// ---------------------------------------------------------------------------
// R13.4 the methods of a map stay reachable.
//
// v.name(args) on a map calls the closure stored under name *if there is one*,
// otherwise the method name of the map type (size, list, get, isAvail, ...).
// In the code generated for a method call, every return inside the branch
// taken for maps has to be guarded by the successful extraction of a function
// from the entry (ExtractFunction … ok): a return on the path "the entry
// exists but is no function" makes {size: 3, other: 2}.size() fail, so the
// observers of a map depend on the names of its keys.

func ruleR134(c *Ctx) {
	a := c.genAnchors()
	if len(a.missing) > 0 {
		c.Undecided(strings.Join(a.missing, ","), token.NoPos, "anchors not found")
		return
	}
	info := a.fg.TypesInfo
	extract := LookupMethod(a.fg, "FunctionGenerator", "ExtractFunction")
	if extract == nil {
		c.Undecided("funcGen.FunctionGenerator.ExtractFunction", token.NoPos, "not found")
		return
	}
	n := 0
	fwd := c.forwarders(a)
	for _, gi := range c.generatorFuncs(a, fwd) {
		if gi.pkg != a.fg {
			continue
		}
		gname := declName(gi.pkg, gi.decl)
		ast.Inspect(gi.decl.Body, func(x ast.Node) bool {
			ifs, ok := x.(*ast.IfStmt)
			if !ok {
				return true
			}
			// the branch for maps: its condition calls IsMap of the map handler
			if !containsNode(ifs.Cond, func(y ast.Node) bool {
				call, ok := y.(*ast.CallExpr)
				if !ok {
					return false
				}
				sel, ok := ast.Unparen(call.Fun).(*ast.SelectorExpr)
				return ok && sel.Sel.Name == "IsMap"
			}) {
				return true
			}
			// only the method call form: the branch contains an ExtractFunction call
			if !containsNode(ifs.Body, func(y ast.Node) bool {
				call, ok := y.(*ast.CallExpr)
				return ok && isCallTo(info, call, extract)
			}) {
				return true
			}
			lit := c.EnclosingFunc(ifs)
			g := c.CFG(lit)
			if g == nil {
				return true
			}
			n++
			key := fmt.Sprintf("%s#map-branch-of-method-call[%d]", gname, n)
			var bad *ast.ReturnStmt
			ast.Inspect(ifs.Body, func(y ast.Node) bool {
				if _, isLit := y.(*ast.FuncLit); isLit {
					return false
				}
				r, ok := y.(*ast.ReturnStmt)
				if !ok || bad != nil {
					return true
				}
				guarded := false
				for _, gd := range g.Guards(r) {
					id, ok := ast.Unparen(gd.Cond).(*ast.Ident)
					if !ok || !gd.Val || gd.Synth {
						continue
					}
					if as, i := definingAssign(info, lit, info.ObjectOf(id)); as != nil && i == 1 && len(as.Rhs) == 1 {
						if call, ok := ast.Unparen(as.Rhs[0]).(*ast.CallExpr); ok && isCallTo(info, call, extract) {
							guarded = true
						}
					}
				}
				if !guarded {
					bad = r
				}
				return true
			})
			if bad != nil {
				c.Violation(key, bad.Pos(), "inside the branch that the generated method call takes for maps there is a return (line %d) that is not guarded by the successful extraction of a function from the entry: a map whose entry of that name is no function (or is missing) does not fall through to the method lookup, so {size: x, other: 2}.size() fails while member access, ~ and = still see the map", c.Fset.Position(bad.Pos()).Line)
			} else {
				c.OK(key, ifs.Pos(), "every return inside the map branch of the generated method call is guarded by the extraction of a function from the entry; otherwise the method lookup follows")
			}
			return true
		})
	}
	// the probe may live in a private helper: func (g) closureInField(value, name) (Function, bool). The helper answers
	// true only with what ExtractFunction says; its callers take the closure branch under that answer.
	for _, f := range a.fg.Syntax {
		for _, d := range f.Decls {
			fd, ok := d.(*ast.FuncDecl)
			if !ok || fd.Body == nil || fd.Type.Results == nil {
				continue
			}
			hasIsMap := containsNode(fd.Body, func(y ast.Node) bool {
				call, ok := y.(*ast.CallExpr)
				if !ok {
					return false
				}
				sel, ok := ast.Unparen(call.Fun).(*ast.SelectorExpr)
				return ok && sel.Sel.Name == "IsMap"
			})
			hasExtract := containsNode(fd.Body, func(y ast.Node) bool {
				call, ok := y.(*ast.CallExpr)
				return ok && isCallTo(info, call, extract)
			})
			sig, _ := info.Defs[fd.Name].Type().(*types.Signature)
			if !hasIsMap || !hasExtract || sig == nil || sig.Results().Len() != 2 {
				continue
			}
			if b, ok := sig.Results().At(1).Type().Underlying().(*types.Basic); !ok || b.Kind() != types.Bool {
				continue
			}
			n++
			key := declName(a.fg, fd) + "#closure-field-probe"
			var bad *ast.ReturnStmt
			g := c.CFG(fd)
			inspectNoLit(fd.Body, func(y ast.Node) bool {
				r, ok := y.(*ast.ReturnStmt)
				if !ok || bad != nil {
					return true
				}
				switch len(r.Results) {
				case 1:
					if call, ok := ast.Unparen(r.Results[0]).(*ast.CallExpr); ok && isCallTo(info, call, extract) {
						return true // forwards the answer of ExtractFunction
					}
					bad = r
				case 2:
					if tv := info.Types[r.Results[1]]; tv.Value != nil && tv.Value.Kind() == constant.Bool && !constant.BoolVal(tv.Value) {
						return true
					}
					// (f, ok) with ok from ExtractFunction, or true under that ok
					guarded := false
					for _, e := range []ast.Expr{r.Results[1]} {
						if id, ok := ast.Unparen(e).(*ast.Ident); ok {
							if as, i := definingAssign(info, fd, info.ObjectOf(id)); as != nil && i == 1 && len(as.Rhs) == 1 {
								if call, ok := ast.Unparen(as.Rhs[0]).(*ast.CallExpr); ok && isCallTo(info, call, extract) {
									guarded = true
								}
							}
						}
					}
					if g != nil {
						for _, gd := range g.Guards(r) {
							if id, ok := ast.Unparen(gd.Cond).(*ast.Ident); ok && gd.Val && !gd.Synth {
								if as, i := definingAssign(info, fd, info.ObjectOf(id)); as != nil && i == 1 && len(as.Rhs) == 1 {
									if call, ok := ast.Unparen(as.Rhs[0]).(*ast.CallExpr); ok && isCallTo(info, call, extract) {
										guarded = true
									}
								}
							}
						}
					}
					if !guarded {
						bad = r
					}
				}
				return true
			})
			if bad != nil {
				c.Violation(key, bad.Pos(), "the helper that looks for a closure in a map field answers 'found' (line %d) without the successful extraction of a function from the entry: a map whose entry of that name is no function does not fall through to the method lookup", c.Fset.Position(bad.Pos()).Line)
			} else {
				c.OK(key, fd.Pos(), "the helper answers 'found' only with what ExtractFunction says; otherwise the method lookup follows")
			}
		}
	}
	if n == 0 {
		c.Undecided("funcGen#map-branch-of-method-call", token.NoPos, "the closure-field branch of the generated method call was not found")
	}
}

// ---------------------------------------------------------------------------
// R13.5 kind tables have no hole below a kind they handle
//
// A switch over reflect.Kind that wraps struct fields as map entries decides
// which fields exist in the map at all. If it handles the native int (at least
// 32 bits wide) it has to handle every narrower signed kind as well - a field
// of kind int32 (or rune) is otherwise silently missing from the map although
// an int field is there; likewise float32 where float64 is handled. A case
// list that was rewritten from a fallthrough chain and lost one entry is the
// typical way to get there.

func ruleR135(c *Ctx) {
	n := 0
	for _, pkg := range c.RepoPkgs {
		info := pkg.TypesInfo
		forEachFuncBody([]*packages.Package{pkg}, func(_ *packages.Package, fn ast.Node, body *ast.BlockStmt) {
			k := 0
			inspectNoLit(body, func(x ast.Node) bool {
				sw, ok := x.(*ast.SwitchStmt)
				if !ok || sw.Tag == nil {
					return true
				}
				if !isNamed(info.TypeOf(sw.Tag), "reflect", "Kind") {
					return true
				}
				handled := map[string]bool{}
				for _, cl := range sw.Body.List {
					for _, e := range cl.(*ast.CaseClause).List {
						if sel, ok := ast.Unparen(e).(*ast.SelectorExpr); ok {
							handled[sel.Sel.Name] = true
						}
					}
				}
				k++
				n++
				key := fmt.Sprintf("%s#kind-table[%d]", c.FuncName(fn)+litSuffix(c, fn), k)
				var missing []string
				for _, dep := range [][]string{{"Int", "Int8", "Int16", "Int32"}, {"Int64", "Int8", "Int16", "Int32"}, {"Int32", "Int8", "Int16"}, {"Int16", "Int8"}, {"Uint", "Uint8", "Uint16", "Uint32"}, {"Uint64", "Uint8", "Uint16", "Uint32"}, {"Uint32", "Uint8", "Uint16"}, {"Uint16", "Uint8"}, {"Float64", "Float32"}} {
					if !handled[dep[0]] {
						continue
					}
					for _, need := range dep[1:] {
						if !handled[need] {
							dup := false
							for _, m := range missing {
								if m == need {
									dup = true
								}
							}
							if !dup {
								missing = append(missing, need)
							}
						}
					}
				}
				if len(missing) == 0 {
					c.OK(key, sw.Pos(), "every kind narrower than a handled kind of the same family is handled as well")
				} else {
					c.Violation(key, sw.Pos(), "the kind table handles a wider kind of the family but not %s: a struct field of that kind (rune is int32) is silently left out of the wrapped map, which then has fewer keys than the value it stands for - member access, size, list, equality all miss it", strings.Join(missing, ", "))
				}
				return true
			})
		})
	}
	if n < 1 {
		c.Undecided("value#kind-tables", token.NoPos, "no switch over reflect.Kind found")
	}
}
