package main

import (
	"fmt"
	"go/ast"
	"go/constant"
	"go/token"
	"go/types"
	"sort"
	"strings"

	"golang.org/x/tools/go/packages"
)

type xmlAnchors struct {
	wp, ep                          *packages.Package
	open, attr, close, write, wHTML *types.Func
	missing                         []string
}

func (c *Ctx) xmlAnchors() *xmlAnchors {
	xa := &xmlAnchors{wp: c.Pkg("value/export/xmlWriter"), ep: c.Pkg("value/export")}
	if xa.wp == nil || xa.ep == nil {
		xa.missing = append(xa.missing, "packages value/export, value/export/xmlWriter")
		return xa
	}
	m := func(name string) *types.Func {
		f := LookupMethod(xa.wp, "XMLWriter", name)
		if f == nil {
			xa.missing = append(xa.missing, "xmlWriter.XMLWriter."+name)
		}
		return f
	}
	xa.open, xa.attr, xa.close, xa.write, xa.wHTML = m("Open"), m("Attr"), m("Close"), m("Write"), m("WriteHTML")
	return xa
}

// nameValidators: functions func(string) bool whose name says they validate XML names.
func (c *Ctx) isNameValidatorCall(info *types.Info, call *ast.CallExpr) bool {
	cal := Callee(info, call)
	if cal == nil || len(call.Args) != 1 {
		return false
	}
	sig, ok := cal.Type().(*types.Signature)
	if !ok || sig.Params().Len() != 1 || sig.Results().Len() != 1 {
		return false
	}
	if b, ok := sig.Results().At(0).Type().Underlying().(*types.Basic); !ok || b.Kind() != types.Bool {
		return false
	}
	return strings.Contains(strings.ToLower(cal.Name()), "xmlname")
}

// ---------------------------------------------------------------------------
// R18.1 element and attribute names are constants or validated

func ruleR181(c *Ctx) {
	xa := c.xmlAnchors()
	if len(xa.missing) > 0 {
		c.Undecided(strings.Join(xa.missing, ","), token.NoPos, "anchors not found")
		return
	}
	n := 0
	for _, pkg := range []*packages.Package{xa.ep} {
		info := pkg.TypesInfo
		forEachFuncBody([]*packages.Package{pkg}, func(_ *packages.Package, fn ast.Node, body *ast.BlockStmt) {
			inspectNoLit(body, func(x ast.Node) bool {
				call, ok := x.(*ast.CallExpr)
				if !ok {
					return true
				}
				pos := ""
				switch {
				case isCallTo(info, call, xa.open):
					pos = "element name"
				case isCallTo(info, call, xa.attr):
					pos = "attribute name"
				default:
					return true
				}
				n++
				arg := call.Args[0]
				key := fmt.Sprintf("%s#%s[%d]", c.FuncName(fn)+litSuffix(c, fn), strings.ReplaceAll(pos, " ", "-"), ordinalIn(fn, call, func(y ast.Node) bool {
					cc, ok := y.(*ast.CallExpr)
					return ok && (isCallTo(info, cc, xa.open) || isCallTo(info, cc, xa.attr))
				}))
				if info.Types[arg].Value != nil {
					c.OK(key, call.Pos(), "%s is the constant %s", pos, nodeStr(c.Fset, arg))
					return true
				}
				// a parameter whose call sites all pass constants
				if id, ok := ast.Unparen(arg).(*ast.Ident); ok {
					if fd, isDecl := fn.(*ast.FuncDecl); isDecl {
						pi := -1
						i := 0
						for _, f := range fd.Type.Params.List {
							for _, nm := range f.Names {
								if info.Defs[nm] == info.ObjectOf(id) {
									pi = i
								}
								i++
							}
						}
						if pi >= 0 {
							fobj, _ := info.Defs[fd.Name].(*types.Func)
							allConst, sites := true, 0
							for _, f := range pkg.Syntax {
								ast.Inspect(f, func(y ast.Node) bool {
									cc, ok := y.(*ast.CallExpr)
									if ok && fobj != nil && Callee(info, cc) == fobj.Origin() && pi < len(cc.Args) {
										sites++
										if info.Types[cc.Args[pi]].Value == nil {
											allConst = false
										}
									}
									return true
								})
							}
							if allConst && sites > 0 {
								c.OK(key, call.Pos(), "%s is a parameter that all %d call sites fill with a constant", pos, sites)
								return true
							}
							// a private helper whose call sites all validate what they pass
							if sites > 0 && !fd.Name.IsExported() {
								allValidated := true
								for _, f := range pkg.Syntax {
									ast.Inspect(f, func(y ast.Node) bool {
										cc, ok := y.(*ast.CallExpr)
										if !ok || fobj == nil || Callee(info, cc) != fobj.Origin() || pi >= len(cc.Args) {
											return true
										}
										if info.Types[cc.Args[pi]].Value != nil {
											return true
										}
										v := false
										for _, gd := range c.GuardsDeep(cc) {
											if vc, ok := ast.Unparen(gd.Cond).(*ast.CallExpr); ok && gd.Val && c.isNameValidatorCall(info, vc) {
												if nodeStr(c.Fset, vc.Args[0]) == nodeStr(c.Fset, cc.Args[pi]) {
													v = true
												}
											}
										}
										if !v {
											allValidated = false
										}
										return true
									})
								}
								if allValidated {
									c.OK(key, call.Pos(), "%s is a parameter of a private helper; every call site passes a constant or a name it has checked with the XML name validator", pos)
									return true
								}
							}
						}
					}
				}
				// validated on every path
				validated := false
				for _, gd := range c.GuardsDeep(call) {
					if vc, ok := ast.Unparen(gd.Cond).(*ast.CallExpr); ok && gd.Val && c.isNameValidatorCall(info, vc) {
						if nodeStr(c.Fset, vc.Args[0]) == nodeStr(c.Fset, arg) {
							validated = true
						}
					}
				}
				if validated {
					c.OK(key, call.Pos(), "%s %s was checked by the XML name validator on every path", pos, nodeStr(c.Fset, arg))
				} else {
					c.Violation(key, call.Pos(), "the %s %s is neither a constant nor validated as an XML name, and names are written without escaping: content of the exported value (a map key, a style, a file name) can open elements or add attributes", pos, nodeStr(c.Fset, arg))
				}
				return true
			})
		})
	}
	if n < 30 {
		c.Undecided("value/export#name-positions", token.NoPos, "only %d Open/Attr calls found", n)
	}

	// the map exporter: 'simple' (attribute form) implies every key passed the validator that guards Attr
	info := xa.ep.TypesInfo
	key := "value/export.isSimpleMap#keys-validated"
	fd := c.FuncDecl(xa.ep, "", "isSimpleMap")
	if fd == nil {
		c.Undecided(key, token.NoPos, "isSimpleMap not found")
		return
	}
	ok := false
	ast.Inspect(fd.Body, func(x ast.Node) bool {
		as, isAs := x.(*ast.AssignStmt)
		if !isAs || len(as.Rhs) != 1 {
			return true
		}
		if tv := info.Types[as.Rhs[0]]; tv.Value == nil || tv.Value.Kind() != constant.Bool || constant.BoolVal(tv.Value) {
			return true
		}
		for _, gd := range c.GuardsDeep(as) {
			if vc, isCall := ast.Unparen(gd.Cond).(*ast.CallExpr); isCall && !gd.Val && c.isNameValidatorCall(info, vc) {
				ok = true
			}
			// a predicate of the package that is false whenever the validator is: every return of it has the validator's
			// answer as a conjunct (directly or through a local that is assigned once)
			if hc, isCall := ast.Unparen(gd.Cond).(*ast.CallExpr); isCall && !gd.Val && !ok {
				if cal := Callee(info, hc); cal != nil && cal.Pkg() == xa.ep.Types {
					if hd := findFuncDecl(xa.ep, cal); hd != nil && hd.Body != nil {
						all, nRet := true, 0
						inspectNoLit(hd.Body, func(y ast.Node) bool {
							r, isRet := y.(*ast.ReturnStmt)
							if !isRet || len(r.Results) != 1 {
								return true
							}
							nRet++
							var cs []ast.Expr
							conjuncts(r.Results[0], &cs)
							has := false
							for _, cj := range cs {
								e := ast.Unparen(cj)
								if id, isID := e.(*ast.Ident); isID {
									if v, isVar := info.ObjectOf(id).(*types.Var); isVar {
										if rhs, has2 := singleDefExpr[v]; has2 {
											e = ast.Unparen(rhs)
										}
									}
								}
								if vc, isCall := e.(*ast.CallExpr); isCall && c.isNameValidatorCall(info, vc) {
									has = true
								}
							}
							if !has {
								all = false
							}
							return true
						})
						if all && nRet > 0 {
							ok = true
						}
					}
				}
			}
		}
		return true
	})
	c.Check(ok, key, fd.Pos(), "a map is exported in attribute form only if every key passed the XML name validator", "isSimpleMap does not test the keys with the XML name validator: in a map with one key that is no name, attributes and <entry> children are mixed in one element; the attribute writer silently drops every attribute that comes after the first child (keys of the map are lost)")
}

// ---------------------------------------------------------------------------
// R18.2 raw sinks

func ruleR182(c *Ctx) {
	xa := c.xmlAnchors()
	if len(xa.missing) > 0 {
		c.Undecided(strings.Join(xa.missing, ","), token.NoPos, "anchors not found")
		return
	}
	n := 0
	// (a) WriteHTML outside the writer: constants or the result of the host's custom renderer
	info := xa.ep.TypesInfo
	forEachFuncBody([]*packages.Package{xa.ep}, func(_ *packages.Package, fn ast.Node, body *ast.BlockStmt) {
		inspectNoLit(body, func(x ast.Node) bool {
			call, ok := x.(*ast.CallExpr)
			if !ok || !isCallTo(info, call, xa.wHTML) {
				return true
			}
			n++
			key := fmt.Sprintf("%s#WriteHTML[%d]", c.FuncName(fn), n)
			arg := ast.Unparen(call.Args[0])
			if info.Types[arg].Value != nil {
				c.OK(key, call.Pos(), "constant markup")
				return true
			}
			if id, ok := arg.(*ast.Ident); ok {
				if as, i := definingAssign(info, fn, info.ObjectOf(id)); as != nil && i == 0 && len(as.Rhs) == 1 {
					if cc, ok := ast.Unparen(as.Rhs[0]).(*ast.CallExpr); ok {
						if sel, ok := ast.Unparen(cc.Fun).(*ast.SelectorExpr); ok && isNamed(info.TypeOf(sel), modPath+"/value/export", "CustomHTML") {
							c.OK(key, call.Pos(), "markup produced by the host's custom renderer")
							return true
						}
					}
				}
			}
			c.Violation(key, call.Pos(), "WriteHTML writes %s without escaping, and it is neither a constant nor the result of the host's custom renderer: text taken from the value is emitted as markup", nodeStr(c.Fset, arg))
			return true
		})
	})
	// (b) inside the writer: the unescaped write helper and direct buffer writes get constants, tag names or escaper output
	winfo := xa.wp.TypesInfo
	writeHelper := LookupMethod(xa.wp, "XMLWriter", "write")
	for _, f := range xa.wp.Syntax {
		for _, d := range f.Decls {
			fd, ok := d.(*ast.FuncDecl)
			if !ok || fd.Body == nil {
				continue
			}
			ast.Inspect(fd.Body, func(x ast.Node) bool {
				call, ok := x.(*ast.CallExpr)
				if !ok {
					return true
				}
				raw := false
				if writeHelper != nil && isCallTo(winfo, call, writeHelper) {
					raw = true
				}
				if sel, ok := ast.Unparen(call.Fun).(*ast.SelectorExpr); ok && infallibleReceiver(winfo.TypeOf(sel.X)) && strings.HasPrefix(sel.Sel.Name, "Write") {
					raw = true
				}
				if !raw || len(call.Args) != 1 {
					return true
				}
				n++
				key := fmt.Sprintf("%s#raw-write[%d]", declName(xa.wp, fd), ordinalIn(fd, call, func(y ast.Node) bool { _, ok := y.(*ast.CallExpr); return ok }))
				arg := ast.Unparen(call.Args[0])
				switch {
				case winfo.Types[arg].Value != nil:
					c.OK(key, call.Pos(), "constant")
				case fd.Name.Name == "writeEsc" || fd.Name.Name == "write":
					c.OK(key, call.Pos(), "inside the escaper / the raw helper itself")
				case fd.Name.Name == "WriteHTML":
					c.OK(key, call.Pos(), "the documented raw sink (its callers are checked)")
				case fd.Name.Name == "Open" || fd.Name.Name == "Close" || fd.Name.Name == "Attr":
					// names: tag / key parameters (checked at the call sites by R18.1) or the stack of open tags
					c.OK(key, call.Pos(), "an element/attribute name (R18.1 checks the callers)")
				default:
					c.Violation(key, call.Pos(), "%s writes %s into the document without escaping", declName(xa.wp, fd), nodeStr(c.Fset, arg))
				}
				return true
			})
		}
	}
	if n < 10 {
		c.Undecided("value/export#raw-sinks", token.NoPos, "only %d raw writes found", n)
	}
	// Attr writes its value through the escaper
	key := "value/export/xmlWriter.XMLWriter.Attr#value-escaped"
	if fd := c.FuncDecl(xa.wp, "XMLWriter", "Attr"); fd != nil {
		esc := LookupMethod(xa.wp, "XMLWriter", "writeEsc")
		valueParam := paramKeyOf(winfo, fd, 1)
		ok := false
		ctxWrong := false
		ast.Inspect(fd.Body, func(x ast.Node) bool {
			if call, isCall := x.(*ast.CallExpr); isCall && esc != nil && isCallTo(winfo, call, esc) && len(call.Args) >= 1 {
				if k, _ := exprKey(winfo, call.Args[0]); k == valueParam {
					ok = true
					// an escaper with a context flag: Attr has to announce the attribute context
					if len(call.Args) == 2 {
						if tv := winfo.Types[call.Args[1]]; tv.Value == nil || tv.Value.Kind() != constant.Bool || !constant.BoolVal(tv.Value) {
							ctxWrong = true
						}
					}
				}
			}
			return true
		})
		if ok && ctxWrong {
			c.Violation(key, fd.Pos(), "Attr calls the escaper without announcing the attribute context: tabs and line breaks in the value are written as they are and read back as blanks")
		} else {
			c.Check(ok, key, fd.Pos(), "attribute values are written through the escaper (in attribute context)", "Attr does not write its value through the escaper: a quote in a string of the value ends the attribute")
		}
	}
	if fd := c.FuncDecl(xa.wp, "XMLWriter", "Write"); fd != nil {
		esc := LookupMethod(xa.wp, "XMLWriter", "writeEsc")
		ok := containsNode(fd.Body, func(x ast.Node) bool {
			call, isCall := x.(*ast.CallExpr)
			return isCall && esc != nil && isCallTo(winfo, call, esc)
		})
		c.Check(ok, "value/export/xmlWriter.XMLWriter.Write#text-escaped", fd.Pos(), "character data is written through the escaper", "Write does not escape character data")
	}
}

// ---------------------------------------------------------------------------
// R18.3 the XML escaper

func ruleR183(c *Ctx) {
	xa := c.xmlAnchors()
	if len(xa.missing) > 0 {
		c.Undecided(strings.Join(xa.missing, ","), token.NoPos, "anchors not found")
		return
	}
	fd := c.FuncDecl(xa.wp, "XMLWriter", "writeEsc")
	key := "value/export/xmlWriter.XMLWriter.writeEsc#escaper"
	if fd == nil {
		c.Undecided(key, token.NoPos, "not found")
		return
	}
	want := map[rune][]string{'<': {"&lt;", "&#60;", "&#x3c;", "&#x3C;"}, '>': {"&gt;", "&#62;", "&#x3e;", "&#x3E;"}, '&': {"&amp;", "&#38;", "&#x26;"}, '\'': {"&apos;", "&#39;", "&#x27;"}, '"': {"&quot;", "&#34;", "&#x22;"}}
	// characters a parser does not hand back as written: CR everywhere (line end normalisation), TAB and LF in
	// attribute values (attribute value normalisation) - they have to be character references
	refs := map[rune][]string{'\r': {"&#xD;", "&#xd;", "&#13;"}, '\n': {"&#xA;", "&#xa;", "&#10;"}, '\t': {"&#x9;", "&#9;"}}
	// contexts: the boolean parameter of the escaper (attribute or character data), if it has one
	info := xa.wp.TypesInfo
	var flag types.Object
	for _, f := range fd.Type.Params.List {
		for _, nm := range f.Names {
			if bt, ok := info.TypeOf(nm).Underlying().(*types.Basic); ok && bt.Kind() == types.Bool {
				flag = info.Defs[nm]
			}
		}
	}
	type ctxT struct {
		name  string
		bools map[types.Object]bool
		attr  bool
	}
	contexts := []ctxT{{"attribute values and character data", nil, true}}
	if flag != nil {
		contexts = []ctxT{{"attribute values", map[types.Object]bool{flag: true}, true}, {"character data", map[types.Object]bool{flag: false}, false}}
	}
	var problems []string
	n := 0
	samples := []rune{'<', '>', '&', '\'', '"', '\t', '\n', '\r', 'a', ' ', '=', ']', 0xe4, 0x2028, 0xd7ff, 0xe000, 0xfffd, 0x10000, 0x1f600, 0x10ffff}
	// every code point the escaper (or a function of the package it calls) mentions as a constant is a sample as well:
	// a new entry of the escape table is evaluated whatever character it is for
	{
		seen := map[rune]bool{}
		for _, r := range samples {
			seen[r] = true
		}
		bodies := []ast.Node{fd.Body}
		ast.Inspect(fd.Body, func(x ast.Node) bool {
			if call, ok := x.(*ast.CallExpr); ok {
				if cal := Callee(info, call); cal != nil && cal.Pkg() == xa.wp.Types {
					if hd := findFuncDecl(xa.wp, cal); hd != nil && hd.Body != nil && hd != fd {
						bodies = append(bodies, hd.Body)
					}
				}
			}
			return true
		})
		for _, b := range bodies {
			ast.Inspect(b, func(x ast.Node) bool {
				e, ok := x.(ast.Expr)
				if !ok {
					return true
				}
				tv := info.Types[e]
				if tv.Value == nil || tv.Value.Kind() != constant.Int {
					return true
				}
				if bt, ok := tv.Type.Underlying().(*types.Basic); !ok || (bt.Kind() != types.Int32 && bt.Kind() != types.UntypedRune) {
					return true
				}
				if v, ok := constant.Int64Val(tv.Value); ok && v > 0 && v <= 0x10ffff && !seen[rune(v)] && len(samples) < 200 {
					seen[rune(v)] = true
					samples = append(samples, rune(v))
				}
				return true
			})
		}
	}
	for _, cx := range contexts {
		for _, r := range samples {
			sinks, ok := c.escaperSinksCtx(xa.wp, fd, r, cx.bools)
			if !ok {
				c.Undecided(key, fd.Pos(), "loop over the runes not found")
				return
			}
			n++
			if len(sinks) == 0 {
				problems = append(problems, fmt.Sprintf("%q is dropped", r))
			}
			ents, special := want[r]
			if rf, isRef := refs[r]; isRef {
				if r == '\r' || cx.attr {
					ents, special = rf, true
				} else {
					// TAB and LF in character data: as written or as a reference
					ents, special = nil, false
					for _, s := range sinks {
						if s.kind == "const" {
							for _, e := range rf {
								if s.text == e {
									s.kind = "raw"
								}
							}
						}
					}
				}
			}
			for _, s := range sinks {
				if special {
					okEnt := false
					if s.kind == "const" {
						for _, e := range ents {
							if s.text == e {
								okEnt = true
							}
						}
					}
					if !okEnt {
						if s.kind == "raw" {
							problems = append(problems, fmt.Sprintf("in %s %q can be written raw (%s)", cx.name, r, c.posStr(s.pos)))
						} else {
							problems = append(problems, fmt.Sprintf("in %s %q is written as %q", cx.name, r, s.text))
						}
					}
				} else if s.kind != "raw" && !(s.kind == "const" && s.text == string(r)) {
					isRef := false
					for _, e := range refs[r] {
						if s.text == e {
							isRef = true
						}
					}
					if !isRef {
						problems = append(problems, fmt.Sprintf("the ordinary character %q is written as %q", r, s.text))
					}
				}
			}
		}
	}
	sort.Strings(problems)
	c.Check(len(problems) == 0, key, fd.Pos(), fmt.Sprintf("abstract evaluation for %d (context, code point) pairs: < > & ' \" always become their entities, CR (and TAB, LF in attribute values) character references, other characters are written unchanged", n), "the XML escaper lets markup characters through or writes characters a parser does not hand back: "+strings.Join(problems, "; "))
}

// ---------------------------------------------------------------------------
// R18.4 elements are balanced

type depthWalker struct {
	c          *Ctx
	info       *types.Info
	delta      func(call *ast.CallExpr) (int, bool) // effect of a call on the element depth
	top        bool
	lazy       map[types.Object]int
	lazyClosed []types.Object
}

// nilTest recognises x == nil / x != nil.
func nilTest(info *types.Info, cond ast.Expr) (types.Object, bool, bool) {
	be, ok := ast.Unparen(cond).(*ast.BinaryExpr)
	if !ok || (be.Op != token.EQL && be.Op != token.NEQ) {
		return nil, false, false
	}
	id, ok := ast.Unparen(be.X).(*ast.Ident)
	if !ok {
		return nil, false, false
	}
	if y, ok := ast.Unparen(be.Y).(*ast.Ident); !ok || y.Name != "nil" {
		return nil, false, false
	}
	return info.ObjectOf(id), be.Op == token.EQL, true
}

func assignsVar(info *types.Info, body ast.Node, v types.Object) bool {
	return containsNode(body, func(n ast.Node) bool {
		as, ok := n.(*ast.AssignStmt)
		if !ok {
			return false
		}
		for _, l := range as.Lhs {
			if id, ok := l.(*ast.Ident); ok && info.ObjectOf(id) == v {
				return true
			}
		}
		return false
	})
}

type dwState struct {
	d    int
	top  bool
	dead bool
}

func (w *depthWalker) expr(e ast.Node, st *dwState) {
	if e == nil {
		return
	}
	var calls []*ast.CallExpr
	ast.Inspect(e, func(n ast.Node) bool {
		if _, ok := n.(*ast.FuncLit); ok {
			return false
		}
		if call, ok := n.(*ast.CallExpr); ok {
			calls = append(calls, call)
		}
		return true
	})
	// evaluation order: inner (receiver chains) first = by end position
	sort.SliceStable(calls, func(i, j int) bool { return calls[i].End() < calls[j].End() })
	for _, call := range calls {
		if d, ok := w.delta(call); ok {
			st.d += d
		}
	}
}

func dwJoin(a, b dwState) dwState {
	if a.dead {
		return b
	}
	if b.dead {
		return a
	}
	if a.top || b.top || a.d != b.d {
		return dwState{top: true}
	}
	return a
}

func (w *depthWalker) stmts(list []ast.Stmt, st *dwState, onReturn func(r *ast.ReturnStmt, st dwState)) {
	for _, s := range list {
		if st.dead {
			return
		}
		switch t := s.(type) {
		case *ast.ExprStmt:
			w.expr(t.X, st)
		case *ast.AssignStmt:
			for _, r := range t.Rhs {
				w.expr(r, st)
			}
		case *ast.DeclStmt:
			w.expr(t, st)
		case *ast.ReturnStmt:
			for _, r := range t.Results {
				w.expr(r, st)
			}
			onReturn(t, *st)
			st.dead = true
		case *ast.BranchStmt:
			st.dead = true
		case *ast.BlockStmt:
			w.stmts(t.List, st, onReturn)
		case *ast.IfStmt:
			if t.Init != nil {
				w.stmts([]ast.Stmt{t.Init}, st, onReturn)
			}
			w.expr(t.Cond, st)
			// the lazy open idiom: `if x == nil { x = ...; x.open() }` ... `if x != nil { x.close() }`
			if v, isNil, ok := nilTest(w.info, t.Cond); ok && t.Else == nil {
				inner := dwState{}
				w.stmts(t.Body.List, &inner, onReturn)
				if isNil && !inner.top && !inner.dead && inner.d == 1 && assignsVar(w.info, t.Body, v) {
					if w.lazy == nil {
						w.lazy = map[types.Object]int{}
					}
					w.lazy[v]++
					continue
				}
				if !isNil && !inner.top && !inner.dead && inner.d == -1 && w.lazy[v] > 0 {
					w.lazyClosed = append(w.lazyClosed, v)
					continue
				}
			}
			a := *st
			w.stmts(t.Body.List, &a, onReturn)
			b := *st
			if t.Else != nil {
				w.stmts([]ast.Stmt{t.Else}, &b, onReturn)
			}
			*st = dwJoin(a, b)
		case *ast.ForStmt, *ast.RangeStmt:
			var body *ast.BlockStmt
			if f, ok := t.(*ast.ForStmt); ok {
				body = f.Body
			} else {
				r := t.(*ast.RangeStmt)
				w.expr(r.X, st)
				body = r.Body
			}
			inner := *st
			w.stmts(body.List, &inner, onReturn)
			if !inner.dead && (inner.top || inner.d != st.d) {
				st.top = true
			}
		case *ast.SwitchStmt:
			if t.Init != nil {
				w.stmts([]ast.Stmt{t.Init}, st, onReturn)
			}
			w.clauses(t.Body, st, onReturn)
		case *ast.TypeSwitchStmt:
			w.clauses(t.Body, st, onReturn)
		case *ast.DeferStmt:
			// handled by the caller (applies at every exit)
		case *ast.LabeledStmt:
			w.stmts([]ast.Stmt{t.Stmt}, st, onReturn)
		}
	}
}

func (w *depthWalker) clauses(body *ast.BlockStmt, st *dwState, onReturn func(r *ast.ReturnStmt, st dwState)) {
	res := dwState{dead: true}
	hasDefault := false
	for _, cl := range body.List {
		cc, ok := cl.(*ast.CaseClause)
		if !ok {
			continue
		}
		if cc.List == nil {
			hasDefault = true
		}
		s := *st
		w.stmts(cc.Body, &s, onReturn)
		res = dwJoin(res, s)
	}
	if !hasDefault {
		res = dwJoin(res, *st)
	}
	*st = res
}

func ruleR184(c *Ctx) {
	xa := c.xmlAnchors()
	if len(xa.missing) > 0 {
		c.Undecided(strings.Join(xa.missing, ","), token.NoPos, "anchors not found")
		return
	}
	info := xa.ep.TypesInfo
	// functions of the export package and their expected net effect by role
	type fnInfo struct {
		fd   *ast.FuncDecl
		want int
		net  *int
	}
	fns := map[*types.Func]*fnInfo{}
	byMethodName := map[string][]*fnInfo{}
	for _, f := range xa.ep.Syntax {
		for _, d := range f.Decls {
			fd, ok := d.(*ast.FuncDecl)
			if !ok || fd.Body == nil {
				continue
			}
			obj, _ := info.Defs[fd.Name].(*types.Func)
			if obj == nil {
				continue
			}
			want := 0
			switch fd.Name.Name {
			case "Open", "open", "openWithStyle":
				want = 1
			case "Close", "close":
				want = -1
			}
			fi := &fnInfo{fd: fd, want: want}
			fns[obj.Origin()] = fi
			if fd.Recv != nil {
				byMethodName[fd.Name.Name] = append(byMethodName[fd.Name.Name], fi)
			}
		}
	}
	// lazy holders: a struct of the package that keeps an exporter in a field, with one method that creates and opens it
	// on first use (if h.f == nil { h.f = …; h.f.open(…) }) and one that closes it if it was created
	// (if h.f != nil { h.f.close() }). The two methods are balanced as a pair; each has no net effect of its own that a
	// caller could count. Callers have to call the closer on every success path behind a use of the opener.
	fieldNilTest := func(cond ast.Expr, recv types.Object) (string, bool, bool) {
		be, ok := ast.Unparen(cond).(*ast.BinaryExpr)
		if !ok || (be.Op != token.EQL && be.Op != token.NEQ) {
			return "", false, false
		}
		if y, ok := ast.Unparen(be.Y).(*ast.Ident); !ok || y.Name != "nil" {
			return "", false, false
		}
		sel, ok := ast.Unparen(be.X).(*ast.SelectorExpr)
		if !ok {
			return "", false, false
		}
		if id, ok := ast.Unparen(sel.X).(*ast.Ident); !ok || info.ObjectOf(id) != recv {
			return "", false, false
		}
		return sel.Sel.Name, be.Op == token.EQL, true
	}
	type holder struct{ opener, closer *types.Func }
	holders := map[string]*holder{}
	for obj, fi := range fns {
		fd := fi.fd
		if fd.Recv == nil || len(fd.Recv.List[0].Names) != 1 {
			continue
		}
		recv := info.Defs[fd.Recv.List[0].Names[0]]
		tname := recvTypeName(fd.Recv.List[0].Type)
		for _, st := range fd.Body.List {
			ifs, ok := st.(*ast.IfStmt)
			if !ok || ifs.Else != nil {
				continue
			}
			field, isNil, ok := fieldNilTest(ifs.Cond, recv)
			if !ok {
				continue
			}
			opens := containsNode(ifs.Body, func(y ast.Node) bool {
				cc, ok := y.(*ast.CallExpr)
				if !ok {
					return false
				}
				sel, ok := ast.Unparen(cc.Fun).(*ast.SelectorExpr)
				return ok && (sel.Sel.Name == "open" || sel.Sel.Name == "Open") && strings.HasSuffix(nodeStr(c.Fset, sel.X), "."+field)
			})
			closes := containsNode(ifs.Body, func(y ast.Node) bool {
				cc, ok := y.(*ast.CallExpr)
				if !ok {
					return false
				}
				sel, ok := ast.Unparen(cc.Fun).(*ast.SelectorExpr)
				return ok && (sel.Sel.Name == "close" || sel.Sel.Name == "Close") && strings.HasSuffix(nodeStr(c.Fset, sel.X), "."+field)
			})
			if holders[tname] == nil {
				holders[tname] = &holder{}
			}
			if isNil && opens {
				holders[tname].opener = obj
			}
			if !isNil && closes && len(fd.Body.List) == 1 {
				holders[tname].closer = obj
			}
		}
	}
	holderMethod := map[*types.Func]string{}
	for tname, h := range holders {
		if h.opener != nil && h.closer != nil {
			holderMethod[h.opener] = "opener of " + tname
			holderMethod[h.closer] = "closer of " + tname
			fns[h.opener].want = 0
			fns[h.closer].want = 0
		}
	}
	usesWriter := func(fd *ast.FuncDecl) bool {
		return containsNodeDeep(fd.Body, func(x ast.Node) bool {
			call, ok := x.(*ast.CallExpr)
			return ok && (isCallTo(info, call, xa.open) || isCallTo(info, call, xa.close))
		})
	}
	delta := func(call *ast.CallExpr) (int, bool) {
		if isCallTo(info, call, xa.open) {
			return 1, true
		}
		if isCallTo(info, call, xa.close) {
			return -1, true
		}
		cal := Callee(info, call)
		if cal == nil {
			return 0, false
		}
		if fi, ok := fns[cal]; ok {
			return fi.want, fi.want != 0
		}
		// interface methods: by name (open/close pairs of the list exporters)
		if sig, ok := cal.Type().(*types.Signature); ok && sig.Recv() != nil {
			if _, isIface := sig.Recv().Type().Underlying().(*types.Interface); isIface {
				switch cal.Name() {
				case "Open", "open":
					return 1, true
				case "Close", "close":
					return -1, true
				}
			}
		}
		return 0, false
	}
	n := 0
	var names []*types.Func
	for f := range fns {
		names = append(names, f)
	}
	sort.Slice(names, func(i, j int) bool { return fns[names[i]].fd.Pos() < fns[names[j]].fd.Pos() })
	for _, f := range names {
		fi := fns[f]
		fd := fi.fd
		callsBalanced := containsNodeDeep(fd.Body, func(x ast.Node) bool {
			call, ok := x.(*ast.CallExpr)
			if !ok {
				return false
			}
			_, has := delta(call)
			return has
		})
		if !usesWriter(fd) && !callsBalanced {
			continue
		}
		n++
		key := declName(xa.ep, fd) + "#element-balance"
		if role, ok := holderMethod[f]; ok {
			c.OK(key, fd.Pos(), "%s: opens lazily on first use / closes only what was opened; balanced as a pair, the callers are checked for calling the closer", role)
			continue
		}
		// callers of a lazy holder: behind a use of the opener every success exit passes the closer
		{
			var problem string
			g := c.CFG(fd)
			ast.Inspect(fd.Body, func(x ast.Node) bool {
				call, ok := x.(*ast.CallExpr)
				if !ok || problem != "" {
					return true
				}
				cal := Callee(info, call)
				if cal == nil || !strings.HasPrefix(holderMethod[cal], "opener") {
					return true
				}
				sel, ok := ast.Unparen(call.Fun).(*ast.SelectorExpr)
				if !ok {
					return true
				}
				hv := nodeStr(c.Fset, sel.X)
				isCloser := func(y ast.Node) bool {
					return containsNodeDeep(y, func(z ast.Node) bool {
						cc, ok := z.(*ast.CallExpr)
						if !ok {
							return false
						}
						ccal := Callee(info, cc)
						if ccal == nil || !strings.HasPrefix(holderMethod[ccal], "closer") {
							return false
						}
						cs, ok := ast.Unparen(cc.Fun).(*ast.SelectorExpr)
						return ok && nodeStr(c.Fset, cs.X) == hv
					})
				}
				isSuccess := func(y ast.Node) bool {
					r, ok := y.(*ast.ReturnStmt)
					if !ok || len(r.Results) == 0 {
						return ok
					}
					id, ok := ast.Unparen(r.Results[len(r.Results)-1]).(*ast.Ident)
					return ok && id.Name == "nil"
				}
				if g != nil && c.EnclosingFunc(call) == ast.Node(fd) {
					if found, _ := g.PathAvoiding(call, isSuccess, isCloser); found {
						problem = fmt.Sprintf("the element that %s opens lazily (line %d) is not closed on a path to a successful return", hv, c.Fset.Position(call.Pos()).Line)
					}
				}
				return true
			})
			if problem != "" {
				c.Violation(key, fd.Pos(), "the function does not open and close elements in balance (%s): the exported markup is not well formed", problem)
				continue
			}
		}
		w := &depthWalker{c: c, info: info, delta: delta}
		// deferred Close applies at every exit
		deferred := 0
		for _, s := range fd.Body.List {
			if ds, ok := s.(*ast.DeferStmt); ok {
				if d, ok := delta(ds.Call); ok {
					deferred += d
				}
			}
		}
		var bad []string
		check := func(pos token.Pos, st dwState, isErr bool) {
			if isErr {
				return
			}
			if st.top {
				bad = append(bad, fmt.Sprintf("the depth is not constant at %s", c.posStr(pos)))
			} else if st.d+deferred != fi.want {
				bad = append(bad, fmt.Sprintf("net depth %+d instead of %+d at %s", st.d+deferred, fi.want, c.posStr(pos)))
			}
		}
		g := c.CFG(fd)
		st := dwState{}
		w.stmts(fd.Body.List, &st, func(r *ast.ReturnStmt, s dwState) {
			// error exits may leave elements open (the document is discarded)
			isErr := false
			if len(r.Results) > 0 {
				last := ast.Unparen(r.Results[len(r.Results)-1])
				if isErrorType(info.TypeOf(last)) {
					if id, ok := last.(*ast.Ident); !ok || id.Name != "nil" {
						// returning an error variable: an error exit if it is known non-nil, or unknown
						isErr = true
						if ok {
							for _, gd := range g.Guards(r) {
								if gd.Synth {
									continue // "err != nil" was false for an earlier value of err
								}
								if be, ok := ast.Unparen(gd.Cond).(*ast.BinaryExpr); ok && be.Op == token.EQL && gd.Val {
									if eid, ok := ast.Unparen(be.X).(*ast.Ident); ok && eid.Name == id.Name {
										isErr = false
									}
								}
							}
							// `return err` as the last statement forwards both outcomes: treat as success path too
							if r == fd.Body.List[len(fd.Body.List)-1] {
								isErr = false
							}
						}
					}
				}
			}
			check(r.Pos(), s, isErr)
		})
		if !st.dead {
			check(fd.Body.Rbrace, st, false)
		}
		for v, cnt := range w.lazy {
			closed := 0
			for _, cv := range w.lazyClosed {
				if cv == v {
					closed++
				}
			}
			if closed < cnt {
				bad = append(bad, fmt.Sprintf("the element opened lazily for %s is never closed", v.Name()))
			}
		}
		if len(bad) == 0 {
			c.OK(key, fd.Pos(), "on every path that does not fail the function changes the element depth by %+d", fi.want)
		} else {
			c.Violation(key, fd.Pos(), "the function does not open and close elements in balance (%s): the exported markup is not well formed", strings.Join(bad, "; "))
		}
	}
	if n < 10 {
		c.Undecided("value/export#balanced-functions", token.NoPos, "only %d functions that open or close elements found", n)
	}
}

// ---------------------------------------------------------------------------
// R18.5 ToHtml contains panics

func ruleR185(c *Ctx) {
	xa := c.xmlAnchors()
	if len(xa.missing) > 0 {
		c.Undecided(strings.Join(xa.missing, ","), token.NoPos, "anchors not found")
		return
	}
	fd := c.FuncDecl(xa.ep, "", "ToHtml")
	key := "value/export.ToHtml#recover"
	if fd == nil {
		c.Undecided(key, token.NoPos, "not found")
		return
	}
	info := xa.ep.TypesInfo
	ok := c.startsWithRecoveringDefer(xa.ep, fd.Body)
	// the deferred function sets the named error result
	setsErr := false
	if ok {
		d := fd.Body.List[0]
		for _, s := range fd.Body.List {
			if ds, isDefer := s.(*ast.DeferStmt); isDefer {
				d = ds
				break
			}
		}
		ast.Inspect(d, func(x ast.Node) bool {
			if as, isAs := x.(*ast.AssignStmt); isAs {
				for _, l := range as.Lhs {
					if id, isId := ast.Unparen(l).(*ast.Ident); isId && isErrorType(info.TypeOf(id)) {
						setsErr = true
					}
					if st, isStar := ast.Unparen(l).(*ast.StarExpr); isStar && isErrorType(info.TypeOf(st)) {
						setsErr = true
					}
				}
			}
			if call, isCall := x.(*ast.CallExpr); isCall {
				for _, a := range call.Args {
					if u, isU := ast.Unparen(a).(*ast.UnaryExpr); isU && u.Op == token.AND && isErrorType(info.TypeOf(u.X)) {
						setsErr = true
					}
				}
			}
			return true
		})
	}
	c.Check(ok && setsErr, key, fd.Pos(), "ToHtml runs under a deferred function that itself calls recover() and reports the panic as its error", "ToHtml does not start with a deferred function that itself calls recover() and sets the error result: a panic in a style closure, a lazy list or the custom renderer escapes from ToHtml instead of being reported as an error")
}

// ---------------------------------------------------------------------------
// R18.6 the XML name validator accepts XML names only

// XML 1.0 (5th edition) productions [4] NameStartChar and [4a] NameChar
var xmlNameStart = rsNorm(runeSet{{':', ':'}, {'A', 'Z'}, {'_', '_'}, {'a', 'z'}, {0xC0, 0xD6}, {0xD8, 0xF6}, {0xF8, 0x2FF}, {0x370, 0x37D}, {0x37F, 0x1FFF},
	{0x200C, 0x200D}, {0x2070, 0x218F}, {0x2C00, 0x2FEF}, {0x3001, 0xD7FF}, {0xF900, 0xFDCF}, {0xFDF0, 0xFFFD}, {0x10000, 0xEFFFF}})
var xmlNameChar = rsUnion(xmlNameStart, runeSet{{'-', '-'}, {'.', '.'}, {'0', '9'}, {0xB7, 0xB7}, {0x300, 0x36F}, {0x203F, 0x2040}})

// ruleR186 computes, by value-set abstract interpretation of the validator's
// per-character condition, the exact sets of code points it accepts as first
// and as following character, and requires them to be subsets of the XML
// productions (a stricter validator is fine: rejected keys are exported in the
// <entry key="..."> form).
func ruleR186(c *Ctx) {
	ep := c.Pkg("value/export")
	if ep == nil {
		c.Undecided("package value/export", token.NoPos, "not found")
		return
	}
	info := ep.TypesInfo
	fd := c.FuncDecl(ep, "", "isXMLName")
	key := "value/export.isXMLName#accepted-characters"
	if fd == nil {
		c.Undecided(key, token.NoPos, "validator not found")
		return
	}
	// for i, r := range s { if !(COND) { return false } }   /   if COND { continue }; return false
	var rs *ast.RangeStmt
	ast.Inspect(fd.Body, func(x ast.Node) bool {
		if t, ok := x.(*ast.RangeStmt); ok && rs == nil {
			if bt, ok := info.TypeOf(t.X).Underlying().(*types.Basic); ok && bt.Info()&types.IsString != 0 {
				rs = t
			}
		}
		return true
	})
	if rs == nil || rs.Value == nil {
		c.Undecided(key, fd.Pos(), "no loop over the characters of the name")
		return
	}
	rv, _ := rs.Value.(*ast.Ident)
	var idx *ast.Ident
	if rs.Key != nil {
		idx, _ = rs.Key.(*ast.Ident)
	}
	// a flag instead of the index: first := true; for _, r := range s { if !ok(r, first) { return false }; first = false }
	var flag types.Object
	if rv != nil && len(rs.Body.List) == 2 {
		if as, ok := rs.Body.List[1].(*ast.AssignStmt); ok && as.Tok == token.ASSIGN && len(as.Lhs) == 1 && len(as.Rhs) == 1 && nodeStr(c.Fset, as.Rhs[0]) == "false" {
			if id, ok := as.Lhs[0].(*ast.Ident); ok {
				if das, di := definingAssign(info, fd, info.ObjectOf(id)); das != nil && len(das.Rhs) == len(das.Lhs) && nodeStr(c.Fset, das.Rhs[di]) == "true" && das.Pos() < rs.Pos() && countAssignments(info, fd, info.ObjectOf(id)) == 2 {
					flag = info.ObjectOf(id)
				}
			}
		}
	}
	// guard clauses: if A(r) { continue }; if i > 0 && B(r) { continue }; return false
	// are folded into the single test `if !(A(r) || i > 0 && B(r)) { return false }`
	if rv != nil && flag == nil && len(rs.Body.List) >= 2 {
		var accept ast.Expr
		okShape := true
		for k, st := range rs.Body.List {
			if k == len(rs.Body.List)-1 {
				r, ok := st.(*ast.ReturnStmt)
				if !ok || len(r.Results) != 1 || nodeStr(c.Fset, r.Results[0]) != "false" {
					okShape = false
				}
				break
			}
			gi, ok := st.(*ast.IfStmt)
			if !ok || gi.Init != nil || gi.Else != nil || len(gi.Body.List) != 1 {
				okShape = false
				break
			}
			if br, ok := gi.Body.List[0].(*ast.BranchStmt); !ok || br.Tok != token.CONTINUE || br.Label != nil {
				okShape = false
				break
			}
			if accept == nil {
				accept = gi.Cond
			} else {
				accept = &ast.BinaryExpr{X: accept, Op: token.LOR, Y: &ast.ParenExpr{X: gi.Cond}}
			}
		}
		if okShape && accept != nil {
			last := rs.Body.List[len(rs.Body.List)-1].(*ast.ReturnStmt)
			rs = &ast.RangeStmt{For: rs.For, Key: rs.Key, Value: rs.Value, Tok: rs.Tok, X: rs.X, Body: &ast.BlockStmt{List: []ast.Stmt{
				&ast.IfStmt{If: rs.Body.Pos(), Cond: &ast.UnaryExpr{Op: token.NOT, X: &ast.ParenExpr{X: accept}}, Body: &ast.BlockStmt{List: []ast.Stmt{last}}},
			}}}
		}
	}
	if rv == nil || (len(rs.Body.List) != 1 && flag == nil) {
		c.Undecided(key, rs.Pos(), "loop body is not a single test")
		return
	}
	ifs, ok := rs.Body.List[0].(*ast.IfStmt)
	if !ok || ifs.Init != nil || ifs.Else != nil || len(ifs.Body.List) != 1 {
		c.Undecided(key, rs.Pos(), "loop body is not a single test")
		return
	}
	ret, ok := ifs.Body.List[0].(*ast.ReturnStmt)
	if !ok || len(ret.Results) != 1 || nodeStr(c.Fset, ret.Results[0]) != "false" {
		c.Undecided(key, ifs.Pos(), "the test does not reject the name")
		return
	}
	// the function must accept only at its end: every other return is `false`
	onlyFalse := true
	nTrue := 0
	inspectNoLit(fd.Body, func(x ast.Node) bool {
		if r, ok := x.(*ast.ReturnStmt); ok && len(r.Results) == 1 {
			switch nodeStr(c.Fset, r.Results[0]) {
			case "false":
			case "true":
				nTrue++
				if r != fd.Body.List[len(fd.Body.List)-1] {
					onlyFalse = false
				}
			default:
				onlyFalse = false
			}
		}
		return true
	})
	if !onlyFalse || nTrue != 1 {
		c.Undecided(key, fd.Pos(), "the validator accepts a name elsewhere than behind the character loop")
		return
	}
	reject := ifs.Cond // name rejected if true for some character
	sets := map[string]runeSet{}
	for _, first := range []bool{true, false} {
		assume := map[string]bool{}
		if idx != nil {
			assume[idx.Name+" > 0"] = !first
			assume[idx.Name+" == 0"] = first
			assume[idx.Name+" != 0"] = !first
			assume[idx.Name+" >= 1"] = !first
			assume["0 < "+idx.Name] = !first
			assume[idx.Name+" >= 0"] = true
			assume[idx.Name+" < 0"] = false
		}
		if flag != nil {
			assume[flag.Name()] = first
		}
		p := &runePred{c: c, pkg: ep, v: info.ObjectOf(rv), assume: assume}
		rejected := p.eval(reject)
		if p.fail != "" {
			c.Undecided(key, ifs.Pos(), "the per character condition contains %s, which the value-set analysis does not model", p.fail)
			return
		}
		name := "following"
		if first {
			name = "first"
		}
		sets[name] = rsComplement(rejected)
	}
	colon := runeSet{{':', ':'}}
	badFirst := rsMinus(sets["first"], rsMinus(xmlNameStart, colon))
	badFollow := rsMinus(sets["following"], rsMinus(xmlNameChar, colon))
	if len(badFirst) == 0 && len(badFollow) == 0 {
		c.OK(key, fd.Pos(), "accepted first characters (%d intervals) are a subset of XML NameStartChar without ':', accepted following characters (%d intervals) a subset of NameChar without ':'", len(sets["first"]), len(sets["following"]))
	} else {
		msg := ""
		if len(badFirst) > 0 {
			msg += "as first character it accepts " + rsString(badFirst, 8) + ", which are no XML NameStartChar"
		}
		if len(badFollow) > 0 {
			if msg != "" {
				msg += "; "
			}
			msg += "as following character it accepts " + rsString(badFollow, 8) + ", which are no XML NameChar"
		}
		c.Violation(key, fd.Pos(), "the XML name validator accepts characters that are not allowed in an XML name (%s): a map key containing them is written as an attribute name and the document is not well formed", msg)
	}
}

// ---------------------------------------------------------------------------
// R18.7 attribute form or element form is decided per map, not per entry.
//
// The XML writer accepts attributes of an element only until the first child
// of that element is written; a later Attr is dropped (it logs "tag is not
// open"). The traversal hands the entries of a map to the map exporter one
// after the other, so an exporter that chooses per entry between an attribute
// and a child element loses every simple entry that follows a structured one.
// In the Add method of a map exporter every Attr call therefore has to be
// guarded by a boolean field of the exporter (fixed when the exporter is
// created for the map), and its guards must not look at the value of the
// entry.

func ruleR187(c *Ctx) {
	xa := c.xmlAnchors()
	if len(xa.missing) > 0 {
		c.Undecided(strings.Join(xa.missing, ","), token.NoPos, "anchors not found")
		return
	}
	info := xa.ep.TypesInfo
	n := 0
	for _, f := range xa.ep.Syntax {
		for _, d := range f.Decls {
			fd, ok := d.(*ast.FuncDecl)
			if !ok || fd.Body == nil || fd.Recv == nil || fd.Name.Name != "Add" || len(fd.Recv.List[0].Names) != 1 {
				continue
			}
			var params []types.Object
			for _, fl := range fd.Type.Params.List {
				for _, nm := range fl.Names {
					params = append(params, info.Defs[nm])
				}
			}
			if len(params) != 2 || !isNamed(params[1].Type(), modPath+"/value", "Value") {
				continue
			}
			recvObj := info.Defs[fd.Recv.List[0].Names[0]]
			valObj := params[1]
			k := 0
			ast.Inspect(fd.Body, func(x ast.Node) bool {
				call, ok := x.(*ast.CallExpr)
				if !ok {
					return true
				}
				// a method of the exporter that writes the attribute (addAttribute): the decision is the one made at its
				// call site in Add
				if !isCallTo(info, call, xa.attr) {
					cal := Callee(info, call)
					if cal == nil || cal.Pkg() != xa.ep.Types {
						return true
					}
					hd := findFuncDecl(xa.ep, cal)
					if hd == nil || hd.Body == nil || hd.Recv == nil || hd == fd || recvTypeName(hd.Recv.List[0].Type) != recvTypeName(fd.Recv.List[0].Type) {
						return true
					}
					writesAttr := false
					ast.Inspect(hd.Body, func(y ast.Node) bool {
						hc, ok := y.(*ast.CallExpr)
						if !ok || !isCallTo(info, hc, xa.attr) {
							return true
						}
						// not an attribute of a child opened in the same expression
						if sel, ok := ast.Unparen(hc.Fun).(*ast.SelectorExpr); ok {
							if rc, ok := ast.Unparen(sel.X).(*ast.CallExpr); ok && (isCallTo(info, rc, xa.open) || isCallTo(info, rc, xa.attr)) {
								return true
							}
						}
						writesAttr = true
						return true
					})
					if !writesAttr {
						return true
					}
				}
				// an attribute of an element that was opened in the same expression (w.Open("entry").Attr("key", key), possibly
				// after further Attr calls) belongs to that child, not to the element of the map
				chained := false
				for cur := ast.Unparen(call.Fun); ; {
					sel, ok := cur.(*ast.SelectorExpr)
					if !ok {
						break
					}
					rc, ok := ast.Unparen(sel.X).(*ast.CallExpr)
					if !ok {
						break
					}
					if isCallTo(info, rc, xa.open) {
						chained = true
						break
					}
					if !isCallTo(info, rc, xa.attr) {
						break
					}
					cur = ast.Unparen(rc.Fun)
				}
				if chained {
					return true
				}
				n++
				k++
				key := fmt.Sprintf("%s#Attr[%d]", declName(xa.ep, fd), k)
				perMap, perEntry := false, ""
				// facts, with boolean locals that are assigned once expanded: simple := x.isSimple && isXMLName(key)
				var facts []Guard
				for _, gd := range c.GuardsDeep(call) {
					facts = append(facts, gd)
					if id, ok := ast.Unparen(gd.Cond).(*ast.Ident); ok && !gd.Synth {
						if v, ok := info.ObjectOf(id).(*types.Var); ok {
							if rhs, ok := singleDefExpr[v]; ok {
								expandGuard(rhs, gd.Val, &facts)
							}
						}
					}
				}
				for _, gd := range facts {
					if gd.Synth {
						continue
					}
					if sel, ok := ast.Unparen(gd.Cond).(*ast.SelectorExpr); ok && gd.Val {
						if id, ok := ast.Unparen(sel.X).(*ast.Ident); ok && info.ObjectOf(id) == recvObj {
							if b, ok := info.TypeOf(sel).Underlying().(*types.Basic); ok && b.Kind() == types.Bool {
								perMap = true
							}
						}
					}
					if containsNode(gd.Cond, func(y ast.Node) bool {
						id, ok := y.(*ast.Ident)
						return ok && info.ObjectOf(id) == valObj
					}) {
						perEntry = nodeStr(c.Fset, gd.Cond)
					}
				}
				switch {
				case perEntry != "":
					c.Violation(key, call.Pos(), "whether an entry is written as an attribute depends on the value of that entry (%s): entries arrive one after the other, and the XML writer drops an attribute that follows a child element, so every simple entry behind a structured one disappears from the document", perEntry)
				case !perMap:
					c.Violation(key, call.Pos(), "the attribute form is not guarded by a per-map decision (a boolean field of the exporter that is fixed when the exporter is created for the map): a map with mixed entries gets attributes after child elements, which the XML writer drops")
				default:
					c.OK(key, call.Pos(), "the attribute form is chosen per map (a boolean field of the exporter), not per entry")
				}
				return true
			})
		}
	}
	if n == 0 {
		c.Undecided("value/export#map-exporter-attributes", token.NoPos, "no Attr call in an Add method of a map exporter found")
	}
}
