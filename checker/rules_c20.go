package main

import (
	"fmt"
	"go/ast"
	"go/constant"
	"go/token"
	"go/types"
	"golang.org/x/tools/go/packages"
	"sort"
	"strings"
)

// ---------------------------------------------------------------------------
// small polynomial normal form for float/int expressions

// poly maps a monomial (sorted factor names joined by '*', "" for the constant) to its coefficient.
type poly map[string]int

func polyConst(c int) poly {
	if c == 0 {
		return poly{}
	}
	return poly{"": c}
}
func polySym(s string) poly { return poly{s: 1} }

func (a poly) add(b poly, sign int) poly {
	r := poly{}
	for k, v := range a {
		r[k] += v
	}
	for k, v := range b {
		r[k] += sign * v
	}
	for k, v := range r {
		if v == 0 {
			delete(r, k)
		}
	}
	return r
}

func (a poly) mul(b poly) poly {
	r := poly{}
	for ka, va := range a {
		for kb, vb := range b {
			var fs []string
			if ka != "" {
				fs = append(fs, strings.Split(ka, "*")...)
			}
			if kb != "" {
				fs = append(fs, strings.Split(kb, "*")...)
			}
			sort.Strings(fs)
			r[strings.Join(fs, "*")] += va * vb
		}
	}
	for k, v := range r {
		if v == 0 {
			delete(r, k)
		}
	}
	return r
}

func (a poly) String() string {
	var ks []string
	for k := range a {
		ks = append(ks, k)
	}
	sort.Strings(ks)
	var sb strings.Builder
	for _, k := range ks {
		v := a[k]
		if sb.Len() > 0 && v >= 0 {
			sb.WriteString("+")
		}
		switch {
		case k == "":
			fmt.Fprintf(&sb, "%d", v)
		case v == 1:
			sb.WriteString(k)
		case v == -1:
			sb.WriteString("-" + k)
		default:
			fmt.Fprintf(&sb, "%d*%s", v, k)
		}
	}
	if sb.Len() == 0 {
		return "0"
	}
	return sb.String()
}

func (a poly) eq(b poly) bool { return len(a.add(b, -1)) == 0 }

// polyEnv evaluates expressions; local variables with a single definition are inlined.
type polyEnv struct {
	c    *Ctx
	info *types.Info
	fd   *ast.FuncDecl
	ok   bool
	name func(ast.Expr) (string, bool) // naming of leaves
}

func (e *polyEnv) eval(x ast.Expr) poly {
	x = ast.Unparen(x)
	if tv, ok := e.info.Types[x]; ok && tv.Value != nil {
		if v, ok := constant.Int64Val(constant.ToInt(tv.Value)); ok {
			return polyConst(int(v))
		}
	}
	switch t := x.(type) {
	case *ast.BinaryExpr:
		switch t.Op {
		case token.ADD:
			return e.eval(t.X).add(e.eval(t.Y), 1)
		case token.SUB:
			return e.eval(t.X).add(e.eval(t.Y), -1)
		case token.MUL:
			return e.eval(t.X).mul(e.eval(t.Y))
		case token.QUO:
			return polySym("((" + e.eval(t.X).String() + ")/(" + e.eval(t.Y).String() + "))")
		}
	case *ast.CallExpr:
		// conversions between numeric types keep the value (the clamp rule looks at float->int separately)
		if tv, ok := e.info.Types[t.Fun]; ok && tv.IsType() && len(t.Args) == 1 {
			return e.eval(t.Args[0])
		}
		if cal := Callee(e.info, t); cal != nil && cal.Pkg() != nil && cal.Pkg().Path() == "math" && len(t.Args) == 1 {
			return polySym(strings.ToLower(cal.Name()) + "(" + e.eval(t.Args[0]).String() + ")")
		}
	case *ast.Ident:
		obj := e.info.ObjectOf(t)
		if v, ok := obj.(*types.Var); ok && !v.IsField() {
			if as, i := definingAssign(e.info, e.fd, obj); as != nil && len(as.Lhs) == len(as.Rhs) && countAssignments(e.info, e.fd, obj) == 1 {
				return e.eval(as.Rhs[i])
			}
		}
		if e.name != nil {
			if n, ok := e.name(t); ok {
				return polySym(n)
			}
		}
		return polySym(t.Name)
	case *ast.SelectorExpr:
		if e.name != nil {
			if n, ok := e.name(t); ok {
				return polySym(n)
			}
		}
		return polySym(t.Sel.Name)
	}
	e.ok = false
	return polySym("?" + nodeStr(e.c.Fset, x))
}

func countAssignments(info *types.Info, root ast.Node, obj types.Object) int {
	n := 0
	ast.Inspect(root, func(x ast.Node) bool {
		switch t := x.(type) {
		case *ast.AssignStmt:
			for _, l := range t.Lhs {
				if id, ok := l.(*ast.Ident); ok && info.ObjectOf(id) == obj {
					n++
				}
			}
		case *ast.IncDecStmt:
			if id, ok := t.X.(*ast.Ident); ok && info.ObjectOf(id) == obj {
				n++
			}
		case *ast.RangeStmt:
			for _, l := range []ast.Expr{t.Key, t.Value} {
				if id, ok := l.(*ast.Ident); ok && info.ObjectOf(id) == obj {
					n++
				}
			}
		}
		return true
	})
	return n
}

// ---------------------------------------------------------------------------

type binAnchors struct {
	pkg      *packages.Package
	getIndex *ast.FuncDecl
	getDescr *ast.FuncDecl
	missing  []string
}

func (c *Ctx) binAnchors() *binAnchors {
	b := &binAnchors{}
	vp := c.Pkg("value")
	if vp == nil {
		b.missing = append(b.missing, "package value")
		return b
	}
	b.pkg = vp
	if b.getIndex = c.FuncDecl(vp, "axis", "getIndex"); b.getIndex == nil {
		b.missing = append(b.missing, "value.axis.getIndex")
	}
	if b.getDescr = c.FuncDecl(vp, "axis", "getDescr"); b.getDescr == nil {
		b.missing = append(b.missing, "value.axis.getDescr")
	}
	return b
}

// R20.1 the index computation: formula, clamp before convert, result range
func ruleR201(c *Ctx) {
	b := c.binAnchors()
	if len(b.missing) > 0 {
		c.Undecided(strings.Join(b.missing, ","), token.NoPos, "anchors not found")
		return
	}
	info := b.pkg.TypesInfo
	fd := b.getIndex
	g := c.CFG(fd)
	if fd.Type.Params.NumFields() != 1 || len(fd.Type.Params.List[0].Names) != 1 {
		c.Undecided("value.axis.getIndex#signature", fd.Pos(), "one parameter expected")
		return
	}
	param := fd.Type.Params.List[0].Names[0].Name
	recv := ""
	if fd.Recv != nil && len(fd.Recv.List) == 1 && len(fd.Recv.List[0].Names) == 1 {
		recv = fd.Recv.List[0].Names[0].Name
	}
	env := &polyEnv{c: c, info: info, fd: fd, ok: true, name: func(x ast.Expr) (string, bool) {
		switch t := x.(type) {
		case *ast.Ident:
			if t.Name == param {
				return "x", true
			}
		case *ast.SelectorExpr:
			if id, ok := t.X.(*ast.Ident); ok && id.Name == recv {
				return t.Sel.Name, true
			}
		}
		return "", false
	}}
	wantIdx := polySym("floor(((-start+x)/(size)))").add(polyConst(1), 1)
	binsHi := polySym("bins").add(polyConst(1), -1)

	// returns
	nRet := 0
	ast.Inspect(fd.Body, func(x ast.Node) bool {
		ret, ok := x.(*ast.ReturnStmt)
		if !ok || len(ret.Results) != 1 {
			return true
		}
		nRet++
		r := ast.Unparen(ret.Results[0])
		key := fmt.Sprintf("value.axis.getIndex#return[%d]", nRet)
		// conversion float -> int ?
		if call, ok := r.(*ast.CallExpr); ok && len(call.Args) == 1 {
			if tv, ok := info.Types[call.Fun]; ok && tv.IsType() {
				if bt, ok := info.TypeOf(call.Args[0]).Underlying().(*types.Basic); ok && bt.Info()&types.IsFloat != 0 {
					arg := call.Args[0]
					env.ok = true
					val := env.eval(arg)
					lower, upper := false, false
					for _, gd := range g.Guards(ret) {
						be, ok := ast.Unparen(gd.Cond).(*ast.BinaryExpr)
						if !ok {
							continue
						}
						l, rr := env.eval(be.X), env.eval(be.Y)
						op := be.Op
						if !l.eq(val) && rr.eq(val) {
							l, rr = rr, l
							op = map[token.Token]token.Token{token.LSS: token.GTR, token.GTR: token.LSS, token.LEQ: token.GEQ, token.GEQ: token.LEQ}[op]
						}
						if !l.eq(val) {
							continue
						}
						if !gd.Val {
							op = map[token.Token]token.Token{token.LSS: token.GEQ, token.GTR: token.LEQ, token.LEQ: token.GTR, token.GEQ: token.LSS}[op]
						}
						// now: val op rr holds
						switch op {
						case token.GEQ, token.GTR:
							if rr.eq(polyConst(0)) || (op == token.GTR && rr.eq(polyConst(-1))) {
								lower = true
							}
						case token.LSS:
							if rr.eq(polySym("bins")) {
								upper = true
							}
						case token.LEQ:
							if rr.eq(binsHi) {
								upper = true
							}
						}
					}
					switch {
					case !env.ok:
						c.Undecided(key, ret.Pos(), "converted expression not understood")
					case !val.eq(wantIdx):
						c.Violation(key, ret.Pos(), "the bin index is %s, the definition of the bins (bin i holds start+(i-1)*size <= x < start+i*size) requires floor((x-start)/size)+1", val)
					case lower && upper:
						c.OK(key, ret.Pos(), "index = floor((x-start)/size)+1, converted to int only under 0 <= f < bins (established in the float domain): the conversion is defined and the result is a valid bin")
					default:
						c.Violation(key, ret.Pos(), "the float %s is converted to int without being range checked in the float domain first (lower bound checked: %v, upper bound checked: %v): for values far outside the range (or NaN/Inf) the conversion result is not defined, the element lands in an arbitrary bin", nodeStr(c.Fset, arg), lower, upper)
					}
					return true
				}
			}
		}
		env.ok = true
		val := env.eval(r)
		switch {
		case val.eq(polyConst(0)):
			// the underflow bin: reached when f < 0 (or NaN)
			c.OK(key, ret.Pos(), "the underflow bin 0")
		case val.eq(binsHi):
			// the overflow bin must be guarded by f >= bins
			okGuard := false
			for _, gd := range g.Guards(ret) {
				if be, ok := ast.Unparen(gd.Cond).(*ast.BinaryExpr); ok && gd.Val {
					l, rr := env.eval(be.X), env.eval(be.Y)
					if (be.Op == token.GEQ && l.eq(wantIdx) && rr.eq(polySym("bins"))) || (be.Op == token.GTR && l.eq(wantIdx) && rr.eq(binsHi)) ||
						(be.Op == token.LEQ && rr.eq(wantIdx) && l.eq(polySym("bins"))) || (be.Op == token.LSS && rr.eq(wantIdx) && l.eq(binsHi)) {
						okGuard = true
					}
				}
			}
			c.Check(okGuard, key, ret.Pos(), "the overflow bin bins-1 is returned exactly for index >= bins", "the overflow bin bins-1 is returned under a condition other than floor((x-start)/size)+1 >= bins")
		default:
			c.Violation(key, ret.Pos(), "getIndex returns %s, which is neither a clamped bin (0, bins-1) nor the range checked index", val)
		}
		return true
	})
	if nRet < 3 {
		c.Undecided("value.axis.getIndex#returns", fd.Pos(), "expected the underflow, overflow and regular return, found %d", nRet)
	}
}

// R20.6 bin descriptions agree with the index computation
func ruleR206(c *Ctx) {
	b := c.binAnchors()
	if len(b.missing) > 0 {
		c.Undecided(strings.Join(b.missing, ","), token.NoPos, "anchors not found")
		return
	}
	info := b.pkg.TypesInfo
	fd := b.getDescr
	param := fd.Type.Params.List[0].Names[0].Name
	recv := fd.Recv.List[0].Names[0].Name
	env := &polyEnv{c: c, info: info, fd: fd, ok: true, name: func(x ast.Expr) (string, bool) {
		switch t := x.(type) {
		case *ast.Ident:
			if t.Name == param {
				return "i", true
			}
		case *ast.SelectorExpr:
			if id, ok := t.X.(*ast.Ident); ok && id.Name == recv {
				return t.Sel.Name, true
			}
		}
		return "", false
	}}
	wantMax := polySym("start").add(polySym("i").mul(polySym("size")), 1)
	wantMin := wantMax.add(polySym("size"), -1)
	var sw *ast.SwitchStmt
	ast.Inspect(fd.Body, func(x ast.Node) bool {
		if s, ok := x.(*ast.SwitchStmt); ok && sw == nil {
			sw = s
		}
		return true
	})
	if sw == nil || sw.Tag == nil || !env.eval(sw.Tag).eq(polySym("i")) {
		c.Undecided("value.axis.getDescr#switch", fd.Pos(), "switch over the bin index not found")
		return
	}
	seen := map[string]bool{}
	for _, cl := range sw.Body.List {
		cc := cl.(*ast.CaseClause)
		kind := "regular"
		if len(cc.List) == 1 {
			v := env.eval(cc.List[0])
			switch {
			case v.eq(polyConst(0)):
				kind = "underflow"
			case v.eq(polySym("bins").add(polyConst(1), -1)):
				kind = "overflow"
			default:
				c.Undecided("value.axis.getDescr#case "+v.String(), cc.Pos(), "unexpected case")
				continue
			}
		} else if len(cc.List) > 1 {
			c.Undecided("value.axis.getDescr#case", cc.Pos(), "unexpected case list")
			continue
		}
		seen[kind] = true
		key := "value.axis.getDescr#" + kind
		var lit *ast.CompositeLit
		for _, s := range cc.Body {
			if ret, ok := s.(*ast.ReturnStmt); ok && len(ret.Results) == 1 {
				lit, _ = ast.Unparen(ret.Results[0]).(*ast.CompositeLit)
			}
		}
		if lit == nil {
			c.Undecided(key, cc.Pos(), "returned literal not found")
			continue
		}
		fields := map[string]ast.Expr{}
		for _, el := range lit.Elts {
			if kv, ok := el.(*ast.KeyValueExpr); ok {
				if k, ok := kv.Key.(*ast.Ident); ok {
					fields[k.Name] = kv.Value
				}
			}
		}
		isTrue := func(n string) bool {
			e, ok := fields[n]
			if !ok {
				return false
			}
			tv := info.Types[e]
			return tv.Value != nil && tv.Value.Kind() == constant.Bool && constant.BoolVal(tv.Value)
		}
		var bad []string
		wantIsMin, wantIsMax := kind != "underflow", kind != "overflow"
		if isTrue("IsMin") != wantIsMin {
			bad = append(bad, fmt.Sprintf("IsMin is %v", !wantIsMin))
		}
		if isTrue("IsMax") != wantIsMax {
			bad = append(bad, fmt.Sprintf("IsMax is %v", !wantIsMax))
		}
		if wantIsMin {
			if e, ok := fields["Min"]; !ok || !env.eval(e).eq(wantMin) {
				got := "unset"
				if ok {
					got = env.eval(e).String()
				}
				bad = append(bad, "Min is "+got+" instead of start+(i-1)*size")
			}
		}
		if wantIsMax {
			if e, ok := fields["Max"]; !ok || !env.eval(e).eq(wantMax) {
				got := "unset"
				if ok {
					got = env.eval(e).String()
				}
				bad = append(bad, "Max is "+got+" instead of start+i*size")
			}
		}
		if len(bad) > 0 {
			c.Violation(key, lit.Pos(), "the description of the %s bin does not match the elements getIndex puts into it: %s", kind, strings.Join(bad, "; "))
		} else {
			c.OK(key, lit.Pos(), "the %s bin is described by [start+(i-1)*size, start+i*size) restricted to the sides it has: the interval getIndex maps to i", kind)
		}
	}
	for _, k := range []string{"underflow", "overflow", "regular"} {
		if !seen[k] {
			c.Undecided("value.axis.getDescr#"+k, fd.Pos(), "case not found")
		}
	}
}

// R20.2 / R20.3 / R20.5: bins are indexed by getIndex results of the matching axis; Add accumulates exactly once;
// axis sizes equal slice lengths; rows are independently allocated; results pair bin i with description i.
func ruleR202(c *Ctx) {
	b := c.binAnchors()
	if len(b.missing) > 0 {
		c.Undecided(strings.Join(b.missing, ","), token.NoPos, "anchors not found")
		return
	}
	vp := b.pkg
	info := vp.TypesInfo
	getIndex := LookupMethod(vp, "axis", "getIndex")
	getDescr := LookupMethod(vp, "axis", "getDescr")

	// which axis field belongs to which index position of the bins field, per struct
	type layout struct {
		axes []string // axis field for dimension k
	}
	layouts := map[string]layout{}
	for _, tn := range []string{"BinningData", "Binning2dData"} {
		obj := LookupType(vp, tn)
		if obj == nil {
			c.Undecided("value."+tn, token.NoPos, "type not found")
			continue
		}
		st, ok := obj.Type().Underlying().(*types.Struct)
		if !ok {
			continue
		}
		var l layout
		for i := 0; i < st.NumFields(); i++ {
			if isNamed(st.Field(i).Type(), modPath+"/value", "axis") {
				l.axes = append(l.axes, st.Field(i).Name())
			}
		}
		layouts[tn] = l
	}

	// is e (an int expression) the result of <recv>.<axis>.getIndex(..)?  Returns the axis field name.
	var indexOrigin func(fd *ast.FuncDecl, e ast.Expr) (string, bool)
	indexOrigin = func(fd *ast.FuncDecl, e ast.Expr) (string, bool) {
		e = ast.Unparen(e)
		if call, ok := e.(*ast.CallExpr); ok {
			if Callee(info, call) == getIndex {
				if sel, ok := ast.Unparen(call.Fun).(*ast.SelectorExpr); ok {
					if ax, ok := ast.Unparen(sel.X).(*ast.SelectorExpr); ok {
						return ax.Sel.Name, true
					}
				}
			}
			return "", false
		}
		if id, ok := e.(*ast.Ident); ok {
			obj := info.ObjectOf(id)
			if as, i := definingAssign(info, fd, obj); as != nil && len(as.Lhs) == len(as.Rhs) && countAssignments(info, fd, obj) == 1 {
				return indexOrigin(fd, as.Rhs[i])
			}
		}
		return "", false
	}

	for _, f := range vp.Syntax {
		if !strings.HasSuffix(c.Fset.Position(f.Pos()).Filename, "binning.go") {
			continue
		}
		for _, d := range f.Decls {
			fd, ok := d.(*ast.FuncDecl)
			if !ok || fd.Body == nil {
				continue
			}
			fname := declName(vp, fd)
			recvType := ""
			if fd.Recv != nil && len(fd.Recv.List) == 1 {
				if n := namedOf(info.TypeOf(fd.Recv.List[0].Type)); n != nil {
					recvType = n.Obj().Name()
				}
			}
			lay, isBin := layouts[recvType]

			// (a) index expressions on the bins field
			nIdx := 0
			ast.Inspect(fd.Body, func(x ast.Node) bool {
				ix, ok := x.(*ast.IndexExpr)
				if !ok {
					return true
				}
				// collect the chain bins[i][j]
				if p, ok := c.Parent(ix).(*ast.IndexExpr); ok && p.X == ast.Expr(ix) {
					return true // handled at the outermost index
				}
				var idxs []ast.Expr
				cur := ast.Expr(ix)
				for {
					if t, ok := ast.Unparen(cur).(*ast.IndexExpr); ok {
						idxs = append([]ast.Expr{t.Index}, idxs...)
						cur = t.X
						continue
					}
					break
				}
				sel, ok := ast.Unparen(cur).(*ast.SelectorExpr)
				if !ok || sel.Sel.Name != "bins" || !isBin {
					return true
				}
				if _, ok := info.TypeOf(sel).Underlying().(*types.Slice); !ok {
					return true
				}
				for k, ie := range idxs {
					nIdx++
					key := fmt.Sprintf("%s#bins-index[%d]", fname, nIdx)
					if tv := info.Types[ie]; tv.Value != nil {
						if v, ok := constant.Int64Val(tv.Value); ok && v >= 0 && v <= 1 {
							c.OK(key, ie.Pos(), "constant index %d: every axis has count+2 >= 2 bins", v)
						} else {
							c.Violation(key, ie.Pos(), "constant index %s into the bins", tv.Value)
						}
						continue
					}
					if ax, ok := indexOrigin(fd, ie); ok {
						if k < len(lay.axes) && ax == lay.axes[k] {
							c.OK(key, ie.Pos(), "dimension %d is indexed by %s.getIndex, whose result is a valid bin of that axis", k, ax)
						} else {
							c.Violation(key, ie.Pos(), "dimension %d of the bins is indexed by the index computed for axis %q: the coordinates are swapped or the index can be out of range", k, ax)
						}
						continue
					}
					if id, ok := ast.Unparen(ie).(*ast.Ident); ok {
						if rs := rangeDefining(c, info, fd, id); rs != nil {
							c.OK(key, ie.Pos(), "range key")
							continue
						}
					}
					c.Violation(key, ie.Pos(), "the bins are indexed by %s, which is not a getIndex result: nothing bounds it to the bins", nodeStr(c.Fset, ie))
				}
				return true
			})

			// (b) Add: exactly one accumulation, unconditional
			if isBin && fd.Name.Name == "Add" {
				key := fname + "#accumulate-once"
				var accs []*ast.AssignStmt
				branches := false
				ast.Inspect(fd.Body, func(x ast.Node) bool {
					switch t := x.(type) {
					case *ast.AssignStmt:
						if t.Tok != token.DEFINE {
							accs = append(accs, t)
						}
					case *ast.IfStmt, *ast.ForStmt, *ast.RangeStmt, *ast.SwitchStmt, *ast.GoStmt, *ast.DeferStmt, *ast.ReturnStmt, *ast.IncDecStmt:
						branches = true
					}
					return true
				})
				last := fd.Type.Params.List[len(fd.Type.Params.List)-1]
				sumParam := last.Names[len(last.Names)-1].Name
				switch {
				case branches:
					c.Undecided(key, fd.Pos(), "Add is no longer straight line code")
				case len(accs) != 1 || accs[0].Tok != token.ADD_ASSIGN:
					c.Violation(key, fd.Pos(), "Add has %d stores (expected exactly one '+=' into one bin): an element is counted not at all, twice, or overwrites the bin", len(accs))
				default:
					if id, ok := ast.Unparen(accs[0].Rhs[0]).(*ast.Ident); ok && id.Name == sumParam {
						c.OK(key, accs[0].Pos(), "exactly one 'bin += %s' on every call: each element contributes its value to exactly one bin", sumParam)
					} else {
						c.Violation(key, accs[0].Pos(), "Add accumulates %s instead of the value to sum %s", nodeStr(c.Fset, accs[0].Rhs[0]), sumParam)
					}
				}
			}

			// (c) getDescr(i) is paired with bin i
			ast.Inspect(fd.Body, func(x ast.Node) bool {
				call, ok := x.(*ast.CallExpr)
				if !ok || Callee(info, call) != getDescr || !isBin {
					return true
				}
				key := fmt.Sprintf("%s#descr-pairs-bin", fname)
				sel, _ := ast.Unparen(call.Fun).(*ast.SelectorExpr)
				axName := ""
				if sel != nil {
					if ax, ok := ast.Unparen(sel.X).(*ast.SelectorExpr); ok {
						axName = ax.Sel.Name
					}
				}
				id, ok := ast.Unparen(call.Args[0]).(*ast.Ident)
				var rs *ast.RangeStmt
				if ok {
					rs = rangeDefining(c, info, fd, id)
				}
				if rs == nil {
					c.Undecided(key, call.Pos(), "the described index is not a range key")
					return true
				}
				// range over s.bins -> dimension 0, over s.bins[0] -> dimension 1
				dim := -1
				rx := ast.Unparen(rs.X)
				if s, ok := rx.(*ast.SelectorExpr); ok && s.Sel.Name == "bins" {
					dim = 0
				} else if ixe, ok := rx.(*ast.IndexExpr); ok {
					if s, ok := ast.Unparen(ixe.X).(*ast.SelectorExpr); ok && s.Sel.Name == "bins" {
						dim = 1
					}
				}
				if dim >= 0 && dim < len(lay.axes) && lay.axes[dim] == axName {
					c.OK(key, call.Pos(), "bin i of dimension %d is reported with the description of index i of axis %s", dim, axName)
				} else {
					c.Violation(key, call.Pos(), "the bins of dimension %d are reported with descriptions of axis %q", dim, axName)
				}
				return true
			})
		}
	}

	// (d) constructors: axis.bins == len of the matching slice dimension; rows allocated independently.
	// Shape independent: every literal of the axis type is attributed to (container, dimension) through the place it is
	// written to - an element of the container's literal (positional or keyed), or an assignment b.x = axis{...} to a
	// field of a container the function has just created - and its count is compared with the length of the matching
	// dimension of the slice the container is created with.
	fieldExpr := func(cl *ast.CompositeLit, st *types.Struct, name string) ast.Expr {
		for i, e := range cl.Elts {
			if kv, ok := e.(*ast.KeyValueExpr); ok {
				if kid, ok := kv.Key.(*ast.Ident); ok && kid.Name == name {
					return kv.Value
				}
			} else if i < st.NumFields() && st.Field(i).Name() == name {
				return e
			}
		}
		return nil
	}
	for _, f := range vp.Syntax {
		if !strings.HasSuffix(c.Fset.Position(f.Pos()).Filename, "binning.go") {
			continue
		}
		ast.Inspect(f, func(x ast.Node) bool {
			cl, ok := x.(*ast.CompositeLit)
			if !ok {
				return true
			}
			n := namedOf(info.TypeOf(cl))
			if n == nil {
				return true
			}
			lay, isBin := layouts[n.Obj().Name()]
			if !isBin {
				return true
			}
			cst, ok := n.Underlying().(*types.Struct)
			if !ok {
				return true
			}
			fd := c.EnclosingDecl(cl)
			key := declName(vp, fd) + "#axis-size=len(bins)"
			// the slice field: the one field of the container that is no axis
			binsField := ""
			for i := 0; i < cst.NumFields(); i++ {
				isAxis := false
				for _, an := range lay.axes {
					if cst.Field(i).Name() == an {
						isAxis = true
					}
				}
				if _, isSlice := cst.Field(i).Type().Underlying().(*types.Slice); isSlice && !isAxis {
					binsField = cst.Field(i).Name()
				}
			}
			binsExpr := fieldExpr(cl, cst, binsField)
			if binsField == "" || binsExpr == nil {
				c.Undecided(key, cl.Pos(), "the slice the container is created with was not found in its literal")
				return true
			}
			binsName := nodeStr(c.Fset, binsExpr)
			// the variable that holds the new container (b := &Binning2dData{...}), for axes assigned afterwards
			var holder types.Object
			if as, ok := c.Parent(c.Parent(cl)).(*ast.AssignStmt); ok {
				if len(as.Lhs) == 1 {
					if id, ok := as.Lhs[0].(*ast.Ident); ok {
						holder = info.ObjectOf(id)
					}
				}
			} else if as, ok := c.Parent(cl).(*ast.AssignStmt); ok && len(as.Lhs) == 1 {
				if id, ok := as.Lhs[0].(*ast.Ident); ok {
					holder = info.ObjectOf(id)
				}
			}
			for k, axName := range lay.axes {
				var axLit *ast.CompositeLit
				if e := fieldExpr(cl, cst, axName); e != nil {
					axLit, _ = ast.Unparen(e).(*ast.CompositeLit)
				} else if holder != nil && fd != nil {
					ast.Inspect(fd.Body, func(y ast.Node) bool {
						as, ok := y.(*ast.AssignStmt)
						if !ok || len(as.Lhs) != 1 || len(as.Rhs) != 1 {
							return true
						}
						sel, ok := ast.Unparen(as.Lhs[0]).(*ast.SelectorExpr)
						if !ok || sel.Sel.Name != axName {
							return true
						}
						if id, ok := ast.Unparen(sel.X).(*ast.Ident); ok && info.ObjectOf(id) == holder {
							axLit, _ = ast.Unparen(as.Rhs[0]).(*ast.CompositeLit)
						}
						return true
					})
				}
				if axLit == nil {
					c.Undecided(fmt.Sprintf("%s[%d]", key, k), cl.Pos(), "the literal of axis %s was not found", axName)
					continue
				}
				ast2, ok := info.TypeOf(axLit).Underlying().(*types.Struct)
				if !ok {
					c.Undecided(fmt.Sprintf("%s[%d]", key, k), axLit.Pos(), "axis literal not recognised")
					continue
				}
				// the count: the one integer field of the axis
				var got ast.Expr
				for i := 0; i < ast2.NumFields(); i++ {
					if b, ok := ast2.Field(i).Type().Underlying().(*types.Basic); ok && b.Info()&types.IsInteger != 0 {
						got = fieldExpr(axLit, ast2, ast2.Field(i).Name())
					}
				}
				if got == nil {
					c.Undecided(fmt.Sprintf("%s[%d]", key, k), axLit.Pos(), "the bin count of the axis literal was not found")
					continue
				}
				want := "len(" + binsName + ")"
				if k == 1 {
					want = "len(" + binsName + "[0])"
				}
				gs := nodeStr(c.Fset, got)
				c.Check(gs == want, fmt.Sprintf("%s[%d]", key, k), axLit.Pos(), "axis "+axName+" has exactly "+want+" bins: getIndex results are in range of the slice",
					"axis "+axName+" is created with "+gs+" bins, the slice dimension has "+want+": getIndex results and slice bounds disagree")
			}
			return true
		})
	}
	// rows: every element store into a [][]float64 in binning.go is a fresh make
	for _, f := range vp.Syntax {
		if !strings.HasSuffix(c.Fset.Position(f.Pos()).Filename, "binning.go") {
			continue
		}
		ast.Inspect(f, func(x ast.Node) bool {
			as, ok := x.(*ast.AssignStmt)
			if !ok || len(as.Lhs) != 1 || len(as.Rhs) != 1 {
				return true
			}
			ix, ok := ast.Unparen(as.Lhs[0]).(*ast.IndexExpr)
			if !ok {
				return true
			}
			sl, ok := info.TypeOf(ix).Underlying().(*types.Slice)
			if !ok {
				return true
			}
			if bt, ok := sl.Elem().Underlying().(*types.Basic); !ok || bt.Kind() != types.Float64 {
				return true
			}
			fd := c.EnclosingDecl(as)
			key := fmt.Sprintf("%s#row-allocation %s", declName(vp, fd), nodeStr(c.Fset, ix.X))
			call, ok := ast.Unparen(as.Rhs[0]).(*ast.CallExpr)
			isMake := false
			if ok {
				if id, ok := ast.Unparen(call.Fun).(*ast.Ident); ok {
					if bi, ok := info.Uses[id].(*types.Builtin); ok && bi.Name() == "make" {
						isMake = true
					}
				}
			}
			c.Check(isMake, key, as.Pos(), "every row is a separate make: no two bins share storage",
				"a row of the accumulator is "+nodeStr(c.Fset, as.Rhs[0])+" instead of a separate make: rows can overlap or alias other data, an element is then added to more than one bin")
			return true
		})
	}
}

func rangeDefining(c *Ctx, info *types.Info, fd *ast.FuncDecl, id *ast.Ident) *ast.RangeStmt {
	obj := info.ObjectOf(id)
	var res *ast.RangeStmt
	ast.Inspect(fd.Body, func(x ast.Node) bool {
		if rs, ok := x.(*ast.RangeStmt); ok {
			if k, ok := rs.Key.(*ast.Ident); ok && info.ObjectOf(k) == obj && rs.Tok == token.DEFINE {
				res = rs
			}
		}
		return true
	})
	return res
}

// R20.3 collectBinning: accumulation only under equal lengths
func ruleR203(c *Ctx) {
	vp := c.Pkg("value")
	if vp == nil {
		c.Undecided("package value", token.NoPos, "not found")
		return
	}
	info := vp.TypesInfo
	n := 0
	for _, tn := range []string{"collectBinning1d", "collectBinning2d"} {
		fd := c.FuncDecl(vp, tn, "add")
		if fd == nil {
			c.Undecided("value."+tn+".add", token.NoPos, "not found")
			continue
		}
		g := c.CFG(fd)
		ast.Inspect(fd.Body, func(x ast.Node) bool {
			as, ok := x.(*ast.AssignStmt)
			if !ok || as.Tok == token.DEFINE || len(as.Lhs) != 1 {
				return true
			}
			ix, ok := ast.Unparen(as.Lhs[0]).(*ast.IndexExpr)
			if !ok {
				return true
			}
			bt, ok := info.TypeOf(ix).Underlying().(*types.Basic)
			if !ok || bt.Info()&types.IsFloat == 0 {
				return true
			}
			n++
			key := fmt.Sprintf("value.%s.add#accumulate %s", tn, nodeStr(c.Fset, ix.X))
			if as.Tok != token.ADD_ASSIGN {
				c.Violation(key, as.Pos(), "the partial result is stored with '%s' instead of being added: collectBinning is no longer the sum of the parts", as.Tok)
				return true
			}
			// the index is the key of a range over a slice S; the accumulator A=ix.X
			id, ok := ast.Unparen(ix.Index).(*ast.Ident)
			var rs *ast.RangeStmt
			if ok {
				rs = rangeDefining(c, info, fd, id)
			}
			if rs == nil {
				c.Undecided(key, as.Pos(), "index is not a range key")
				return true
			}
			// the added value derives from the range value
			acc, src := nodeStr(c.Fset, ix.X), nodeStr(c.Fset, rs.X)
			// on every path to the loop: either acc = make(.., len(src)) or the test len(acc) != len(src) returned
			okLen := lengthEstablished(c, info, fd, g, rs, acc, src)
			if okLen {
				c.OK(key, as.Pos(), "%s[i] += v for every i of %s; on every path to the loop either %s was created with len(%s) or the length equality test has passed: no bin is dropped or misaligned", acc, src, acc, src)
			} else {
				c.Violation(key, as.Pos(), "%s is accumulated over the indices of %s without the lengths being known equal on every path (fresh make of that length or the equality test): partial results of different shape are summed misaligned or panic", acc, src)
			}
			return true
		})
	}
	if n < 2 {
		c.Undecided("value.collectBinning#accumulations", token.NoPos, "expected two accumulation sites, found %d", n)
	}
}

// lengthEstablished: an if/else directly before the loop (same block) whose branches are
// `if acc == nil { acc = make(T, len(src)) ... } else { if len(acc) != len(src) { return } }`.
func lengthEstablished(c *Ctx, info *types.Info, fd *ast.FuncDecl, g *FCFG, rs *ast.RangeStmt, acc, src string) bool {
	blk, ok := c.Parent(rs).(*ast.BlockStmt)
	if !ok {
		return false
	}
	var prev *ast.IfStmt
	for i, s := range blk.List {
		if s == ast.Stmt(rs) && i > 0 {
			prev, _ = blk.List[i-1].(*ast.IfStmt)
		}
	}
	if prev == nil {
		return false
	}
	be, ok := ast.Unparen(prev.Cond).(*ast.BinaryExpr)
	if !ok || be.Op != token.EQL || nodeStr(c.Fset, be.X) != acc || nodeStr(c.Fset, be.Y) != "nil" {
		return false
	}
	// then-branch: acc = make(T, len(src))
	made := false
	for _, s := range prev.Body.List {
		if as, ok := s.(*ast.AssignStmt); ok && len(as.Lhs) == 1 && len(as.Rhs) == 1 && nodeStr(c.Fset, as.Lhs[0]) == acc {
			if call, ok := ast.Unparen(as.Rhs[0]).(*ast.CallExpr); ok && len(call.Args) == 2 {
				if id, ok := ast.Unparen(call.Fun).(*ast.Ident); ok && id.Name == "make" && nodeStr(c.Fset, call.Args[1]) == "len("+src+")" {
					made = true
				}
			}
		}
	}
	if !made || prev.Else == nil {
		return false
	}
	// else-branch: if len(acc) != len(src) { return ... }
	tested := false
	ast.Inspect(prev.Else, func(x ast.Node) bool {
		ifs, ok := x.(*ast.IfStmt)
		if !ok {
			return true
		}
		b, ok := ast.Unparen(ifs.Cond).(*ast.BinaryExpr)
		if !ok || b.Op != token.NEQ {
			return true
		}
		l, r := nodeStr(c.Fset, b.X), nodeStr(c.Fset, b.Y)
		if (l == "len("+acc+")" && r == "len("+src+")") || (r == "len("+acc+")" && l == "len("+src+")") {
			if len(ifs.Body.List) > 0 {
				if _, ok := ifs.Body.List[len(ifs.Body.List)-1].(*ast.ReturnStmt); ok {
					tested = true
				}
			}
		}
		return true
	})
	return tested
}

// ---------------------------------------------------------------------------
// R20.7 sums are published as accumulated.
//
// The bins accumulate float64 sums; Binning, Binning2d and the collectBinning
// results turn them into values of the language. Mass conservation and
// additivity are statements about those published numbers, so the published
// value has to be the accumulated float itself: Float(v), directly or through
// a helper that is nothing but that conversion. Any arithmetic on the way
// (rounding "to clean up numerical noise", scaling) changes the total and
// makes the sum of parts differ from the whole.

func ruleR207(c *Ctx) {
	vp := c.Pkg("value")
	if vp == nil {
		c.Undecided("package value", token.NoPos, "not found")
		return
	}
	info := vp.TypesInfo
	isFloat64 := func(t types.Type) bool {
		b, ok := t.Underlying().(*types.Basic)
		return ok && b.Kind() == types.Float64
	}
	isFloatSlice := func(t types.Type) bool {
		for depth := 0; depth < 2; depth++ {
			sl, ok := t.Underlying().(*types.Slice)
			if !ok {
				return false
			}
			if isFloat64(sl.Elem()) {
				return true
			}
			t = sl.Elem()
		}
		return false
	}
	pureConversion := func(call *ast.CallExpr) bool {
		if tv, ok := info.Types[call.Fun]; ok && tv.IsType() {
			return true
		}
		// a helper whose body is a single return of a conversion of its parameter
		cal := Callee(info, call)
		if cal == nil || cal.Pkg() != vp.Types {
			return false
		}
		fd := findFuncDecl(vp, cal)
		if fd == nil || fd.Body == nil || len(fd.Body.List) != 1 {
			return false
		}
		ret, ok := fd.Body.List[0].(*ast.ReturnStmt)
		if !ok || len(ret.Results) != 1 {
			return false
		}
		conv, ok := ast.Unparen(ret.Results[0]).(*ast.CallExpr)
		if !ok || len(conv.Args) != 1 {
			return false
		}
		if tv, ok := info.Types[conv.Fun]; !ok || !tv.IsType() {
			return false
		}
		_, isID := ast.Unparen(conv.Args[0]).(*ast.Ident)
		return isID
	}
	n := 0
	for _, f := range vp.Syntax {
		if name := c.Fset.Position(f.Pos()).Filename; !strings.HasSuffix(name, "binning.go") {
			continue
		}
		for _, d := range f.Decls {
			fd, ok := d.(*ast.FuncDecl)
			if !ok || fd.Body == nil {
				continue
			}
			fname := declName(vp, fd)
			k := 0
			ast.Inspect(fd.Body, func(x ast.Node) bool {
				rs, ok := x.(*ast.RangeStmt)
				if !ok || rs.Value == nil || !isFloatSlice(info.TypeOf(rs.X)) {
					return true
				}
				vid, ok := rs.Value.(*ast.Ident)
				if !ok || vid.Name == "_" || !isFloat64(info.TypeOf(vid)) {
					return true
				}
				vobj := info.ObjectOf(vid)
				// uses of the accumulated float inside calls
				ast.Inspect(rs.Body, func(y ast.Node) bool {
					call, ok := y.(*ast.CallExpr)
					if !ok {
						return true
					}
					uses := false
					for _, a := range call.Args {
						if containsNode(a, func(z ast.Node) bool {
							id, ok := z.(*ast.Ident)
							return ok && info.ObjectOf(id) == vobj
						}) {
							uses = true
						}
					}
					if !uses {
						return true
					}
					// append(list, <inner>) : look at the inner expression
					if id, ok := ast.Unparen(call.Fun).(*ast.Ident); ok {
						if _, isB := info.Uses[id].(*types.Builtin); isB {
							return true
						}
					}
					// only calls that produce a value of the language from the float
					if !isNamed(info.TypeOf(call), modPath+"/value", "Value") && !isNamed(info.TypeOf(call), modPath+"/value", "Float") {
						return true
					}
					n++
					k++
					key := fmt.Sprintf("%s#published-sum[%d]:%s", fname, k, nodeStr(c.Fset, call))
					arg0 := ast.Unparen(call.Args[0])
					if _, isID := arg0.(*ast.Ident); isID && len(call.Args) == 1 && pureConversion(call) {
						c.OK(key, call.Pos(), "the accumulated sum is published by a plain conversion")
					} else {
						c.Violation(key, call.Pos(), "the accumulated sum %s is not published as it is (%s): arithmetic between the accumulator and the published value (rounding, scaling) breaks mass conservation and makes collectBinning of parts differ from binning the whole", vid.Name, nodeStr(c.Fset, call))
					}
					return false
				})
				return true
			})
		}
	}
	if n < 2 {
		c.Undecided("value.binning#published-sums", token.NoPos, "only %d places where an accumulated sum becomes a value found", n)
	}
}

// ---------------------------------------------------------------------------
// R20.8: the grid and the observations reach the accumulator as given.
//
// The property speaks about the grid the caller gave (start, size, count) and
// the weights the caller's functions returned. Between the stack and the
// accumulator there are only the float readers of package value
// ((float64, error) functions such as ToFloat and MustFloat). A reader that
// "cleans" the number (rounds it to 15 digits, snaps it to a raster) makes
// binning use another grid than the one described, and elements on a bin edge
// land in the neighbouring bin. Decided here:
//   (a) every float handed to a package function from a binning builtin (a
//       function of binning.go that takes the stack) is a variable assigned
//       once, by a float reader, or a plain conversion of such a variable;
//   (b) every successful return of such a reader returns the float that the
//       value's own ToFloat method (or a plain conversion) produced, assigned
//       once, no arithmetic and no further call on the way.

func ruleR208(c *Ctx) {
	vp := c.Pkg("value")
	if vp == nil {
		c.Undecided("package value", token.NoPos, "not found")
		return
	}
	info := vp.TypesInfo
	isFloat64 := func(t types.Type) bool {
		if t == nil {
			return false
		}
		b, ok := t.Underlying().(*types.Basic)
		return ok && b.Kind() == types.Float64
	}
	isErr := func(t types.Type) bool { return t != nil && t.String() == "error" }
	isReader := func(fn *types.Func) bool {
		if fn == nil || fn.Pkg() != vp.Types {
			return false
		}
		sig, ok := fn.Type().(*types.Signature)
		if !ok || sig.Results().Len() != 2 {
			return false
		}
		return isFloat64(sig.Results().At(0).Type()) && isErr(sig.Results().At(1).Type())
	}
	// the single defining right hand side of a local variable, nil if it is assigned more than once
	singleDef := func(fd *ast.FuncDecl, obj types.Object) (rhs ast.Expr, idx int, ok bool) {
		if countAssignments(info, fd, obj) != 1 {
			return nil, 0, false
		}
		ast.Inspect(fd, func(x ast.Node) bool {
			as, isAs := x.(*ast.AssignStmt)
			if !isAs {
				return true
			}
			for i, l := range as.Lhs {
				if id, isID := l.(*ast.Ident); isID && info.ObjectOf(id) == obj {
					if len(as.Rhs) == 1 {
						rhs, idx, ok = as.Rhs[0], i, true
					} else if len(as.Rhs) == len(as.Lhs) {
						rhs, idx, ok = as.Rhs[i], 0, true
					}
				}
			}
			return true
		})
		return
	}
	isConv := func(x ast.Expr) (ast.Expr, bool) {
		call, ok := ast.Unparen(x).(*ast.CallExpr)
		if !ok || len(call.Args) != 1 {
			return nil, false
		}
		if tv, ok := info.Types[call.Fun]; ok && tv.IsType() {
			return call.Args[0], true
		}
		return nil, false
	}

	readers := map[*types.Func]bool{}
	nArgs := 0
	for _, f := range vp.Syntax {
		if name := c.Fset.Position(f.Pos()).Filename; !strings.HasSuffix(name, "binning.go") {
			continue
		}
		for _, d := range f.Decls {
			fd, ok := d.(*ast.FuncDecl)
			if !ok || fd.Body == nil {
				continue
			}
			takesStack := false
			for _, p := range fd.Type.Params.List {
				if t := info.TypeOf(p.Type); t != nil && strings.Contains(t.String(), "funcGen.Stack[") {
					takesStack = true
				}
			}
			if !takesStack {
				continue
			}
			fname := declName(vp, fd)
			ast.Inspect(fd.Body, func(x ast.Node) bool {
				call, ok := x.(*ast.CallExpr)
				if !ok {
					return true
				}
				cal := Callee(info, call)
				if cal == nil || cal.Pkg() != vp.Types || isReader(cal) {
					return true
				}
				sig, _ := cal.Type().(*types.Signature)
				if sig == nil || sig.Variadic() {
					return true
				}
				for i, a := range call.Args {
					if i >= sig.Params().Len() {
						break
					}
					pt := sig.Params().At(i).Type()
					bt, isB := pt.Underlying().(*types.Basic)
					if !isB || bt.Info()&types.IsNumeric == 0 {
						continue
					}
					e := ast.Unparen(a)
					if inner, ok := isConv(e); ok {
						e = ast.Unparen(inner)
					}
					if !isFloat64(info.TypeOf(e)) {
						continue
					}
					nArgs++
					key := fmt.Sprintf("%s#grid-arg:%s.%s", fname, cal.Name(), sig.Params().At(i).Name())
					id, isID := e.(*ast.Ident)
					if !isID {
						c.Violation(key, a.Pos(), "the float handed to %s as %s is computed here (%s) and not the number read from the stack: binning then uses another grid or weight than the one given", cal.Name(), sig.Params().At(i).Name(), nodeStr(c.Fset, a))
						continue
					}
					rhs, idx, ok := singleDef(fd, info.ObjectOf(id))
					if !ok {
						c.Violation(key, a.Pos(), "%s is assigned more than once (or never) in %s before it is handed to %s: the number used is not the one read from the stack", id.Name, fname, cal.Name())
						continue
					}
					rc, isCall := ast.Unparen(rhs).(*ast.CallExpr)
					if !isCall || idx != 0 || !isReader(Callee(info, rc)) {
						c.Violation(key, rhs.Pos(), "%s, handed to %s as %s, is not the plain result of a float reader of package value (%s)", id.Name, cal.Name(), sig.Params().At(i).Name(), nodeStr(c.Fset, rhs))
						continue
					}
					readers[Callee(info, rc)] = true
					c.OK(key, a.Pos(), "read from the stack by "+Callee(info, rc).Name()+" and handed on unchanged")
				}
				return true
			})
		}
	}
	if nArgs < 10 {
		c.Undecided("value.binning#grid-args", token.NoPos, "only %d float arguments from binning builtins to package functions found", nArgs)
	}

	var rl []*types.Func
	for r := range readers {
		rl = append(rl, r)
	}
	sort.Slice(rl, func(i, j int) bool { return rl[i].Name() < rl[j].Name() })
	nRet := 0
	for _, r := range rl {
		fd := findFuncDecl(vp, r)
		if fd == nil || fd.Body == nil {
			c.Undecided("value."+r.Name()+"#reader", token.NoPos, "declaration not found")
			continue
		}
		k := 0
		ast.Inspect(fd.Body, func(x ast.Node) bool {
			if _, isLit := x.(*ast.FuncLit); isLit {
				return false
			}
			ret, ok := x.(*ast.ReturnStmt)
			if !ok {
				return true
			}
			if len(ret.Results) != 2 {
				c.Undecided(fmt.Sprintf("value.%s#reader-return", r.Name()), ret.Pos(), "return without two explicit results")
				return true
			}
			if id, ok := ast.Unparen(ret.Results[1]).(*ast.Ident); !ok || id.Name != "nil" {
				return true // an error return
			}
			nRet++
			k++
			key := fmt.Sprintf("value.%s#reader-return[%d]", r.Name(), k)
			e := ast.Unparen(ret.Results[0])
			if inner, ok := isConv(e); ok {
				e = ast.Unparen(inner)
			}
			switch t := e.(type) {
			case *ast.TypeAssertExpr:
				c.OK(key, ret.Pos(), "returns the value itself, converted")
				return true
			case *ast.Ident:
				obj := info.ObjectOf(t)
				isParam := false
				if v, isVar := obj.(*types.Var); isVar && !v.IsField() {
					for _, p := range fd.Type.Params.List {
						for _, n := range p.Names {
							if info.ObjectOf(n) == obj {
								isParam = true
							}
						}
					}
					if isParam && countAssignments(info, fd, obj) == 0 {
						c.OK(key, ret.Pos(), "returns its parameter, converted")
						return true
					}
					isParam = false
				}
				for node, io := range info.Implicits {
					if _, isCC := node.(*ast.CaseClause); isCC && io == obj {
						isParam = true
					}
				}
				if isParam {
					c.OK(key, ret.Pos(), "returns the value itself (type switch binding), converted")
					return true
				}
				rhs, idx, ok := singleDef(fd, obj)
				if !ok {
					c.Violation(key, ret.Pos(), "%s returns %s, which is assigned more than once (or never): the float returned is not the one the value gave", r.Name(), t.Name)
					return true
				}
				src := ast.Unparen(rhs)
				if inner, ok := isConv(src); ok {
					src = ast.Unparen(inner)
				}
				switch s := src.(type) {
				case *ast.TypeAssertExpr:
					c.OK(key, ret.Pos(), "returns the value itself, converted")
					return true
				case *ast.Ident:
					c.OK(key, ret.Pos(), "returns a converted variable")
					return true
				case *ast.CallExpr:
					cal := Callee(info, s)
					if cal != nil && idx == 0 && cal.Name() == "ToFloat" && cal.Type().(*types.Signature).Recv() != nil && cal.Type().(*types.Signature).Params().Len() == 0 {
						c.OK(key, ret.Pos(), "returns the result of the value's ToFloat method unchanged")
						return true
					}
					if isReader(cal) && idx == 0 {
						if !readers[cal] {
							c.Undecided(key, ret.Pos(), "delegates to the reader %s which is not analysed", cal.Name())
						} else {
							c.OK(key, ret.Pos(), "delegates to the reader "+cal.Name())
						}
						return true
					}
				}
				c.Violation(key, rhs.Pos(), "%s returns %s = %s: not the float the value's ToFloat method gave but a recomputed one (cleaned, rounded, parsed back); binning then uses another grid than the one given and elements at a bin edge change bins", r.Name(), t.Name, nodeStr(c.Fset, rhs))
			default:
				c.Violation(key, ret.Pos(), "%s returns %s: not the float the value's ToFloat method gave but a computed one", r.Name(), nodeStr(c.Fset, ret.Results[0]))
			}
			return true
		})
	}
	if len(rl) < 2 || nRet < 2 {
		c.Undecided("value.binning#readers", token.NoPos, "only %d float readers with %d successful returns found", len(rl), nRet)
	}
}
