package main

import (
	"encoding/json"
	"fmt"
	"go/ast"
	"go/token"
	"os"
	"path/filepath"
	"sort"
	"strings"
	"time"
)

// Status of one obligation.
type Status string

const (
	StOK        Status = "discharged"
	StViolated  Status = "violated"
	StKnown     Status = "known-finding"
	StUndecided Status = "undecided"
	StNote      Status = "note"
)

// Obligation is one instance of a rule: a construct of the analysed program
// for which the rule had to decide something.
type Obligation struct {
	Rule      string `json:"rule"`
	Construct string `json:"construct"`
	Status    Status `json:"status"`
	Pos       string `json:"pos,omitempty"`
	Detail    string `json:"detail,omitempty"`
	Config    string `json:"config,omitempty"`
}

// Rule is a repository specific static rule.
type Rule struct {
	ID    string
	Title string
	// Floor is the number of instances confirmed by hand on the pinned tree.
	// Fewer instances mean the rule has gone blind: the check is undecided.
	Floor int
	// Thorough marks rules (or rule parts) that only run in the thorough tier.
	Thorough bool
	Run      func(c *Ctx)
}

// Property bundles the rules of one property.
type Property struct {
	ID          string
	Technique   string
	Explanation string   // what is decided, what is not
	Assumptions []string // recorded in the evidence
	Rules       []*Rule
}

// Ctx is handed to a rule. It gives access to the loaded program and collects
// the obligations.
type Ctx struct {
	*Program
	Prop   *Property
	Tier   string
	rule   *Rule
	obls   []Obligation
	config string
}

func (c *Ctx) posStr(p token.Pos) string {
	if !p.IsValid() {
		return ""
	}
	pos := c.Fset.Position(p)
	fn := pos.Filename
	if rel, err := filepath.Rel(c.RepoDir, fn); err == nil && !strings.HasPrefix(rel, "..") {
		fn = rel
	} else if i := strings.Index(fn, "/pkg/mod/"); i >= 0 {
		fn = "$GOMODCACHE/" + fn[i+len("/pkg/mod/"):]
	}
	return fmt.Sprintf("%s:%d:%d", fn, pos.Line, pos.Column)
}

func (c *Ctx) add(st Status, construct string, pos token.Pos, format string, args ...any) {
	c.obls = append(c.obls, Obligation{
		Rule:      c.rule.ID,
		Construct: construct,
		Status:    st,
		Pos:       c.posStr(pos),
		Detail:    fmt.Sprintf(format, args...),
		Config:    c.config,
	})
}

// OK records a discharged obligation.
func (c *Ctx) OK(construct string, pos token.Pos, format string, args ...any) {
	c.add(StOK, construct, pos, format, args...)
}

// Violation records a violated obligation.
func (c *Ctx) Violation(construct string, pos token.Pos, format string, args ...any) {
	c.add(StViolated, construct, pos, format, args...)
}

// Undecided records that the rule could not decide (anchor missing, shape not
// recognised). The check then ends with exit code 2, never with VIOLATION.
func (c *Ctx) Undecided(construct string, pos token.Pos, format string, args ...any) {
	c.add(StUndecided, construct, pos, format, args...)
}

// Note records an observation that is no obligation (not counted).
func (c *Ctx) Note(construct string, pos token.Pos, format string, args ...any) {
	c.add(StNote, construct, pos, format, args...)
}

// Check records OK or Violation depending on cond.
func (c *Ctx) Check(cond bool, construct string, pos token.Pos, okMsg, badMsg string) {
	if cond {
		c.OK(construct, pos, "%s", okMsg)
	} else {
		c.Violation(construct, pos, "%s", badMsg)
	}
}

// ---------------------------------------------------------------------------

type knownFinding struct {
	Kind      string `json:"kind"` // "known" or "fixed"
	Property  string `json:"property"`
	Rule      string `json:"rule,omitempty"`
	Construct string `json:"construct,omitempty"`
	Defect    string `json:"defect,omitempty"`
	What      string `json:"what"`
	Commit    string `json:"commit,omitempty"`
}

func loadKnownFindings(path string) ([]knownFinding, error) {
	data, err := os.ReadFile(path)
	if err != nil {
		if os.IsNotExist(err) {
			return nil, nil
		}
		return nil, err
	}
	var res []knownFinding
	for i, line := range strings.Split(string(data), "\n") {
		line = strings.TrimSpace(line)
		if line == "" || strings.HasPrefix(line, "#") {
			continue
		}
		var kf knownFinding
		if err := json.Unmarshal([]byte(line), &kf); err != nil {
			return nil, fmt.Errorf("%s:%d: %v", path, i+1, err)
		}
		res = append(res, kf)
	}
	return res, nil
}

// ---------------------------------------------------------------------------

type ruleSummary struct {
	ID        string `json:"id"`
	Title     string `json:"title"`
	Instances int    `json:"instances"`
	Floor     int    `json:"floor"`
	Violated  int    `json:"violated"`
	Known     int    `json:"known_findings"`
	Undecided int    `json:"undecided"`
}

type runResult struct {
	prop      *Property
	tier      string
	obls      []Obligation
	rules     []ruleSummary
	configs   []string
	stats     map[string]int
	wall      float64
	blind     []string
	panicked  string
	loadError string
	extraCov  map[string]any
}

// mergeObligations removes duplicates that arise from analysing several build
// configurations: the worst status per (rule, construct) wins.
func mergeObligations(in []Obligation) []Obligation {
	rank := map[Status]int{StNote: 0, StOK: 1, StKnown: 2, StUndecided: 3, StViolated: 4}
	idx := map[string]int{}
	var out []Obligation
	for _, o := range in {
		k := o.Rule + "\x00" + o.Construct
		if i, ok := idx[k]; ok {
			if rank[o.Status] > rank[out[i].Status] {
				out[i] = o
			}
			continue
		}
		idx[k] = len(out)
		out = append(out, o)
	}
	return out
}

func runProperty(prop *Property, tier string, repo string, kfs []knownFinding) *runResult {
	start := time.Now()
	res := &runResult{prop: prop, tier: tier, stats: map[string]int{}}
	type cfgT struct {
		name   string
		goarch string
		tags   string
	}
	cfgs := []cfgT{{name: "linux/amd64"}}
	if tier == "thorough" {
		cfgs = append(cfgs, cfgT{name: "linux/386", goarch: "386"}, cfgT{name: "linux/amd64,tags=verif", tags: "verif"})
	}
	var all []Obligation
	for _, cf := range cfgs {
		prog, err := loadProgram(repo, cf.goarch, cf.tags)
		if err != nil {
			res.loadError = fmt.Sprintf("config %s: %v", cf.name, err)
			return res
		}
		res.configs = append(res.configs, cf.name)
		if cf.name == cfgs[0].name {
			res.stats["packages_repo"] = len(prog.RepoPkgs)
			res.stats["packages_total"] = prog.TotalPkgs
			res.stats["functions_repo"] = prog.countFuncs()
			res.stats["files_repo"] = prog.countFiles()
		}
		for _, r := range prop.Rules {
			if r.Thorough && tier != "thorough" {
				continue
			}
			c := &Ctx{Program: prog, Prop: prop, Tier: tier, rule: r, config: cf.name}
			func() {
				defer func() {
					if rec := recover(); rec != nil {
						res.panicked = fmt.Sprintf("rule %s (config %s): %v", r.ID, cf.name, rec)
						if os.Getenv("PCHECK_DEBUG") != "" {
							panic(rec)
						}
					}
				}()
				r.Run(c)
			}()
			all = append(all, c.obls...)
		}
	}
	all = mergeObligations(all)

	// apply known findings
	for i := range all {
		if all[i].Status != StViolated {
			continue
		}
		for _, kf := range kfs {
			if kf.Kind == "known" && kf.Property == prop.ID && kf.Rule == all[i].Rule && kf.Construct == all[i].Construct {
				all[i].Status = StKnown
				all[i].Detail += " [known finding " + kf.Defect + ": " + kf.What + "]"
			}
		}
	}
	sort.SliceStable(all, func(i, j int) bool {
		if all[i].Rule != all[j].Rule {
			return all[i].Rule < all[j].Rule
		}
		return all[i].Construct < all[j].Construct
	})
	res.obls = all

	for _, r := range prop.Rules {
		if r.Thorough && tier != "thorough" {
			continue
		}
		s := ruleSummary{ID: r.ID, Title: r.Title, Floor: r.Floor}
		for _, o := range all {
			if o.Rule != r.ID || o.Status == StNote {
				continue
			}
			s.Instances++
			switch o.Status {
			case StViolated:
				s.Violated++
			case StKnown:
				s.Known++
			case StUndecided:
				s.Undecided++
			}
		}
		// Floor is the count confirmed by hand on the pinned tree. A rule counts as blind
		// when it finds clearly fewer instances (a small refactoring may remove a site).
		if s.Instances < (r.Floor*7+9)/10 && s.Violated == 0 {
			res.blind = append(res.blind, fmt.Sprintf("rule %s found %d instances, clearly fewer than the %d confirmed by hand on the pinned tree", r.ID, s.Instances, r.Floor))
		}
		res.rules = append(res.rules, s)
	}
	res.wall = time.Since(start).Seconds()
	return res
}

func (res *runResult) count(st Status) int {
	n := 0
	for _, o := range res.obls {
		if o.Status == st {
			n++
		}
	}
	return n
}

type evidence struct {
	PropertyID  string         `json:"property_id"`
	Tier        string         `json:"tier"`
	Seed        int            `json:"seed"`
	Level       string         `json:"level"`
	Coverage    map[string]any `json:"coverage"`
	Assumptions []string       `json:"assumptions"`
	WallS       float64        `json:"wall_s"`
	Violations  int            `json:"violations"`
}

func (res *runResult) writeEvidence(path string, seed int, cmd string) error {
	obligations := 0
	discharged := 0
	for _, o := range res.obls {
		if o.Status == StNote {
			continue
		}
		obligations++
		if o.Status == StOK {
			discharged++
		}
	}
	// samples: every non-discharged obligation and up to two discharged ones per rule
	var samples []Obligation
	perRule := map[string]int{}
	for _, o := range res.obls {
		if o.Status == StOK || o.Status == StNote {
			if perRule[o.Rule+string(o.Status)] >= 2 {
				continue
			}
			perRule[o.Rule+string(o.Status)]++
		}
		samples = append(samples, o)
	}
	distinct := map[string]bool{}
	for _, o := range res.obls {
		if o.Status != StNote {
			distinct[o.Rule+"\x00"+o.Construct] = true
		}
	}
	cov := map[string]any{
		"explanation":         res.prop.Explanation,
		"obligations":         obligations,
		"discharged":          discharged,
		"known_findings":      res.count(StKnown),
		"undecided":           res.count(StUndecided),
		"evaluations":         obligations,
		"distinct_nontrivial": len(distinct),
		"rule":                "one obligation per (rule, construct) found by the rule's enumeration of the current /repo source; distinct = distinct (rule, construct) keys; every obligation requires a decision on typed syntax / CFG / call graph, none is trivial by construction",
		"rules":               res.rules,
		"samples":             samples,
		"configurations":      res.configs,
		"analysed":            res.stats,
		"checker_cmd":         cmd,
		"trusted_base": []string{
			"go/types type checker and go/packages loader (go1.26.8)",
			"golang.org/x/tools v0.50.0 (go/cfg, go/ssa, callgraph/vta) where the rule uses them",
			"the rule tables in /verif/checker (accepted idioms, role tables, reference tables taken from the property text)",
			"/verif/known_findings.jsonl",
		},
		"exhaustive": true,
	}
	for k, v := range res.extraCov {
		cov[k] = v
	}
	ev := evidence{
		PropertyID:  res.prop.ID,
		Tier:        res.tier,
		Seed:        seed,
		Level:       "other",
		Coverage:    cov,
		Assumptions: res.prop.Assumptions,
		WallS:       res.wall,
		Violations:  res.count(StViolated),
	}
	if ev.Assumptions == nil {
		ev.Assumptions = []string{}
	}
	data, err := json.MarshalIndent(ev, "", " ")
	if err != nil {
		return err
	}
	if err := os.MkdirAll(filepath.Dir(path), 0o755); err != nil {
		return err
	}
	return os.WriteFile(path, append(data, '\n'), 0o644)
}

// ---------------------------------------------------------------------------
// small helpers shared by the rules

func nodeStr(fset *token.FileSet, n ast.Node) string {
	if n == nil {
		return "<nil>"
	}
	var sb strings.Builder
	if err := printerFprint(&sb, fset, n); err != nil {
		return fmt.Sprintf("<%T>", n)
	}
	s := sb.String()
	s = strings.Join(strings.Fields(s), " ")
	if len(s) > 120 {
		s = s[:117] + "..."
	}
	return s
}
