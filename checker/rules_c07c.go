package main

import (
	"fmt"
	"go/ast"
	"go/constant"
	"go/token"
	"go/types"
	"strings"
)

// ---------------------------------------------------------------------------
// R07.9 the materialisation of a lazy list has a postcondition
//
// Every consumer of a list that needs the items (size, index, order, reverse,
// =, ToSlice ...) calls the materialising method and, if that reports no
// error, reads the cached items. The method therefore has to guarantee
//
//	(a) success implies presence: a return that can hand back a nil error is
//	    reached only on paths on which the presence flag is known to be set
//	    or has just been stored, and
//	(b) nothing is cached after a failure: the store of the presence flag is
//	    not reachable while an error that an element of the producer
//	    delivered is pending (a truncated list would be cached for good).
//
// Both are path properties of one function. The function, the flag and the
// accessor are found structurally: the flag is the boolean field of List that
// a method of List sets to true by an assignment.

func ruleR079(c *Ctx) {
	la := c.listAnchors()
	if len(la.missing) > 0 {
		c.Undecided(strings.Join(la.missing, ","), token.NoPos, "anchors not found")
		return
	}
	vp := la.vp
	info := vp.TypesInfo
	isListRecv := func(fd *ast.FuncDecl) bool {
		return fd.Recv != nil && len(fd.Recv.List) == 1 && recvTypeName(fd.Recv.List[0].Type) == la.listType.Name()
	}
	// flag stores: l.F = true in methods of List (also inside literals of the method)
	type flagStore struct {
		fd    *ast.FuncDecl
		stmt  ast.Node // the assignment, or the call statement of a helper that stores
		field *types.Var
		inLit bool
	}
	var stores []flagStore
	for _, f := range vp.Syntax {
		for _, d := range f.Decls {
			fd, ok := d.(*ast.FuncDecl)
			if !ok || fd.Body == nil || !isListRecv(fd) {
				continue
			}
			ast.Inspect(fd.Body, func(x ast.Node) bool {
				as, ok := x.(*ast.AssignStmt)
				if !ok || as.Tok != token.ASSIGN || len(as.Lhs) != len(as.Rhs) {
					return true
				}
				for i, l := range as.Lhs {
					sel, ok := ast.Unparen(l).(*ast.SelectorExpr)
					if !ok {
						continue
					}
					v, ok := info.ObjectOf(sel.Sel).(*types.Var)
					if !ok || !v.IsField() {
						continue
					}
					if nm := namedOf(info.TypeOf(sel.X)); nm == nil || nm.Obj() != la.listType {
						continue
					}
					if tv := info.Types[as.Rhs[i]]; tv.Value != nil && tv.Value.Kind() == constant.Bool && constant.BoolVal(tv.Value) {
						stores = append(stores, flagStore{fd, ast.Node(as), v, c.EnclosingFunc(as) != ast.Node(fd)})
					}
				}
				return true
			})
		}
	}
	if len(stores) == 0 {
		c.Undecided("value.List#materialisation", token.NoPos, "no method of List sets a boolean field of the list to true: the presence flag of the materialisation cache was not found")
		return
	}
	// accessors: methods of List whose every return hands back the flag as its last result
	accessor := func(fn *types.Func, flag *types.Var) bool {
		if fn == nil || fn.Pkg() != vp.Types {
			return false
		}
		fd := findFuncDecl(vp, fn)
		if fd == nil || fd.Body == nil || !isListRecv(fd) {
			return false
		}
		n, all := 0, true
		inspectNoLit(fd.Body, func(x ast.Node) bool {
			if r, ok := x.(*ast.ReturnStmt); ok {
				n++
				if len(r.Results) == 0 {
					all = false
					return true
				}
				last := ast.Unparen(r.Results[len(r.Results)-1])
				// a local copy taken from the flag: items, present := l.items, l.itemsPresent
				if id, ok := last.(*ast.Ident); ok {
					if as, i := definingAssign(info, fd, info.ObjectOf(id)); as != nil && len(as.Rhs) == len(as.Lhs) && countAssignments(info, fd, info.ObjectOf(id)) == 1 {
						last = ast.Unparen(as.Rhs[i])
					}
				}
				sel, ok := last.(*ast.SelectorExpr)
				if !ok || info.ObjectOf(sel.Sel) != flag {
					all = false
				}
			}
			return true
		})
		return n > 0 && all
	}
	establishesIn := func(fd *ast.FuncDecl, flag *types.Var, cond ast.Expr, val bool) bool {
		var gs []Guard
		expandGuard(cond, val, &gs)
		for _, gd := range gs {
			if !gd.Val {
				continue
			}
			switch t := ast.Unparen(gd.Cond).(type) {
			case *ast.SelectorExpr:
				if info.ObjectOf(t.Sel) == flag {
					return true
				}
			case *ast.Ident:
				// _, ok := l.getItems()
				obj := info.ObjectOf(t)
				if as, i := definingAssign(info, fd, obj); as != nil && len(as.Rhs) == 1 && i == len(as.Lhs)-1 && countAssignments(info, fd, obj) == 1 {
					if call, ok := ast.Unparen(as.Rhs[0]).(*ast.CallExpr); ok && accessor(Callee(info, call), flag) {
						return true
					}
				}
			}
		}
		return false
	}
	// a method without an error result that stores the flag is a helper of the materialising method (storeItems): if it
	// leaves the flag set on every path, its call statements are the stores of its callers
	hasErrorResult := func(fd *ast.FuncDecl) bool {
		if fd.Type.Results == nil {
			return false
		}
		for _, f := range fd.Type.Results.List {
			if isErrorType(info.TypeOf(f.Type)) {
				return true
			}
		}
		return false
	}
	{
		var expanded []flagStore
		for _, st := range stores {
			if hasErrorResult(st.fd) || st.inLit {
				expanded = append(expanded, st)
				continue
			}
			h := st.fd
			hobj, _ := info.Defs[h.Name].(*types.Func)
			g := c.CFG(h)
			if hobj == nil || g == nil {
				expanded = append(expanded, st)
				continue
			}
			leaves, _ := g.PathAvoidingEdges(nil, func(n ast.Node) bool { return n == st.stmt }, func(cond ast.Expr, val bool) bool { return !establishesIn(h, st.field, cond, val) })
			if leaves {
				expanded = append(expanded, st)
				continue
			}
			// (c) the cache is never filled from inside a producer: a producer's iteration ends when ITS consumer stops
			// (first, top, present), which says nothing about the end of the list
			for _, f := range vp.Syntax {
				for _, d := range f.Decls {
					ofd, ok := d.(*ast.FuncDecl)
					if !ok || ofd.Body == nil || ofd == h {
						continue
					}
					ast.Inspect(ofd.Body, func(x ast.Node) bool {
						call, ok := x.(*ast.CallExpr)
						if !ok {
							return true
						}
						if cal := Callee(info, call); cal == nil || cal.Origin() != hobj.Origin() {
							return true
						}
						for q := c.EnclosingFunc(call); q != nil; q = c.EnclosingFunc(q) {
							lit, ok := q.(*ast.FuncLit)
							if !ok || lit.Type.Params == nil {
								continue
							}
							for _, fl := range lit.Type.Params.List {
								if sig, ok := info.TypeOf(fl.Type).Underlying().(*types.Signature); ok && sig.Params().Len() == 2 && sig.Results().Len() == 1 && isErrorType(sig.Params().At(1).Type()) {
									if b, ok := sig.Results().At(0).Type().Underlying().(*types.Basic); ok && b.Kind() == types.Bool {
										c.Violation(fmt.Sprintf("%s#cache-filled-inside-a-producer", declName(vp, ofd)), call.Pos(), "%s fills the materialisation cache of a list from inside a producer (a function that delivers to a consumer): the producer's own iteration ends as soon as its consumer stops (first, top, present, a failing reduce), so the prefix seen so far is cached as the whole list - a constant list that one evaluation consumed partially is truncated for all later evaluations", h.Name.Name)
										return true
									}
								}
							}
						}
						return true
					})
				}
			}
			nCallers := 0
			for _, f := range vp.Syntax {
				for _, d := range f.Decls {
					cfd, ok := d.(*ast.FuncDecl)
					if !ok || cfd.Body == nil || !isListRecv(cfd) || cfd == h {
						continue
					}
					ast.Inspect(cfd.Body, func(x ast.Node) bool {
						es, ok := x.(*ast.ExprStmt)
						if !ok {
							return true
						}
						if call, ok := ast.Unparen(es.X).(*ast.CallExpr); ok {
							if cal := Callee(info, call); cal != nil && cal.Origin() == hobj.Origin() {
								nCallers++
								expanded = append(expanded, flagStore{cfd, es, st.field, c.EnclosingFunc(es) != ast.Node(cfd)})
							}
						}
						return true
					})
				}
			}
			if nCallers == 0 {
				expanded = append(expanded, st)
			}
		}
		stores = expanded
	}
	seen := map[*ast.FuncDecl]bool{}
	for _, st := range stores {
		fd, flag := st.fd, st.field
		if seen[fd] {
			continue
		}
		seen[fd] = true
		name := declName(vp, fd)
		g := c.CFG(fd)
		if g == nil {
			c.Undecided(name+"#materialisation", fd.Pos(), "no flow graph")
			continue
		}
		// the stores of this method
		var mine []flagStore
		for _, s2 := range stores {
			if s2.fd == fd && s2.field == flag {
				mine = append(mine, s2)
			}
		}
		isStore := func(n ast.Node) bool {
			for _, s2 := range mine {
				if !s2.inLit && n == s2.stmt {
					return true
				}
			}
			return false
		}
		// does a branch outcome establish "the flag is set"?
		establishes := func(cond ast.Expr, val bool) bool { return establishesIn(fd, flag, cond, val) }
		_ = func(cond ast.Expr, val bool) bool {
			var gs []Guard
			expandGuard(cond, val, &gs)
			for _, gd := range gs {
				if !gd.Val {
					continue
				}
				switch t := ast.Unparen(gd.Cond).(type) {
				case *ast.SelectorExpr:
					if info.ObjectOf(t.Sel) == flag {
						return true
					}
				case *ast.Ident:
					// _, ok := l.getItems()
					obj := info.ObjectOf(t)
					if as, i := definingAssign(info, fd, obj); as != nil && len(as.Rhs) == 1 && i == len(as.Lhs)-1 && countAssignments(info, fd, obj) == 1 {
						if call, ok := ast.Unparen(as.Rhs[0]).(*ast.CallExpr); ok && accessor(Callee(info, call), flag) {
							return true
						}
					}
				}
			}
			return false
		}
		// (a) success implies presence
		errIdx := -1
		if fd.Type.Results != nil {
			i := 0
			for _, f := range fd.Type.Results.List {
				k := len(f.Names)
				if k == 0 {
					k = 1
				}
				if isErrorType(info.TypeOf(f.Type)) {
					errIdx = i
				}
				i += k
			}
		}
		nRet := 0
		inspectNoLit(fd.Body, func(x ast.Node) bool {
			r, ok := x.(*ast.ReturnStmt)
			if !ok {
				return true
			}
			nRet++
			key := fmt.Sprintf("%s#success-implies-present[%d]", name, nRet)
			// a bare return hands back the named results
			results := r.Results
			if len(results) == 0 && fd.Type.Results != nil {
				for _, f := range fd.Type.Results.List {
					for _, nm := range f.Names {
						results = append(results, nm)
					}
				}
			}
			if errIdx >= 0 && errIdx < len(results) {
				e := ast.Unparen(results[errIdx])
				// a pending error: err under err != nil, or a freshly made error
				if id, ok := e.(*ast.Ident); ok && id.Name != "nil" {
					// err = e; return : the returned variable was just set from another one in the same block
					alias := types.Object(nil)
					if blk, ok := c.Parent(r).(*ast.BlockStmt); ok {
						for _, st := range blk.List {
							if st == ast.Stmt(r) {
								break
							}
							if as, ok := st.(*ast.AssignStmt); ok && len(as.Lhs) == 1 && len(as.Rhs) == 1 {
								if l, ok := as.Lhs[0].(*ast.Ident); ok && info.ObjectOf(l) == info.ObjectOf(id) {
									alias = nil
									if rid, ok := ast.Unparen(as.Rhs[0]).(*ast.Ident); ok && rid.Name != "nil" {
										alias = info.ObjectOf(rid)
									}
								}
							}
						}
					}
					for _, gd := range g.Guards(r) {
						if be, ok := ast.Unparen(gd.Cond).(*ast.BinaryExpr); ok && gd.Val && be.Op == token.NEQ && alias != nil {
							if x, ok := ast.Unparen(be.X).(*ast.Ident); ok && info.ObjectOf(x) == alias {
								if y, ok := ast.Unparen(be.Y).(*ast.Ident); ok && y.Name == "nil" {
									c.OK(key, r.Pos(), "returns a pending error")
									return true
								}
							}
						}
					}
					for _, gd := range g.Guards(r) {
						if be, ok := ast.Unparen(gd.Cond).(*ast.BinaryExpr); ok && gd.Val && be.Op == token.NEQ {
							if x, ok := ast.Unparen(be.X).(*ast.Ident); ok && info.ObjectOf(x) == info.ObjectOf(id) {
								if y, ok := ast.Unparen(be.Y).(*ast.Ident); ok && y.Name == "nil" {
									c.OK(key, r.Pos(), "returns a pending error")
									return true
								}
							}
						}
					}
				}
				if call, ok := e.(*ast.CallExpr); ok {
					if cal := Callee(info, call); cal != nil && cal.Pkg() != nil && (cal.Pkg().Path() == "fmt" && cal.Name() == "Errorf" || cal.Pkg().Path() == "errors" && cal.Name() == "New") {
						c.OK(key, r.Pos(), "returns a new error")
						return true
					}
				}
			}
			found, _ := g.PathAvoidingEdges(func(n ast.Node) bool { return n == ast.Node(r) }, isStore, func(cond ast.Expr, val bool) bool { return !establishes(cond, val) })
			if !found {
				c.OK(key, r.Pos(), "every path to this return has seen the presence flag %s set or has stored it", flag.Name())
				return true
			}
			what := "nil"
			if errIdx >= 0 && errIdx < len(results) {
				what = nodeStr(c.Fset, results[errIdx])
			}
			lit := ""
			for _, s2 := range mine {
				if s2.inLit {
					lit = " (the flag is stored inside a function literal, whose execution this method does not control)"
				}
			}
			c.Violation(key, r.Pos(), "the method that materialises a list can return %s on a path on which the presence flag %s has neither been found set nor been stored%s: its callers read the cached items after a successful return and then work on an empty list - a failure of the producer, or of another goroutine's materialisation, becomes a wrong value", what, flag.Name(), lit)
			return true
		})
		// (b) nothing is cached while an element's error is pending
		for k, s2 := range mine {
			if s2.inLit {
				continue
			}
			key := fmt.Sprintf("%s#no-store-after-failure[%d]", name, k+1)
			problem := ""
			checkFrom := func(errObj types.Object, start func() (bool, ast.Node)) {
				if problem != "" {
					return
				}
				if found, _ := start(); found {
					problem = errObj.Name()
				}
			}
			edgeOK := func(errObj types.Object) func(cond ast.Expr, val bool) bool {
				return func(cond ast.Expr, val bool) bool {
					var gs []Guard
					expandGuard(cond, val, &gs)
					for _, gd := range gs {
						be, ok := ast.Unparen(gd.Cond).(*ast.BinaryExpr)
						if !ok {
							continue
						}
						x, okx := ast.Unparen(be.X).(*ast.Ident)
						y, oky := ast.Unparen(be.Y).(*ast.Ident)
						if !okx || !oky || info.ObjectOf(x) != errObj || y.Name != "nil" {
							continue
						}
						// err == nil holds on this edge: the error is not pending here
						if be.Op == token.EQL && gd.Val || be.Op == token.NEQ && !gd.Val {
							return false
						}
					}
					return true
				}
			}
			isTarget := func(n ast.Node) bool { return n == s2.stmt }
			inspectNoLit(fd.Body, func(x ast.Node) bool {
				switch t := x.(type) {
				case *ast.RangeStmt:
					if id, ok := t.Value.(*ast.Ident); ok && id.Name != "_" && isErrorType(info.TypeOf(id)) {
						obj := info.ObjectOf(id)
						if body, _, _ := g.RangeBlocks(t); body != nil {
							checkFrom(obj, func() (bool, ast.Node) { return g.PathEdgesFromBlock(body, isTarget, nil, edgeOK(obj)) })
						}
					}
				case *ast.AssignStmt:
					for _, l := range t.Lhs {
						if id, ok := l.(*ast.Ident); ok && id.Name != "_" && isErrorType(info.TypeOf(id)) {
							obj := info.ObjectOf(id)
							if tv := info.Types[t.Rhs[0]]; len(t.Rhs) == 1 && tv.IsNil() {
								continue
							}
							checkFrom(obj, func() (bool, ast.Node) { return g.PathEdgesFromNode(t, isTarget, nil, edgeOK(obj)) })
						}
					}
				}
				return true
			})
			if problem == "" {
				c.OK(key, s2.stmt.Pos(), "the items are cached only on paths on which every error of the producer has been found nil")
			} else {
				c.Violation(key, s2.stmt.Pos(), "the presence flag %s is stored on a path on which the error %s of the producer has not been found nil: the items produced before the failure are cached, and every later use of the list sees a silently truncated list instead of the error", flag.Name(), problem)
			}
		}
	}
}

// ---------------------------------------------------------------------------
// R07.10 a function registered under the name of a math function is that function
//
// The table of static functions binds names of the language to Go functions.
// Where the implementation of an entry is (a thin wrapper around) exactly one
// function of package math, and package math has a function whose name is the
// registered name, the two have to be the same function: "trunc" bound to
// math.Floor is a copy of the neighbouring row. Names without a namesake in
// package math (ln, sqr) are not looked at.

func ruleR0710(c *Ctx) {
	n := 0
	for _, pkg := range c.RepoPkgs {
		info := pkg.TypesInfo
		for _, f := range pkg.Syntax {
			ast.Inspect(f, func(x ast.Node) bool {
				call, ok := x.(*ast.CallExpr)
				if !ok || len(call.Args) != 2 {
					return true
				}
				sel, ok := ast.Unparen(call.Fun).(*ast.SelectorExpr)
				if !ok || sel.Sel.Name != "AddStaticFunction" {
					return true
				}
				tv := info.Types[call.Args[0]]
				if tv.Value == nil || tv.Value.Kind() != constant.String {
					return true
				}
				name := constant.StringVal(tv.Value)
				// the math functions the implementation refers to
				used := map[*types.Func]bool{}
				var mathPkg *types.Package
				ast.Inspect(call.Args[1], func(y ast.Node) bool {
					// do not descend into chained registrations of other names: the receiver chain is call.Fun, not Args[1]
					if s2, ok := y.(*ast.SelectorExpr); ok {
						if fn, ok := info.ObjectOf(s2.Sel).(*types.Func); ok && fn.Pkg() != nil && fn.Pkg().Path() == "math" {
							used[fn] = true
							mathPkg = fn.Pkg()
						}
					}
					return true
				})
				if len(used) != 1 || mathPkg == nil || name == "" {
					return true
				}
				var fn *types.Func
				for u := range used {
					fn = u
				}
				namesake, _ := mathPkg.Scope().Lookup(strings.ToUpper(name[:1]) + name[1:]).(*types.Func)
				if namesake == nil {
					return true
				}
				n++
				key := fmt.Sprintf("value#static-function %s", name)
				if namesake == fn {
					c.OK(key, call.Pos(), "%q is bound to math.%s", name, fn.Name())
				} else {
					c.Violation(key, call.Pos(), "the static function %q is bound to math.%s although package math has the function %s: the entry computes another function than its name and description say (trunc bound to math.Floor is one too low for every negative argument with a fractional part)", name, fn.Name(), namesake.Name())
				}
				return true
			})
		}
	}
	if n < 8 {
		c.Undecided("value#static-math-functions", token.NoPos, "only %d static functions with a namesake in package math found", n)
	}
}
