package main

import (
	"fmt"
	"go/ast"
	"go/token"
	"go/types"
	"strings"
)

// definingAssign finds the assignment statement in root that defines obj.
func definingAssign(info *types.Info, root ast.Node, obj types.Object) (*ast.AssignStmt, int) {
	var res *ast.AssignStmt
	idx := -1
	ast.Inspect(root, func(n ast.Node) bool {
		if res != nil {
			return false
		}
		if as, ok := n.(*ast.AssignStmt); ok && as.Tok == token.DEFINE {
			for i, l := range as.Lhs {
				if id, ok := l.(*ast.Ident); ok && info.Defs[id] == obj {
					res, idx = as, i
					return false
				}
			}
		}
		return true
	})
	return res, idx
}

// ---------------------------------------------------------------------------
// R01.2 closure context: index provenance, parallel indices, allocation site

func ruleR012(c *Ctx) {
	a := c.genAnchors()
	if len(a.missing) > 0 {
		c.Undecided(strings.Join(a.missing, ","), token.NoPos, "anchors not found")
		return
	}
	argsGet := LookupMethod(a.fg, "argsList", "get")
	argsAdd := LookupMethod(a.fg, "argsList", "add")
	if argsGet == nil || argsAdd == nil {
		c.Undecided("funcGen.argsList.get/add", token.NoPos, "anchor not found")
		return
	}
	info := a.fg.TypesInfo
	fwd := c.forwarders(a)
	gens := c.generatorFuncs(a, fwd)

	// which context field does a `X.get(..)` call read: am or cm?
	roles := c.fieldRoles(a)
	for _, p := range roles.problems {
		c.Undecided("funcGen#field-roles", token.NoPos, "%s", p)
	}
	fieldOfGet := func(call *ast.CallExpr) string {
		sel, ok := ast.Unparen(call.Fun).(*ast.SelectorExpr)
		if !ok {
			return ""
		}
		if s2, ok := ast.Unparen(sel.X).(*ast.SelectorExpr); ok && a.isCtx(info.TypeOf(s2.X)) {
			return s2.Sel.Name
		}
		return ""
	}

	for _, gi := range gens {
		if gi.pkg != a.fg {
			continue
		}
		gname := declName(gi.pkg, gi.decl)
		// (a) index provenance
		nGet, nCs := 0, 0
		ast.Inspect(gi.decl.Body, func(n ast.Node) bool {
			lit, ok := n.(*ast.FuncLit)
			if !ok || lit.Type.Params == nil || len(lit.Type.Params.List) < 2 {
				return true
			}
			var stObj, csObj types.Object
			if len(lit.Type.Params.List[0].Names) > 0 {
				stObj = info.Defs[lit.Type.Params.List[0].Names[0]]
			}
			if len(lit.Type.Params.List[1].Names) > 0 {
				csObj = info.Defs[lit.Type.Params.List[1].Names[0]]
			}
			if stObj == nil || !a.isStack(stObj.Type()) {
				return true
			}
			checkIndex := func(idx ast.Expr, wantField, what string, pos token.Pos, ord int) {
				key := fmt.Sprintf("%s#%s[%d]", gname, what, ord)
				id, ok := ast.Unparen(idx).(*ast.Ident)
				if !ok {
					c.Violation(key, pos, "%s uses the computed index %s instead of the index found for the name in the compile time %s list", what, nodeStr(c.Fset, idx), wantField)
					return
				}
				obj := info.ObjectOf(id)
				as, i := definingAssign(info, gi.decl, obj)
				if as == nil || i != 0 || len(as.Rhs) != 1 {
					c.Violation(key, pos, "index %s of %s is not the result of a lookup in the compile time %s list", id.Name, what, wantField)
					return
				}
				call, ok := ast.Unparen(as.Rhs[0]).(*ast.CallExpr)
				if !ok || !isCallTo(info, call, argsGet) {
					c.Violation(key, pos, "index %s of %s is not the result of argsList.get", id.Name, what)
					return
				}
				if f := fieldOfGet(call); f != wantField {
					c.Violation(key, pos, "%s addresses the %s with an index looked up in GeneratorContext.%s (it has to come from .%s)", what, map[string]string{roles.am: "stack frame", roles.cm: "closure context"}[wantField], f, wantField)
					return
				}
				// the literal has to live on the found branch of that lookup
				ok2 := false
				if ifs, ok := c.Parent(as).(*ast.IfStmt); ok && ifs.Init == as {
					if id2, ok := ast.Unparen(ifs.Cond).(*ast.Ident); ok && len(as.Lhs) == 2 {
						if l1, ok := as.Lhs[1].(*ast.Ident); ok && info.ObjectOf(id2) == info.Defs[l1] {
							ok2 = ifs.Body.Pos() <= lit.Pos() && lit.End() <= ifs.Body.End()
						}
					}
				}
				if !ok2 && len(as.Lhs) == 2 {
					// any other form of the same fact: the found flag is known to be true where the literal is created
					if l1, ok := as.Lhs[1].(*ast.Ident); ok && l1.Name != "_" {
						if g := c.CFG(gi.decl); g != nil {
							for _, gd := range g.Guards(lit) {
								if id2, ok := ast.Unparen(gd.Cond).(*ast.Ident); ok && gd.Val && !gd.Synth && info.ObjectOf(id2) == info.ObjectOf(l1) {
									ok2 = true
								}
							}
						}
					}
				}
				if !ok2 {
					c.Violation(key, pos, "the closure using index %s is not confined to the branch on which the lookup succeeded", id.Name)
					return
				}
				c.OK(key, pos, "index %s comes from GeneratorContext.%s.get on its success branch", id.Name, wantField)
			}
			inspectNoLit(lit.Body, func(x ast.Node) bool {
				switch t := x.(type) {
				case *ast.CallExpr:
					if isCallTo(info, t, a.get) && len(t.Args) == 1 {
						if sel, ok := ast.Unparen(t.Fun).(*ast.SelectorExpr); ok {
							if id, ok := ast.Unparen(sel.X).(*ast.Ident); ok && info.ObjectOf(id) == stObj {
								if tv, ok := info.Types[t.Args[0]]; ok && tv.Value != nil {
									return true // constant index: host function style access, not a compiled name
								}
								nGet++
								checkIndex(t.Args[0], roles.am, "stack-access", t.Pos(), nGet)
							}
						}
					}
				case *ast.IndexExpr:
					if id, ok := ast.Unparen(t.X).(*ast.Ident); ok && csObj != nil && info.ObjectOf(id) == csObj {
						nCs++
						checkIndex(t.Index, roles.cm, "context-access", t.Pos(), nCs)
					}
				}
				return true
			})
			return true
		})

		// (b) parallel slices are filled with the loop key
		nStore := 0
		ast.Inspect(gi.decl.Body, func(n ast.Node) bool {
			as, ok := n.(*ast.AssignStmt)
			if !ok {
				return true
			}
			for _, l := range as.Lhs {
				ix, ok := ast.Unparen(l).(*ast.IndexExpr)
				if !ok {
					continue
				}
				if _, isSlice := info.TypeOf(ix.X).Underlying().(*types.Slice); !isSlice {
					continue
				}
				// innermost enclosing range statement
				var rs *ast.RangeStmt
				for q := c.Parent(as); q != nil && q != gi.decl; q = c.Parent(q) {
					if r, ok := q.(*ast.RangeStmt); ok {
						rs = r
						break
					}
				}
				if rs == nil {
					continue
				}
				nStore++
				key := fmt.Sprintf("%s#indexed-store[%d]:%s", gname, nStore, nodeStr(c.Fset, ix.X))
				kid, _ := rs.Key.(*ast.Ident)
				iid, _ := ast.Unparen(ix.Index).(*ast.Ident)
				if kid != nil && iid != nil && info.ObjectOf(kid) == info.ObjectOf(iid) {
					c.OK(key, as.Pos(), "slot index is the key of the enclosing range over %s", nodeStr(c.Fset, rs.X))
				} else {
					c.Violation(key, as.Pos(), "store into %s uses index %s, not the key of the enclosing range over %s: compile time position and run time slot of a captured value diverge", nodeStr(c.Fset, ix.X), nodeStr(c.Fset, ix.Index), nodeStr(c.Fset, rs.X))
				}
			}
			return true
		})

		// (c) the closure context handed to a fresh-frame child is allocated per closure creation
		ast.Inspect(gi.decl.Body, func(n ast.Node) bool {
			call, ok := n.(*ast.CallExpr)
			if !ok || len(call.Args) != 2 {
				return true
			}
			off, name, ok := gi.childOf(info, call.Fun)
			if !ok || !off.newFrame {
				return true
			}
			arg := ast.Unparen(call.Args[1])
			if id, ok := arg.(*ast.Ident); ok && id.Name == "nil" {
				return true
			}
			key := fmt.Sprintf("%s#context-allocation:%s", gname, name)
			id, ok := arg.(*ast.Ident)
			if !ok {
				c.Undecided(key, call.Pos(), "closure context argument %s is not a variable", nodeStr(c.Fset, arg))
				return true
			}
			obj := info.ObjectOf(id)
			as, _ := definingAssign(info, gi.decl, obj)
			if as == nil {
				c.Violation(key, call.Pos(), "closure context %s is not a local of the closure-creating function", id.Name)
				return true
			}
			encl := c.EnclosingFunc(as)
			lit, isLit := encl.(*ast.FuncLit)
			isMake := false
			if len(as.Rhs) == 1 {
				if mk, ok := ast.Unparen(as.Rhs[0]).(*ast.CallExpr); ok {
					if f, ok := ast.Unparen(mk.Fun).(*ast.Ident); ok && f.Name == "make" {
						isMake = true
					}
				}
			}
			if isLit && isMake && a.isParserFuncLit(info, lit) {
				c.OK(key, as.Pos(), "context slice %s is allocated inside the run time closure, once per closure creation", id.Name)
			} else {
				c.Violation(key, as.Pos(), "context slice %s is allocated at compile time (outside the run time closure): all closures created from this literal, in all evaluations, share one context", id.Name)
			}
			return true
		})

		// (d) recursion slot: compile time list and run time operations are extended under the same guard, at the end
		if gi.decl.Name.Name == "createClosureLiteralFunc" {
			c.checkRecursionSlot(a, gi, argsAdd)
		}
	}
}

func (a *genAnchors) isParserFuncLit(info *types.Info, lit *ast.FuncLit) bool {
	if a.isParserFunc(info.TypeOf(lit)) {
		return true
	}
	sig, ok := info.TypeOf(lit).(*types.Signature)
	return ok && sig.Params().Len() == 2 && a.isStack(sig.Params().At(0).Type()) && sig.Results().Len() == 2
}

func (c *Ctx) checkRecursionSlot(a *genAnchors, gi *generatorInfo, argsAdd *types.Func) {
	info := gi.pkg.TypesInfo
	gname := declName(gi.pkg, gi.decl)
	// guards reading a field named Recursive
	guardedByRecursive := func(n ast.Node) bool {
		for q := c.Parent(n); q != nil && q != gi.decl; q = c.Parent(q) {
			if ifs, ok := q.(*ast.IfStmt); ok && ifs.Body.Pos() <= n.Pos() && n.End() <= ifs.Body.End() {
				if sel, ok := ast.Unparen(ifs.Cond).(*ast.SelectorExpr); ok && sel.Sel.Name == "Recursive" {
					return true
				}
			}
		}
		return false
	}
	// the run time access operations: the slice whose length sizes the closure context (make([]V, len(ops)));
	// its elements may be function values or descriptions that are interpreted later
	var opsObj types.Object
	ast.Inspect(gi.decl.Body, func(n ast.Node) bool {
		call, ok := n.(*ast.CallExpr)
		if !ok || len(call.Args) != 2 {
			return true
		}
		if id, ok := ast.Unparen(call.Fun).(*ast.Ident); !ok || id.Name != "make" {
			return true
		}
		if c.EnclosingFunc(call) == ast.Node(gi.decl) {
			return true // allocated once per closure creation, inside the generated function
		}
		if ln, ok := ast.Unparen(call.Args[1]).(*ast.CallExpr); ok && len(ln.Args) == 1 {
			if lid, ok := ast.Unparen(ln.Fun).(*ast.Ident); ok && lid.Name == "len" {
				if sid, ok := ast.Unparen(ln.Args[0]).(*ast.Ident); ok {
					opsObj = info.ObjectOf(sid)
				}
			}
		}
		return true
	})
	var addCalls []*ast.CallExpr
	var appendCalls []ast.Node
	slotKey, slotPos := "", token.NoPos
	ast.Inspect(gi.decl.Body, func(n ast.Node) bool {
		// ops[len(outer)] = func…: the slot behind the captured names of a slice allocated with its final length
		if as, ok := n.(*ast.AssignStmt); ok && len(as.Lhs) == 1 && len(as.Rhs) == 1 && opsObj != nil {
			if ix, ok := ast.Unparen(as.Lhs[0]).(*ast.IndexExpr); ok {
				if sid, ok := ast.Unparen(ix.X).(*ast.Ident); ok && info.ObjectOf(sid) == opsObj {
					if ln, ok := ast.Unparen(ix.Index).(*ast.CallExpr); ok && len(ln.Args) == 1 {
						if lid, ok := ast.Unparen(ln.Fun).(*ast.Ident); ok && lid.Name == "len" {
							if _, isSlice := info.TypeOf(ln.Args[0]).Underlying().(*types.Slice); isSlice {
								appendCalls = append(appendCalls, as)
								slotKey, _ = exprKey(info, ln.Args[0])
								slotPos = as.Pos()
							}
						}
					}
				}
			}
		}
		if call, ok := n.(*ast.CallExpr); ok {
			if isCallTo(info, call, argsAdd) {
				addCalls = append(addCalls, call)
			}
			if id, ok := ast.Unparen(call.Fun).(*ast.Ident); ok && id.Name == "append" && len(call.Args) >= 2 {
				if _, isSig := info.TypeOf(call.Args[1]).Underlying().(*types.Signature); isSig {
					appendCalls = append(appendCalls, call)
				} else if sid, ok := ast.Unparen(call.Args[0]).(*ast.Ident); ok && opsObj != nil && info.ObjectOf(sid) == opsObj {
					appendCalls = append(appendCalls, call)
				}
			}
		}
		return true
	})
	key := gname + "#recursion-slot"
	if len(addCalls) != 1 || len(appendCalls) != 1 {
		c.Undecided(key, gi.decl.Pos(), "expected one argsList.add call and one append of an access operation, found %d and %d", len(addCalls), len(appendCalls))
		return
	}
	g1, g2 := guardedByRecursive(addCalls[0]), guardedByRecursive(appendCalls[0])
	if g1 && g2 {
		c.OK(key, addCalls[0].Pos(), "self reference is added to the compile time list and to the run time operations under the same Recursive guard, both at the end")
	} else {
		c.Violation(key, addCalls[0].Pos(), "self reference: compile time list extended under Recursive=%v, run time operations under Recursive=%v — the two sequences disagree", g1, g2)
	}
	// the compile time list and the run time operations derive from the same sequence
	key2 := gname + "#capture-sequence"
	var cmKey, rangeKey string
	ast.Inspect(gi.decl.Body, func(n ast.Node) bool {
		switch t := n.(type) {
		case *ast.AssignStmt:
			// usedVars := argsList(a.OuterIdents)
			if len(t.Rhs) == 1 && len(t.Lhs) == 1 && t.Tok == token.DEFINE {
				if call, ok := ast.Unparen(t.Rhs[0]).(*ast.CallExpr); ok && len(call.Args) == 1 {
					if tv, ok := info.Types[call.Fun]; ok && tv.IsType() {
						if k, ok := exprKey(info, call.Args[0]); ok && cmKey == "" {
							cmKey = k
						}
					}
				}
			}
		case *ast.RangeStmt:
			if k, ok := exprKey(info, t.X); ok && rangeKey == "" {
				if _, isStr := info.TypeOf(t.X).Underlying().(*types.Slice); isStr {
					rangeKey = k
				}
			}
		}
		return true
	})
	if cmKey == "" || rangeKey == "" {
		c.Undecided(key2, gi.decl.Pos(), "could not find the captured-name sequence (conversion to argsList / range)")
		return
	}
	if slotKey != "" && slotKey != rangeKey {
		c.Violation(key, slotPos, "the self reference is stored at index len(%s), but the captured names that precede it are those of %s: the slot does not match the position of the name in the compile time list", strings.SplitN(slotKey, "@", 2)[0], strings.SplitN(rangeKey, "@", 2)[0])
	}
	c.Check(cmKey == rangeKey, key2, gi.decl.Pos(),
		"compile time capture list and run time access operations are both built from "+strings.SplitN(cmKey, "@", 2)[0],
		"compile time capture list is built from "+strings.SplitN(cmKey, "@", 2)[0]+" but the run time access operations from "+strings.SplitN(rangeKey, "@", 2)[0])
}

// ---------------------------------------------------------------------------
// R01.3 scope recording in the parser

func ruleR013(c *Ctx) {
	root := c.Pkg("")
	if root == nil {
		c.Undecided("package parser2", token.NoPos, "not found")
		return
	}
	info := root.TypesInfo
	closureLit := LookupType(root, "ClosureLiteral")
	addArgs := LookupMethod(root, "Identifiers", "AddArgs")
	addThis := LookupMethod(root, "Identifiers", "AddThis")
	if closureLit == nil || addArgs == nil || addThis == nil {
		c.Undecided("parser2.ClosureLiteral/Identifiers.AddArgs/AddThis", token.NoPos, "anchor not found")
		return
	}
	n := 0
	for _, f := range root.Syntax {
		ast.Inspect(f, func(x ast.Node) bool {
			cl, ok := x.(*ast.CompositeLit)
			if !ok {
				return true
			}
			if nm := namedOf(info.TypeOf(cl)); nm == nil || nm.Obj() != closureLit {
				return true
			}
			decl := c.EnclosingDecl(cl)
			if decl == nil {
				return true
			}
			n++
			key := fmt.Sprintf("%s#ClosureLiteral[%d]", declName(root, decl), ordinalIn(decl, cl, func(y ast.Node) bool {
				c2, ok := y.(*ast.CompositeLit)
				return ok && namedOf(info.TypeOf(c2)) != nil && namedOf(info.TypeOf(c2)).Obj() == closureLit
			}))
			fields := map[string]ast.Expr{}
			for _, el := range cl.Elts {
				if kv, ok := el.(*ast.KeyValueExpr); ok {
					if k, ok := kv.Key.(*ast.Ident); ok {
						fields[k.Name] = kv.Value
					}
				}
			}
			fv, ok := ast.Unparen(fields["Func"]).(*ast.Ident)
			if fields["Func"] == nil || !ok {
				c.Undecided(key, cl.Pos(), "Func of the closure literal is not a variable")
				return true
			}
			as, _ := definingAssign(info, decl, info.ObjectOf(fv))
			if as == nil || len(as.Rhs) != 1 {
				c.Undecided(key, cl.Pos(), "definition of %s not found", fv.Name)
				return true
			}
			// find AddArgs / AddThis in the identifiers expression of that parse call
			var argsCall, thisCall *ast.CallExpr
			// the scope may be held in a local variable: look at its definition as well
			var scopeExprs []ast.Node
			scopeExprs = append(scopeExprs, as.Rhs[0])
			ast.Inspect(as.Rhs[0], func(y ast.Node) bool {
				if id, ok := y.(*ast.Ident); ok && isNamed(info.TypeOf(id), modPath, "Identifiers") {
					if das, di := definingAssign(info, decl, info.ObjectOf(id)); das != nil && len(das.Rhs) == len(das.Lhs) {
						scopeExprs = append(scopeExprs, das.Rhs[di])
					}
				}
				return true
			})
			for _, se := range scopeExprs {
				ast.Inspect(se, func(y ast.Node) bool {
					if call, ok := y.(*ast.CallExpr); ok {
						if isCallTo(info, call, addArgs) {
							argsCall = call
						}
						if isCallTo(info, call, addThis) {
							thisCall = call
						}
					}
					return true
				})
			}
			if argsCall == nil || len(argsCall.Args) != 2 {
				c.Violation(key, cl.Pos(), "the body %s of the closure literal was parsed without an AddArgs scope: outer identifiers are not recorded", fv.Name)
				return true
			}
			var problems []string
			// OuterIdents is the variable whose address was handed to AddArgs
			addrOf := func(e ast.Expr) types.Object {
				if u, ok := ast.Unparen(e).(*ast.UnaryExpr); ok && u.Op == token.AND {
					if id, ok := ast.Unparen(u.X).(*ast.Ident); ok {
						return info.ObjectOf(id)
					}
				}
				return nil
			}
			identObj := func(e ast.Expr) types.Object {
				if e == nil {
					return nil
				}
				if id, ok := ast.Unparen(e).(*ast.Ident); ok {
					return info.ObjectOf(id)
				}
				return nil
			}
			if o := addrOf(argsCall.Args[1]); o == nil || o != identObj(fields["OuterIdents"]) {
				problems = append(problems, fmt.Sprintf("OuterIdents is %s but the names used by the body were recorded in %s", nodeStr(c.Fset, fields["OuterIdents"]), nodeStr(c.Fset, argsCall.Args[1])))
			}
			if nodeStr(c.Fset, fields["Names"]) != nodeStr(c.Fset, argsCall.Args[0]) {
				problems = append(problems, fmt.Sprintf("Names is %s but the body was parsed with the arguments %s", nodeStr(c.Fset, fields["Names"]), nodeStr(c.Fset, argsCall.Args[0])))
			}
			if thisCall != nil && len(thisCall.Args) == 2 {
				if o := addrOf(thisCall.Args[1]); o == nil || o != identObj(fields["Recursive"]) {
					problems = append(problems, fmt.Sprintf("Recursive is %s but the self reference is recorded in %s", nodeStr(c.Fset, fields["Recursive"]), nodeStr(c.Fset, thisCall.Args[1])))
				}
				if nodeStr(c.Fset, fields["ThisName"]) != nodeStr(c.Fset, thisCall.Args[0]) {
					problems = append(problems, fmt.Sprintf("ThisName is %s but the self reference was registered as %s", nodeStr(c.Fset, fields["ThisName"]), nodeStr(c.Fset, thisCall.Args[0])))
				}
				// AddThis has to be the outermost scope (applied after AddArgs) so that an argument with the same name shadows it? No: the function name must be visible unless shadowed by an argument.
			} else if fields["Recursive"] != nil {
				problems = append(problems, "Recursive is set but the body was parsed without AddThis")
			}
			if len(problems) == 0 {
				c.OK(key, cl.Pos(), "Names/OuterIdents%s are the very variables the body's scope was built from", map[bool]string{true: "/Recursive/ThisName", false: ""}[thisCall != nil])
			} else {
				c.Violation(key, cl.Pos(), "%s", strings.Join(problems, "; "))
			}
			return true
		})
	}
}

// ---------------------------------------------------------------------------
// R01.4 captured-name agreement between parser and generator (also C16)

func ruleR014(c *Ctx) {
	root := c.Pkg("")
	if root == nil {
		c.Undecided("package parser2", token.NoPos, "not found")
		return
	}
	info := root.TypesInfo
	identType := LookupType(root, "Ident")
	identifierType := LookupType(root, "Identifier")
	addArgsDecl := c.FuncDecl(root, "Identifiers", "AddArgs")
	parseLiteral := c.FuncDecl(root, "Parser", "parseLiteral")
	if identType == nil || identifierType == nil || addArgsDecl == nil || parseLiteral == nil {
		c.Undecided("parser2.Ident/Identifier/Identifiers.AddArgs/Parser.parseLiteral", token.NoPos, "anchor not found")
		return
	}
	// fields of Identifier that can become the name of an emitted stack identifier
	fieldsOfIdentifier := func(e ast.Node) map[string]bool {
		res := map[string]bool{}
		ast.Inspect(e, func(n ast.Node) bool {
			if sel, ok := n.(*ast.SelectorExpr); ok {
				if nm := namedOf(info.TypeOf(sel.X)); nm != nil && nm.Obj() == identifierType {
					res[sel.Sel.Name] = true
				}
			}
			return true
		})
		return res
	}
	emitted := map[string]bool{}
	nIdent := 0
	ast.Inspect(parseLiteral.Body, func(n ast.Node) bool {
		cl, ok := n.(*ast.CompositeLit)
		if !ok {
			return true
		}
		if nm := namedOf(info.TypeOf(cl)); nm == nil || nm.Obj() != identType {
			return true
		}
		nIdent++
		for _, el := range cl.Elts {
			if kv, ok := el.(*ast.KeyValueExpr); ok {
				if k, ok := kv.Key.(*ast.Ident); ok && k.Name == "Name" {
					for f := range fieldsOfIdentifier(kv.Value) {
						emitted[f] = true
					}
				}
			}
		}
		return true
	})
	if nIdent == 0 {
		c.Undecided("parser2.Parser.parseLiteral#Ident-literals", parseLiteral.Pos(), "no Ident literal found")
		return
	}
	// In AddArgs: the values appended to *outersUsed, with a backward def-use closure inside the literal
	var appendArgs []ast.Expr
	// the lookup function AddArgs returns: a literal, or a method value of a struct that holds the captured values
	var lit ast.Node
	var litBody *ast.BlockStmt
	for _, rf := range c.returnedFuncs(root, addArgsDecl) {
		ast.Inspect(rf.body, func(n ast.Node) bool {
			if call, ok := n.(*ast.CallExpr); ok {
				if id, ok := ast.Unparen(call.Fun).(*ast.Ident); ok && id.Name == "append" && len(call.Args) >= 2 {
					if st, ok := ast.Unparen(call.Args[0]).(*ast.StarExpr); ok {
						switch ast.Unparen(st.X).(type) {
						case *ast.Ident, *ast.SelectorExpr:
							appendArgs = append(appendArgs, call.Args[1:]...)
							lit, litBody = rf.fn, rf.body
						}
					}
				}
			}
			return true
		})
	}
	key := "parser2.Identifiers.AddArgs#recorded-outer-name"
	if len(appendArgs) == 0 || lit == nil {
		c.Undecided(key, addArgsDecl.Pos(), "no append to the outer-names slice found")
		return
	}
	deps := map[string]bool{}
	seen := map[types.Object]bool{}
	var visit func(e ast.Node)
	visit = func(e ast.Node) {
		for f := range fieldsOfIdentifier(e) {
			deps[f] = true
		}
		ast.Inspect(e, func(n ast.Node) bool {
			id, ok := n.(*ast.Ident)
			if !ok {
				return true
			}
			obj := info.ObjectOf(id)
			if obj == nil || seen[obj] {
				return true
			}
			seen[obj] = true
			// all assignments to obj inside the literal
			ast.Inspect(litBody, func(m ast.Node) bool {
				if as, ok := m.(*ast.AssignStmt); ok {
					for i, l := range as.Lhs {
						if lid, ok := ast.Unparen(l).(*ast.Ident); ok && info.ObjectOf(lid) == obj {
							if len(as.Rhs) == len(as.Lhs) {
								visit(as.Rhs[i])
							} else if len(as.Rhs) == 1 {
								visit(as.Rhs[0])
							}
						}
					}
				}
				return true
			})
			return true
		})
	}
	for _, e := range appendArgs {
		visit(e)
	}
	var missing []string
	for f := range emitted {
		if !deps[f] {
			missing = append(missing, f)
		}
	}
	if len(missing) == 0 {
		c.OK(key, lit.Pos(), "the name recorded for capturing depends on every Identifier field that can name an emitted stack identifier (%s)", strings.Join(keysOf(emitted), ","))
	} else {
		c.Violation(key, lit.Pos(), "parseLiteral emits stack identifiers named by Identifier.%s, but the outer name recorded by AddArgs does not depend on it: a closure body that uses such an identifier captures the wrong name and the generator cannot resolve it", strings.Join(missing, ","))
	}
}

func keysOf(m map[string]bool) []string {
	var r []string
	for k := range m {
		r = append(r, k)
	}
	sortStrings(r)
	return r
}

func sortStrings(s []string) {
	for i := 1; i < len(s); i++ {
		for j := i; j > 0 && s[j] < s[j-1]; j-- {
			s[j], s[j-1] = s[j-1], s[j]
		}
	}
}

// ---------------------------------------------------------------------------
// R01.6 evaluation order of sub expressions (call by value, left to right)

// evalOrder: for an AST node kind, field X has to be evaluated before field Y.
var evalOrder = map[string][][2]string{
	"Operate":      {{"A", "B"}},
	"Let":          {{"Value", "Inner"}},
	"If":           {{"Cond", "Then"}, {"Cond", "Else"}},
	"TryCatch":     {{"Try", "Catch"}},
	"Switch":       {{"SwitchValue", "CaseConst"}, {"SwitchValue", "Value"}, {"SwitchValue", "Default"}, {"CaseConst", "Value"}},
	"Case":         {{"CaseConst", "Value"}},
	"FunctionCall": {{"Func", "Args"}},
	"MethodCall":   {{"Value", "Args"}},
}

func ruleR016(c *Ctx) {
	a := c.genAnchors()
	if len(a.missing) > 0 {
		c.Undecided(strings.Join(a.missing, ","), token.NoPos, "anchors not found")
		return
	}
	fwd := c.forwarders(a)
	for _, gi := range c.generatorFuncs(a, fwd) {
		info := gi.pkg.TypesInfo
		gname := declName(gi.pkg, gi.decl)
		// every literal: the child calls inside, by field
		ast.Inspect(gi.decl.Body, func(n ast.Node) bool {
			lit, ok := n.(*ast.FuncLit)
			if !ok {
				return true
			}
			type cc struct {
				call  *ast.CallExpr
				field string
			}
			var calls []cc
			ast.Inspect(lit.Body, func(x ast.Node) bool {
				if l2, ok := x.(*ast.FuncLit); ok && l2 != lit {
					// callbacks (Iter idiom) belong to this literal's evaluation; nested ParserFunc literals do not
					if a.isParserFuncLit(info, l2) {
						return false
					}
				}
				if call, ok := x.(*ast.CallExpr); ok {
					if obj := gi.childObj(info, call.Fun); obj != nil && gi.field[obj] != "" {
						calls = append(calls, cc{call, gi.field[obj]})
					}
				}
				return true
			})
			if len(calls) < 2 {
				return true
			}
			g := c.CFG(lit)
			// a call inside a nested literal (callback of an Iter call, immediately invoked function) is
			// positioned at that literal in the control flow graph of the closure
			anchor := func(n ast.Node) ast.Node {
				cur := n
				for {
					fn := c.EnclosingFunc(cur)
					if fn == nil || fn == ast.Node(lit) {
						return cur
					}
					cur = fn
				}
			}
			for i, x := range calls {
				for j, y := range calls {
					if i == j {
						continue
					}
					kx, fx, _ := strings.Cut(x.field, ".")
					ky, fy, _ := strings.Cut(y.field, ".")
					if kx == "Case" {
						kx = "Switch"
					}
					if ky == "Case" {
						ky = "Switch"
					}
					if kx != ky {
						continue
					}
					for _, pr := range evalOrder[kx] {
						if pr[0] != fx || pr[1] != fy {
							continue
						}
						key := fmt.Sprintf("%s#order:%s.%s<%s[%d]", gname, kx, fx, fy, ordinalIn(gi.decl, y.call, func(z ast.Node) bool { _, ok := z.(*ast.CallExpr); return ok }))
						// calls inside a callback literal are positioned at the callback in the literal's CFG
						if ax, ay := anchor(x.call), anchor(y.call); ax != ay && g.Dominates(ax, ay) {
							c.OK(key, y.call.Pos(), "%s.%s is evaluated before %s.%s on every path", kx, fx, ky, fy)
						} else {
							c.Violation(key, y.call.Pos(), "%s.%s can be evaluated without %s.%s having been evaluated before: the reference semantics evaluates %s first (left to right, call by value); errors and effects of the two sub expressions are observed in the wrong order", ky, fy, kx, fx, fx)
						}
					}
				}
			}
			return true
		})
	}
}
