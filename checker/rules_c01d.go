package main

import (
	"fmt"
	"go/ast"
	"go/constant"
	"go/token"
	"go/types"
	"golang.org/x/tools/go/packages"
	"strings"
)

// ---------------------------------------------------------------------------
// Run-time evaluation helpers: private functions that receive generated
// closures (ParserFunc or []ParserFunc) and a Stack and call the closures for
// their caller, e.g.
//
//	func evalFuncList[V any](funcs []ParserFunc[V], st Stack[V], cs []V) ([]V, error)
//
// The summary is computed from the helper's body on every run (not assumed):
// at which stack depth, relative to the depth at the call, each closure
// parameter is invoked, and which result has the length of which parameter.

type helperCall struct {
	param  int // index of the closure (collection) parameter
	delta  lin // pushes pending in the helper when the closure is called
	viaOwn bool
}

type evalHelper struct {
	fn         *types.Func
	stackParam int
	calls      []helperCall
	lenResult  map[int]int // result index -> parameter index with the same length (nil error)
	problems   []string
	loopNet    string // not empty: closures are called in a loop that changes the stack by this amount per iteration
}

func (c *Ctx) evalHelpers(a *genAnchors) map[*types.Func]*evalHelper {
	res := map[*types.Func]*evalHelper{}
	for _, pkg := range c.RepoPkgs {
		info := pkg.TypesInfo
		for _, f := range pkg.Syntax {
			for _, d := range f.Decls {
				fd, ok := d.(*ast.FuncDecl)
				if !ok || fd.Body == nil || fd.Type.Params == nil {
					continue
				}
				obj, _ := info.Defs[fd.Name].(*types.Func)
				if obj == nil {
					continue
				}
				var params []types.Object
				for _, fl := range fd.Type.Params.List {
					for _, nm := range fl.Names {
						params = append(params, info.Defs[nm])
					}
				}
				stackIdx, nClosure := -1, 0
				hasCtx := false
				for i, p := range params {
					if p == nil {
						continue
					}
					switch {
					case a.isStack(p.Type()):
						stackIdx = i
					case a.isCtx(p.Type()):
						hasCtx = true
					case a.containsParserFunc(p.Type(), 0):
						nClosure++
					}
				}
				if stackIdx < 0 || nClosure == 0 || hasCtx {
					continue
				}
				h := &evalHelper{fn: obj.Origin(), stackParam: stackIdx, lenResult: map[int]int{}}
				paramIdx := func(o types.Object) int {
					for i, p := range params {
						if p == o {
							return i
						}
					}
					return -1
				}
				// closure variables: the parameter itself, range values over it, elements
				closureOf := func(e ast.Expr) int {
					switch t := ast.Unparen(e).(type) {
					case *ast.Ident:
						o := info.ObjectOf(t)
						if i := paramIdx(o); i >= 0 && a.containsParserFunc(o.Type(), 0) {
							return i
						}
						// range value
						idx := -1
						ast.Inspect(fd.Body, func(x ast.Node) bool {
							if rs, ok := x.(*ast.RangeStmt); ok && rs.Value != nil {
								if v, ok := rs.Value.(*ast.Ident); ok && info.ObjectOf(v) == o {
									if src, ok := ast.Unparen(rs.X).(*ast.Ident); ok {
										if i := paramIdx(info.ObjectOf(src)); i >= 0 {
											idx = i
										}
									}
								}
							}
							return true
						})
						return idx
					case *ast.IndexExpr:
						if src, ok := ast.Unparen(t.X).(*ast.Ident); ok {
							if i := paramIdx(info.ObjectOf(src)); i >= 0 && a.containsParserFunc(info.ObjectOf(src).Type(), 0) {
								return i
							}
						}
					}
					return -1
				}
				stackKey, _ := exprKey(info, fd.Type.Params.List[0].Names[0])
				for _, fl := range fd.Type.Params.List {
					for _, nm := range fl.Names {
						if info.Defs[nm] == params[stackIdx] {
							stackKey, _ = exprKey(info, nm)
						}
					}
				}
				w := &frameWalker{c: c, info: info, stackKey: stackKey, push: a.push, frame: a.frame}
				w.onCall = func(call *ast.CallExpr, delta lin) {
					if i := closureOf(call.Fun); i >= 0 {
						own := len(call.Args) >= 1 && w.isStackVar(call.Args[0])
						h.calls = append(h.calls, helperCall{param: i, delta: delta, viaOwn: own})
					}
				}
				w.onLoopNet = func(body *ast.BlockStmt, pos token.Pos, net lin) {
					if containsNode(body, func(n ast.Node) bool {
						call, ok := n.(*ast.CallExpr)
						return ok && closureOf(call.Fun) >= 0
					}) {
						h.loopNet = net.String()
					}
				}
				w.run(fd.Body)
				// closures must not escape the helper other than by being called
				ast.Inspect(fd.Body, func(x ast.Node) bool {
					switch t := x.(type) {
					case *ast.GoStmt, *ast.DeferStmt:
						h.problems = append(h.problems, "go/defer in an evaluation helper")
					case *ast.FuncLit:
						_ = t
						h.problems = append(h.problems, "function literal in an evaluation helper")
					}
					return true
				})
				// result lengths: x := make([]T, len(p)); return x, nil
				made := map[types.Object]int{}
				ast.Inspect(fd.Body, func(x ast.Node) bool {
					as, ok := x.(*ast.AssignStmt)
					if !ok || len(as.Lhs) != 1 || len(as.Rhs) != 1 {
						return true
					}
					id, ok := as.Lhs[0].(*ast.Ident)
					call, ok2 := ast.Unparen(as.Rhs[0]).(*ast.CallExpr)
					if !ok || !ok2 || len(call.Args) != 2 {
						return true
					}
					if mk, ok := ast.Unparen(call.Fun).(*ast.Ident); !ok || mk.Name != "make" {
						return true
					}
					if ln, ok := ast.Unparen(call.Args[1]).(*ast.CallExpr); ok && len(ln.Args) == 1 {
						if lid, ok := ast.Unparen(ln.Fun).(*ast.Ident); ok && lid.Name == "len" {
							if src, ok := ast.Unparen(ln.Args[0]).(*ast.Ident); ok {
								if i := paramIdx(info.ObjectOf(src)); i >= 0 && countAssignments(info, fd.Body, info.ObjectOf(id)) == 1 {
									made[info.ObjectOf(id)] = i
								}
							}
						}
					}
					return true
				})
				nres := obj.Type().(*types.Signature).Results().Len()
				lenOK := map[int]bool{}
				first := true
				ast.Inspect(fd.Body, func(x ast.Node) bool {
					ret, ok := x.(*ast.ReturnStmt)
					if !ok || len(ret.Results) != nres || nres < 2 {
						return true
					}
					last := ast.Unparen(ret.Results[nres-1])
					lid, isIdent := last.(*ast.Ident)
					if !isIdent || lid.Name != "nil" {
						return true // error return: the summary speaks about nil errors only
					}
					for r := 0; r < nres-1; r++ {
						ok := false
						if id, isID := ast.Unparen(ret.Results[r]).(*ast.Ident); isID {
							if p, isMade := made[info.ObjectOf(id)]; isMade {
								if first || h.lenResult[r] == p {
									h.lenResult[r] = p
									ok = true
								}
							}
						}
						if first {
							lenOK[r] = ok
						} else if !ok {
							lenOK[r] = false
						}
					}
					first = false
					return true
				})
				for r, ok := range lenOK {
					if !ok {
						delete(h.lenResult, r)
					}
				}
				if len(h.calls) > 0 {
					res[obj.Origin()] = h
				}
			}
		}
	}
	return res
}

// ---------------------------------------------------------------------------
// R01.7 lazily compiled boolean operators yield a Bool or an error

// ruleR017: the operators a custom generator compiles with short circuit
// evaluation (cases of the switch over Operate.Operator in GenerateCustom)
// are the boolean operators of the language; their eager implementations in
// the operation matrix return a Bool or fail. The compiled form has to agree:
// every successful return of the generated closure is an expression of static
// type Bool - never an operand handed through unchecked.
func ruleR017(c *Ctx) {
	a := c.genAnchors()
	if len(a.missing) > 0 {
		c.Undecided("anchors", token.NoPos, "not found")
		return
	}
	n := 0
	for _, pkg := range c.RepoPkgs {
		info := pkg.TypesInfo
		boolT := LookupType(pkg, "Bool")
		for _, f := range pkg.Syntax {
			for _, d := range f.Decls {
				fd, ok := d.(*ast.FuncDecl)
				if !ok || fd.Name.Name != "GenerateCustom" || fd.Body == nil {
					continue
				}
				ast.Inspect(fd.Body, func(x ast.Node) bool {
					sw, ok := x.(*ast.SwitchStmt)
					if !ok || sw.Tag == nil {
						return true
					}
					sel, ok := ast.Unparen(sw.Tag).(*ast.SelectorExpr)
					if !ok || sel.Sel.Name != "Operator" || !isNamed(info.TypeOf(sel.X), modPath, "Operate") {
						return true
					}
					for _, cl := range sw.Body.List {
						cc := cl.(*ast.CaseClause)
						if len(cc.List) == 0 {
							continue
						}
						for _, caseExpr := range cc.List { // case "&", "|": one clause compiles several operators
							opName := nodeStr(c.Fset, caseExpr)
							// the literals of the clause and of the private constructors it delegates to
							var lits []*ast.FuncLit
							collect := func(root ast.Node) {
								ast.Inspect(root, func(y ast.Node) bool {
									if lit, ok := y.(*ast.FuncLit); ok && isGeneratedClosure(a, info, lit) {
										lits = append(lits, lit)
										return false
									}
									return true
								})
							}
							for _, s := range cc.Body {
								collect(s)
								ast.Inspect(s, func(y ast.Node) bool {
									if call, ok := y.(*ast.CallExpr); ok {
										if cal := Callee(info, call); cal != nil && cal.Pkg() == pkg.Types && cal.Origin() != a.genFunc.Origin() {
											if hd := findFuncDecl(pkg, cal); hd != nil && hd.Body != nil && hd != fd {
												collect(hd.Body)
											}
										}
									}
									return true
								})
							}
							key := fmt.Sprintf("%s#lazy-operator %s", declName(pkg, fd), opName)
							if len(lits) == 0 {
								c.Undecided(key, cc.Pos(), "no generated closure found for the lazily compiled operator")
								continue
							}
							n++
							var bad []string
							for _, lit := range lits {
								inspectNoLit(lit.Body, func(y ast.Node) bool {
									r, ok := y.(*ast.ReturnStmt)
									if !ok {
										return true
									}
									switch len(r.Results) {
									case 1:
										// return impl.Calc(st, a, b) with impl the operator's own (eager) implementation: agreement by construction
										if cc, ok := ast.Unparen(r.Results[0]).(*ast.CallExpr); ok {
											if sel, ok := ast.Unparen(cc.Fun).(*ast.SelectorExpr); ok && sel.Sel.Name == "Calc" {
												if id, ok := ast.Unparen(sel.X).(*ast.Ident); ok {
													scope := ast.Node(fd)
													if ed := c.EnclosingDecl(r); ed != nil {
														scope = ed // the closure may be built by a private constructor
													}
													if as, i := definingAssign(info, scope, info.ObjectOf(id)); as != nil && len(as.Lhs) == len(as.Rhs) && countAssignments(info, scope, info.ObjectOf(id)) == 1 {
														if gc, ok := ast.Unparen(as.Rhs[i]).(*ast.CallExpr); ok && len(gc.Args) == 1 {
															if cal := Callee(info, gc); cal != nil && cal.Name() == "GetOpImpl" {
																if arg, ok := ast.Unparen(gc.Args[0]).(*ast.SelectorExpr); ok && arg.Sel.Name == "Operator" && isNamed(info.TypeOf(arg.X), modPath, "Operate") {
																	return true
																}
															}
														}
													}
												}
											}
										}
										// return child(st, cs): both results of an operand are handed through
										bad = append(bad, fmt.Sprintf("%s at %s hands an operand through unchecked", nodeStr(c.Fset, r.Results[0]), c.posStr(r.Pos())))
									case 2:
										if id, ok := ast.Unparen(r.Results[1]).(*ast.Ident); !ok || id.Name != "nil" {
											return true // an error return
										}
										t := info.TypeOf(r.Results[0])
										if boolT == nil || t == nil || !types.Identical(t, boolT.Type()) {
											bad = append(bad, fmt.Sprintf("%s at %s has the static type %s, not Bool", nodeStr(c.Fset, r.Results[0]), c.posStr(r.Pos()), t))
										}
									}
									return true
								})
							}
							// the domain: if the eager implementation is defined on operands that are no bools (the bitwise
							// operators on ints), the compiled form has to reach it for them
							if len(bad) == 0 {
								opText := ""
								if tv := info.Types[caseExpr]; tv.Value != nil && tv.Value.Kind() == constant.String {
									opText = constant.StringVal(tv.Value)
								}
								nonBool := ""
								for _, r := range c.registrations() {
									if r.pkg != pkg || len(r.types) != 2 {
										continue
									}
									// the constructor registered for this operator: AddOpImpl("&", .., And(f))
									isCtor := false
									for _, f2 := range pkg.Syntax {
										ast.Inspect(f2, func(y ast.Node) bool {
											call, ok := y.(*ast.CallExpr)
											if !ok || len(call.Args) < 3 {
												return true
											}
											if tv := info.Types[call.Args[0]]; tv.Value == nil || tv.Value.Kind() != constant.String || constant.StringVal(tv.Value) != opText {
												return true
											}
											if ic, ok := ast.Unparen(call.Args[len(call.Args)-1]).(*ast.CallExpr); ok {
												if cal := Callee(info, ic); cal != nil && cal.Name() == r.owner {
													isCtor = true
												}
											}
											return true
										})
									}
									if isCtor && nodeStr(c.Fset, r.types[0]) != "BoolTypeId" {
										nonBool = nodeStr(c.Fset, r.types[0]) + "," + nodeStr(c.Fset, r.types[1])
									}
								}
								if nonBool != "" {
									delegates := false
									for _, lit := range lits {
										if containsNode(lit.Body, func(y ast.Node) bool {
											call, ok := y.(*ast.CallExpr)
											if !ok {
												return false
											}
											sel, ok := ast.Unparen(call.Fun).(*ast.SelectorExpr)
											return ok && sel.Sel.Name == "Calc"
										}) {
											delegates = true
										}
									}
									if !delegates {
										bad = append(bad, "the operator is also defined on ("+nonBool+"), but the compiled form never calls the operator's implementation: it fails for these operands at run time while the constant folder computes them (1 "+opText+" 2 differs with and without the optimizer)")
									}
								}
							}
							if len(bad) == 0 {
								c.OK(key, cc.Pos(), "every successful return of the compiled operator is a Bool or the result of the operator's own eager implementation (GetOpImpl of the same operator)")
							} else {
								c.Violation(key, cc.Pos(), "the lazily compiled operator %s can succeed with a value that is no Bool (%s): where the eager implementation used by the constant folder and the reference semantics fail with 'not a bool', the compiled code returns the operand", opName, strings.Join(bad, "; "))
							}
						}
					}
					return true
				})
			}
		}
	}
	if n < 2 {
		c.Undecided("value.FunctionGenerator.GenerateCustom#lazy-operators", token.NoPos, "expected the lazily compiled & and |, found %d", n)
	}
}

// isGeneratedClosure: func(st Stack, cs []V) (V, error)
func isGeneratedClosure(a *genAnchors, info *types.Info, lit *ast.FuncLit) bool {
	sig, ok := info.TypeOf(lit).(*types.Signature)
	if !ok || sig.Params().Len() != 2 || sig.Results().Len() != 2 {
		return false
	}
	return a.isStack(sig.Params().At(0).Type()) && isErrorType(sig.Results().At(1).Type())
}

// ---------------------------------------------------------------------------
// Field roles: the rules talk about fields of private structs (the stack's
// storage/offset/size, the generator context's argument and closure lists).
// Their names are private and may be renamed; the roles are derived from what
// the code does with them.

type fieldRoles struct {
	am, cm              string // GeneratorContext: names addressed on the stack / in the closure context
	offs, size, storage string // Stack
	problems            []string
}

func (c *Ctx) fieldRoles(a *genAnchors) *fieldRoles {
	r := &fieldRoles{am: "am", cm: "cm", offs: "offs", size: "size", storage: "storage"}
	info := a.fg.TypesInfo
	// Stack: storage = the pointer field, size = the field Push increments, offs = the other int field
	if st, ok := a.stackType.Type().Underlying().(*types.Struct); ok {
		var ints []string
		ptr := ""
		for i := 0; i < st.NumFields(); i++ {
			f := st.Field(i)
			if _, isPtr := f.Type().Underlying().(*types.Pointer); isPtr {
				ptr = f.Name()
			} else if bt, ok := f.Type().Underlying().(*types.Basic); ok && bt.Info()&types.IsInteger != 0 {
				ints = append(ints, f.Name())
			}
		}
		size := ""
		if fd := c.FuncDecl(a.fg, "Stack", "Push"); fd != nil {
			ast.Inspect(fd.Body, func(x ast.Node) bool {
				if inc, ok := x.(*ast.IncDecStmt); ok && inc.Tok == token.INC {
					if sel, ok := ast.Unparen(inc.X).(*ast.SelectorExpr); ok {
						size = sel.Sel.Name
					}
				}
				return true
			})
		}
		if ptr != "" && size != "" && len(ints) == 2 && (ints[0] == size || ints[1] == size) {
			r.storage, r.size = ptr, size
			r.offs = ints[0]
			if r.offs == size {
				r.offs = ints[1]
			}
		} else {
			r.problems = append(r.problems, "the roles of the fields of Stack could not be derived (pointer field, size incremented by Push, offset)")
		}
	}
	// GeneratorContext: am = the list addLocalVar extends, cm = the one it copies
	if fd := c.FuncDecl(a.fg, "GeneratorContext", "addLocalVar"); fd != nil && fd.Recv != nil && len(fd.Recv.List[0].Names) == 1 {
		recv := info.Defs[fd.Recv.List[0].Names[0]]
		var extended, copied []string
		ast.Inspect(fd.Body, func(x ast.Node) bool {
			cl, ok := x.(*ast.CompositeLit)
			if !ok || !a.isCtx(info.TypeOf(cl)) || len(cl.Elts) < 2 {
				return true
			}
			for _, el := range cl.Elts {
				kv, ok := el.(*ast.KeyValueExpr)
				if !ok {
					continue
				}
				k, ok := kv.Key.(*ast.Ident)
				if !ok {
					continue
				}
				if sel, ok := ast.Unparen(kv.Value).(*ast.SelectorExpr); ok && sel.Sel.Name == k.Name {
					if id, ok := ast.Unparen(sel.X).(*ast.Ident); ok && info.ObjectOf(id) == recv {
						copied = append(copied, k.Name)
						continue
					}
				}
				extended = append(extended, k.Name)
			}
			return true
		})
		if len(extended) == 1 && len(copied) == 1 {
			r.am, r.cm = extended[0], copied[0]
		} else {
			r.problems = append(r.problems, "the roles of the fields of GeneratorContext could not be derived from addLocalVar (one list extended, one copied)")
		}
	}
	return r
}

// ---------------------------------------------------------------------------
// returnedFunc resolves the function a constructor returns: a function literal
// inside the constructor, or a method value of a composite literal
// (return T{a: x, b: y}.method), in which case the method declaration is the
// function and bind maps the fields of T to the constructor's expressions.

type returnedFunc struct {
	fn   ast.Node // *ast.FuncLit or *ast.FuncDecl
	body *ast.BlockStmt
	bind map[string]ast.Expr // field name -> expression in the constructor (method value form only)
	recv types.Object        // receiver of the method (method value form only)
}

func (c *Ctx) returnedFuncs(pkg *packages.Package, fd *ast.FuncDecl) []returnedFunc {
	info := pkg.TypesInfo
	var res []returnedFunc
	inspectNoLit(fd.Body, func(x ast.Node) bool {
		r, ok := x.(*ast.ReturnStmt)
		if !ok || len(r.Results) != 1 {
			return true
		}
		switch t := ast.Unparen(r.Results[0]).(type) {
		case *ast.FuncLit:
			res = append(res, returnedFunc{fn: t, body: t.Body})
		case *ast.SelectorExpr:
			sel, ok := info.Selections[t]
			if !ok || sel.Kind() != types.MethodVal {
				return true
			}
			cl, ok := ast.Unparen(t.X).(*ast.CompositeLit)
			if !ok {
				return true
			}
			m, _ := sel.Obj().(*types.Func)
			if m == nil {
				return true
			}
			md := findFuncDecl(pkg, m)
			if md == nil || md.Body == nil || md.Recv == nil || len(md.Recv.List[0].Names) != 1 {
				return true
			}
			bind := map[string]ast.Expr{}
			for _, el := range cl.Elts {
				if kv, ok := el.(*ast.KeyValueExpr); ok {
					if k, ok := kv.Key.(*ast.Ident); ok {
						bind[k.Name] = kv.Value
					}
				}
			}
			res = append(res, returnedFunc{fn: md, body: md.Body, bind: bind, recv: info.Defs[md.Recv.List[0].Names[0]]})
		}
		return true
	})
	return res
}
