package main

import (
	"fmt"
	"go/ast"
	"go/constant"
	"go/token"
	"go/types"
	"sort"
	"strings"

	"golang.org/x/tools/go/cfg"
	"golang.org/x/tools/go/packages"
)

// ---------------------------------------------------------------------------
// R02.7 subtree promotion: the optimizer replaces a node by one of its own
// children only where the generated code would return exactly that child's
// value.
//
// The roles are read from the generator: in the code generated for a node
// type T, "return <compiled child F>(…)" under the branch fact p(x) == b says
// that the value of a T node is the value of child F whenever the predicate p
// (a configured hook of the generator, e.g. toBool) yields b and reports
// success. The optimizer may promote child F of a T node exactly under the same
// fact, with x being the constant value of the child the generator feeds to p.
// Any other child of T is never the value of the node, so promoting it changes
// the result for some V (V carries no equality the generic optimizer could
// consult).

type childRole struct {
	node  string // node type name in parser2
	field string // promoted child
	pred  string // name of the generator hook that decides
	arg   string // child whose value is fed to the hook
	val   bool   // required first result
}

// resultChildren derives the roles from the generator.
func (c *Ctx) resultChildren(a *genAnchors, fwd map[*types.Func]bool) (roles []childRole, nodeSeen map[string]bool) {
	nodeSeen = map[string]bool{}
	for _, gi := range c.generatorFuncs(a, fwd) {
		pkg := gi.pkg
		if pkg != a.fg {
			continue
		}
		info := pkg.TypesInfo
		ast.Inspect(gi.decl.Body, func(x ast.Node) bool {
			cc, ok := x.(*ast.CaseClause)
			if !ok || len(cc.List) != 1 {
				return true
			}
			// type switch case *parser2.T
			tv, ok := info.Types[cc.List[0]]
			if !ok || !tv.IsType() {
				return true
			}
			nm := namedOf(tv.Type)
			if nm == nil || nm.Obj().Pkg() == nil || nm.Obj().Pkg().Path() != modPath {
				return true
			}
			node := nm.Obj().Name()
			nodeObj := info.Implicits[cc]
			if nodeObj == nil {
				return true
			}
			// compiled children: v, …  := <generate>(a.F, …)
			compiled := map[types.Object]string{}
			for _, st := range cc.Body {
				ast.Inspect(st, func(y ast.Node) bool {
					as, ok := y.(*ast.AssignStmt)
					if !ok || len(as.Rhs) != 1 {
						return true
					}
					call, ok := ast.Unparen(as.Rhs[0]).(*ast.CallExpr)
					if !ok || len(call.Args) == 0 {
						return true
					}
					cal := Callee(info, call)
					if cal == nil || !(cal == a.genFunc.Origin() || cal.Origin() == a.genFunc.Origin() || fwd[cal]) {
						return true
					}
					sel, ok := ast.Unparen(call.Args[0]).(*ast.SelectorExpr)
					if !ok {
						return true
					}
					if id, ok := ast.Unparen(sel.X).(*ast.Ident); !ok || info.ObjectOf(id) != nodeObj {
						return true
					}
					if lid, ok := as.Lhs[0].(*ast.Ident); ok && info.ObjectOf(lid) != nil {
						compiled[info.ObjectOf(lid)] = sel.Sel.Name
					}
					return true
				})
			}
			if len(compiled) == 0 {
				return true
			}
			// returns of the generated closure
			for _, st := range cc.Body {
				ast.Inspect(st, func(y ast.Node) bool {
					lit, ok := y.(*ast.FuncLit)
					if !ok {
						return true
					}
					g := c.CFG(lit)
					if g == nil {
						return true
					}
					inspectNoLit(lit.Body, func(z ast.Node) bool {
						r, ok := z.(*ast.ReturnStmt)
						if !ok || len(r.Results) == 0 {
							return true
						}
						call, ok := ast.Unparen(r.Results[0]).(*ast.CallExpr)
						if !ok {
							return true
						}
						fid, ok := ast.Unparen(call.Fun).(*ast.Ident)
						if !ok {
							return true
						}
						field, ok := compiled[info.ObjectOf(fid)]
						if !ok {
							return true
						}
						nodeSeen[node] = true
						// the deciding fact: a bool variable that is the first result of a generator hook
						for _, gd := range g.Guards(r) {
							if gd.Synth {
								continue
							}
							id, ok := ast.Unparen(gd.Cond).(*ast.Ident)
							if !ok {
								continue
							}
							as, i := definingAssign(info, lit, info.ObjectOf(id))
							if as == nil || i != 0 || len(as.Rhs) != 1 {
								continue
							}
							pc, ok := ast.Unparen(as.Rhs[0]).(*ast.CallExpr)
							if !ok || len(pc.Args) != 1 {
								continue
							}
							ps, ok := ast.Unparen(pc.Fun).(*ast.SelectorExpr)
							if !ok {
								continue
							}
							if s, ok := info.Selections[ps]; !ok || s.Kind() != types.FieldVal {
								continue
							}
							// the argument: result of a compiled child
							argField := ""
							if aid, ok := ast.Unparen(pc.Args[0]).(*ast.Ident); ok {
								if as2, j := definingAssign(info, lit, info.ObjectOf(aid)); as2 != nil && j == 0 && len(as2.Rhs) == 1 {
									if c2, ok := ast.Unparen(as2.Rhs[0]).(*ast.CallExpr); ok {
										if f2, ok := ast.Unparen(c2.Fun).(*ast.Ident); ok {
											argField = compiled[info.ObjectOf(f2)]
										}
									}
								}
							}
							if argField == "" {
								continue
							}
							roles = append(roles, childRole{node: node, field: field, pred: ps.Sel.Name, arg: argField, val: gd.Val})
						}
						return true
					})
					return true
				})
			}
			return true
		})
	}
	sort.Slice(roles, func(i, j int) bool {
		return roles[i].node+roles[i].field < roles[j].node+roles[j].field
	})
	return roles, nodeSeen
}

func ruleR027(c *Ctx) {
	decls, fg := c.optimizerMethods()
	if len(decls) == 0 {
		c.Undecided("funcGen:Optimizer-implementations", token.NoPos, "no type implementing parser2.Optimizer found in funcGen")
		return
	}
	a := c.genAnchors()
	if len(a.missing) > 0 {
		c.Undecided(strings.Join(a.missing, ","), token.NoPos, "anchors not found")
		return
	}
	roles, _ := c.resultChildren(a, c.forwarders(a))
	if len(roles) < 2 {
		c.Undecided("funcGen:result-children", token.NoPos, "the generator's conditional nodes could not be read (found %d child roles)", len(roles))
		return
	}
	byNode := map[string][]childRole{}
	for _, r := range roles {
		byNode[r.node] = append(byNode[r.node], r)
	}
	info := fg.TypesInfo
	n := 0
	for _, fd := range decls {
		fname := declName(fg, fd)
		g := c.CFG(fd)
		ordinal := map[string]int{}
		inspectNoLit(fd.Body, func(x ast.Node) bool {
			r, ok := x.(*ast.ReturnStmt)
			if !ok {
				return true
			}
			for _, res := range r.Results {
				e := ast.Unparen(res)
				if id, ok := e.(*ast.Ident); ok {
					if as, i := definingAssign(info, fd, info.ObjectOf(id)); as != nil && len(as.Lhs) == len(as.Rhs) {
						e = ast.Unparen(as.Rhs[i])
					}
				}
				// an element taken out of a COLLECTION of children (the entries of a map literal, the items of a list
				// literal, the arguments of a call) replaces the node: value, ok := ml.Map.Get(key); return value
				if id, ok := e.(*ast.Ident); ok && isNamed(info.TypeOf(id), modPath, "AST") {
					var src ast.Expr
					ast.Inspect(fd.Body, func(y ast.Node) bool {
						as, ok := y.(*ast.AssignStmt)
						if !ok || len(as.Rhs) != 1 {
							return true
						}
						for _, l := range as.Lhs {
							if li, ok := l.(*ast.Ident); ok && info.ObjectOf(li) == info.ObjectOf(id) {
								src = ast.Unparen(as.Rhs[0])
							}
						}
						return true
					})
					var coll *ast.SelectorExpr
					switch t := src.(type) {
					case *ast.CallExpr:
						if ms, ok := ast.Unparen(t.Fun).(*ast.SelectorExpr); ok {
							coll, _ = ast.Unparen(ms.X).(*ast.SelectorExpr)
						}
					case *ast.IndexExpr:
						coll, _ = ast.Unparen(t.X).(*ast.SelectorExpr)
					}
					if coll != nil {
						if nt := namedOf(info.TypeOf(coll.X)); nt != nil && nt.Obj().Pkg() != nil && nt.Obj().Pkg().Path() == modPath {
							if fsel, ok := info.Selections[coll]; ok && fsel.Kind() == types.FieldVal {
								n++
								key := fmt.Sprintf("%s#promote-element:%s.%s", fname, nt.Obj().Name(), coll.Sel.Name)
								c.Violation(key, r.Pos(), "the optimizer replaces a node by one element of the collection %s.%s of a %s: the generated code evaluates every element of that collection (all entries of a map literal, all items of a list), so the other elements - impure calls, failing expressions - are no longer evaluated: {a:tick(),b:x}.b calls tick without the optimizer and not with it", nodeStr(c.Fset, coll.X), coll.Sel.Name, nt.Obj().Name())
								continue
							}
						}
					}
				}
				sel, ok := e.(*ast.SelectorExpr)
				if !ok {
					continue
				}
				s, ok := info.Selections[sel]
				if !ok || s.Kind() != types.FieldVal || !isNamed(s.Obj().Type(), modPath, "AST") {
					continue
				}
				nm := namedOf(info.TypeOf(sel.X))
				if nm == nil || nm.Obj().Pkg() == nil || nm.Obj().Pkg().Path() != modPath {
					continue
				}
				node, field := nm.Obj().Name(), sel.Sel.Name
				n++
				ordinal[node+"."+field]++
				key := fmt.Sprintf("%s#promote:%s.%s[%d]", fname, node, field, ordinal[node+"."+field])
				rs := byNode[node]
				if len(rs) == 0 {
					// a first-match node (switch) folded in a loop over its alternatives: the conditions of taking an
					// alternative, of moving on and so of reaching the default are decided by R02.8
					firstMatch := false
					ast.Inspect(fd.Body, func(y ast.Node) bool {
						loop, ok := y.(*ast.RangeStmt)
						if !ok {
							return true
						}
						if xs, ok := ast.Unparen(loop.X).(*ast.SelectorExpr); ok {
							if nt := namedOf(info.TypeOf(xs.X)); nt != nil && nt.Obj().Pkg() != nil && nt.Obj().Pkg().Path() == modPath {
								// the promoted child belongs to the range variable of the loop, or to the node the loop runs over and the return follows the loop
								if vid, ok := loop.Value.(*ast.Ident); ok {
									if bid, ok := ast.Unparen(sel.X).(*ast.Ident); ok && info.ObjectOf(bid) == info.ObjectOf(vid) {
										firstMatch = true
									}
								}
								if nodeStr(c.Fset, xs.X) == nodeStr(c.Fset, sel.X) && r.Pos() > loop.End() {
									firstMatch = true
								}
							}
						}
						return true
					})
					if firstMatch {
						c.OK(key, r.Pos(), "child of a first-match node folded in a loop over its alternatives: decided by R02.8")
						continue
					}
					c.Undecided(key, r.Pos(), "a %s node is replaced by its child %s; the generator has no conditional form for %s nodes from which the condition of this rewrite could be read", node, field, node)
					continue
				}
				var role *childRole
				for i := range rs {
					if rs[i].field == field {
						role = &rs[i]
					}
				}
				if role == nil {
					var fs []string
					for _, x := range rs {
						fs = append(fs, x.field)
					}
					c.Violation(key, r.Pos(), "the optimizer replaces a %s node by its child %s, but the generated code for a %s node never returns the value of %s (only of %s): the optimized program computes a different value than the unoptimized one whenever the value of %s differs from the selected branch, e.g. for a configuration whose ToBool accepts other values than the branch constants", node, field, node, field, strings.Join(fs, "/"), field)
					continue
				}
				// the fact: b, ok := <hook>(x) with b == role.val, ok true, x the constant value of <base>.<arg>
				found, why := false, "no branch fact on the result of "+role.pred
				for _, gd := range g.Guards(r) {
					if gd.Synth {
						continue
					}
					id, ok := ast.Unparen(gd.Cond).(*ast.Ident)
					if !ok {
						continue
					}
					as, i := definingAssign(info, fd, info.ObjectOf(id))
					if as == nil || i != 0 || len(as.Rhs) != 1 {
						continue
					}
					pc, ok := ast.Unparen(as.Rhs[0]).(*ast.CallExpr)
					if !ok || len(pc.Args) != 1 {
						continue
					}
					ps, ok := ast.Unparen(pc.Fun).(*ast.SelectorExpr)
					if !ok || ps.Sel.Name != role.pred {
						continue
					}
					if gd.Val != role.val {
						why = fmt.Sprintf("%s is promoted where %s yields %v, the generated code returns it where it yields %v", field, role.pred, gd.Val, role.val)
						continue
					}
					// success flag of the hook
					if len(as.Lhs) == 2 {
						okID, isID := as.Lhs[1].(*ast.Ident)
						if !isID || okID.Name == "_" {
							why = "the success flag of " + role.pred + " is discarded: a condition that is no boolean selects a branch instead of raising the error the generated code raises"
							continue
						}
						okObj := info.ObjectOf(okID)
						has := false
						for _, g2 := range g.Guards(r) {
							if id2, ok := ast.Unparen(g2.Cond).(*ast.Ident); ok && !g2.Synth && g2.Val && info.ObjectOf(id2) == okObj {
								has = true
							}
						}
						if !has {
							why = "the success flag of " + role.pred + " is not tested: a condition that is no boolean selects a branch instead of raising the error the generated code raises"
							continue
						}
					}
					// the argument is the constant value of <base>.<arg>
					aid, ok := ast.Unparen(pc.Args[0]).(*ast.Ident)
					if !ok {
						why = "the argument of " + role.pred + " is not the constant value of " + role.arg
						continue
					}
					as2, j := definingAssign(info, fd, info.ObjectOf(aid))
					if as2 == nil || j != 0 || len(as2.Rhs) != 1 {
						why = "the argument of " + role.pred + " is not the constant value of " + role.arg
						continue
					}
					argOK := false
					if c2, ok := ast.Unparen(as2.Rhs[0]).(*ast.CallExpr); ok && len(c2.Args) == 1 {
						if s2, ok := ast.Unparen(c2.Args[0]).(*ast.SelectorExpr); ok && s2.Sel.Name == role.arg && nodeStr(c.Fset, s2.X) == nodeStr(c.Fset, sel.X) {
							argOK = true
						}
					}
					if !argOK {
						why = fmt.Sprintf("%s is applied to something else than the constant value of %s.%s", role.pred, nodeStr(c.Fset, sel.X), role.arg)
						continue
					}
					found = true
				}
				if found {
					c.OK(key, r.Pos(), "%s is promoted exactly where %s(%s) yields %v and reports success, as in the generated code", field, role.pred, role.arg, role.val)
				} else {
					c.Violation(key, r.Pos(), "the optimizer replaces a %s node by its child %s, but not under the condition under which the generated code returns the value of %s: %s", node, field, field, why)
				}
			}
			return true
		})
	}
	if n == 0 {
		c.Undecided("funcGen:subtree-promotions", token.NoPos, "no subtree promotion found in the optimizer (the constant-if rewrite is expected)")
	}
}

var _ = packages.NeedName
var _ = cfg.KindBody

// ---------------------------------------------------------------------------
// R02.8 first-match folding.
//
// The generated code of a switch tries its cases in order: the first case
// whose constant equals the switch value (decided by the isEqual hook without
// an error) delivers the value, an error of the hook ends the evaluation, the
// default is taken if no case matched. Where the optimizer folds such a node
// in a loop over the cases, (a) it may replace the node by the value of the
// current case only where the case constant is known, the hook reported
// success and equality; (b) it may move on to the next case only where the
// current case is *decided negative*: constant known, hook succeeded, not
// equal. Moving on past a case that is not constant, or past an error,
// selects a later case or the default although the program would take the
// earlier case or fail.

func ruleR028(c *Ctx) {
	decls, fg := c.optimizerMethods()
	if len(decls) == 0 {
		c.Undecided("funcGen:Optimizer-implementations", token.NoPos, "no type implementing parser2.Optimizer found in funcGen")
		return
	}
	info := fg.TypesInfo
	n := 0
	for _, fd := range decls {
		fname := declName(fg, fd)
		g := c.CFG(fd)
		ast.Inspect(fd.Body, func(x ast.Node) bool {
			rs, ok := x.(*ast.RangeStmt)
			if !ok || rs.Value == nil {
				return true
			}
			vid, ok := rs.Value.(*ast.Ident)
			if !ok || vid.Name == "_" {
				return true
			}
			// range over a field of a node of the parser: sw.Cases
			xs, ok := ast.Unparen(rs.X).(*ast.SelectorExpr)
			if !ok {
				return true
			}
			nodeT := namedOf(info.TypeOf(xs.X))
			if nodeT == nil || nodeT.Obj().Pkg() == nil || nodeT.Obj().Pkg().Path() != modPath {
				return true
			}
			vobj := info.ObjectOf(vid)
			// promotions of a child of the alternative: return c.Value
			var promos []*ast.ReturnStmt
			promoted := ""
			inspectNoLit(rs.Body, func(y ast.Node) bool {
				r, ok := y.(*ast.ReturnStmt)
				if !ok || len(r.Results) != 1 {
					return true
				}
				sel, ok := ast.Unparen(r.Results[0]).(*ast.SelectorExpr)
				if !ok {
					return true
				}
				if id, ok := ast.Unparen(sel.X).(*ast.Ident); ok && info.ObjectOf(id) == vobj && isNamed(info.TypeOf(sel), modPath, "AST") {
					promos = append(promos, r)
					promoted = sel.Sel.Name
				}
				return true
			})
			if len(promos) == 0 {
				return true
			}
			n++
			key := fmt.Sprintf("%s#first-match:%s.%s", fname, nodeT.Obj().Name(), xs.Sel.Name)
			// the facts: ok of the constant test on a child of the alternative, and (eq, err) of a generator hook
			isConstOK := func(e ast.Expr) bool { // ident defined as 2nd result of a call whose argument is <alt>.<child>
				id, ok := ast.Unparen(e).(*ast.Ident)
				if !ok {
					return false
				}
				as, i := definingAssign(info, fd, info.ObjectOf(id))
				if as == nil || i != 1 || len(as.Rhs) != 1 {
					return false
				}
				call, ok := ast.Unparen(as.Rhs[0]).(*ast.CallExpr)
				if !ok || len(call.Args) != 1 {
					return false
				}
				sel, ok := ast.Unparen(call.Args[0]).(*ast.SelectorExpr)
				if !ok || sel.Sel.Name == promoted {
					return false
				}
				aid, ok := ast.Unparen(sel.X).(*ast.Ident)
				return ok && info.ObjectOf(aid) == vobj
			}
			hookResult := func(e ast.Expr, idx int) bool { // ident defined as result idx of a call of a func valued field (hook)
				id, ok := ast.Unparen(e).(*ast.Ident)
				if !ok {
					return false
				}
				as, i := definingAssign(info, fd, info.ObjectOf(id))
				if as == nil || i != idx || len(as.Rhs) != 1 || len(as.Lhs) != 2 {
					return false
				}
				call, ok := ast.Unparen(as.Rhs[0]).(*ast.CallExpr)
				if !ok {
					return false
				}
				hs, ok := ast.Unparen(call.Fun).(*ast.SelectorExpr)
				if !ok {
					return false
				}
				s, ok := info.Selections[hs]
				if !ok || s.Kind() != types.FieldVal {
					return false
				}
				_, isSig := s.Obj().Type().Underlying().(*types.Signature)
				return isSig
			}
			type fact struct {
				name string
				is   func(gd Guard) bool
			}
			constKnown := fact{"the case constant is known at compile time", func(gd Guard) bool { return gd.Val && !gd.Synth && isConstOK(gd.Cond) }}
			noError := fact{"the equality hook reported no error", func(gd Guard) bool {
				be, ok := ast.Unparen(gd.Cond).(*ast.BinaryExpr)
				if !ok || (be.Op != token.EQL && be.Op != token.NEQ) {
					return false
				}
				if y, ok := ast.Unparen(be.Y).(*ast.Ident); !ok || y.Name != "nil" {
					return false
				}
				return hookResult(be.X, 1) && (be.Op == token.EQL) == gd.Val
			}}
			equal := func(want bool) fact {
				return fact{map[bool]string{true: "the hook says equal", false: "the hook says not equal"}[want], func(gd Guard) bool {
					return !gd.Synth && gd.Val == want && hookResult(gd.Cond, 0)
				}}
			}
			var problems []string
			// (a) promotions
			for _, r := range promos {
				gds := g.Guards(r)
				for _, f := range []fact{constKnown, noError, equal(true)} {
					has := false
					for _, gd := range gds {
						if f.is(gd) {
							has = true
						}
					}
					if !has {
						problems = append(problems, fmt.Sprintf("the value of the case is taken (line %d) although it is not established that %s", c.Fset.Position(r.Pos()).Line, f.name))
					}
				}
			}
			// (b) moving on to the next case
			bodyBlk, loopBlk, _ := g.RangeBlocks(rs)
			if bodyBlk == nil || loopBlk == nil {
				c.Undecided(key, rs.Pos(), "loop not found in the control flow graph")
				return true
			}
			for _, f := range []fact{constKnown, noError, equal(false)} {
				f := f
				bad := g.PathEdgesFrom(bodyBlk, func(b *cfg.Block) bool { return b == loopBlk }, nil, func(cond ast.Expr, val bool) bool {
					var leaves []Guard
					expandGuard(cond, val, &leaves)
					for _, gd := range leaves {
						if f.is(gd) {
							return false // this edge establishes the fact: not part of a bad path
						}
					}
					return true
				})
				if bad {
					problems = append(problems, fmt.Sprintf("the loop moves on to the next case on a path on which it is not established that %s", f.name))
				}
			}
			if len(problems) == 0 {
				c.OK(key, rs.Pos(), "the folding loop takes a case only if its constant is known and the hook reports equality without error, and moves on only past cases decided negative")
			} else {
				c.Violation(key, rs.Pos(), "folding of a first-match node (%s) deviates from the order of evaluation of the generated code: %s — a later case or the default is selected although the program takes an earlier case or fails", nodeT.Obj().Name(), strings.Join(problems, "; "))
			}
			return true
		})
	}
	if n == 0 {
		c.Note("funcGen.optimizer#first-match-folding", token.NoPos, "the optimizer folds no first-match node (switch) today")
	}
}

// ---------------------------------------------------------------------------
// R02.9 success of Parse/Generate does not depend on whether a node was folded
//
// Whether a node of the AST is a *Const is decided by the optimizer alone: the
// same program has a Const at a place with the optimizer enabled and an
// Ident/Let/ClosureLiteral without it. Code outside the optimizer that makes
// Parse or Generate *fail* because a node is a constant (an "early" diagnostic:
// wrong argument count of a constant closure, constant index out of range ...)
// turns an error of the evaluation - which the program may catch, or which sits
// in a branch that is never taken - into a failure of the generation, with the
// optimizer only.

func ruleR029(c *Ctx) {
	n := 0
	for _, pkg := range c.RepoPkgs {
		info := pkg.TypesInfo
		isConstPtr := func(t types.Type) bool {
			p, ok := t.(*types.Pointer)
			if !ok {
				return false
			}
			nm := namedOf(p.Elem())
			return nm != nil && nm.Obj().Pkg() != nil && nm.Obj().Pkg().Path() == modPath && nm.Obj().Name() == "Const"
		}
		freshError := func(fn ast.Node, e ast.Expr) bool {
			e = ast.Unparen(e)
			switch t := e.(type) {
			case *ast.CallExpr:
				return true
			case *ast.Ident:
				if t.Name == "nil" {
					return false
				}
				obj := info.ObjectOf(t)
				if as, i := definingAssign(info, fn, obj); as != nil && len(as.Rhs) == len(as.Lhs) && countAssignments(info, fn, obj) == 1 {
					if call, ok := ast.Unparen(as.Rhs[i]).(*ast.CallExpr); ok {
						if cal := Callee(info, call); cal != nil && cal.Pkg() != nil && (cal.Pkg().Path() == "fmt" || cal.Pkg().Path() == "errors") {
							return true
						}
					}
				}
			}
			return false
		}
		checkBody := func(fn ast.Node, key string, pos token.Pos, body []ast.Stmt) {
			var bad *ast.ReturnStmt
			for _, st := range body {
				inspectNoLit(st, func(x ast.Node) bool {
					r, ok := x.(*ast.ReturnStmt)
					if !ok || bad != nil || len(r.Results) == 0 {
						return true
					}
					last := r.Results[len(r.Results)-1]
					if isErrorType(info.TypeOf(last)) || func() bool {
						_, isCall := ast.Unparen(last).(*ast.CallExpr)
						return isCall && types.AssignableTo(info.TypeOf(last), errorType)
					}() {
						if freshError(fn, last) {
							bad = r
						}
					}
					return true
				})
			}
			if bad == nil {
				c.OK(key, pos, "no failure of its own under the test for a constant node")
			} else {
				c.Violation(key, bad.Pos(), "a new error (%s) is returned because a node of the AST is a *Const: whether it is one is decided by the optimizer alone, so with the optimizer the generation fails where without it the program has a value (the error of the evaluation may be caught by try, or sit in a branch or closure that is never evaluated)", nodeStr(c.Fset, bad.Results[len(bad.Results)-1]))
			}
		}
		for _, f := range pkg.Syntax {
			for _, d := range f.Decls {
				fd, ok := d.(*ast.FuncDecl)
				if !ok || fd.Body == nil {
					continue
				}
				k := 0
				inspectNoLit(fd.Body, func(x ast.Node) bool {
					switch t := x.(type) {
					case *ast.IfStmt:
						// if c, ok := e.(*Const[V]); ok { ... }
						cond, ok := ast.Unparen(t.Cond).(*ast.Ident)
						if !ok {
							return true
						}
						obj := info.ObjectOf(cond)
						as, i := definingAssign(info, fd, obj)
						if as == nil || len(as.Rhs) != 1 || len(as.Lhs) != 2 || i != 1 {
							return true
						}
						ta, ok := ast.Unparen(as.Rhs[0]).(*ast.TypeAssertExpr)
						if !ok || ta.Type == nil || !isConstPtr(info.TypeOf(ta.Type)) {
							return true
						}
						k++
						n++
						checkBody(fd, fmt.Sprintf("%s#const-node-test[%d]", declName(pkg, fd), k), t.Pos(), t.Body.List)
					case *ast.TypeSwitchStmt:
						for _, cl := range t.Body.List {
							cc := cl.(*ast.CaseClause)
							for _, e := range cc.List {
								if isConstPtr(info.TypeOf(e)) && len(cc.List) == 1 {
									k++
									n++
									checkBody(fd, fmt.Sprintf("%s#const-node-test[%d]", declName(pkg, fd), k), cc.Pos(), cc.Body)
								}
							}
						}
					}
					return true
				})
			}
		}
	}
	if n < 4 {
		c.Undecided("parser2#const-node-tests", token.NoPos, "only %d tests for constant nodes found", n)
	}
}

// ---------------------------------------------------------------------------
// R02.10 declared purity is never upgraded by the library
//
// The optimizer folds what the descriptor of an operator, function or method
// declares pure. The declaration belongs to whoever registered the function:
// "false" is also the zero value, so code that treats false as "not set" and
// fills it from another descriptor turns an explicitly impure function into a
// pure one. A store into the IsPure field of an existing descriptor is
// therefore only a downgrade (false, or a conjunction with the old value) or
// the setter's own parameter.

func ruleR0210(c *Ctx) {
	n := 0
	for _, pkg := range c.RepoPkgs {
		info := pkg.TypesInfo
		forEachFuncBody([]*packages.Package{pkg}, func(_ *packages.Package, fn ast.Node, body *ast.BlockStmt) {
			k := 0
			inspectNoLit(body, func(x ast.Node) bool {
				as, ok := x.(*ast.AssignStmt)
				if !ok || len(as.Lhs) != len(as.Rhs) {
					return true
				}
				for i, l := range as.Lhs {
					sel, ok := ast.Unparen(l).(*ast.SelectorExpr)
					if !ok || (sel.Sel.Name != "IsPure" && sel.Sel.Name != "IsCommutative") {
						continue
					}
					v, ok := info.ObjectOf(sel.Sel).(*types.Var)
					if !ok || !v.IsField() || v.Pkg() == nil || !strings.HasPrefix(v.Pkg().Path(), modPath) {
						continue
					}
					k++
					n++
					key := fmt.Sprintf("%s#flag-store[%d]:%s", c.FuncName(fn)+litSuffix(c, fn), k, nodeStr(c.Fset, sel))
					rhs := ast.Unparen(as.Rhs[i])
					ok2, why := false, ""
					if tv := info.Types[rhs]; tv.Value != nil && tv.Value.Kind() == constant.Bool {
						ok2, why = true, "a constant"
					}
					if id, ok := rhs.(*ast.Ident); ok && !ok2 {
						// a parameter of the function: the caller declares the flag
						if pv, ok := info.ObjectOf(id).(*types.Var); ok {
							var ft *ast.FuncType
							switch t := fn.(type) {
							case *ast.FuncDecl:
								ft = t.Type
							case *ast.FuncLit:
								ft = t.Type
							}
							if ft != nil && ft.Params != nil {
								for _, f := range ft.Params.List {
									for _, nm := range f.Names {
										if info.Defs[nm] == pv {
											ok2, why = true, "the parameter "+id.Name
										}
									}
								}
							}
						}
					}
					if !ok2 {
						// a conjunction that contains the old value of the same field
						var conj func(e ast.Expr) bool
						conj = func(e ast.Expr) bool {
							e = ast.Unparen(e)
							if be, ok := e.(*ast.BinaryExpr); ok && be.Op == token.LAND {
								return conj(be.X) || conj(be.Y)
							}
							return nodeStr(c.Fset, e) == nodeStr(c.Fset, sel)
						}
						if be, ok := rhs.(*ast.BinaryExpr); ok && be.Op == token.LAND && conj(be) {
							ok2, why = true, "a conjunction with the old value"
						}
					}
					if !ok2 {
						// a descriptor this function is just building (nf := Function[V]{...}; nf.IsPure = f.IsPure) is construction
						if id, ok := ast.Unparen(sel.X).(*ast.Ident); ok {
							obj := info.ObjectOf(id)
							if das, di := definingAssign(info, fn, obj); das != nil && len(das.Rhs) == len(das.Lhs) && countAssignments(info, fn, obj) == 1 {
								r := ast.Unparen(das.Rhs[di])
								if u, isU := r.(*ast.UnaryExpr); isU && u.Op == token.AND {
									r = ast.Unparen(u.X)
								}
								if _, isLit := r.(*ast.CompositeLit); isLit {
									ok2, why = true, "part of the construction of a new descriptor"
								}
							} else if das == nil {
								// var nf Function[V]
								declared := false
								ast.Inspect(funcBody(fn), func(y ast.Node) bool {
									if vs, isVS := y.(*ast.ValueSpec); isVS && len(vs.Values) == 0 {
										for _, nm := range vs.Names {
											if info.Defs[nm] == obj {
												declared = true
											}
										}
									}
									return true
								})
								if declared {
									ok2, why = true, "part of the construction of a new descriptor"
								}
							}
						}
					}
					if ok2 {
						c.OK(key, as.Pos(), "the flag is set to %s", why)
					} else {
						c.Violation(key, as.Pos(), "the flag %s of an existing descriptor is overwritten with %s: a descriptor that was declared impure (false is also the zero value of the field) can become pure, and the optimizer then executes the function while Generate runs and replaces the call by its result - an impure function is no longer called in every evaluation", nodeStr(c.Fset, sel), nodeStr(c.Fset, rhs))
					}
				}
				return true
			})
		})
	}
	if n < 1 {
		c.Undecided("funcGen#flag-stores", token.NoPos, "no store into a purity flag found (the setter Function.Pure is expected)")
	}
}

// ---------------------------------------------------------------------------
// R02.11 the optimizer folds a call of a closure only for an argument count
// that the generated call accepts
//
// The generated code of a call compares the number of arguments with the
// closure's Args (Function.argsNumberNotMatching) and fails on a mismatch. The
// optimizer applies a constant closure itself; if its own test lets through a
// count the generated code rejects, the folded program has a value (surplus
// arguments are ignored) where the unoptimized one has an error. Both tests
// only compare Args, the count and constants, so they are evaluated over all
// orderings of (Args, count) in a small range.

type arityEnv struct {
	c    *Ctx
	info *types.Info
	a, n int64
	fail string
}

func (e *arityEnv) num(x ast.Expr) (int64, bool) {
	x = ast.Unparen(x)
	if tv := e.info.Types[x]; tv.Value != nil && tv.Value.Kind() == constant.Int {
		return constant.Int64Val(tv.Value)
	}
	switch t := x.(type) {
	case *ast.SelectorExpr:
		if t.Sel.Name == "Args" {
			if v, ok := e.info.ObjectOf(t.Sel).(*types.Var); ok && v.IsField() {
				if _, isInt := v.Type().Underlying().(*types.Basic); isInt {
					return e.a, true
				}
			}
		}
	case *ast.CallExpr:
		if id, ok := ast.Unparen(t.Fun).(*ast.Ident); ok && id.Name == "len" {
			if _, isB := e.info.Uses[id].(*types.Builtin); isB {
				return e.n, true
			}
		}
	case *ast.Ident:
		// the count parameter of the reference predicate
		if v, ok := e.info.ObjectOf(t).(*types.Var); ok && !v.IsField() {
			if b, ok := v.Type().Underlying().(*types.Basic); ok && b.Info()&types.IsInteger != 0 {
				return e.n, true
			}
		}
	case *ast.UnaryExpr:
		if t.Op == token.SUB {
			if v, ok := e.num(t.X); ok {
				return -v, true
			}
		}
	}
	if e.fail == "" {
		e.fail = nodeStr(e.c.Fset, x)
	}
	return 0, false
}

func (e *arityEnv) truth(x ast.Expr) bool {
	x = ast.Unparen(x)
	if tv := e.info.Types[x]; tv.Value != nil && tv.Value.Kind() == constant.Bool {
		return constant.BoolVal(tv.Value)
	}
	switch t := x.(type) {
	case *ast.UnaryExpr:
		if t.Op == token.NOT {
			return !e.truth(t.X)
		}
	case *ast.BinaryExpr:
		switch t.Op {
		case token.LAND:
			return e.truth(t.X) && e.truth(t.Y)
		case token.LOR:
			return e.truth(t.X) || e.truth(t.Y)
		case token.EQL, token.NEQ, token.LSS, token.LEQ, token.GTR, token.GEQ:
			l, ok1 := e.num(t.X)
			r, ok2 := e.num(t.Y)
			if !ok1 || !ok2 {
				return false
			}
			switch t.Op {
			case token.EQL:
				return l == r
			case token.NEQ:
				return l != r
			case token.LSS:
				return l < r
			case token.LEQ:
				return l <= r
			case token.GTR:
				return l > r
			case token.GEQ:
				return l >= r
			}
		}
	}
	if e.fail == "" {
		e.fail = nodeStr(e.c.Fset, x)
	}
	return false
}

// truthBody evaluates a function body made of guard clauses: if cond { return e } ...; return e.
func (e *arityEnv) truthBody(stmts []ast.Stmt) (val bool, returned bool) {
	for _, st := range stmts {
		switch t := st.(type) {
		case *ast.ReturnStmt:
			if len(t.Results) != 1 {
				e.fail = "a return without a single result"
				return false, true
			}
			return e.truth(t.Results[0]), true
		case *ast.IfStmt:
			if t.Init != nil {
				e.fail = "an if statement with an init clause"
				return false, true
			}
			if e.truth(t.Cond) {
				if v, r := e.truthBody(t.Body.List); r {
					return v, true
				}
			} else if t.Else != nil {
				var list []ast.Stmt
				switch el := t.Else.(type) {
				case *ast.BlockStmt:
					list = el.List
				default:
					list = []ast.Stmt{el}
				}
				if v, r := e.truthBody(list); r {
					return v, true
				}
			}
		default:
			e.fail = "a statement that is no guard clause"
			return false, true
		}
	}
	return false, false
}

func ruleR0211(c *Ctx) {
	decls, fg := c.optimizerMethods()
	a := c.genAnchors()
	if len(decls) == 0 || len(a.missing) > 0 {
		c.Undecided("funcGen:Optimizer-implementations", token.NoPos, "anchors not found")
		return
	}
	info := fg.TypesInfo
	// the reference: the method of Function with one integer parameter whose single return is a condition over Args
	var ref *ast.BlockStmt
	var refName string
	for _, f := range fg.Syntax {
		for _, d := range f.Decls {
			fd, ok := d.(*ast.FuncDecl)
			if !ok || fd.Body == nil || fd.Recv == nil || recvTypeName(fd.Recv.List[0].Type) != "Function" || len(fd.Body.List) == 0 || len(fd.Body.List) > 4 || fd.Type.Params.NumFields() != 1 || fd.Type.Results.NumFields() != 1 {
				continue
			}
			if b, ok := info.TypeOf(fd.Type.Results.List[0].Type).Underlying().(*types.Basic); !ok || b.Kind() != types.Bool {
				continue
			}
			if containsNode(fd.Body, func(y ast.Node) bool { s, ok := y.(*ast.SelectorExpr); return ok && s.Sel.Name == "Args" }) {
				// used by generated code as the mismatch test?
				obj, _ := info.Defs[fd.Name].(*types.Func)
				used := false
				for _, gi := range c.generatorFuncs(a, c.forwarders(a)) {
					if containsNodeDeep(gi.decl.Body, func(y ast.Node) bool {
						call, ok := y.(*ast.CallExpr)
						return ok && obj != nil && Callee(gi.pkg.TypesInfo, call) == obj.Origin()
					}) {
						used = true
					}
				}
				if used {
					if ref != nil {
						c.Undecided("funcGen.Function#arity-test", fd.Pos(), "more than one arity test used by generated code (%s, %s)", refName, fd.Name.Name)
						return
					}
					ref, refName = fd.Body, fd.Name.Name
				}
			}
		}
	}
	if ref == nil {
		c.Undecided("funcGen.Function#arity-test", token.NoPos, "the arity test of the generated call (a method of Function over Args) was not found")
		return
	}
	n := 0
	for _, fd := range decls {
		k := 0
		ast.Inspect(fd.Body, func(x ast.Node) bool {
			call, ok := x.(*ast.CallExpr)
			if !ok {
				return true
			}
			// X.Func(...) with X a Function obtained from ToClosure, or X handed to a helper that runs its parameter
			var xid *ast.Ident
			if sel, ok := ast.Unparen(call.Fun).(*ast.SelectorExpr); ok && sel.Sel.Name == "Func" {
				xid, _ = ast.Unparen(sel.X).(*ast.Ident)
			} else if d := funcValueExec(c, fg, call); d != nil {
				xid, _ = ast.Unparen(d).(*ast.Ident)
			} else if cal := Callee(info, call); cal != nil && cal.Pkg() == fg.Types {
				if hd := findFuncDecl(fg, cal); hd != nil && hd.Body != nil && hd.Type.Params != nil {
					pi := 0
					for _, fl := range hd.Type.Params.List {
						for _, nm := range fl.Names {
							pobj := info.Defs[nm]
							runs := containsNodeDeep(hd.Body, func(y ast.Node) bool {
								cc, ok := y.(*ast.CallExpr)
								if !ok {
									return false
								}
								s2, ok := ast.Unparen(cc.Fun).(*ast.SelectorExpr)
								if !ok || s2.Sel.Name != "Func" {
									return false
								}
								id, ok := ast.Unparen(s2.X).(*ast.Ident)
								return ok && info.ObjectOf(id) == pobj
							})
							if runs && pi < len(call.Args) {
								if id, ok := ast.Unparen(call.Args[pi]).(*ast.Ident); ok {
									xid = id
								}
							}
							pi++
						}
					}
				}
			}
			if xid == nil || !isNamed(info.TypeOf(xid), modPath+"/funcGen", "Function") {
				return true
			}
			as, _ := definingAssign(info, fd, info.ObjectOf(xid))
			if as == nil || len(as.Rhs) != 1 {
				return true
			}
			oc, ok := ast.Unparen(as.Rhs[0]).(*ast.CallExpr)
			if !ok {
				return true
			}
			if cal := Callee(info, oc); cal == nil || cal.Name() != "ToClosure" {
				return true
			}
			k++
			n++
			key := fmt.Sprintf("%s#closure-fold-arity[%d]", declName(fg, fd), k)
			// the conditions over X.Args under which the call is reached
			var conds []Guard
			for _, gd := range c.GuardsDeep(call) {
				if gd.Synth || gd.Derived {
					continue
				}
				if containsNode(gd.Cond, func(y ast.Node) bool {
					s, ok := y.(*ast.SelectorExpr)
					if !ok || s.Sel.Name != "Args" {
						return false
					}
					id, ok := ast.Unparen(s.X).(*ast.Ident)
					return ok && info.ObjectOf(id) == info.ObjectOf(xid)
				}) {
					conds = append(conds, gd)
				}
			}
			var counter string
			undecided := ""
			for av := int64(-1); av <= 4 && counter == "" && undecided == ""; av++ {
				for nv := int64(0); nv <= 4; nv++ {
					env := &arityEnv{c: c, info: info, a: av, n: nv}
					fold := true
					for _, gd := range conds {
						if env.truth(gd.Cond) != gd.Val {
							fold = false
						}
					}
					mismatch, returned := env.truthBody(ref.List)
					if !returned && env.fail == "" {
						env.fail = "the arity test does not return on every path"
					}
					if env.fail != "" {
						undecided = env.fail
						break
					}
					if fold && mismatch {
						counter = fmt.Sprintf("Args=%d, %d arguments", av, nv)
						break
					}
				}
			}
			switch {
			case undecided != "":
				c.Undecided(key, call.Pos(), "a condition over Args is not a comparison of Args, the argument count and constants (%s)", undecided)
			case counter != "":
				c.Violation(key, call.Pos(), "the optimizer applies a constant closure for an argument count that the generated call rejects (%s: the test in front of the fold lets it through, %s of the generated code reports a wrong number of arguments): the folded program has a value where the unoptimized program has an error - `let dbl=x->x*2; dbl(3,4)` is 6 with the optimizer", counter, refName)
			default:
				c.OK(key, call.Pos(), "for Args in -1..4 and 0..4 arguments the optimizer folds only where %s of the generated code accepts the count", refName)
			}
			return true
		})
	}
	if n < 1 {
		c.Undecided("funcGen.optimizer#closure-fold", token.NoPos, "no application of a constant closure by the optimizer found")
	}
}
