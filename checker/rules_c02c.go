package main

import (
	"fmt"
	"go/ast"
	"go/token"
	"go/types"
	"sort"
	"strings"

	"golang.org/x/tools/go/cfg"
	"golang.org/x/tools/go/packages"
)

// ---------------------------------------------------------------------------
// R02.7 subtree promotion: the optimizer replaces a node by one of its own
// children only where the generated code would return exactly that child's
// value.
//
// The roles are read from the generator: in the code generated for a node
// type T, "return <compiled child F>(…)" under the branch fact p(x) == b says
// that the value of a T node is the value of child F whenever the predicate p
// (a configured hook of the generator, e.g. toBool) yields b and reports
// success. The optimizer may promote child F of a T node exactly under the same
// fact, with x being the constant value of the child the generator feeds to p.
// Any other child of T is never the value of the node, so promoting it changes
// the result for some V (V carries no equality the generic optimizer could
// consult).

type childRole struct {
	node  string // node type name in parser2
	field string // promoted child
	pred  string // name of the generator hook that decides
	arg   string // child whose value is fed to the hook
	val   bool   // required first result
}

// resultChildren derives the roles from the generator.
func (c *Ctx) resultChildren(a *genAnchors, fwd map[*types.Func]bool) (roles []childRole, nodeSeen map[string]bool) {
	nodeSeen = map[string]bool{}
	for _, gi := range c.generatorFuncs(a, fwd) {
		pkg := gi.pkg
		if pkg != a.fg {
			continue
		}
		info := pkg.TypesInfo
		ast.Inspect(gi.decl.Body, func(x ast.Node) bool {
			cc, ok := x.(*ast.CaseClause)
			if !ok || len(cc.List) != 1 {
				return true
			}
			// type switch case *parser2.T
			tv, ok := info.Types[cc.List[0]]
			if !ok || !tv.IsType() {
				return true
			}
			nm := namedOf(tv.Type)
			if nm == nil || nm.Obj().Pkg() == nil || nm.Obj().Pkg().Path() != modPath {
				return true
			}
			node := nm.Obj().Name()
			nodeObj := info.Implicits[cc]
			if nodeObj == nil {
				return true
			}
			// compiled children: v, …  := <generate>(a.F, …)
			compiled := map[types.Object]string{}
			for _, st := range cc.Body {
				ast.Inspect(st, func(y ast.Node) bool {
					as, ok := y.(*ast.AssignStmt)
					if !ok || len(as.Rhs) != 1 {
						return true
					}
					call, ok := ast.Unparen(as.Rhs[0]).(*ast.CallExpr)
					if !ok || len(call.Args) == 0 {
						return true
					}
					cal := Callee(info, call)
					if cal == nil || !(cal == a.genFunc.Origin() || cal.Origin() == a.genFunc.Origin() || fwd[cal]) {
						return true
					}
					sel, ok := ast.Unparen(call.Args[0]).(*ast.SelectorExpr)
					if !ok {
						return true
					}
					if id, ok := ast.Unparen(sel.X).(*ast.Ident); !ok || info.ObjectOf(id) != nodeObj {
						return true
					}
					if lid, ok := as.Lhs[0].(*ast.Ident); ok && info.ObjectOf(lid) != nil {
						compiled[info.ObjectOf(lid)] = sel.Sel.Name
					}
					return true
				})
			}
			if len(compiled) == 0 {
				return true
			}
			// returns of the generated closure
			for _, st := range cc.Body {
				ast.Inspect(st, func(y ast.Node) bool {
					lit, ok := y.(*ast.FuncLit)
					if !ok {
						return true
					}
					g := c.CFG(lit)
					if g == nil {
						return true
					}
					inspectNoLit(lit.Body, func(z ast.Node) bool {
						r, ok := z.(*ast.ReturnStmt)
						if !ok || len(r.Results) == 0 {
							return true
						}
						call, ok := ast.Unparen(r.Results[0]).(*ast.CallExpr)
						if !ok {
							return true
						}
						fid, ok := ast.Unparen(call.Fun).(*ast.Ident)
						if !ok {
							return true
						}
						field, ok := compiled[info.ObjectOf(fid)]
						if !ok {
							return true
						}
						nodeSeen[node] = true
						// the deciding fact: a bool variable that is the first result of a generator hook
						for _, gd := range g.Guards(r) {
							if gd.Synth {
								continue
							}
							id, ok := ast.Unparen(gd.Cond).(*ast.Ident)
							if !ok {
								continue
							}
							as, i := definingAssign(info, lit, info.ObjectOf(id))
							if as == nil || i != 0 || len(as.Rhs) != 1 {
								continue
							}
							pc, ok := ast.Unparen(as.Rhs[0]).(*ast.CallExpr)
							if !ok || len(pc.Args) != 1 {
								continue
							}
							ps, ok := ast.Unparen(pc.Fun).(*ast.SelectorExpr)
							if !ok {
								continue
							}
							if s, ok := info.Selections[ps]; !ok || s.Kind() != types.FieldVal {
								continue
							}
							// the argument: result of a compiled child
							argField := ""
							if aid, ok := ast.Unparen(pc.Args[0]).(*ast.Ident); ok {
								if as2, j := definingAssign(info, lit, info.ObjectOf(aid)); as2 != nil && j == 0 && len(as2.Rhs) == 1 {
									if c2, ok := ast.Unparen(as2.Rhs[0]).(*ast.CallExpr); ok {
										if f2, ok := ast.Unparen(c2.Fun).(*ast.Ident); ok {
											argField = compiled[info.ObjectOf(f2)]
										}
									}
								}
							}
							if argField == "" {
								continue
							}
							roles = append(roles, childRole{node: node, field: field, pred: ps.Sel.Name, arg: argField, val: gd.Val})
						}
						return true
					})
					return true
				})
			}
			return true
		})
	}
	sort.Slice(roles, func(i, j int) bool {
		return roles[i].node+roles[i].field < roles[j].node+roles[j].field
	})
	return roles, nodeSeen
}

func ruleR027(c *Ctx) {
	decls, fg := c.optimizerMethods()
	if len(decls) == 0 {
		c.Undecided("funcGen:Optimizer-implementations", token.NoPos, "no type implementing parser2.Optimizer found in funcGen")
		return
	}
	a := c.genAnchors()
	if len(a.missing) > 0 {
		c.Undecided(strings.Join(a.missing, ","), token.NoPos, "anchors not found")
		return
	}
	roles, _ := c.resultChildren(a, c.forwarders(a))
	if len(roles) < 2 {
		c.Undecided("funcGen:result-children", token.NoPos, "the generator's conditional nodes could not be read (found %d child roles)", len(roles))
		return
	}
	byNode := map[string][]childRole{}
	for _, r := range roles {
		byNode[r.node] = append(byNode[r.node], r)
	}
	info := fg.TypesInfo
	n := 0
	for _, fd := range decls {
		fname := declName(fg, fd)
		g := c.CFG(fd)
		ordinal := map[string]int{}
		inspectNoLit(fd.Body, func(x ast.Node) bool {
			r, ok := x.(*ast.ReturnStmt)
			if !ok {
				return true
			}
			for _, res := range r.Results {
				e := ast.Unparen(res)
				if id, ok := e.(*ast.Ident); ok {
					if as, i := definingAssign(info, fd, info.ObjectOf(id)); as != nil && len(as.Lhs) == len(as.Rhs) {
						e = ast.Unparen(as.Rhs[i])
					}
				}
				sel, ok := e.(*ast.SelectorExpr)
				if !ok {
					continue
				}
				s, ok := info.Selections[sel]
				if !ok || s.Kind() != types.FieldVal || !isNamed(s.Obj().Type(), modPath, "AST") {
					continue
				}
				nm := namedOf(info.TypeOf(sel.X))
				if nm == nil || nm.Obj().Pkg() == nil || nm.Obj().Pkg().Path() != modPath {
					continue
				}
				node, field := nm.Obj().Name(), sel.Sel.Name
				n++
				ordinal[node+"."+field]++
				key := fmt.Sprintf("%s#promote:%s.%s[%d]", fname, node, field, ordinal[node+"."+field])
				rs := byNode[node]
				if len(rs) == 0 {
					// a first-match node (switch) folded in a loop over its alternatives: the conditions of taking an
					// alternative, of moving on and so of reaching the default are decided by R02.8
					firstMatch := false
					ast.Inspect(fd.Body, func(y ast.Node) bool {
						loop, ok := y.(*ast.RangeStmt)
						if !ok {
							return true
						}
						if xs, ok := ast.Unparen(loop.X).(*ast.SelectorExpr); ok {
							if nt := namedOf(info.TypeOf(xs.X)); nt != nil && nt.Obj().Pkg() != nil && nt.Obj().Pkg().Path() == modPath {
								// the promoted child belongs to the range variable of the loop, or to the node the loop runs over and the return follows the loop
								if vid, ok := loop.Value.(*ast.Ident); ok {
									if bid, ok := ast.Unparen(sel.X).(*ast.Ident); ok && info.ObjectOf(bid) == info.ObjectOf(vid) {
										firstMatch = true
									}
								}
								if nodeStr(c.Fset, xs.X) == nodeStr(c.Fset, sel.X) && r.Pos() > loop.End() {
									firstMatch = true
								}
							}
						}
						return true
					})
					if firstMatch {
						c.OK(key, r.Pos(), "child of a first-match node folded in a loop over its alternatives: decided by R02.8")
						continue
					}
					c.Undecided(key, r.Pos(), "a %s node is replaced by its child %s; the generator has no conditional form for %s nodes from which the condition of this rewrite could be read", node, field, node)
					continue
				}
				var role *childRole
				for i := range rs {
					if rs[i].field == field {
						role = &rs[i]
					}
				}
				if role == nil {
					var fs []string
					for _, x := range rs {
						fs = append(fs, x.field)
					}
					c.Violation(key, r.Pos(), "the optimizer replaces a %s node by its child %s, but the generated code for a %s node never returns the value of %s (only of %s): the optimized program computes a different value than the unoptimized one whenever the value of %s differs from the selected branch, e.g. for a configuration whose ToBool accepts other values than the branch constants", node, field, node, field, strings.Join(fs, "/"), field)
					continue
				}
				// the fact: b, ok := <hook>(x) with b == role.val, ok true, x the constant value of <base>.<arg>
				found, why := false, "no branch fact on the result of "+role.pred
				for _, gd := range g.Guards(r) {
					if gd.Synth {
						continue
					}
					id, ok := ast.Unparen(gd.Cond).(*ast.Ident)
					if !ok {
						continue
					}
					as, i := definingAssign(info, fd, info.ObjectOf(id))
					if as == nil || i != 0 || len(as.Rhs) != 1 {
						continue
					}
					pc, ok := ast.Unparen(as.Rhs[0]).(*ast.CallExpr)
					if !ok || len(pc.Args) != 1 {
						continue
					}
					ps, ok := ast.Unparen(pc.Fun).(*ast.SelectorExpr)
					if !ok || ps.Sel.Name != role.pred {
						continue
					}
					if gd.Val != role.val {
						why = fmt.Sprintf("%s is promoted where %s yields %v, the generated code returns it where it yields %v", field, role.pred, gd.Val, role.val)
						continue
					}
					// success flag of the hook
					if len(as.Lhs) == 2 {
						okID, isID := as.Lhs[1].(*ast.Ident)
						if !isID || okID.Name == "_" {
							why = "the success flag of " + role.pred + " is discarded: a condition that is no boolean selects a branch instead of raising the error the generated code raises"
							continue
						}
						okObj := info.ObjectOf(okID)
						has := false
						for _, g2 := range g.Guards(r) {
							if id2, ok := ast.Unparen(g2.Cond).(*ast.Ident); ok && !g2.Synth && g2.Val && info.ObjectOf(id2) == okObj {
								has = true
							}
						}
						if !has {
							why = "the success flag of " + role.pred + " is not tested: a condition that is no boolean selects a branch instead of raising the error the generated code raises"
							continue
						}
					}
					// the argument is the constant value of <base>.<arg>
					aid, ok := ast.Unparen(pc.Args[0]).(*ast.Ident)
					if !ok {
						why = "the argument of " + role.pred + " is not the constant value of " + role.arg
						continue
					}
					as2, j := definingAssign(info, fd, info.ObjectOf(aid))
					if as2 == nil || j != 0 || len(as2.Rhs) != 1 {
						why = "the argument of " + role.pred + " is not the constant value of " + role.arg
						continue
					}
					argOK := false
					if c2, ok := ast.Unparen(as2.Rhs[0]).(*ast.CallExpr); ok && len(c2.Args) == 1 {
						if s2, ok := ast.Unparen(c2.Args[0]).(*ast.SelectorExpr); ok && s2.Sel.Name == role.arg && nodeStr(c.Fset, s2.X) == nodeStr(c.Fset, sel.X) {
							argOK = true
						}
					}
					if !argOK {
						why = fmt.Sprintf("%s is applied to something else than the constant value of %s.%s", role.pred, nodeStr(c.Fset, sel.X), role.arg)
						continue
					}
					found = true
				}
				if found {
					c.OK(key, r.Pos(), "%s is promoted exactly where %s(%s) yields %v and reports success, as in the generated code", field, role.pred, role.arg, role.val)
				} else {
					c.Violation(key, r.Pos(), "the optimizer replaces a %s node by its child %s, but not under the condition under which the generated code returns the value of %s: %s", node, field, field, why)
				}
			}
			return true
		})
	}
	if n == 0 {
		c.Undecided("funcGen:subtree-promotions", token.NoPos, "no subtree promotion found in the optimizer (the constant-if rewrite is expected)")
	}
}

var _ = packages.NeedName
var _ = cfg.KindBody

// ---------------------------------------------------------------------------
// R02.8 first-match folding.
//
// The generated code of a switch tries its cases in order: the first case
// whose constant equals the switch value (decided by the isEqual hook without
// an error) delivers the value, an error of the hook ends the evaluation, the
// default is taken if no case matched. Where the optimizer folds such a node
// in a loop over the cases, (a) it may replace the node by the value of the
// current case only where the case constant is known, the hook reported
// success and equality; (b) it may move on to the next case only where the
// current case is *decided negative*: constant known, hook succeeded, not
// equal. Moving on past a case that is not constant, or past an error,
// selects a later case or the default although the program would take the
// earlier case or fail.

func ruleR028(c *Ctx) {
	decls, fg := c.optimizerMethods()
	if len(decls) == 0 {
		c.Undecided("funcGen:Optimizer-implementations", token.NoPos, "no type implementing parser2.Optimizer found in funcGen")
		return
	}
	info := fg.TypesInfo
	n := 0
	for _, fd := range decls {
		fname := declName(fg, fd)
		g := c.CFG(fd)
		ast.Inspect(fd.Body, func(x ast.Node) bool {
			rs, ok := x.(*ast.RangeStmt)
			if !ok || rs.Value == nil {
				return true
			}
			vid, ok := rs.Value.(*ast.Ident)
			if !ok || vid.Name == "_" {
				return true
			}
			// range over a field of a node of the parser: sw.Cases
			xs, ok := ast.Unparen(rs.X).(*ast.SelectorExpr)
			if !ok {
				return true
			}
			nodeT := namedOf(info.TypeOf(xs.X))
			if nodeT == nil || nodeT.Obj().Pkg() == nil || nodeT.Obj().Pkg().Path() != modPath {
				return true
			}
			vobj := info.ObjectOf(vid)
			// promotions of a child of the alternative: return c.Value
			var promos []*ast.ReturnStmt
			promoted := ""
			inspectNoLit(rs.Body, func(y ast.Node) bool {
				r, ok := y.(*ast.ReturnStmt)
				if !ok || len(r.Results) != 1 {
					return true
				}
				sel, ok := ast.Unparen(r.Results[0]).(*ast.SelectorExpr)
				if !ok {
					return true
				}
				if id, ok := ast.Unparen(sel.X).(*ast.Ident); ok && info.ObjectOf(id) == vobj && isNamed(info.TypeOf(sel), modPath, "AST") {
					promos = append(promos, r)
					promoted = sel.Sel.Name
				}
				return true
			})
			if len(promos) == 0 {
				return true
			}
			n++
			key := fmt.Sprintf("%s#first-match:%s.%s", fname, nodeT.Obj().Name(), xs.Sel.Name)
			// the facts: ok of the constant test on a child of the alternative, and (eq, err) of a generator hook
			isConstOK := func(e ast.Expr) bool { // ident defined as 2nd result of a call whose argument is <alt>.<child>
				id, ok := ast.Unparen(e).(*ast.Ident)
				if !ok {
					return false
				}
				as, i := definingAssign(info, fd, info.ObjectOf(id))
				if as == nil || i != 1 || len(as.Rhs) != 1 {
					return false
				}
				call, ok := ast.Unparen(as.Rhs[0]).(*ast.CallExpr)
				if !ok || len(call.Args) != 1 {
					return false
				}
				sel, ok := ast.Unparen(call.Args[0]).(*ast.SelectorExpr)
				if !ok || sel.Sel.Name == promoted {
					return false
				}
				aid, ok := ast.Unparen(sel.X).(*ast.Ident)
				return ok && info.ObjectOf(aid) == vobj
			}
			hookResult := func(e ast.Expr, idx int) bool { // ident defined as result idx of a call of a func valued field (hook)
				id, ok := ast.Unparen(e).(*ast.Ident)
				if !ok {
					return false
				}
				as, i := definingAssign(info, fd, info.ObjectOf(id))
				if as == nil || i != idx || len(as.Rhs) != 1 || len(as.Lhs) != 2 {
					return false
				}
				call, ok := ast.Unparen(as.Rhs[0]).(*ast.CallExpr)
				if !ok {
					return false
				}
				hs, ok := ast.Unparen(call.Fun).(*ast.SelectorExpr)
				if !ok {
					return false
				}
				s, ok := info.Selections[hs]
				if !ok || s.Kind() != types.FieldVal {
					return false
				}
				_, isSig := s.Obj().Type().Underlying().(*types.Signature)
				return isSig
			}
			type fact struct {
				name string
				is   func(gd Guard) bool
			}
			constKnown := fact{"the case constant is known at compile time", func(gd Guard) bool { return gd.Val && !gd.Synth && isConstOK(gd.Cond) }}
			noError := fact{"the equality hook reported no error", func(gd Guard) bool {
				be, ok := ast.Unparen(gd.Cond).(*ast.BinaryExpr)
				if !ok || (be.Op != token.EQL && be.Op != token.NEQ) {
					return false
				}
				if y, ok := ast.Unparen(be.Y).(*ast.Ident); !ok || y.Name != "nil" {
					return false
				}
				return hookResult(be.X, 1) && (be.Op == token.EQL) == gd.Val
			}}
			equal := func(want bool) fact {
				return fact{map[bool]string{true: "the hook says equal", false: "the hook says not equal"}[want], func(gd Guard) bool {
					return !gd.Synth && gd.Val == want && hookResult(gd.Cond, 0)
				}}
			}
			var problems []string
			// (a) promotions
			for _, r := range promos {
				gds := g.Guards(r)
				for _, f := range []fact{constKnown, noError, equal(true)} {
					has := false
					for _, gd := range gds {
						if f.is(gd) {
							has = true
						}
					}
					if !has {
						problems = append(problems, fmt.Sprintf("the value of the case is taken (line %d) although it is not established that %s", c.Fset.Position(r.Pos()).Line, f.name))
					}
				}
			}
			// (b) moving on to the next case
			bodyBlk, loopBlk, _ := g.RangeBlocks(rs)
			if bodyBlk == nil || loopBlk == nil {
				c.Undecided(key, rs.Pos(), "loop not found in the control flow graph")
				return true
			}
			for _, f := range []fact{constKnown, noError, equal(false)} {
				f := f
				bad := g.PathEdgesFrom(bodyBlk, func(b *cfg.Block) bool { return b == loopBlk }, nil, func(cond ast.Expr, val bool) bool {
					var leaves []Guard
					expandGuard(cond, val, &leaves)
					for _, gd := range leaves {
						if f.is(gd) {
							return false // this edge establishes the fact: not part of a bad path
						}
					}
					return true
				})
				if bad {
					problems = append(problems, fmt.Sprintf("the loop moves on to the next case on a path on which it is not established that %s", f.name))
				}
			}
			if len(problems) == 0 {
				c.OK(key, rs.Pos(), "the folding loop takes a case only if its constant is known and the hook reports equality without error, and moves on only past cases decided negative")
			} else {
				c.Violation(key, rs.Pos(), "folding of a first-match node (%s) deviates from the order of evaluation of the generated code: %s — a later case or the default is selected although the program takes an earlier case or fails", nodeT.Obj().Name(), strings.Join(problems, "; "))
			}
			return true
		})
	}
	if n == 0 {
		c.Note("funcGen.optimizer#first-match-folding", token.NoPos, "the optimizer folds no first-match node (switch) today")
	}
}
