package main

import (
	"go/ast"
	"go/constant"
	"go/token"
	"go/types"
	"strconv"
	"strings"
	"unicode/utf8"
)

// constEval folds an expression whose leaves are compile time constants or
// variables bound in env (the tag of a switch under one of its case
// constants, a parameter bound at a call site). Besides the operators it
// knows the few pure standard library functions that tokenizer code applies to
// constant tables: len, strings.Index/IndexRune/IndexByte/ContainsRune,
// utf8.RuneCountInString, utf8.RuneLen, strconv.Itoa, string(rune), int(x),
// []rune(s)[i], slices.Index([]rune(s), r). Anything else: not ok.
func constEval(info *types.Info, e ast.Expr, env map[types.Object]constant.Value) (constant.Value, bool) {
	e = ast.Unparen(e)
	if tv, ok := info.Types[e]; ok && tv.Value != nil {
		return tv.Value, true
	}
	switch t := e.(type) {
	case *ast.Ident:
		if v, ok := env[info.ObjectOf(t)]; ok && v != nil {
			return v, true
		}
		// a local variable that is assigned exactly once
		if v, ok := info.ObjectOf(t).(*types.Var); ok {
			if rhs, ok := singleDefExpr[v]; ok && rhs != ast.Expr(t) {
				return constEval(info, rhs, env)
			}
		}
	case *ast.BinaryExpr:
		a, ok1 := constEval(info, t.X, env)
		b, ok2 := constEval(info, t.Y, env)
		if !ok1 || !ok2 {
			return nil, false
		}
		switch t.Op {
		case token.ADD, token.SUB, token.MUL:
			if a.Kind() == b.Kind() && (a.Kind() == constant.Int || a.Kind() == constant.String && t.Op == token.ADD) {
				return constant.BinaryOp(a, t.Op, b), true
			}
		case token.QUO:
			if a.Kind() == constant.Int && b.Kind() == constant.Int && constant.Sign(b) != 0 {
				return constant.BinaryOp(a, token.QUO_ASSIGN, b), true
			}
		}
	case *ast.SliceExpr:
		s, ok := constEval(info, t.X, env)
		if !ok || s.Kind() != constant.String || t.Slice3 {
			return nil, false
		}
		str := constant.StringVal(s)
		lo, hi := 0, len(str)
		if t.Low != nil {
			v, ok := constEval(info, t.Low, env)
			if !ok {
				return nil, false
			}
			i, ok := constant.Int64Val(v)
			if !ok {
				return nil, false
			}
			lo = int(i)
		}
		if t.High != nil {
			v, ok := constEval(info, t.High, env)
			if !ok {
				return nil, false
			}
			i, ok := constant.Int64Val(v)
			if !ok {
				return nil, false
			}
			hi = int(i)
		}
		if lo < 0 || hi > len(str) || lo > hi {
			return nil, false // would panic
		}
		return constant.MakeString(str[lo:hi]), true
	case *ast.IndexExpr:
		// []rune(s)[i]
		if conv, ok := ast.Unparen(t.X).(*ast.CallExpr); ok && len(conv.Args) == 1 {
			if tv, ok := info.Types[conv.Fun]; ok && tv.IsType() {
				if sl, ok := tv.Type.Underlying().(*types.Slice); ok {
					if b, ok := sl.Elem().Underlying().(*types.Basic); ok && b.Kind() == types.Int32 {
						s, ok1 := constEval(info, conv.Args[0], env)
						iv, ok2 := constEval(info, t.Index, env)
						if ok1 && ok2 && s.Kind() == constant.String {
							rs := []rune(constant.StringVal(s))
							if i, ok := constant.Int64Val(iv); ok && i >= 0 && int(i) < len(rs) {
								return constant.MakeInt64(int64(rs[i])), true
							}
						}
					}
				}
			}
		}
	case *ast.CallExpr:
		// conversions
		if tv, ok := info.Types[t.Fun]; ok && tv.IsType() && len(t.Args) == 1 {
			v, ok := constEval(info, t.Args[0], env)
			if !ok {
				return nil, false
			}
			if b, ok := tv.Type.Underlying().(*types.Basic); ok {
				switch {
				case b.Info()&types.IsString != 0 && v.Kind() == constant.Int:
					if r, ok := constant.Int64Val(v); ok {
						return constant.MakeString(string(rune(r))), true
					}
				case b.Info()&types.IsString != 0 && v.Kind() == constant.String:
					return v, true
				case b.Info()&types.IsInteger != 0 && v.Kind() == constant.Int:
					return v, true
				}
			}
			// []rune("...") is kept as the string (a table of runes): consumers index it by rune
			if sl, ok := tv.Type.Underlying().(*types.Slice); ok && v.Kind() == constant.String {
				if b, ok := sl.Elem().Underlying().(*types.Basic); ok && b.Kind() == types.Int32 {
					return v, true
				}
			}
			return nil, false
		}
		var args []constant.Value
		for _, a := range t.Args {
			// []rune(s) as an argument is kept as the string
			if conv, ok := ast.Unparen(a).(*ast.CallExpr); ok && len(conv.Args) == 1 {
				if tv, ok := info.Types[conv.Fun]; ok && tv.IsType() {
					if _, isSlice := tv.Type.Underlying().(*types.Slice); isSlice {
						a = conv.Args[0]
					}
				}
			}
			v, ok := constEval(info, a, env)
			if !ok {
				return nil, false
			}
			args = append(args, v)
		}
		str := func(i int) (string, bool) {
			if i < len(args) && args[i].Kind() == constant.String {
				return constant.StringVal(args[i]), true
			}
			return "", false
		}
		num := func(i int) (int64, bool) {
			if i < len(args) && args[i].Kind() == constant.Int {
				return constant.Int64Val(args[i])
			}
			return 0, false
		}
		if id, ok := ast.Unparen(t.Fun).(*ast.Ident); ok {
			if _, isB := info.Uses[id].(*types.Builtin); isB && id.Name == "len" {
				if s, ok := str(0); ok {
					return constant.MakeInt64(int64(len(s))), true
				}
			}
		}
		cal := Callee(info, t)
		if cal == nil || cal.Pkg() == nil {
			return nil, false
		}
		switch cal.Pkg().Path() + "." + cal.Name() {
		case "strings.IndexRune":
			if s, ok1 := str(0); ok1 {
				if r, ok2 := num(1); ok2 {
					return constant.MakeInt64(int64(strings.IndexRune(s, rune(r)))), true
				}
			}
		case "strings.ContainsRune":
			if s, ok1 := str(0); ok1 {
				if r, ok2 := num(1); ok2 {
					return constant.MakeBool(strings.ContainsRune(s, rune(r))), true
				}
			}
		case "strings.Index":
			if s, ok1 := str(0); ok1 {
				if sub, ok2 := str(1); ok2 {
					return constant.MakeInt64(int64(strings.Index(s, sub))), true
				}
			}
		case "strings.IndexByte":
			if s, ok1 := str(0); ok1 {
				if r, ok2 := num(1); ok2 {
					return constant.MakeInt64(int64(strings.IndexByte(s, byte(r)))), true
				}
			}
		case "unicode/utf8.RuneCountInString":
			if s, ok := str(0); ok {
				return constant.MakeInt64(int64(utf8.RuneCountInString(s))), true
			}
		case "unicode/utf8.RuneLen":
			if r, ok := num(0); ok {
				return constant.MakeInt64(int64(utf8.RuneLen(rune(r)))), true
			}
		case "strconv.Itoa":
			if n, ok := num(0); ok {
				return constant.MakeString(strconv.Itoa(int(n))), true
			}
		case "slices.Contains":
			if s, ok1 := str(0); ok1 {
				if r, ok2 := num(1); ok2 {
					return constant.MakeBool(strings.ContainsRune(s, rune(r))), true
				}
			}
		case "slices.Index":
			if s, ok1 := str(0); ok1 {
				if r, ok2 := num(1); ok2 {
					idx := -1
					for i, x := range []rune(s) {
						if x == rune(r) {
							idx = i
							break
						}
					}
					return constant.MakeInt64(int64(idx)), true
				}
			}
		}
		// a private helper with a single return of one expression
		for _, p := range loadedPkgs {
			if p.Types != cal.Pkg() || p.TypesInfo != info {
				continue
			}
			fd := findFuncDecl(p, cal)
			if fd == nil || fd.Body == nil || len(fd.Body.List) != 1 {
				continue
			}
			ret, ok := fd.Body.List[0].(*ast.ReturnStmt)
			if !ok || len(ret.Results) != 1 {
				continue
			}
			sub := map[types.Object]constant.Value{}
			i := 0
			for _, f := range fd.Type.Params.List {
				for _, nm := range f.Names {
					if i < len(args) {
						sub[info.Defs[nm]] = args[i]
					}
					i++
				}
			}
			return constEval(info, ret.Results[0], sub)
		}
	}
	return nil, false
}
