package main

import (
	"go/ast"
	"go/constant"
	"go/token"
	"go/types"
	"strconv"
	"strings"
	"unicode/utf8"
)

// constEval folds an expression whose leaves are compile time constants or
// variables bound in env (the tag of a switch under one of its case
// constants, a parameter bound at a call site). Besides the operators it
// knows the few pure standard library functions that tokenizer code applies to
// constant tables: len, strings.Index/IndexRune/IndexByte/ContainsRune,
// utf8.RuneCountInString, utf8.RuneLen, strconv.Itoa, string(rune), int(x),
// []rune(s)[i], slices.Index([]rune(s), r). Anything else: not ok.
func constEval(info *types.Info, e ast.Expr, env map[types.Object]constant.Value) (constant.Value, bool) {
	e = ast.Unparen(e)
	if tv, ok := info.Types[e]; ok && tv.Value != nil {
		return tv.Value, true
	}
	switch t := e.(type) {
	case *ast.Ident:
		if v, ok := env[info.ObjectOf(t)]; ok && v != nil {
			return v, true
		}
		// a local variable that is assigned exactly once
		if v, ok := info.ObjectOf(t).(*types.Var); ok {
			if rhs, ok := singleDefExpr[v]; ok && rhs != ast.Expr(t) {
				return constEval(info, rhs, env)
			}
		}
	case *ast.BinaryExpr:
		a, ok1 := constEval(info, t.X, env)
		b, ok2 := constEval(info, t.Y, env)
		if !ok1 || !ok2 {
			return nil, false
		}
		switch t.Op {
		case token.ADD, token.SUB, token.MUL:
			if a.Kind() == b.Kind() && (a.Kind() == constant.Int || a.Kind() == constant.String && t.Op == token.ADD) {
				return constant.BinaryOp(a, t.Op, b), true
			}
		case token.QUO:
			if a.Kind() == constant.Int && b.Kind() == constant.Int && constant.Sign(b) != 0 {
				return constant.BinaryOp(a, token.QUO_ASSIGN, b), true
			}
		}
	case *ast.SliceExpr:
		s, ok := constEval(info, t.X, env)
		if !ok || s.Kind() != constant.String || t.Slice3 {
			return nil, false
		}
		str := constant.StringVal(s)
		lo, hi := 0, len(str)
		if t.Low != nil {
			v, ok := constEval(info, t.Low, env)
			if !ok {
				return nil, false
			}
			i, ok := constant.Int64Val(v)
			if !ok {
				return nil, false
			}
			lo = int(i)
		}
		if t.High != nil {
			v, ok := constEval(info, t.High, env)
			if !ok {
				return nil, false
			}
			i, ok := constant.Int64Val(v)
			if !ok {
				return nil, false
			}
			hi = int(i)
		}
		if lo < 0 || hi > len(str) || lo > hi {
			return nil, false // would panic
		}
		return constant.MakeString(str[lo:hi]), true
	case *ast.IndexExpr:
		// table[k] with table a package level map literal with constant keys and values that is never assigned
		if id, ok := ast.Unparen(t.X).(*ast.Ident); ok {
			if v, ok := info.ObjectOf(id).(*types.Var); ok && v.Pkg() != nil && v.Parent() == v.Pkg().Scope() {
				if lit, ok := singleDefExpr[v]; ok {
					if cl, ok := ast.Unparen(lit).(*ast.CompositeLit); ok {
						if _, isMap := info.TypeOf(cl).Underlying().(*types.Map); isMap {
							if kv, ok := constEval(info, t.Index, env); ok {
								for _, el := range cl.Elts {
									pair, ok := el.(*ast.KeyValueExpr)
									if !ok {
										return nil, false
									}
									ktv, vtv := info.Types[pair.Key], info.Types[pair.Value]
									if ktv.Value == nil || vtv.Value == nil {
										return nil, false
									}
									if constant.Compare(constant.ToInt(ktv.Value), token.EQL, constant.ToInt(kv)) {
										return vtv.Value, true
									}
								}
								// a missing key yields the zero value
								if b, ok := info.TypeOf(t).Underlying().(*types.Basic); ok && b.Info()&types.IsString != 0 {
									return constant.MakeString(""), true
								}
							}
							return nil, false
						}
					}
				}
			}
		}
		// []rune(s)[i]
		if conv, ok := ast.Unparen(t.X).(*ast.CallExpr); ok && len(conv.Args) == 1 {
			if tv, ok := info.Types[conv.Fun]; ok && tv.IsType() {
				if sl, ok := tv.Type.Underlying().(*types.Slice); ok {
					if b, ok := sl.Elem().Underlying().(*types.Basic); ok && b.Kind() == types.Int32 {
						s, ok1 := constEval(info, conv.Args[0], env)
						iv, ok2 := constEval(info, t.Index, env)
						if ok1 && ok2 && s.Kind() == constant.String {
							rs := []rune(constant.StringVal(s))
							if i, ok := constant.Int64Val(iv); ok && i >= 0 && int(i) < len(rs) {
								return constant.MakeInt64(int64(rs[i])), true
							}
						}
					}
				}
			}
		}
	case *ast.CallExpr:
		// conversions
		if tv, ok := info.Types[t.Fun]; ok && tv.IsType() && len(t.Args) == 1 {
			v, ok := constEval(info, t.Args[0], env)
			if !ok {
				return nil, false
			}
			if b, ok := tv.Type.Underlying().(*types.Basic); ok {
				switch {
				case b.Info()&types.IsString != 0 && v.Kind() == constant.Int:
					if r, ok := constant.Int64Val(v); ok {
						return constant.MakeString(string(rune(r))), true
					}
				case b.Info()&types.IsString != 0 && v.Kind() == constant.String:
					return v, true
				case b.Info()&types.IsInteger != 0 && v.Kind() == constant.Int:
					return v, true
				}
			}
			// []rune("...") is kept as the string (a table of runes): consumers index it by rune
			if sl, ok := tv.Type.Underlying().(*types.Slice); ok && v.Kind() == constant.String {
				if b, ok := sl.Elem().Underlying().(*types.Basic); ok && b.Kind() == types.Int32 {
					return v, true
				}
			}
			return nil, false
		}
		var args []constant.Value
		for _, a := range t.Args {
			// []rune(s) as an argument is kept as the string
			if conv, ok := ast.Unparen(a).(*ast.CallExpr); ok && len(conv.Args) == 1 {
				if tv, ok := info.Types[conv.Fun]; ok && tv.IsType() {
					if _, isSlice := tv.Type.Underlying().(*types.Slice); isSlice {
						a = conv.Args[0]
					}
				}
			}
			v, ok := constEval(info, a, env)
			if !ok {
				return nil, false
			}
			args = append(args, v)
		}
		str := func(i int) (string, bool) {
			if i < len(args) && args[i].Kind() == constant.String {
				return constant.StringVal(args[i]), true
			}
			return "", false
		}
		num := func(i int) (int64, bool) {
			if i < len(args) && args[i].Kind() == constant.Int {
				return constant.Int64Val(args[i])
			}
			return 0, false
		}
		if id, ok := ast.Unparen(t.Fun).(*ast.Ident); ok {
			if _, isB := info.Uses[id].(*types.Builtin); isB && id.Name == "len" {
				if s, ok := str(0); ok {
					return constant.MakeInt64(int64(len(s))), true
				}
			}
		}
		cal := Callee(info, t)
		if cal == nil || cal.Pkg() == nil {
			return nil, false
		}
		switch cal.Pkg().Path() + "." + cal.Name() {
		case "strings.IndexRune":
			if s, ok1 := str(0); ok1 {
				if r, ok2 := num(1); ok2 {
					return constant.MakeInt64(int64(strings.IndexRune(s, rune(r)))), true
				}
			}
		case "strings.ContainsRune":
			if s, ok1 := str(0); ok1 {
				if r, ok2 := num(1); ok2 {
					return constant.MakeBool(strings.ContainsRune(s, rune(r))), true
				}
			}
		case "strings.Index":
			if s, ok1 := str(0); ok1 {
				if sub, ok2 := str(1); ok2 {
					return constant.MakeInt64(int64(strings.Index(s, sub))), true
				}
			}
		case "strings.IndexByte":
			if s, ok1 := str(0); ok1 {
				if r, ok2 := num(1); ok2 {
					return constant.MakeInt64(int64(strings.IndexByte(s, byte(r)))), true
				}
			}
		case "unicode/utf8.RuneCountInString":
			if s, ok := str(0); ok {
				return constant.MakeInt64(int64(utf8.RuneCountInString(s))), true
			}
		case "unicode/utf8.RuneLen":
			if r, ok := num(0); ok {
				return constant.MakeInt64(int64(utf8.RuneLen(rune(r)))), true
			}
		case "strconv.Itoa":
			if n, ok := num(0); ok {
				return constant.MakeString(strconv.Itoa(int(n))), true
			}
		case "slices.Contains":
			if s, ok1 := str(0); ok1 {
				if r, ok2 := num(1); ok2 {
					return constant.MakeBool(strings.ContainsRune(s, rune(r))), true
				}
			}
		case "slices.Index":
			if s, ok1 := str(0); ok1 {
				if r, ok2 := num(1); ok2 {
					idx := -1
					for i, x := range []rune(s) {
						if x == rune(r) {
							idx = i
							break
						}
					}
					return constant.MakeInt64(int64(idx)), true
				}
			}
		}
		// a private helper that searches a constant table: for k, v := range table { if v == param { return f(k) } }; return d
		for _, p := range loadedPkgs {
			if p.Types != cal.Pkg() || p.TypesInfo != info || len(args) != 1 {
				continue
			}
			fd := findFuncDecl(p, cal)
			if fd == nil || fd.Body == nil || len(fd.Body.List) != 2 || fd.Type.Params.NumFields() != 1 || len(fd.Type.Params.List[0].Names) != 1 {
				continue
			}
			rs, ok1 := fd.Body.List[0].(*ast.RangeStmt)
			last, ok2 := fd.Body.List[1].(*ast.ReturnStmt)
			if !ok1 || !ok2 || len(last.Results) != 1 || len(rs.Body.List) != 1 || rs.Key == nil || rs.Value == nil {
				continue
			}
			ifs, ok := rs.Body.List[0].(*ast.IfStmt)
			if !ok || ifs.Init != nil || ifs.Else != nil || len(ifs.Body.List) != 1 {
				continue
			}
			ret, ok := ifs.Body.List[0].(*ast.ReturnStmt)
			if !ok || len(ret.Results) != 1 {
				continue
			}
			kid, okK := rs.Key.(*ast.Ident)
			vid, okV := rs.Value.(*ast.Ident)
			be, okB := ast.Unparen(ifs.Cond).(*ast.BinaryExpr)
			if !okK || !okV || !okB || be.Op != token.EQL {
				continue
			}
			param := info.Defs[fd.Type.Params.List[0].Names[0]]
			xa, okA := ast.Unparen(be.X).(*ast.Ident)
			ya, okY := ast.Unparen(be.Y).(*ast.Ident)
			if !okA || !okY || !(info.ObjectOf(xa) == info.ObjectOf(vid) && info.ObjectOf(ya) == param || info.ObjectOf(ya) == info.ObjectOf(vid) && info.ObjectOf(xa) == param) {
				continue
			}
			// the table: an array or slice literal of constants, or []rune("...")
			var elems []constant.Value
			tblExpr := ast.Unparen(rs.X)
			if tid, ok := tblExpr.(*ast.Ident); ok {
				if tv, ok := info.ObjectOf(tid).(*types.Var); ok {
					if lit, has := singleDefExpr[tv]; has {
						tblExpr = ast.Unparen(lit)
					}
				}
			}
			if cl, ok := tblExpr.(*ast.CompositeLit); ok {
				okAll := true
				for _, el := range cl.Elts {
					if _, isKV := el.(*ast.KeyValueExpr); isKV {
						okAll = false
						break
					}
					tv := info.Types[el]
					if tv.Value == nil {
						okAll = false
						break
					}
					elems = append(elems, tv.Value)
				}
				if !okAll {
					continue
				}
			} else if sv, ok := constEval(info, tblExpr, nil); ok && sv.Kind() == constant.String {
				for _, r := range constant.StringVal(sv) {
					elems = append(elems, constant.MakeInt64(int64(r)))
				}
			} else {
				continue
			}
			for i, ev := range elems {
				if constant.Compare(constant.ToInt(ev), token.EQL, constant.ToInt(args[0])) {
					return constEval(info, ret.Results[0], map[types.Object]constant.Value{info.ObjectOf(kid): constant.MakeInt64(int64(i)), info.ObjectOf(vid): ev, param: args[0]})
				}
			}
			return constEval(info, last.Results[0], map[types.Object]constant.Value{param: args[0]})
		}
		// a private helper with a single return of one expression
		for _, p := range loadedPkgs {
			if p.Types != cal.Pkg() || p.TypesInfo != info {
				continue
			}
			fd := findFuncDecl(p, cal)
			if fd == nil || fd.Body == nil || len(fd.Body.List) != 1 {
				continue
			}
			ret, ok := fd.Body.List[0].(*ast.ReturnStmt)
			if !ok || len(ret.Results) != 1 {
				continue
			}
			sub := map[types.Object]constant.Value{}
			i := 0
			for _, f := range fd.Type.Params.List {
				for _, nm := range f.Names {
					if i < len(args) {
						sub[info.Defs[nm]] = args[i]
					}
					i++
				}
			}
			return constEval(info, ret.Results[0], sub)
		}
	}
	return nil, false
}
