package main

import (
	"fmt"
	"go/ast"
	"go/token"
	"go/types"
	"strings"

	"golang.org/x/tools/go/packages"
)

// ---------------------------------------------------------------------------
// anchors of the generator

type genAnchors struct {
	fg          *packages.Package
	push, frame *types.Func
	get         *types.Func
	genFunc     *types.Func // FunctionGenerator.GenerateFunc
	addLocal    *types.Func // GeneratorContext.addLocalVar
	ctxType     *types.TypeName
	stackType   *types.TypeName
	funcType    *types.TypeName // Function
	parserFunc  *types.TypeName
	topFunc     *types.TypeName // Func
	missing     []string
}

func (c *Ctx) genAnchors() *genAnchors {
	a := &genAnchors{fg: c.Pkg("funcGen")}
	need := func(ok bool, name string) {
		if !ok {
			a.missing = append(a.missing, name)
		}
	}
	if a.fg == nil {
		a.missing = append(a.missing, "package funcGen")
		return a
	}
	a.push = LookupMethod(a.fg, "Stack", "Push")
	a.frame = LookupMethod(a.fg, "Stack", "CreateFrame")
	a.get = LookupMethod(a.fg, "Stack", "Get")
	a.genFunc = LookupMethod(a.fg, "FunctionGenerator", "GenerateFunc")
	a.addLocal = LookupMethod(a.fg, "GeneratorContext", "addLocalVar")
	a.ctxType = LookupType(a.fg, "GeneratorContext")
	a.stackType = LookupType(a.fg, "Stack")
	a.funcType = LookupType(a.fg, "Function")
	a.parserFunc = LookupType(a.fg, "ParserFunc")
	a.topFunc = LookupType(a.fg, "Func")
	need(a.push != nil, "funcGen.Stack.Push")
	need(a.frame != nil, "funcGen.Stack.CreateFrame")
	need(a.get != nil, "funcGen.Stack.Get")
	need(a.genFunc != nil, "funcGen.FunctionGenerator.GenerateFunc")
	need(a.addLocal != nil, "funcGen.GeneratorContext.addLocalVar")
	need(a.ctxType != nil, "funcGen.GeneratorContext")
	need(a.stackType != nil, "funcGen.Stack")
	need(a.funcType != nil, "funcGen.Function")
	need(a.parserFunc != nil, "funcGen.ParserFunc")
	need(a.topFunc != nil, "funcGen.Func")
	return a
}

func (a *genAnchors) isStack(t types.Type) bool {
	n := namedOf(t)
	return n != nil && a.stackType != nil && n.Obj() == a.stackType
}

func (a *genAnchors) isCtx(t types.Type) bool {
	n := namedOf(t)
	return n != nil && a.ctxType != nil && n.Obj() == a.ctxType
}

func (a *genAnchors) isParserFunc(t types.Type) bool {
	n := namedOf(t)
	return n != nil && a.parserFunc != nil && n.Obj() == a.parserFunc
}

// containsParserFunc reports whether t is ParserFunc or a collection of it.
func (a *genAnchors) containsParserFunc(t types.Type, depth int) bool {
	if t == nil || depth > 4 {
		return false
	}
	if a.isParserFunc(t) {
		return true
	}
	switch u := t.(type) {
	case *types.Named:
		if targs := u.TypeArgs(); targs != nil {
			for i := 0; i < targs.Len(); i++ {
				if a.containsParserFunc(targs.At(i), depth+1) {
					return true
				}
			}
		}
		return a.containsParserFunc(u.Underlying(), depth+1)
	case *types.Slice:
		return a.containsParserFunc(u.Elem(), depth+1)
	case *types.Array:
		return a.containsParserFunc(u.Elem(), depth+1)
	case *types.Map:
		return a.containsParserFunc(u.Elem(), depth+1)
	case *types.Pointer:
		return a.containsParserFunc(u.Elem(), depth+1)
	case *types.Struct:
		for i := 0; i < u.NumFields(); i++ {
			if a.containsParserFunc(u.Field(i).Type(), depth+1) {
				return true
			}
		}
	}
	return false
}

// ctxOffset describes the compile time context a child function was generated with.
type ctxOffset struct {
	known    bool
	newFrame bool
	offs     int    // number of locals added to the enclosing context
	amKey    string // newFrame: key of the am expression
	amText   string
	desc     string
}

func (o ctxOffset) String() string {
	if !o.known {
		return "unknown context"
	}
	if o.newFrame {
		return "fresh frame context {am: " + o.amText + "}"
	}
	return fmt.Sprintf("enclosing context + %d local(s)", o.offs)
}

// generatorInfo is the result of the child-origin analysis of one generator
// function (a function that calls GenerateFunc or a forwarder).
type generatorInfo struct {
	decl     *ast.FuncDecl
	pkg      *packages.Package
	ctxParam types.Object
	origin   map[types.Object]ctxOffset // child variables, collection variables, struct fields, callback params
	field    map[types.Object]string    // AST node field the child was generated from ("Operate.A")
	problems []string
}

// forwarders finds the methods that hand their own context parameter on to
// GenerateFunc unchanged and return the generated functions (genFuncList,
// genCodeMap). The summary is verified, not assumed.
func (c *Ctx) forwarders(a *genAnchors) map[*types.Func]bool {
	res := map[*types.Func]bool{}
	for _, f := range a.fg.Syntax {
		for _, d := range f.Decls {
			fd, ok := d.(*ast.FuncDecl)
			if !ok || fd.Body == nil {
				continue
			}
			obj, _ := a.fg.TypesInfo.Defs[fd.Name].(*types.Func)
			if obj == nil || obj.Origin() == a.genFunc.Origin() {
				continue
			}
			sig := obj.Type().(*types.Signature)
			if sig.Results().Len() == 0 || !a.containsParserFunc(sig.Results().At(0).Type(), 0) || a.isParserFunc(sig.Results().At(0).Type()) {
				continue
			}
			var ctxParam types.Object
			for i := 0; i < sig.Params().Len(); i++ {
				if a.isCtx(sig.Params().At(i).Type()) {
					ctxParam = sig.Params().At(i)
				}
			}
			if ctxParam == nil {
				continue
			}
			okAll := true
			nCalls := 0
			ast.Inspect(fd.Body, func(n ast.Node) bool {
				switch t := n.(type) {
				case *ast.CallExpr:
					if isCallTo(a.fg.TypesInfo, t, a.genFunc) {
						nCalls++
						if len(t.Args) != 2 {
							okAll = false
						} else if id, ok := ast.Unparen(t.Args[1]).(*ast.Ident); !ok || a.fg.TypesInfo.ObjectOf(id) != ctxParam {
							okAll = false
						}
					}
				case *ast.AssignStmt:
					for _, l := range t.Lhs {
						if id, ok := ast.Unparen(l).(*ast.Ident); ok && a.fg.TypesInfo.ObjectOf(id) == ctxParam {
							okAll = false
						}
					}
				}
				return true
			})
			if okAll && nCalls > 0 {
				res[obj.Origin()] = true
			}
		}
	}
	return res
}

func (c *Ctx) analyseGenerator(a *genAnchors, fwd map[*types.Func]bool, pkg *packages.Package, fd *ast.FuncDecl) *generatorInfo {
	info := pkg.TypesInfo
	gi := &generatorInfo{decl: fd, pkg: pkg, origin: map[types.Object]ctxOffset{}, field: map[types.Object]string{}}
	// context parameter
	if fd.Type.Params != nil {
		for _, f := range fd.Type.Params.List {
			for _, n := range f.Names {
				if obj := info.Defs[n]; obj != nil && a.isCtx(obj.Type()) {
					gi.ctxParam = obj
				}
			}
		}
	}
	// context variables: offsets
	ctxOffs := map[types.Object]ctxOffset{}
	if gi.ctxParam != nil {
		ctxOffs[gi.ctxParam] = ctxOffset{known: true, offs: 0, desc: gi.ctxParam.Name()}
	}
	assigned := map[types.Object]int{}
	ast.Inspect(fd.Body, func(n ast.Node) bool {
		if as, ok := n.(*ast.AssignStmt); ok {
			for _, l := range as.Lhs {
				if id, ok := ast.Unparen(l).(*ast.Ident); ok {
					if obj := info.ObjectOf(id); obj != nil {
						assigned[obj]++
					}
				}
			}
		}
		return true
	})
	if gi.ctxParam != nil && assigned[gi.ctxParam] > 0 {
		gi.problems = append(gi.problems, "context parameter "+gi.ctxParam.Name()+" is reassigned")
		delete(ctxOffs, gi.ctxParam)
	}
	var ctxOf func(e ast.Expr) ctxOffset
	ctxOf = func(e ast.Expr) ctxOffset {
		switch t := ast.Unparen(e).(type) {
		case *ast.Ident:
			if o, ok := ctxOffs[info.ObjectOf(t)]; ok {
				return o
			}
		case *ast.CompositeLit:
			if a.isCtx(info.TypeOf(t)) {
				o := ctxOffset{known: true, newFrame: true}
				for _, el := range t.Elts {
					if kv, ok := el.(*ast.KeyValueExpr); ok {
						if k, ok := kv.Key.(*ast.Ident); ok && k.Name == c.fieldRoles(a).am {
							o.amKey, _ = exprKey(info, kv.Value)
							o.amText = nodeStr(c.Fset, kv.Value)
						}
					}
				}
				return o
			}
		}
		return ctxOffset{}
	}
	// iterate to a fixed point over assignments (source order is enough, two passes for safety)
	for pass := 0; pass < 2; pass++ {
		ast.Inspect(fd.Body, func(n ast.Node) bool {
			as, ok := n.(*ast.AssignStmt)
			if !ok || len(as.Rhs) != 1 || len(as.Lhs) == 0 {
				return true
			}
			lhs0, ok := ast.Unparen(as.Lhs[0]).(*ast.Ident)
			if !ok {
				return true
			}
			obj := info.ObjectOf(lhs0)
			if obj == nil {
				return true
			}
			rhs := ast.Unparen(as.Rhs[0])
			if a.isCtx(obj.Type()) {
				if assigned[obj] > 1 {
					return true
				}
				if call, ok := rhs.(*ast.CallExpr); ok && isCallTo(info, call, a.addLocal) {
					if sel, ok := ast.Unparen(call.Fun).(*ast.SelectorExpr); ok {
						base := ctxOf(sel.X)
						if base.known && !base.newFrame {
							ctxOffs[obj] = ctxOffset{known: true, offs: base.offs + 1}
						}
					}
				} else if o := ctxOf(rhs); o.known {
					ctxOffs[obj] = o
				}
				return true
			}
			if call, ok := rhs.(*ast.CallExpr); ok {
				callee := Callee(info, call)
				if callee != nil && (callee == a.genFunc.Origin() || fwd[callee]) && len(call.Args) == 2 {
					o := ctxOf(call.Args[1])
					if !o.known {
						gi.problems = append(gi.problems, fmt.Sprintf("context argument %s of %s at %s is not understood", nodeStr(c.Fset, call.Args[1]), callee.Name(), c.posStr(call.Pos())))
					}
					if prev, ok := gi.origin[obj]; ok && prev != o {
						gi.problems = append(gi.problems, fmt.Sprintf("%s is generated with different contexts", obj.Name()))
					}
					gi.origin[obj] = o
					if sel, ok := ast.Unparen(call.Args[0]).(*ast.SelectorExpr); ok {
						if nm := namedOf(info.TypeOf(sel.X)); nm != nil {
							gi.field[obj] = nm.Obj().Name() + "." + sel.Sel.Name
						}
					}
				}
			}
			return true
		})
	}
	// derived origins: range variables, callback parameters, struct fields
	for pass := 0; pass < 2; pass++ {
		ast.Inspect(fd.Body, func(n ast.Node) bool {
			switch t := n.(type) {
			case *ast.RangeStmt:
				if id, ok := ast.Unparen(t.X).(*ast.Ident); ok {
					if o, ok := gi.origin[info.ObjectOf(id)]; ok && t.Value != nil {
						if v, ok := t.Value.(*ast.Ident); ok && a.containsParserFunc(info.TypeOf(v), 0) {
							gi.origin[info.ObjectOf(v)] = o
							gi.field[info.ObjectOf(v)] = gi.field[info.ObjectOf(id)]
						}
					}
				}
			case *ast.CallExpr:
				// coll.Iter(func(key, value ParserFunc) ...)
				if sel, ok := ast.Unparen(t.Fun).(*ast.SelectorExpr); ok {
					if id, ok := ast.Unparen(sel.X).(*ast.Ident); ok {
						if o, ok := gi.origin[info.ObjectOf(id)]; ok {
							for _, arg := range t.Args {
								if lit, ok := arg.(*ast.FuncLit); ok {
									for _, f := range lit.Type.Params.List {
										for _, pn := range f.Names {
											if pobj := info.Defs[pn]; pobj != nil && a.isParserFunc(pobj.Type()) {
												gi.origin[pobj] = o
												gi.field[pobj] = gi.field[info.ObjectOf(id)]
											}
										}
									}
								}
							}
						}
					}
				}
			case *ast.CompositeLit:
				// local struct with ParserFunc fields
				tt := info.TypeOf(t)
				if tt == nil {
					return true
				}
				named := namedOf(tt)
				if named == nil || named.Obj().Pos() < fd.Pos() || named.Obj().Pos() > fd.End() {
					return true
				}
				stru, ok := named.Underlying().(*types.Struct)
				if !ok {
					return true
				}
				for _, el := range t.Elts {
					kv, ok := el.(*ast.KeyValueExpr)
					if !ok {
						continue
					}
					k, ok := kv.Key.(*ast.Ident)
					if !ok {
						continue
					}
					v, ok := ast.Unparen(kv.Value).(*ast.Ident)
					if !ok {
						continue
					}
					if o, ok := gi.origin[info.ObjectOf(v)]; ok {
						for i := 0; i < stru.NumFields(); i++ {
							if stru.Field(i).Name() == k.Name {
								if prev, ok := gi.origin[stru.Field(i)]; ok && prev != o {
									gi.problems = append(gi.problems, "struct field "+k.Name+" holds functions of different contexts")
								}
								gi.origin[stru.Field(i)] = o
								gi.field[stru.Field(i)] = gi.field[info.ObjectOf(v)]
							}
						}
					}
				}
			}
			return true
		})
	}
	return gi
}

// childOf resolves the callee expression of a call to a generated child.
// childObj resolves the callee expression of a call to the object that carries the child's origin.
func (gi *generatorInfo) childObj(info *types.Info, fun ast.Expr) types.Object {
	switch t := ast.Unparen(fun).(type) {
	case *ast.Ident:
		if _, ok := gi.origin[info.ObjectOf(t)]; ok {
			return info.ObjectOf(t)
		}
	case *ast.IndexExpr:
		if id, ok := ast.Unparen(t.X).(*ast.Ident); ok {
			if _, ok := gi.origin[info.ObjectOf(id)]; ok {
				return info.ObjectOf(id)
			}
		}
	case *ast.SelectorExpr:
		if sel, ok := info.Selections[t]; ok {
			if _, ok := gi.origin[sel.Obj()]; ok {
				return sel.Obj()
			}
		}
	}
	return nil
}

func (gi *generatorInfo) childOf(info *types.Info, fun ast.Expr) (ctxOffset, string, bool) {
	switch t := ast.Unparen(fun).(type) {
	case *ast.Ident:
		if o, ok := gi.origin[info.ObjectOf(t)]; ok {
			return o, t.Name, true
		}
	case *ast.IndexExpr:
		if id, ok := ast.Unparen(t.X).(*ast.Ident); ok {
			if o, ok := gi.origin[info.ObjectOf(id)]; ok {
				return o, id.Name + "[]", true
			}
		}
	case *ast.SelectorExpr:
		if sel, ok := info.Selections[t]; ok {
			if o, ok := gi.origin[sel.Obj()]; ok {
				return o, "." + t.Sel.Name, true
			}
		}
	}
	return ctxOffset{}, "", false
}

// generatorFuncs lists all functions of the repository that call
// GenerateFunc or a forwarder.
func (c *Ctx) generatorFuncs(a *genAnchors, fwd map[*types.Func]bool) []*generatorInfo {
	var res []*generatorInfo
	for _, pkg := range c.RepoPkgs {
		for _, f := range pkg.Syntax {
			for _, d := range f.Decls {
				fd, ok := d.(*ast.FuncDecl)
				if !ok || fd.Body == nil {
					continue
				}
				calls := false
				ast.Inspect(fd.Body, func(n ast.Node) bool {
					if call, ok := n.(*ast.CallExpr); ok {
						if cal := Callee(pkg.TypesInfo, call); cal != nil && (cal == a.genFunc.Origin() || fwd[cal]) {
							calls = true
						}
					}
					return !calls
				})
				if calls {
					res = append(res, c.analyseGenerator(a, fwd, pkg, fd))
				}
			}
		}
	}
	return res
}

// ordinalIn numbers the nodes selected by pred inside the declaration in
// source order and returns the 1-based ordinal of n.
func ordinalIn(root ast.Node, n ast.Node, pred func(ast.Node) bool) int {
	i, res := 0, 0
	ast.Inspect(root, func(x ast.Node) bool {
		if x == nil {
			return true
		}
		if pred(x) {
			i++
			if x == n {
				res = i
			}
		}
		return true
	})
	return res
}

// ---------------------------------------------------------------------------
// R01.1 frame slot agreement

func ruleR011(c *Ctx) {
	a := c.genAnchors()
	if len(a.missing) > 0 {
		c.Undecided(strings.Join(a.missing, ","), token.NoPos, "anchors not found")
		return
	}
	fwd := c.forwarders(a)
	if len(fwd) < 2 {
		c.Undecided("forwarders", token.NoPos, "expected the two verified forwarders genFuncList and genCodeMap, found %d", len(fwd))
	}
	gens := c.generatorFuncs(a, fwd)
	helpers := c.evalHelpers(a)
	for _, gi := range gens {
		info := gi.pkg.TypesInfo
		gname := declName(gi.pkg, gi.decl)
		for _, p := range gi.problems {
			c.Undecided(gname, gi.decl.Pos(), "%s", p)
		}
		// a call of an evaluation helper that is handed generated children
		helperOf := func(call *ast.CallExpr) *evalHelper {
			cal := Callee(info, call)
			if cal == nil {
				return nil
			}
			h := helpers[cal.Origin()]
			if h == nil {
				return nil
			}
			for _, hc := range h.calls {
				if hc.param < len(call.Args) {
					if _, _, ok := gi.childOf(info, call.Args[hc.param]); ok {
						return h
					}
				}
			}
			return nil
		}
		isChildCall := func(n ast.Node) bool {
			call, ok := n.(*ast.CallExpr)
			if !ok {
				return false
			}
			if _, _, ok = gi.childOf(info, call.Fun); ok {
				return true
			}
			return helperOf(call) != nil
		}
		// every literal with a Stack as first parameter
		ast.Inspect(gi.decl.Body, func(n ast.Node) bool {
			lit, ok := n.(*ast.FuncLit)
			if !ok {
				return true
			}
			var stackVar types.Object
			if lit.Type.Params != nil && len(lit.Type.Params.List) > 0 && len(lit.Type.Params.List[0].Names) > 0 {
				if obj := info.Defs[lit.Type.Params.List[0].Names[0]]; obj != nil && a.isStack(obj.Type()) {
					stackVar = obj
				}
			}
			if stackVar == nil {
				return true
			}
			stackKey, _ := exprKey(info, lit.Type.Params.List[0].Names[0])
			w := &frameWalker{c: c, info: info, stackKey: stackKey, push: a.push, frame: a.frame}
			w.resultLen = func(call *ast.CallExpr, result int) (ast.Expr, bool) {
				if h := helperOf(call); h != nil {
					if p, ok := h.lenResult[result]; ok && p < len(call.Args) {
						return call.Args[p], true
					}
				}
				return nil, false
			}
			w.onCall = func(call *ast.CallExpr, delta lin) {
				off, name, ok := gi.childOf(info, call.Fun)
				viaHelper := false
				if !ok {
					h := helperOf(call)
					if h == nil {
						return
					}
					hkey := fmt.Sprintf("%s#child-call[%d]:via %s", gname, ordinalIn(gi.decl, call, isChildCall), h.fn.Name())
					if len(h.problems) > 0 {
						c.Undecided(hkey, call.Pos(), "evaluation helper %s is not understood: %s", h.fn.Name(), strings.Join(h.problems, "; "))
						return
					}
					if h.loopNet != "" {
						c.Violation(hkey, call.Pos(), "the evaluation helper %s calls the generated children inside a loop that also changes the stack (net %s per iteration): from the second child on they run with a stack size their compile time context does not know", h.fn.Name(), h.loopNet)
						return
					}
					if h.stackParam >= len(call.Args) || !w.isStackVar(call.Args[h.stackParam]) {
						c.Violation(hkey, call.Pos(), "the evaluation helper %s is not handed the enclosing closure's own stack parameter", h.fn.Name())
						return
					}
					// every call the helper makes, at the caller's depth plus the helper's own pushes
					for _, hc := range h.calls {
						if hc.param >= len(call.Args) {
							continue
						}
						o2, n2, ok2 := gi.childOf(info, call.Args[hc.param])
						if !ok2 {
							continue
						}
						if !hc.viaOwn {
							c.Violation(hkey, call.Pos(), "the evaluation helper %s calls child %s with a stack other than the one it was handed", h.fn.Name(), n2)
							return
						}
						off, name, ok, viaHelper = o2, n2+" (in "+h.fn.Name()+")", true, true
						delta = delta.add(hc.delta)
					}
					if !ok {
						return
					}
				}
				key := fmt.Sprintf("%s#child-call[%d]:%s", gname, ordinalIn(gi.decl, call, isChildCall), name)
				if !off.known {
					c.Undecided(key, call.Pos(), "context of child %s unknown", name)
					return
				}
				if !viaHelper && (len(call.Args) < 1 || !w.isStackVar(call.Args[0])) {
					c.Violation(key, call.Pos(), "generated child %s (%s) is not called with the enclosing closure's own stack parameter but with %s", name, off, nodeStr(c.Fset, firstArg(call)))
					return
				}
				want := off.offs
				if off.newFrame {
					want = 0
				}
				if v, ok := delta.isConst(); ok && v == want {
					if off.newFrame {
						c.checkNewFrameHost(a, gi, key, lit, call, off)
					} else {
						c.OK(key, call.Pos(), "child %s compiled with %s is called with δ=%d pending pushes", name, off, v)
					}
				} else {
					c.Violation(key, call.Pos(), "child %s was compiled with %s, so it expects %d value(s) pushed since entry, but is called with δ=%s: locals and arguments of the child are addressed in the wrong slots", name, off, want, delta)
				}
			}
			w.onFrame = func(call *ast.CallExpr, delta lin, nn lin) {
				key := fmt.Sprintf("%s#CreateFrame[%d]", gname, ordinalIn(gi.decl, call, func(x ast.Node) bool {
					cc, ok := x.(*ast.CallExpr)
					return ok && isCallTo(info, cc, a.frame)
				}))
				if delta.eq(nn) {
					c.OK(key, call.Pos(), "CreateFrame(%s) reached with δ=%s", nn, delta)
				} else {
					c.Violation(key, call.Pos(), "CreateFrame(%s) is reached with δ=%s pending pushes: the callee frame is not exactly the pushed arguments", nn, delta)
				}
			}
			w.onLoopNet = func(body *ast.BlockStmt, pos token.Pos, net lin) {
				if containsNode(body, isChildCall) {
					key := fmt.Sprintf("%s#loop@child-call[%d]", gname, ordinalIn(gi.decl, firstMatch(body, isChildCall), isChildCall))
					c.Violation(key, pos, "a generated child is called inside a loop that also changes the stack (net %s per iteration): from the second iteration on the child runs with a stack size its compile time context does not know", net)
				}
			}
			w.run(lit.Body)
			return true
		})
	}
	// Function literals whose Func is a fresh-frame child used directly
	for _, gi := range gens {
		info := gi.pkg.TypesInfo
		gname := declName(gi.pkg, gi.decl)
		ast.Inspect(gi.decl.Body, func(n ast.Node) bool {
			var cl *ast.CompositeLit
			var resolve func(ast.Expr) ast.Expr
			switch t := n.(type) {
			case *ast.CompositeLit:
				cl = t
			case *ast.CallExpr:
				// the literal lives in a private constructor
				cl, resolve = c.ctorLiteral(info, t)
			}
			if cl == nil || namedOf(info.TypeOf(cl)) == nil || namedOf(info.TypeOf(cl)).Obj() != a.funcType {
				if cl != nil && resolve != nil {
					// the constructor is generic code of the same package: compare by type name
					if nm := namedOf(c.typeOfAny(cl)); nm == nil || nm.Obj() != a.funcType {
						return true
					}
				} else {
					return true
				}
			}
			for _, el := range cl.Elts {
				kv, ok := el.(*ast.KeyValueExpr)
				if !ok {
					continue
				}
				if k, ok := kv.Key.(*ast.Ident); ok && k.Name == "Func" {
					val := kv.Value
					if resolve != nil {
						val = resolve(val)
					}
					if off, name, ok := gi.childOf(info, val); ok {
						key := fmt.Sprintf("%s#Function{Func:%s}", gname, name)
						if !off.newFrame {
							c.Violation(key, n.Pos(), "child %s compiled with %s is installed as the body of a Function; it needs a fresh frame context", name, off)
						} else {
							c.checkArgsField(info, key, cl, off, resolve)
						}
					}
				}
			}
			return true
		})
	}
}

func firstArg(call *ast.CallExpr) ast.Node {
	if len(call.Args) == 0 {
		return nil
	}
	return call.Args[0]
}

func firstMatch(root ast.Node, pred func(ast.Node) bool) ast.Node {
	var res ast.Node
	ast.Inspect(root, func(x ast.Node) bool {
		if res != nil || x == nil {
			return false
		}
		if pred(x) {
			res = x
			return false
		}
		return true
	})
	return res
}

// checkArgsField: Function{Func: ..., Args: len(X)} where X is the am of the
// context the body was compiled with.
func (c *Ctx) checkArgsField(info *types.Info, key string, cl *ast.CompositeLit, off ctxOffset, resolve func(ast.Expr) ast.Expr) {
	for _, el := range cl.Elts {
		kv, ok := el.(*ast.KeyValueExpr)
		if !ok {
			continue
		}
		if k, ok := kv.Key.(*ast.Ident); ok && k.Name == "Args" {
			val := kv.Value
			if resolve != nil {
				val = resolve(val)
			}
			if call, ok := ast.Unparen(val).(*ast.CallExpr); ok && len(call.Args) == 1 {
				if id, ok := ast.Unparen(call.Fun).(*ast.Ident); ok && id.Name == "len" {
					if k2, ok := exprKey(info, call.Args[0]); ok && k2 == off.amKey {
						c.OK(key, kv.Pos(), "Args is the length of the argument list the body was compiled with (%s)", off.amText)
						return
					}
				}
			}
			c.Violation(key, val.Pos(), "Function.Args is %s but the body was compiled with the argument list %s: the call-site arity check does not protect the frame layout", nodeStr(c.Fset, val), off.amText)
			return
		}
	}
	c.Violation(key, cl.Pos(), "Function literal without Args for a body compiled with the argument list %s", off.amText)
}

// checkNewFrameHost: a child compiled with a fresh frame context is called at
// δ=0; the calling literal has to be the Func of a Function literal with the
// right Args, or the top level entry (type Func).
func (c *Ctx) checkNewFrameHost(a *genAnchors, gi *generatorInfo, key string, lit *ast.FuncLit, call *ast.CallExpr, off ctxOffset) {
	info := gi.pkg.TypesInfo
	if kv, ok := c.Parent(lit).(*ast.KeyValueExpr); ok {
		if k, ok := kv.Key.(*ast.Ident); ok && k.Name == "Func" {
			if cl, ok := c.Parent(kv).(*ast.CompositeLit); ok && namedOf(info.TypeOf(cl)) != nil && namedOf(info.TypeOf(cl)).Obj() == a.funcType {
				c.checkArgsField(info, key, cl, off, nil)
				return
			}
		}
	}
	// the Function literal lives in a private constructor: newFunction(lit, len(names), ...)
	if pc, ok := c.Parent(lit).(*ast.CallExpr); ok {
		if cl, argOf := c.ctorLiteral(info, pc); cl != nil && namedOf(info.TypeOf(cl)) != nil && namedOf(info.TypeOf(cl)).Obj() == a.funcType {
			for _, el := range cl.Elts {
				if kv, ok := el.(*ast.KeyValueExpr); ok {
					if k, ok := kv.Key.(*ast.Ident); ok && k.Name == "Func" && argOf(kv.Value) == ast.Expr(lit) {
						c.checkArgsField(info, key, cl, off, argOf)
						return
					}
				}
			}
		}
	}
	// top level entry: the literal is returned as funcGen.Func
	if _, ok := c.Parent(lit).(*ast.ReturnStmt); ok {
		if fd := gi.decl; fd.Type.Results != nil && len(fd.Type.Results.List) > 0 {
			if n := namedOf(info.TypeOf(fd.Type.Results.List[0].Type)); n != nil && n.Obj() == a.topFunc {
				c.OK(key, call.Pos(), "top level entry calls the body compiled with %s on the stack initialised by Func.Eval", off)
				return
			}
		}
	}
	c.Violation(key, call.Pos(), "body compiled with %s is called from a closure that is neither the Func of a Function literal nor the top level entry", off)
}

// ---------------------------------------------------------------------------
// R01.1b frame balance in built-ins

func ruleR011b(c *Ctx) {
	a := c.genAnchors()
	if len(a.missing) > 0 {
		c.Undecided(strings.Join(a.missing, ","), token.NoPos, "anchors not found")
		return
	}
	isFrameCall := func(info *types.Info) func(ast.Node) bool {
		return func(x ast.Node) bool {
			cc, ok := x.(*ast.CallExpr)
			return ok && isCallTo(info, cc, a.frame)
		}
	}
	helpers := c.evalHelpers(a)
	forEachFuncBody(c.RepoPkgs, func(pkg *packages.Package, fn ast.Node, body *ast.BlockStmt) {
		info := pkg.TypesInfo
		// stack variables on which Push/CreateFrame are called directly in this body
		type sv struct {
			name     string
			captured bool
		}
		vars := map[string]sv{}
		inspectNoLit(body, func(n ast.Node) bool {
			if call, ok := n.(*ast.CallExpr); ok {
				if isCallTo(info, call, a.push) || isCallTo(info, call, a.frame) {
					if sel, ok := ast.Unparen(call.Fun).(*ast.SelectorExpr); ok {
						if k, ok := exprKey(info, sel.X); ok {
							root := rootIdent(sel.X)
							obj := info.ObjectOf(root)
							_, isIdent := ast.Unparen(sel.X).(*ast.Ident)
							// a field of something, or a variable declared outside this body, outlives the call
							captured := !isIdent || obj == nil || obj.Pos() < fn.Pos() || obj.Pos() > fn.End()
							vars[k] = sv{name: nodeStr(c.Fset, sel.X), captured: captured}
						} else if isCallTo(info, call, a.frame) {
							c.Undecided(c.FuncName(fn)+"#CreateFrame-on-expression", call.Pos(), "CreateFrame on %s is not a plain variable", nodeStr(c.Fset, sel.X))
						}
					}
				}
			}
			return true
		})
		decl := c.EnclosingDecl(fn)
		var root ast.Node = fn
		if decl != nil {
			root = decl
		}
		for key, v := range vars {
			captured := v.captured
			obj := v
			w := &frameWalker{c: c, info: info, stackKey: key, push: a.push, frame: a.frame}
			w.resultLen = func(call *ast.CallExpr, result int) (ast.Expr, bool) {
				if cal := Callee(info, call); cal != nil {
					if h := helpers[cal.Origin()]; h != nil && len(h.problems) == 0 {
						if p, ok := h.lenResult[result]; ok && p < len(call.Args) {
							return call.Args[p], true
						}
					}
				}
				return nil, false
			}
			w.onFrame = func(call *ast.CallExpr, delta lin, nn lin) {
				key := fmt.Sprintf("%s#CreateFrame[%d]", c.FuncName(fn), ordinalIn(root, call, isFrameCall(info)))
				if delta.eq(nn) {
					c.OK(key, call.Pos(), "CreateFrame(%s) reached with exactly %s pending pushes on %s", nn, delta, obj.name)
				} else {
					c.Violation(key, call.Pos(), "CreateFrame(%s) is reached with δ=%s pending pushes on %s: the callee frame is not exactly the pushed arguments", nn, delta, obj.name)
				}
			}
			if captured {
				w.onExit = func(pos token.Pos, delta lin) {
					key := fmt.Sprintf("%s#exit-balance:%s", c.FuncName(fn)+litSuffix(c, fn), obj.name)
					if v, ok := delta.isConst(); ok && v == 0 {
						c.OK(key, pos, "callback leaves the captured stack %s balanced", obj.name)
					} else {
						c.Violation(key, pos, "callback returns with δ=%s values left on the captured stack %s; the stack grows with every invocation", delta, obj.name)
					}
				}
			}
			w.run(body)
		}
	})
}

// litSuffix distinguishes the literals of one declaration by ordinal.
func litSuffix(c *Ctx, fn ast.Node) string {
	lit, ok := fn.(*ast.FuncLit)
	if !ok {
		return ""
	}
	decl := c.EnclosingDecl(fn)
	if decl == nil {
		return "$lit"
	}
	return fmt.Sprintf("$lit%d", ordinalIn(decl, lit, func(x ast.Node) bool { _, ok := x.(*ast.FuncLit); return ok }))
}

// ctorLiteral looks through a private constructor: if call invokes a function
// of the module whose body is a single `return T{...}` or `return &T{...}`,
// it returns that literal and a function that maps a field value of the
// literal to the expression at the call site (a parameter is replaced by the
// argument passed for it; anything else is returned unchanged).
func (c *Ctx) ctorLiteral(info *types.Info, call *ast.CallExpr) (*ast.CompositeLit, func(ast.Expr) ast.Expr) {
	return ctorLiteralOf(info, call)
}

func ctorLiteralOf(info *types.Info, call *ast.CallExpr) (*ast.CompositeLit, func(ast.Expr) ast.Expr) {
	cal := Callee(info, call)
	if cal == nil || cal.Pkg() == nil {
		return nil, nil
	}
	var fd *ast.FuncDecl
	var cinfo *types.Info
	for _, p := range loadedPkgs {
		if p.Types == cal.Pkg() {
			fd = findFuncDecl(p, cal)
			cinfo = p.TypesInfo
		}
	}
	if fd == nil || fd.Body == nil || len(fd.Body.List) != 1 {
		return nil, nil
	}
	ret, ok := fd.Body.List[0].(*ast.ReturnStmt)
	if !ok || len(ret.Results) != 1 {
		return nil, nil
	}
	e := ast.Unparen(ret.Results[0])
	if u, ok := e.(*ast.UnaryExpr); ok && u.Op == token.AND {
		e = ast.Unparen(u.X)
	}
	cl, ok := e.(*ast.CompositeLit)
	if !ok {
		return nil, nil
	}
	params := map[types.Object]int{}
	i := 0
	if fd.Type.Params != nil {
		for _, f := range fd.Type.Params.List {
			for _, nm := range f.Names {
				params[cinfo.Defs[nm]] = i
				i++
			}
		}
	}
	if sig, ok := cal.Type().(*types.Signature); ok && sig.Variadic() {
		return nil, nil
	}
	argOf := func(v ast.Expr) ast.Expr {
		if id, ok := ast.Unparen(v).(*ast.Ident); ok {
			if k, ok := params[cinfo.ObjectOf(id)]; ok && k < len(call.Args) {
				return ast.Unparen(call.Args[k])
			}
		}
		return v
	}
	return cl, argOf
}

// typeOfAny returns the type of an expression of any loaded package.
func (c *Ctx) typeOfAny(e ast.Expr) types.Type {
	for _, p := range loadedPkgs {
		if t := p.TypesInfo.TypeOf(e); t != nil {
			return t
		}
	}
	return nil
}
