package main

import (
	"fmt"
	"go/ast"
	"go/constant"
	"go/token"
	"go/types"
	"strings"

	"golang.org/x/tools/go/packages"
)

// isValueSlice: []value.Value (or a named slice of it)
func isValueSlice(t types.Type) bool {
	if t == nil {
		return false
	}
	sl, ok := t.Underlying().(*types.Slice)
	if !ok {
		return false
	}
	return isNamed(sl.Elem(), modPath+"/value", "Value")
}

// sliceOrigin classifies where the slice held by obj comes from, looking at
// all assignments to it inside fn.
type sliceOrigin struct {
	fresh  bool
	reason string
}

// originAt: the position of the use sliceOriginOf is asked about (set by the caller; NoPos: all assignments count).
var originAt token.Pos

func (c *Ctx) sliceOriginOf(pkg *packages.Package, fn ast.Node, obj types.Object, depth int) sliceOrigin {
	info := pkg.TypesInfo
	if obj == nil {
		return sliceOrigin{false, "unknown storage"}
	}
	v, ok := obj.(*types.Var)
	if !ok {
		return sliceOrigin{false, "not a variable"}
	}
	if v.IsField() {
		return sliceOrigin{false, "a struct field"}
	}
	// parameter?
	var ft *ast.FuncType
	switch t := fn.(type) {
	case *ast.FuncDecl:
		ft = t.Type
		if t.Recv != nil {
			for _, f := range t.Recv.List {
				for _, nm := range f.Names {
					if info.Defs[nm] == obj {
						return sliceOrigin{false, "the receiver"}
					}
				}
			}
		}
	case *ast.FuncLit:
		ft = t.Type
	}
	if ft != nil && ft.Params != nil {
		for _, f := range ft.Params.List {
			for _, nm := range f.Names {
				if info.Defs[nm] == obj {
					return sliceOrigin{false, "a parameter (" + nm.Name + ") owned by the caller"}
				}
			}
		}
	}
	if obj.Pos() < fn.Pos() || obj.Pos() > fn.End() {
		// captured from an enclosing function: classify there
		if outer := c.EnclosingFunc(fn); outer != nil && depth < 3 {
			return c.sliceOriginOf(pkg, outer, obj, depth+1)
		}
		return sliceOrigin{false, "a variable of an enclosing scope"}
	}
	res := sliceOrigin{true, "declared here"}
	var classify func(e ast.Expr) sliceOrigin
	classify = func(e ast.Expr) sliceOrigin {
		e = ast.Unparen(e)
		switch t := e.(type) {
		case *ast.Ident:
			if t.Name == "nil" {
				return sliceOrigin{true, "nil"}
			}
			if info.ObjectOf(t) == obj {
				return sliceOrigin{true, "itself"}
			}
			if depth < 3 {
				return c.sliceOriginOf(pkg, fn, info.ObjectOf(t), depth+1)
			}
		case *ast.CompositeLit:
			return sliceOrigin{true, "a literal"}
		case *ast.SliceExpr:
			return classify(t.X)
		case *ast.CallExpr:
			if id, ok := ast.Unparen(t.Fun).(*ast.Ident); ok {
				if b, ok := info.Uses[id].(*types.Builtin); ok {
					switch b.Name() {
					case "make":
						return sliceOrigin{true, "make"}
					case "append":
						if len(t.Args) > 0 {
							return classify(t.Args[0])
						}
					}
				}
			}
			// a conversion of nil: []Value(nil)
			if tv, ok := info.Types[t.Fun]; ok && tv.IsType() && len(t.Args) == 1 {
				if id, ok := ast.Unparen(t.Args[0]).(*ast.Ident); ok && id.Name == "nil" {
					return sliceOrigin{true, "nil"}
				}
				return classify(t.Args[0])
			}
			if cal := Callee(info, t); cal != nil {
				if cal.Name() == "CopyToSlice" {
					return sliceOrigin{true, "CopyToSlice"}
				}
				if cal.Pkg() != nil && cal.Pkg().Path() == "slices" {
					switch cal.Name() {
					case "Clone", "Collect", "Sorted", "Concat", "Repeat":
						return sliceOrigin{true, "slices." + cal.Name()}
					case "Clip", "Grow", "Compact", "CompactFunc", "Delete", "DeleteFunc", "Insert", "Replace", "AppendSeq":
						if len(t.Args) > 0 {
							return classify(t.Args[0])
						}
					}
				}
				return sliceOrigin{false, "the result of " + cal.Name() + ", which may be the storage of an existing list"}
			}
		case *ast.SelectorExpr:
			return sliceOrigin{false, "the field " + nodeStr(c.Fset, t) + " of an existing value"}
		case *ast.IndexExpr:
			return sliceOrigin{false, "an element of another container"}
		}
		return sliceOrigin{false, "the expression " + nodeStr(c.Fset, e)}
	}
	// an unconditional refresh in front of the use (items = slices.Clone(items), a statement of the function body itself)
	// replaces whatever the variable held before: earlier assignments no longer matter for that use
	cutoff := token.NoPos
	if originAt != token.NoPos && depth == 0 {
		if body := funcBody(fn); body != nil {
			for _, st := range body.List {
				as, ok := st.(*ast.AssignStmt)
				if !ok || as.Pos() >= originAt || len(as.Lhs) != 1 || len(as.Rhs) != 1 {
					continue
				}
				if id, ok := as.Lhs[0].(*ast.Ident); !ok || info.ObjectOf(id) != obj {
					continue
				}
				if call, ok := ast.Unparen(as.Rhs[0]).(*ast.CallExpr); ok {
					if cal := Callee(info, call); cal != nil && cal.Pkg() != nil && cal.Pkg().Path() == "slices" && cal.Name() == "Clone" {
						cutoff = as.Pos()
					}
				}
			}
		}
	}
	ast.Inspect(funcBody(fn), func(n ast.Node) bool {
		switch t := n.(type) {
		case *ast.AssignStmt:
			if t.Pos() < cutoff {
				return true
			}
			for i, l := range t.Lhs {
				id, ok := l.(*ast.Ident)
				if !ok || info.ObjectOf(id) != obj {
					continue
				}
				var rhs ast.Expr
				if len(t.Rhs) == len(t.Lhs) {
					rhs = t.Rhs[i]
				} else if len(t.Rhs) == 1 {
					rhs = t.Rhs[0]
				}
				if rhs == nil {
					continue
				}
				var o sliceOrigin
				if len(t.Rhs) != len(t.Lhs) {
					// multi value call: x, err := l.CopyToSlice(st)
					if call, ok := ast.Unparen(rhs).(*ast.CallExpr); ok {
						o = classify(call)
					} else {
						o = sliceOrigin{false, "a multi value expression"}
					}
				} else {
					o = classify(rhs)
				}
				if !o.fresh && res.fresh {
					res = o
				}
			}
		case *ast.RangeStmt:
			for _, e := range []ast.Expr{t.Key, t.Value} {
				if id, ok := e.(*ast.Ident); ok && info.ObjectOf(id) == obj {
					res = sliceOrigin{false, "an element of " + nodeStr(c.Fset, t.X)}
				}
			}
		}
		return true
	})
	return res
}

// ---------------------------------------------------------------------------
// R09.1 aliasing discipline of list backing slices

func ruleR091(c *Ctx) {
	la := c.listAnchors()
	if len(la.missing) > 0 {
		c.Undecided(strings.Join(la.missing, ","), token.NoPos, "anchors not found")
		return
	}
	vp := la.vp
	info := vp.TypesInfo
	newList := LookupFunc(vp, "NewList")
	nA, nC := 0, 0
	forEachFuncBody([]*packages.Package{vp}, func(pkg *packages.Package, fn ast.Node, body *ast.BlockStmt) {
		fname := c.FuncName(fn) + litSuffix(c, fn)
		// (a) in place writes to []Value
		report := func(target ast.Expr, pos token.Pos, what string) {
			base := ast.Unparen(target)
			for {
				if se, ok := base.(*ast.SliceExpr); ok {
					base = ast.Unparen(se.X)
					continue
				}
				break
			}
			if !isValueSlice(info.TypeOf(base)) {
				return
			}
			nA++
			key := fmt.Sprintf("%s#in-place-%s:%s", fname, what, nodeStr(c.Fset, base))
			switch t := base.(type) {
			case *ast.Ident:
				originAt = t.Pos()
				o := c.sliceOriginOf(pkg, fn, info.ObjectOf(t), 0)
				originAt = token.NoPos
				if o.fresh {
					c.OK(key, pos, "%s modifies a slice this function allocated itself (%s)", what, o.reason)
				} else {
					c.Violation(key, pos, "%s modifies %s in place, which is %s: an existing list value (bound to a name, shared constant, captured by a closure) changes its content", what, t.Name, o.reason)
				}
			case *ast.SelectorExpr:
				// a field of a helper struct (Sortable.items): every literal of that struct has to be filled with a fresh slice
				if msg := c.structFieldFresh(pkg, t); msg == "" {
					c.OK(key, pos, "%s modifies the slice field %s, which every constructor fills with a freshly copied slice", what, nodeStr(c.Fset, t))
				} else {
					c.Violation(key, pos, "%s modifies %s in place: %s", what, nodeStr(c.Fset, t), msg)
				}
			default:
				c.Violation(key, pos, "%s modifies %s in place, which is not a slice allocated by this function", what, nodeStr(c.Fset, base))
			}
		}
		inspectNoLit(body, func(x ast.Node) bool {
			switch t := x.(type) {
			case *ast.AssignStmt:
				for i, l := range t.Lhs {
					if ix, ok := ast.Unparen(l).(*ast.IndexExpr); ok {
						report(ix.X, t.Pos(), "element-store")
					}
					// x = append(x[:i], x[i+1:]...) : shifts elements of the shared backing array
					if len(t.Rhs) == len(t.Lhs) {
						if call, ok := ast.Unparen(t.Rhs[i]).(*ast.CallExpr); ok {
							if id, ok := ast.Unparen(call.Fun).(*ast.Ident); ok && id.Name == "append" && len(call.Args) >= 1 {
								if se, ok := ast.Unparen(call.Args[0]).(*ast.SliceExpr); ok && se.High != nil {
									report(se.X, t.Pos(), "delete-by-append")
								}
							}
						}
					}
				}
			case *ast.CallExpr:
				if cal := Callee(info, t); cal != nil && cal.Pkg() != nil {
					switch cal.Pkg().Path() + "." + cal.Name() {
					case "sort.Slice", "sort.SliceStable", "slices.Sort", "slices.SortFunc", "slices.Reverse":
						if len(t.Args) > 0 {
							report(t.Args[0], t.Pos(), "sort")
						}
					}
				}
				if id, ok := ast.Unparen(t.Fun).(*ast.Ident); ok && id.Name == "copy" && len(t.Args) == 2 {
					if _, isB := info.Uses[id].(*types.Builtin); isB {
						report(t.Args[0], t.Pos(), "copy-into")
					}
				}
			}
			return true
		})
		// (c) slices that become the backing of a new list
		inspectNoLit(body, func(x ast.Node) bool {
			call, ok := x.(*ast.CallExpr)
			if !ok || newList == nil || !isCallTo(info, call, newList) || !call.Ellipsis.IsValid() || len(call.Args) != 1 {
				return true
			}
			arg := ast.Unparen(call.Args[0])
			base := arg
			for {
				if se, ok := base.(*ast.SliceExpr); ok {
					base = ast.Unparen(se.X)
					continue
				}
				break
			}
			nC++
			key := fmt.Sprintf("%s#list-backing[%d]:%s", fname, ordinalIn(fn, call, func(y ast.Node) bool {
				cc, ok := y.(*ast.CallExpr)
				return ok && isCallTo(info, cc, newList) && cc.Ellipsis.IsValid()
			}), nodeStr(c.Fset, base))
			id, isId := base.(*ast.Ident)
			if !isId {
				if ptr, ok := ast.Unparen(base).(*ast.StarExpr); ok {
					if pid, ok := ast.Unparen(ptr.X).(*ast.Ident); ok {
						_ = pid
						c.OK(key, call.Pos(), "slice reached through a local pointer built in this function")
						return true
					}
				}
				c.OK(key, call.Pos(), "backing is %s", nodeStr(c.Fset, base))
				return true
			}
			obj := info.ObjectOf(id)
			originAt = call.Pos()
			o := c.sliceOriginOf(pkg, fn, obj, 0)
			originAt = token.NoPos
			// later writes by this function
			laterWrite := false
			ast.Inspect(body, func(y ast.Node) bool {
				as, ok := y.(*ast.AssignStmt)
				if !ok || as.Pos() < call.End() {
					return true
				}
				for _, l := range as.Lhs {
					if ix, ok := ast.Unparen(l).(*ast.IndexExpr); ok {
						if rid := rootIdent(ix.X); rid != nil && info.ObjectOf(rid) == obj {
							laterWrite = true
						}
					}
				}
				return true
			})
			switch {
			case laterWrite:
				c.Violation(key, call.Pos(), "the slice %s becomes the storage of a new list and is written again by this function afterwards: the list changes after it was created", id.Name)
			case o.fresh:
				c.OK(key, call.Pos(), "the new list is backed by a slice this function allocated (%s) and does not touch again", o.reason)
			case strings.HasPrefix(o.reason, "a parameter"):
				// a callback parameter: the provider (iterator dependency) may reuse the buffer
				if lit, ok := fn.(*ast.FuncLit); ok {
					if pc, ok := c.Parent(lit).(*ast.CallExpr); ok {
						if cal := Callee(info, pc); cal != nil && cal.Pkg() != nil && cal.Pkg().Path() == iterPath {
							c.Violation(key, call.Pos(), "the slice %s handed to the callback by iterator.%s becomes the storage of a new list without being copied; the iterator reuses that buffer for the following elements, so a list kept by the program changes later", id.Name, cal.Name())
							return true
						}
					}
				}
				c.OK(key, call.Pos(), "backing is a slice owned by the caller of this helper; the caller is checked at its own site")
			default:
				// storage of an existing (immutable) list: sharing is fine as long as nobody writes (a). The one
				// in-place write is Append into spare capacity (b), so a list that shares storage must not see
				// spare capacity that belongs to another list: a view has to limit its capacity (s[i:j:j]),
				// as MovingWindow does; the result of append is owned by the new list (b trims the parent).
				viaAppend := false
				if as, i := definingAssign(info, fn, obj); as != nil && len(as.Lhs) == len(as.Rhs) {
					if ac, ok := ast.Unparen(as.Rhs[i]).(*ast.CallExpr); ok {
						if aid, ok := ast.Unparen(ac.Fun).(*ast.Ident); ok && aid.Name == "append" {
							viaAppend = true
						}
					}
				}
				capped := false
				if se, ok := arg.(*ast.SliceExpr); ok && se.Slice3 && se.Max != nil && se.High != nil && nodeStr(c.Fset, se.Max) == nodeStr(c.Fset, se.High) {
					capped = true
				}
				switch {
				case capped:
					c.OK(key, call.Pos(), "a view of the storage of an existing list (%s) with its capacity limited to its length: an append on the view copies", o.reason)
				case viaAppend:
					c.OK(key, call.Pos(), "the result of append on the storage of an existing list; Append trims the capacity of the parent (part b)")
				default:
					c.Violation(key, call.Pos(), "the new list shares the storage of an existing list (%s) including its spare capacity: an append on one of the two lists writes into a slot the other one also appends to (or, for a prefix view, into elements of the existing list), so a list changes after it was created", o.reason)
				}
			}
			return true
		})
	})
	if nA < 8 || nC < 15 {
		c.Undecided("value#slice-writes", token.NoPos, "only %d in-place writes and %d list constructions found", nA, nC)
	}

	// (b0) every append whose first operand is existing list storage may write into spare capacity:
	// it has to be the cache field itself, read while the list's mutex is held (the trim of part b
	// then happens in the same critical section). A slice header that was read from the cache by an
	// accessor (getItems) is a snapshot: after the mutex is released another append may already have
	// used the spare slot.
	nB0 := 0
	listType := LookupType(vp, "List")
	forEachFuncBody([]*packages.Package{vp}, func(pkg *packages.Package, fn ast.Node, body *ast.BlockStmt) {
		fname := c.FuncName(fn) + litSuffix(c, fn)
		inspectNoLit(body, func(x ast.Node) bool {
			call, ok := x.(*ast.CallExpr)
			if !ok || len(call.Args) < 2 {
				return true
			}
			id, ok := ast.Unparen(call.Fun).(*ast.Ident)
			if !ok || id.Name != "append" {
				return true
			}
			if _, isB := info.Uses[id].(*types.Builtin); !isB {
				return true
			}
			a0 := ast.Unparen(call.Args[0])
			if !isValueSlice(info.TypeOf(a0)) {
				return true
			}
			if se, ok := a0.(*ast.SliceExpr); ok {
				if se.Slice3 && se.Max != nil && se.High != nil && nodeStr(c.Fset, se.Max) == nodeStr(c.Fset, se.High) {
					return true // capacity limited: append copies
				}
				if se.High != nil {
					return true // x[:i]: overwrites elements, part (a) delete-by-append
				}
				a0 = ast.Unparen(se.X)
			}
			lid, isLocal := a0.(*ast.Ident)
			if !isLocal {
				return true // the cache field itself: lock set R06.2 and trim (b)
			}
			obj := info.ObjectOf(lid)
			// does the local hold a snapshot of the cache of a list?
			snapshot := ""
			heldBy := c.lockHolds(info, fn, body)
			ast.Inspect(funcBody(fn), func(n ast.Node) bool {
				as, ok := n.(*ast.AssignStmt)
				if !ok {
					return true
				}
				for i, l := range as.Lhs {
					li, ok := l.(*ast.Ident)
					if !ok || info.ObjectOf(li) != obj {
						continue
					}
					var rhs ast.Expr
					if len(as.Rhs) == len(as.Lhs) {
						rhs = as.Rhs[i]
					} else if len(as.Rhs) == 1 && i == 0 {
						rhs = as.Rhs[0]
					}
					if rhs == nil {
						continue
					}
					rhs = ast.Unparen(rhs)
					for {
						if se, ok := rhs.(*ast.SliceExpr); ok && !se.Slice3 {
							rhs = ast.Unparen(se.X)
							continue
						}
						break
					}
					switch t := rhs.(type) {
					case *ast.SelectorExpr:
						if s, ok := info.Selections[t]; ok && s.Kind() == types.FieldVal && listType != nil {
							if nm := namedOf(info.TypeOf(t.X)); nm != nil && nm.Obj() == listType && isValueSlice(s.Obj().Type()) {
								if l := heldBy(as); l != nil && l == heldBy(call) {
									continue // copied and used inside one critical section
								}
								snapshot = "the cache field " + nodeStr(c.Fset, t)
							}
						}
					case *ast.CallExpr:
						if cal := Callee(info, t); cal != nil && listType != nil {
							if sig, ok := cal.Type().(*types.Signature); ok && sig.Recv() != nil {
								if nm := namedOf(sig.Recv().Type()); nm != nil && nm.Obj() == listType && c.returnsCacheField(vp, cal) {
									snapshot = "the result of " + cal.Name() + ", which hands out the cache slice with its spare capacity"
								}
							}
						}
					}
				}
				return true
			})
			if snapshot == "" {
				return true
			}
			nB0++
			key := fmt.Sprintf("%s#append-to-snapshot:%s", fname, lid.Name)
			c.Violation(key, call.Pos(), "append(%s, …) may write into the spare capacity of the storage of an existing list, but %s was copied from %s, i.e. outside the critical section that trims the parent's capacity: two evaluations appending to the same (constant or shared) list both see the spare slot and overwrite each other's element", lid.Name, lid.Name, snapshot)
			return true
		})
	})
	_ = nB0

	// (b) the one in-place append into spare capacity caps the parent
	appendDecl := c.FuncDecl(vp, "List", "Append")
	key := "value.List.Append#cap-trim"
	if appendDecl == nil {
		c.Undecided(key, token.NoPos, "List.Append not found")
	} else {
		g := c.CFG(appendDecl)
		var app *ast.CallExpr
		var trim *ast.AssignStmt
		isItems := func(e ast.Expr) bool {
			e = ast.Unparen(e)
			if id, ok := e.(*ast.Ident); ok {
				// a local copy of the slice header taken in this function
				if as, i := definingAssign(info, appendDecl, info.ObjectOf(id)); as != nil && len(as.Lhs) == len(as.Rhs) {
					e = ast.Unparen(as.Rhs[i])
				}
			}
			sel, ok := e.(*ast.SelectorExpr)
			return ok && sel.Sel.Name == "items"
		}
		ast.Inspect(appendDecl.Body, func(n ast.Node) bool {
			switch t := n.(type) {
			case *ast.CallExpr:
				if id, ok := ast.Unparen(t.Fun).(*ast.Ident); ok && id.Name == "append" && len(t.Args) >= 1 && isItems(t.Args[0]) {
					app = t
				}
			case *ast.AssignStmt:
				if _, isSel := ast.Unparen(t.Lhs[0]).(*ast.SelectorExpr); isSel && len(t.Lhs) == 1 && len(t.Rhs) == 1 && isItems(t.Lhs[0]) {
					// slices.Clip(x) is x[:len(x):len(x)]
					if cc, ok := ast.Unparen(t.Rhs[0]).(*ast.CallExpr); ok && len(cc.Args) == 1 && isItems(cc.Args[0]) {
						if cal := Callee(info, cc); cal != nil && cal.Pkg() != nil && cal.Pkg().Path() == "slices" && cal.Name() == "Clip" {
							trim = t
						}
					}
					if se, ok := ast.Unparen(t.Rhs[0]).(*ast.SliceExpr); ok && se.Slice3 && isItems(se.X) {
						lenItems := "len(" + nodeStr(c.Fset, se.X) + ")"
						if nodeStr(c.Fset, se.High) == lenItems && nodeStr(c.Fset, se.Max) == lenItems {
							trim = t
						}
					}
				}
			}
			return true
		})
		switch {
		case app == nil:
			c.OK(key, appendDecl.Pos(), "Append no longer appends into the parent's storage")
		case trim == nil:
			c.Violation(key, app.Pos(), "Append writes the new element into the spare capacity of the parent's storage, but the parent's capacity is not trimmed (l.items = l.items[:len:len]) afterwards: a second append to the same parent overwrites the element of the first child")
		default:
			bad := ""
			for _, gd := range g.Guards(trim) {
				txt := nodeStr(c.Fset, gd.Cond)
				if !strings.Contains(txt, "items") {
					if be, ok := ast.Unparen(gd.Cond).(*ast.BinaryExpr); ok {
						if id, ok := ast.Unparen(be.X).(*ast.Ident); ok && isErrorType(info.TypeOf(id)) {
							continue
						}
					}
					bad = txt
					continue
				}
				be, ok := ast.Unparen(gd.Cond).(*ast.BinaryExpr)
				if ok && gd.Val && (be.Op == token.NEQ || be.Op == token.LSS) {
					lc, okL := ast.Unparen(be.X).(*ast.CallExpr)
					cc, okC := ast.Unparen(be.Y).(*ast.CallExpr)
					if okL && okC && len(lc.Args) == 1 && len(cc.Args) == 1 && nodeStr(c.Fset, lc.Fun) == "len" && nodeStr(c.Fset, cc.Fun) == "cap" && isItems(lc.Args[0]) && isItems(cc.Args[0]) {
						continue
					}
				}
				bad = txt
			}
			if bad != "" {
				c.Violation(key, trim.Pos(), "the parent's capacity is trimmed only under the condition %s, which is not 'whenever spare capacity was left' (len(items) != cap(items)): in the remaining cases a second append to the same parent overwrites the element appended first", bad)
			} else if !g.Dominates(app, trim) && !g.Dominates(trim, app) {
				c.Violation(key, trim.Pos(), "the capacity trim is not on every path of the append")
			} else {
				c.OK(key, trim.Pos(), "whenever spare capacity was left, the parent's capacity is trimmed, so the next append to the parent copies")
			}
		}
	}

	// (d)/(e) ToSlice hands out a capacity capped view, CopyToSlice a fresh copy
	for _, name := range []string{"ToSlice", "CopyToSlice"} {
		fd := c.FuncDecl(vp, "List", name)
		k := "value.List." + name + "#result"
		if fd == nil {
			c.Undecided(k, token.NoPos, "not found")
			continue
		}
		okAll, nRet := true, 0
		why := ""
		inspectNoLit(fd.Body, func(n ast.Node) bool {
			r, ok := n.(*ast.ReturnStmt)
			if !ok || len(r.Results) != 2 {
				return true
			}
			if id, ok := ast.Unparen(r.Results[0]).(*ast.Ident); ok && id.Name == "nil" {
				return true
			}
			nRet++
			res := ast.Unparen(r.Results[0])
			if name == "ToSlice" {
				// slices.Clip(x) is x[:len(x):len(x)]
				if cc, ok := res.(*ast.CallExpr); ok && len(cc.Args) == 1 {
					if cal := Callee(info, cc); cal != nil && cal.Pkg() != nil && cal.Pkg().Path() == "slices" && cal.Name() == "Clip" {
						return true
					}
				}
				se, ok := res.(*ast.SliceExpr)
				if !ok || !se.Slice3 || nodeStr(c.Fset, se.High) != nodeStr(c.Fset, se.Max) || nodeStr(c.Fset, se.High) != "len("+nodeStr(c.Fset, se.X)+")" {
					okAll, why = false, "returns "+nodeStr(c.Fset, res)+", not a full slice expression x[0:len(x):len(x)]: an append by the caller writes into the list's spare capacity"
				}
			} else {
				// a copy made on the spot: slices.Clone(x), append([]Value(nil), x...), append([]Value{}, x...)
				if call, ok := res.(*ast.CallExpr); ok {
					if cal := Callee(info, call); cal != nil && cal.Pkg() != nil && cal.Pkg().Path() == "slices" && cal.Name() == "Clone" {
						return true
					}
					if fid, ok := ast.Unparen(call.Fun).(*ast.Ident); ok && fid.Name == "append" && len(call.Args) == 2 && call.Ellipsis.IsValid() {
						switch a0 := ast.Unparen(call.Args[0]).(type) {
						case *ast.CompositeLit:
							if len(a0.Elts) == 0 {
								return true
							}
						case *ast.CallExpr:
							if tv, ok := info.Types[a0.Fun]; ok && tv.IsType() && len(a0.Args) == 1 {
								if nid, ok := ast.Unparen(a0.Args[0]).(*ast.Ident); ok && nid.Name == "nil" {
									return true
								}
							}
						}
					}
				}
				id, ok := res.(*ast.Ident)
				if !ok {
					okAll, why = false, "returns "+nodeStr(c.Fset, res)
					return true
				}
				o := c.sliceOriginOf(vp, fd, info.ObjectOf(id), 0)
				if !o.fresh || o.reason != "make" && o.reason != "declared here" {
					if !(o.fresh && (o.reason == "make" || o.reason == "a literal" || o.reason == "slices.Clone")) {
						okAll, why = false, "returns "+id.Name+", which is "+o.reason+", not a fresh copy: set/reverse/order/~ then modify the list itself"
					}
				}
			}
			return true
		})
		if nRet == 0 {
			c.Undecided(k, fd.Pos(), "no success return")
		} else if name == "ToSlice" {
			c.Check(okAll, k, fd.Pos(), "ToSlice returns a view whose capacity equals its length", "ToSlice "+why)
		} else {
			c.Check(okAll, k, fd.Pos(), "CopyToSlice returns a freshly allocated copy on every path", "CopyToSlice "+why)
		}
	}
}

// structFieldFresh: sel is X.f for a helper struct; every composite literal of
// that struct type fills f from a fresh slice. Returns "" if fine.
func (c *Ctx) structFieldFresh(pkg *packages.Package, sel *ast.SelectorExpr) string {
	info := pkg.TypesInfo
	nm := namedOf(info.TypeOf(sel.X))
	if nm == nil {
		return "the owner of the field is not a named struct"
	}
	if nm.Obj().Name() == "List" {
		return "it is the storage of an existing list"
	}
	n := 0
	msg := ""
	for _, f := range pkg.Syntax {
		ast.Inspect(f, func(x ast.Node) bool {
			cl, ok := x.(*ast.CompositeLit)
			if !ok || namedOf(info.TypeOf(cl)) != nm {
				return true
			}
			for _, el := range cl.Elts {
				kv, ok := el.(*ast.KeyValueExpr)
				if !ok {
					continue
				}
				if k, ok := kv.Key.(*ast.Ident); ok && k.Name == sel.Sel.Name {
					n++
					id, ok := ast.Unparen(kv.Value).(*ast.Ident)
					if !ok {
						msg = "a constructor fills it with " + nodeStr(c.Fset, kv.Value)
						continue
					}
					fn := c.EnclosingFunc(cl)
					originAt = cl.Pos()
					o := c.sliceOriginOf(pkg, fn, info.ObjectOf(id), 0)
					originAt = token.NoPos
					if !o.fresh {
						msg = fmt.Sprintf("the constructor at %s fills it with %s, which is %s", c.posStr(cl.Pos()), id.Name, o.reason)
					}
				}
			}
			return true
		})
	}
	// fields filled by assignment: c.xd = make(...)
	for _, f := range pkg.Syntax {
		ast.Inspect(f, func(x ast.Node) bool {
			as, ok := x.(*ast.AssignStmt)
			if !ok || len(as.Lhs) != len(as.Rhs) {
				return true
			}
			for i, l := range as.Lhs {
				ls, ok := ast.Unparen(l).(*ast.SelectorExpr)
				if !ok || ls.Sel.Name != sel.Sel.Name || namedOf(info.TypeOf(ls.X)) != nm {
					continue
				}
				n++
				rhs := ast.Unparen(as.Rhs[i])
				fresh := false
				switch r := rhs.(type) {
				case *ast.CallExpr:
					if id, ok := ast.Unparen(r.Fun).(*ast.Ident); ok && (id.Name == "make") {
						fresh = true
					}
				case *ast.CompositeLit:
					fresh = true
				case *ast.Ident:
					if r.Name == "nil" {
						fresh = true
					} else if o := c.sliceOriginOf(pkg, c.EnclosingFunc(as), info.ObjectOf(r), 0); o.fresh {
						fresh = true
					}
				}
				if !fresh {
					msg = fmt.Sprintf("the assignment at %s fills it with %s", c.posStr(as.Pos()), nodeStr(c.Fset, rhs))
				}
			}
			return true
		})
	}
	if n == 0 {
		return "no constructor of the struct found"
	}
	return msg
}

// ---------------------------------------------------------------------------
// R09.2 maps are never updated in place

func ruleR092(c *Ctx) {
	vp := c.Pkg("value")
	lm := c.Pkg("listMap")
	if vp == nil || lm == nil {
		c.Undecided("package value/listMap", token.NoPos, "not found")
		return
	}
	lmAppend := LookupMethod(lm, "ListMap", "Append")
	lmNew := LookupFunc(lm, "New")
	storage := LookupType(vp, "MapStorage")
	if lmAppend == nil || lmNew == nil || storage == nil {
		c.Undecided("listMap.ListMap.Append/New, value.MapStorage", token.NoPos, "not found")
		return
	}
	iface, _ := storage.Type().Underlying().(*types.Interface)
	n := 0
	// (1) no method of a MapStorage implementation stores into its receiver
	for _, pkg := range []*packages.Package{vp, lm} {
		info := pkg.TypesInfo
		for _, f := range pkg.Syntax {
			for _, d := range f.Decls {
				fd, ok := d.(*ast.FuncDecl)
				if !ok || fd.Recv == nil || fd.Body == nil || len(fd.Recv.List[0].Names) == 0 {
					continue
				}
				recv := info.Defs[fd.Recv.List[0].Names[0]]
				if recv == nil {
					continue
				}
				rt := recv.Type()
				implements := iface != nil && (types.Implements(rt, iface) || types.Implements(types.NewPointer(rt), iface))
				isListMap := isNamed(rt, modPath+"/listMap", "ListMap")
				if !implements && !isListMap {
					continue
				}
				ast.Inspect(fd.Body, func(x ast.Node) bool {
					as, ok := x.(*ast.AssignStmt)
					if !ok {
						return true
					}
					for _, l := range as.Lhs {
						root := rootIdent(l)
						if root == nil || info.ObjectOf(root) != recv {
							continue
						}
						if _, isId := ast.Unparen(l).(*ast.Ident); isId {
							continue // rebinding the local receiver copy
						}
						n++
						key := fmt.Sprintf("%s#receiver-store:%s", declName(pkg, fd), nodeStr(c.Fset, l))
						if isListMap && fd.Name.Name == "Append" {
							c.OK(key, as.Pos(), "the one in-place update of the code base; its call sites are restricted to private maps (below)")
						} else {
							c.Violation(key, as.Pos(), "a method of a map storage stores into its receiver (%s): a map value that is already shared changes", nodeStr(c.Fset, l))
						}
					}
					return true
				})
			}
		}
	}
	// (2) ListMap.Append and Go map stores only on private maps
	for _, pkg := range c.RepoPkgs {
		info := pkg.TypesInfo
		rel := strings.TrimPrefix(strings.TrimPrefix(pkg.PkgPath, modPath), "/")
		if rel != "value" && rel != "funcGen" && rel != "value/export" {
			continue
		}
		forEachFuncBody([]*packages.Package{pkg}, func(_ *packages.Package, fn ast.Node, body *ast.BlockStmt) {
			inspectNoLit(body, func(x ast.Node) bool {
				switch t := x.(type) {
				case *ast.CallExpr:
					// the builtin append on a ListMap (a slice of entries) is the same in-place update as ListMap.Append:
					// it writes into the spare capacity of the backing array, which every map derived from the operand shares
					if id, ok := ast.Unparen(t.Fun).(*ast.Ident); ok && id.Name == "append" && len(t.Args) >= 2 {
						if _, isB := info.Uses[id].(*types.Builtin); isB && isNamed(info.TypeOf(t.Args[0]), modPath+"/listMap", "ListMap") {
							a0 := ast.Unparen(t.Args[0])
							capped := false
							if se, ok := a0.(*ast.SliceExpr); ok && se.Slice3 && se.Max != nil && se.High != nil && nodeStr(c.Fset, se.Max) == nodeStr(c.Fset, se.High) {
								capped = true
							}
							n++
							key := fmt.Sprintf("%s#append-to-ListMap[%d]", c.FuncName(fn)+litSuffix(c, fn), ordinalIn(fn, t, func(y ast.Node) bool {
								cc, ok := y.(*ast.CallExpr)
								if !ok || len(cc.Args) < 2 {
									return false
								}
								cid, ok := ast.Unparen(cc.Fun).(*ast.Ident)
								return ok && cid.Name == "append" && isNamed(info.TypeOf(cc.Args[0]), modPath+"/listMap", "ListMap")
							}))
							if capped || c.privateListMap(pkg, fn, a0, lmNew, lmAppend, 0) {
								c.OK(key, t.Pos(), "append to a ListMap this function created itself (or to a capacity limited view, which copies)")
							} else {
								c.Violation(key, t.Pos(), "append(%s, …) may write into the spare capacity of the entry slice of an existing map: every map that was derived from the same operand before shares that backing array and sees its last entries overwritten - an existing map value changes", nodeStr(c.Fset, a0))
							}
							return true
						}
					}
					if !isCallTo(info, t, lmAppend) {
						return true
					}
					sel, _ := ast.Unparen(t.Fun).(*ast.SelectorExpr)
					if sel == nil {
						return true
					}
					n++
					key := fmt.Sprintf("%s#ListMap.Append[%d]", c.FuncName(fn)+litSuffix(c, fn), ordinalIn(fn, t, func(y ast.Node) bool {
						cc, ok := y.(*ast.CallExpr)
						return ok && isCallTo(info, cc, lmAppend)
					}))
					// receiver: a chain New(..).Append(..).Append(..), or a local variable that only ever holds such chains
					if c.privateListMap(pkg, fn, sel.X, lmNew, lmAppend, 0) {
						c.OK(key, t.Pos(), "in-place Append on a map this function created with listMap.New and has not published yet")
					} else {
						c.Violation(key, t.Pos(), "ListMap.Append (which overwrites in place / appends into the shared backing array) is applied to %s, which is not a map this function created itself: an existing map value, or a sibling derived from the same parent, changes", nodeStr(c.Fset, sel.X))
					}
				case *ast.AssignStmt:
					for _, l := range t.Lhs {
						ix, ok := ast.Unparen(l).(*ast.IndexExpr)
						if !ok {
							continue
						}
						if _, isMap := info.TypeOf(ix.X).Underlying().(*types.Map); !isMap {
							continue
						}
						if !isNamed(info.TypeOf(ix.X), modPath+"/value", "RealMap") {
							if mt, ok := info.TypeOf(ix.X).Underlying().(*types.Map); !ok || !isNamed(mt.Elem(), modPath+"/value", "Value") {
								continue
							}
						}
						n++
						key := fmt.Sprintf("%s#map-store:%s", c.FuncName(fn)+litSuffix(c, fn), nodeStr(c.Fset, ix.X))
						id, isId := ast.Unparen(ix.X).(*ast.Ident)
						fresh := false
						if isId {
							obj := info.ObjectOf(id)
							for q := fn; q != nil && !fresh; q = c.EnclosingFunc(q) {
								if as, i := definingAssign(info, q, obj); as != nil && len(as.Rhs) == len(as.Lhs) {
									if call, ok := ast.Unparen(as.Rhs[i]).(*ast.CallExpr); ok {
										if mid, ok := ast.Unparen(call.Fun).(*ast.Ident); ok && mid.Name == "make" {
											fresh = true
										}
									}
								}
							}
						}
						if fresh {
							c.OK(key, t.Pos(), "store into a Go map made by this function")
						} else {
							c.Violation(key, t.Pos(), "store into the Go map %s, which this function did not make: an existing map value changes", nodeStr(c.Fset, ix.X))
						}
					}
				}
				return true
			})
		})
	}
	if n < 20 {
		c.Undecided("value#map-updates", token.NoPos, "only %d map update sites found", n)
	}
}

var privateVisiting = map[types.Object]bool{}

// privateListMap: e evaluates to a ListMap that was created by listMap.New in
// this function (possibly through Append chains and local variables).
func (c *Ctx) privateListMap(pkg *packages.Package, fn ast.Node, e ast.Expr, lmNew, lmAppend *types.Func, depth int) bool {
	info := pkg.TypesInfo
	e = ast.Unparen(e)
	switch t := e.(type) {
	case *ast.CallExpr:
		if isCallTo(info, t, lmNew) {
			return true
		}
		if isCallTo(info, t, lmAppend) {
			if sel, ok := ast.Unparen(t.Fun).(*ast.SelectorExpr); ok {
				return c.privateListMap(pkg, fn, sel.X, lmNew, lmAppend, depth)
			}
		}
		return false
	case *ast.Ident:
		if t.Name == "nil" {
			return true
		}
		obj := info.ObjectOf(t)
		if obj == nil || depth > 3 {
			return false
		}
		if privateVisiting[obj] {
			return true // m = m.Append(..): refers to itself
		}
		privateVisiting[obj] = true
		defer delete(privateVisiting, obj)
		// parameter or receiver: not private
		if v, ok := obj.(*types.Var); ok && v.IsField() {
			return false
		}
		// all assignments to the variable, in this function and (for captured variables) in the enclosing ones
		okAll, seen := true, false
		for q := fn; q != nil; q = c.EnclosingFunc(q) {
			// is it a parameter of q?
			var ft *ast.FuncType
			switch qt := q.(type) {
			case *ast.FuncDecl:
				ft = qt.Type
				if qt.Recv != nil {
					for _, f := range qt.Recv.List {
						for _, nm := range f.Names {
							if info.Defs[nm] == obj {
								return false
							}
						}
					}
				}
			case *ast.FuncLit:
				ft = qt.Type
			}
			if ft.Params != nil {
				for _, f := range ft.Params.List {
					for _, nm := range f.Names {
						if info.Defs[nm] == obj {
							return false
						}
					}
				}
			}
			if ft.Results != nil {
				for _, f := range ft.Results.List {
					for _, nm := range f.Names {
						if info.Defs[nm] == obj {
							seen = true // named result, starts nil
						}
					}
				}
			}
			ast.Inspect(funcBody(q), func(n ast.Node) bool {
				as, ok := n.(*ast.AssignStmt)
				if !ok {
					return true
				}
				for i, l := range as.Lhs {
					id, ok := l.(*ast.Ident)
					if !ok || info.ObjectOf(id) != obj {
						continue
					}
					seen = true
					if len(as.Rhs) != len(as.Lhs) {
						okAll = false
						continue
					}
					if !c.privateListMap(pkg, q, as.Rhs[i], lmNew, lmAppend, depth+1) {
						okAll = false
					}
				}
				return true
			})
			if obj.Pos() >= q.Pos() && obj.Pos() <= q.End() {
				break
			}
		}
		return okAll && seen
	}
	return false
}

// returnsCacheField: the method returns a []Value field of its receiver as is
// (uncapped), e.g. getItems.
func (c *Ctx) returnsCacheField(vp *packages.Package, fn *types.Func) bool {
	var fd *ast.FuncDecl
	for _, f := range vp.Syntax {
		for _, d := range f.Decls {
			if x, ok := d.(*ast.FuncDecl); ok && vp.TypesInfo.Defs[x.Name] == fn.Origin() {
				fd = x
			}
		}
	}
	if fd == nil || fd.Body == nil {
		return false
	}
	info := vp.TypesInfo
	found := false
	inspectNoLit(fd.Body, func(n ast.Node) bool {
		r, ok := n.(*ast.ReturnStmt)
		if !ok {
			return true
		}
		for _, res := range r.Results {
			e := ast.Unparen(res)
			if se, ok := e.(*ast.SliceExpr); ok {
				if se.Slice3 {
					continue
				}
				e = ast.Unparen(se.X)
			}
			if sel, ok := e.(*ast.SelectorExpr); ok && isValueSlice(info.TypeOf(sel)) {
				if s, ok := info.Selections[sel]; ok && s.Kind() == types.FieldVal {
					found = true
				}
			}
		}
		return true
	})
	return found
}

// ---------------------------------------------------------------------------
// R09.3 language values other than List do not append in place.
//
// A method of a type that is a value of the language (it implements
// value.Value) must not call append on a slice field of its receiver, nor of
// a shallow copy of the receiver (n := *d copies the slice header, not the
// backing array): if the slice has spare capacity, the element is written
// into storage that the receiver and every value derived from it share, so
// two values derived from the same one overwrite each other's element and a
// value returned earlier changes. The first operand has to be capped
// (x[:len(x):len(x)], slices.Clip) or cloned. *List has its own protocol
// (R09.1 parts b0/b).

func ruleR093(c *Ctx) {
	vp := c.Pkg("value")
	if vp == nil {
		c.Undecided("package value", token.NoPos, "not found")
		return
	}
	vt := LookupType(vp, "Value")
	if vt == nil {
		c.Undecided("value.Value", token.NoPos, "not found")
		return
	}
	valueIface, _ := vt.Type().Underlying().(*types.Interface)
	listType := LookupType(vp, "List")
	pkgs := []*packages.Package{vp}
	if ep := c.Pkg("value/export"); ep != nil {
		pkgs = append(pkgs, ep)
	}
	nMethods, nApp := 0, 0
	for _, pkg := range pkgs {
		info := pkg.TypesInfo
		for _, f := range pkg.Syntax {
			for _, d := range f.Decls {
				fd, ok := d.(*ast.FuncDecl)
				if !ok || fd.Body == nil || fd.Recv == nil || len(fd.Recv.List) != 1 || len(fd.Recv.List[0].Names) != 1 {
					continue
				}
				recvObj := info.Defs[fd.Recv.List[0].Names[0]]
				if recvObj == nil {
					continue
				}
				nm := namedOf(recvObj.Type())
				if nm == nil || (listType != nil && nm.Obj() == listType) {
					continue
				}
				if valueIface == nil || !(types.Implements(nm, valueIface) || types.Implements(types.NewPointer(nm), valueIface)) {
					continue
				}
				nMethods++
				// shallow copies of the receiver: n := *d, var n = *d, n := d
				copies := map[types.Object]bool{recvObj: true}
				isRecvCopy := func(e ast.Expr) bool {
					e = ast.Unparen(e)
					if st, ok := e.(*ast.StarExpr); ok {
						e = ast.Unparen(st.X)
					}
					id, ok := e.(*ast.Ident)
					return ok && copies[info.ObjectOf(id)]
				}
				ast.Inspect(fd.Body, func(x ast.Node) bool {
					switch t := x.(type) {
					case *ast.AssignStmt:
						if len(t.Lhs) == len(t.Rhs) {
							for i, l := range t.Lhs {
								if id, ok := l.(*ast.Ident); ok && isRecvCopy(t.Rhs[i]) {
									if o := info.ObjectOf(id); o != nil {
										copies[o] = true
									}
								}
							}
						}
					case *ast.ValueSpec:
						if len(t.Names) == len(t.Values) {
							for i, id := range t.Names {
								if isRecvCopy(t.Values[i]) {
									if o := info.ObjectOf(id); o != nil {
										copies[o] = true
									}
								}
							}
						}
					}
					return true
				})
				fname := declName(pkg, fd)
				ord := 0
				ast.Inspect(fd.Body, func(x ast.Node) bool {
					call, ok := x.(*ast.CallExpr)
					if !ok || len(call.Args) < 2 {
						return true
					}
					id, ok := ast.Unparen(call.Fun).(*ast.Ident)
					if !ok || id.Name != "append" {
						return true
					}
					if _, isB := info.Uses[id].(*types.Builtin); !isB {
						return true
					}
					a0 := ast.Unparen(call.Args[0])
					if se, ok := a0.(*ast.SliceExpr); ok {
						if se.Slice3 && se.Max != nil && se.High != nil && nodeStr(c.Fset, se.Max) == nodeStr(c.Fset, se.High) {
							return true // capped: append copies
						}
						a0 = ast.Unparen(se.X)
					}
					sel, ok := a0.(*ast.SelectorExpr)
					if !ok {
						return true
					}
					root := rootIdent(sel)
					if root == nil || !copies[info.ObjectOf(root)] {
						return true
					}
					if s, ok := info.Selections[sel]; !ok || s.Kind() != types.FieldVal {
						return true
					}
					nApp++
					ord++
					key := fmt.Sprintf("%s#append-to-shared-field[%d]:%s", fname, ord, nodeStr(c.Fset, sel))
					c.Violation(key, call.Pos(), "append(%s, …) in a method of the language value %s: %s is the receiver's slice (or that of a shallow copy, which shares the backing array), so with spare capacity the element is written into storage shared by the receiver and every value derived from it — two values derived from the same one overwrite each other's element, and a value returned by an earlier evaluation changes; cap the operand (x[:len(x):len(x)] / slices.Clip) or clone it", nodeStr(c.Fset, sel), nm.Obj().Name(), nodeStr(c.Fset, sel))
					return true
				})
			}
		}
	}
	if nMethods < 40 {
		c.Undecided("value#methods-of-language-values", token.NoPos, "only %d methods of language values found", nMethods)
		return
	}
	c.OK("value#methods-of-language-values", token.NoPos, "%d methods of types implementing value.Value examined (value, value/export; *List has its own protocol): none appends to a slice field of its receiver or of a shallow copy of it without capping or cloning it (%d uncapped appends)", nMethods, nApp)
}

// ---------------------------------------------------------------------------
// R09.4 a lazy list delivers the same sequence at every traversal
//
// A list that is not materialised yet runs its producer again for every
// observation (string form, first, map, reduce, an exporter ...). The content
// of a named list is then only stable if the producer is a function of the
// captured state: Go randomises the order of every range over a map, so a
// producer that ranges over a Go map delivers a different sequence each time,
// and first() disagrees with [0].

func ruleR094(c *Ctx) {
	la := c.listAnchors()
	if len(la.missing) > 0 {
		c.Undecided(strings.Join(la.missing, ","), token.NoPos, "anchors not found")
		return
	}
	n := 0
	for _, pkg := range c.RepoPkgs {
		info := pkg.TypesInfo
		for _, f := range pkg.Syntax {
			ast.Inspect(f, func(x ast.Node) bool {
				call, ok := x.(*ast.CallExpr)
				if !ok || !(isCallTo(info, call, la.newFromIterable) || isCallTo(info, call, la.newFromSizedIterable)) || len(call.Args) == 0 {
					return true
				}
				fn := c.EnclosingFunc(call)
				if fn == nil {
					return true
				}
				if fd, ok := fn.(*ast.FuncDecl); ok && (fd.Name.Name == "NewListFromIterable" || fd.Name.Name == "NewListFromSizedIterable") {
					return true
				}
				n++
				key := fmt.Sprintf("%s#producer-order[%d]", c.FuncName(fn)+litSuffix(c, fn), ordinalIn(fn, call, func(y ast.Node) bool {
					cc, ok := y.(*ast.CallExpr)
					return ok && (isCallTo(info, cc, la.newFromIterable) || isCallTo(info, cc, la.newFromSizedIterable))
				}))
				// the code of the producer: the literal, or the declaration of the function that is handed over
				var bodies []ast.Node
				switch t := ast.Unparen(call.Args[0]).(type) {
				case *ast.FuncLit:
					bodies = append(bodies, t.Body)
				default:
					if obj := calleeOfExpr(info, t); obj != nil && obj.Pkg() == pkg.Types {
						if fd := findFuncDecl(pkg, obj); fd != nil && fd.Body != nil {
							bodies = append(bodies, fd.Body)
						}
					}
				}
				var bad ast.Node
				what := ""
				for _, b := range bodies {
					// keys that are collected and sorted before anything is delivered come in a fixed order
					sorts := containsNodeDeep(b, func(y ast.Node) bool {
						sc, ok := y.(*ast.CallExpr)
						if !ok {
							return false
						}
						cal := Callee(info, sc)
						return cal != nil && cal.Pkg() != nil && (cal.Pkg().Path() == "sort" || cal.Pkg().Path() == "slices" && strings.HasPrefix(cal.Name(), "Sort"))
					})
					ast.Inspect(b, func(y ast.Node) bool {
						rs, ok := y.(*ast.RangeStmt)
						if !ok || bad != nil {
							return true
						}
						t := info.TypeOf(rs.X)
						if t == nil {
							return true
						}
						isMapRange, desc := false, ""
						if _, isMap := t.Underlying().(*types.Map); isMap {
							isMapRange, desc = true, "the Go map "+nodeStr(c.Fset, rs.X)
						}
						if rc, ok := ast.Unparen(rs.X).(*ast.CallExpr); ok {
							if cal := Callee(info, rc); cal != nil && cal.Pkg() != nil && cal.Pkg().Path() == "maps" {
								isMapRange, desc = true, "maps."+cal.Name()+" of a Go map"
							}
						}
						if !isMapRange {
							return true
						}
						// does the loop deliver elements itself (a call of a function typed value: the consumer)?
						delivers := containsNodeDeep(rs.Body, func(z ast.Node) bool {
							cc, ok := z.(*ast.CallExpr)
							if !ok {
								return false
							}
							if Callee(info, cc) != nil {
								return false
							}
							if tv, isT := info.Types[cc.Fun]; isT && tv.IsType() {
								return false
							}
							_, isSig := info.TypeOf(cc.Fun).Underlying().(*types.Signature)
							return isSig
						})
						if delivers || !sorts {
							bad, what = rs, desc
						}
						return true
					})
				}
				if bad == nil {
					c.OK(key, call.Pos(), "the producer iterates no Go map: every traversal delivers the elements in the same order")
				} else {
					c.Violation(key, bad.Pos(), "the producer of a lazy list ranges over %s: Go randomises the order of every such range, and a list that is not materialised runs its producer again for every observation - the elements of a named list come in a different order each time it is looked at (string form, first, map, export), and first() disagrees with [0]", what)
				}
				return true
			})
		}
	}
	if n < 15 {
		c.Undecided("value#lazy-list-constructions", token.NoPos, "only %d constructions of lazy lists found", n)
	}
}

// calleeOfExpr resolves an expression that denotes a function (f, pkg.f, recv.m) to its object.
func calleeOfExpr(info *types.Info, e ast.Expr) *types.Func {
	switch t := ast.Unparen(e).(type) {
	case *ast.Ident:
		fn, _ := info.ObjectOf(t).(*types.Func)
		return fn
	case *ast.SelectorExpr:
		fn, _ := info.ObjectOf(t.Sel).(*types.Func)
		return fn
	}
	return nil
}

// ---------------------------------------------------------------------------
// R09.5 a list has no state besides its materialisation cache
//
// *List is shared by pointer between every name that holds the list, between
// evaluations (constants of a generated function) and between goroutines. The
// only thing that may change in an existing list is the cache of its items,
// which changes from "not there" to "there" and never changes the content. A
// store into any other field of an existing list (a flag that says "being
// printed", a cursor, a counter) is state that one observer leaves behind for
// the next one: the observable content of a named value then depends on who
// else looks at it.

func ruleR095(c *Ctx) {
	la := c.listAnchors()
	if len(la.missing) > 0 {
		c.Undecided(strings.Join(la.missing, ","), token.NoPos, "anchors not found")
		return
	}
	vp := la.vp
	isListExpr := func(info *types.Info, e ast.Expr) bool {
		nm := namedOf(info.TypeOf(e))
		return nm != nil && nm.Obj() == la.listType
	}
	type store struct {
		pkg   *packages.Package
		fn    ast.Node
		stmt  ast.Stmt
		sel   *ast.SelectorExpr
		rhs   ast.Expr
		field *types.Var
	}
	var stores []store
	for _, pkg := range c.RepoPkgs {
		info := pkg.TypesInfo
		forEachFuncBody([]*packages.Package{pkg}, func(_ *packages.Package, fn ast.Node, body *ast.BlockStmt) {
			inspectNoLit(body, func(x ast.Node) bool {
				add := func(s ast.Stmt, l ast.Expr, rhs ast.Expr) {
					// l.f, l.f[i], l.f.g ... : the outermost selector on a list
					e := ast.Unparen(l)
					for {
						switch t := e.(type) {
						case *ast.IndexExpr:
							e = ast.Unparen(t.X)
							continue
						case *ast.StarExpr:
							e = ast.Unparen(t.X)
							continue
						case *ast.SelectorExpr:
							if isListExpr(info, t.X) {
								if v, ok := info.ObjectOf(t.Sel).(*types.Var); ok && v.IsField() {
									stores = append(stores, store{pkg, fn, s, t, rhs, v})
								}
								return
							}
							e = ast.Unparen(t.X)
							continue
						}
						return
					}
				}
				switch t := x.(type) {
				case *ast.AssignStmt:
					for i, l := range t.Lhs {
						var rhs ast.Expr
						if len(t.Rhs) == len(t.Lhs) {
							rhs = t.Rhs[i]
						}
						add(t, l, rhs)
					}
				case *ast.IncDecStmt:
					add(t, t.X, nil)
				}
				return true
			})
		})
	}
	// the cache: the fields stored by the method that sets the presence flag (a boolean field set to true)
	cache := map[*types.Var]bool{}
	materialiser := map[ast.Node]bool{}
	// the materialising method stores the items (a slice of values) and sets a flag to true
	setsFlag, storesItems := map[ast.Node]*types.Var{}, map[ast.Node]*types.Var{}
	setsFlagIn := map[ast.Node]bool{}
	for _, s := range stores {
		if d := c.EnclosingDecl(s.stmt); d != nil && s.rhs != nil {
			if tv := s.pkg.TypesInfo.Types[s.rhs]; tv.Value != nil && tv.Value.Kind() == constant.Bool && constant.BoolVal(tv.Value) {
				setsFlagIn[d] = true
			}
		}
	}
	for _, s := range stores {
		d := c.EnclosingDecl(s.stmt)
		if s.rhs == nil || d == nil {
			continue
		}
		if tv := s.pkg.TypesInfo.Types[s.rhs]; tv.Value != nil && tv.Value.Kind() == constant.Bool && constant.BoolVal(tv.Value) {
			setsFlag[d] = s.field
		}
		if as, ok := s.stmt.(*ast.AssignStmt); ok && isValueSlice(s.field.Type()) && len(as.Lhs) == 1 && ast.Unparen(as.Lhs[0]) == ast.Expr(s.sel) {
			if _, setsHere := setsFlagIn[d]; setsHere {
				storesItems[d] = s.field
			}
		}
	}
	for d, f := range setsFlag {
		if it, ok := storesItems[d]; ok {
			materialiser[d] = true
			cache[f], cache[it] = true, true
		}
	}
	if len(stores) < 3 || len(cache) == 0 {
		c.Undecided("value.List#field-stores", token.NoPos, "only %d stores into fields of a list found, %d cache fields derived", len(stores), len(cache))
		return
	}
	_ = vp
	count := map[string]int{}
	for _, s := range stores {
		info := s.pkg.TypesInfo
		base := c.FuncName(s.fn) + litSuffix(c, s.fn)
		count[base+s.field.Name()]++
		key := fmt.Sprintf("%s#list-field-store:%s[%d]", base, s.field.Name(), count[base+s.field.Name()])
		// (i) a list this function has just created
		if id, ok := ast.Unparen(s.sel.X).(*ast.Ident); ok {
			if as, i := definingAssign(info, s.fn, info.ObjectOf(id)); as != nil && len(as.Rhs) == len(as.Lhs) {
				r := ast.Unparen(as.Rhs[i])
				if u, ok := r.(*ast.UnaryExpr); ok && u.Op == token.AND {
					r = ast.Unparen(u.X)
				}
				_, isLit := r.(*ast.CompositeLit)
				if call, ok := r.(*ast.CallExpr); ok && !isLit {
					if bid, ok := ast.Unparen(call.Fun).(*ast.Ident); ok && bid.Name == "new" {
						if _, isB := info.Uses[bid].(*types.Builtin); isB {
							isLit = true
						}
					}
				}
				if call, ok := r.(*ast.CallExpr); ok && !isLit {
					// a constructor: a function that returns a list it has created itself (l := newLazyList(size),
					// l := NewListFromIterable(li))
					if cl, _ := c.ctorLiteral(info, call); cl != nil {
						isLit = true
					} else if cal := Callee(info, call); cal != nil && returnsFreshList(c, la, cal, 0) {
						isLit = true
					}
				}
				if isLit && countAssignments(info, s.fn, info.ObjectOf(id)) == 1 && !c.escapesBefore(info, s.fn, info.ObjectOf(id), s.sel) {
					c.OK(key, s.stmt.Pos(), "store into a list this function has just created")
					continue
				}
			}
		}
		d := c.EnclosingDecl(s.stmt)
		if cache[s.field] {
			// (ii) the cache is filled by the materialising method, or re-sliced to itself (capacity trim)
			whole := false
			if as, ok := s.stmt.(*ast.AssignStmt); ok {
				for _, l := range as.Lhs {
					if ast.Unparen(l) == ast.Expr(s.sel) {
						whole = true
					}
				}
			}
			if d != nil && materialiser[d] && whole {
				c.OK(key, s.stmt.Pos(), "the materialising method fills the cache")
				continue
			}
			if s.rhs != nil && whole {
				// l.items = l.items[:n:n], slices.Clip(l.items), or the same on a local copy of the header (items := l.items)
				r := ast.Unparen(s.rhs)
				var src ast.Expr
				if se, ok := r.(*ast.SliceExpr); ok && se.Low == nil {
					src = se.X
				}
				if call, ok := r.(*ast.CallExpr); ok && len(call.Args) == 1 {
					if cal := Callee(info, call); cal != nil && cal.Pkg() != nil && cal.Pkg().Path() == "slices" && cal.Name() == "Clip" {
						src = call.Args[0]
					}
				}
				if src != nil {
					src = ast.Unparen(src)
					if id, ok := src.(*ast.Ident); ok {
						if as, i := definingAssign(info, s.fn, info.ObjectOf(id)); as != nil && len(as.Rhs) == len(as.Lhs) && countAssignments(info, s.fn, info.ObjectOf(id)) == 1 {
							src = ast.Unparen(as.Rhs[i])
						}
					}
					if nodeStr(c.Fset, src) == nodeStr(c.Fset, s.sel) {
						c.OK(key, s.stmt.Pos(), "the cache is re-sliced to itself (capacity trim), the elements stay")
						continue
					}
				}
			}
			c.Violation(key, s.stmt.Pos(), "the cache field %s of an existing list is overwritten outside the method that materialises the list: the content of a list that other names, evaluations or goroutines hold changes", s.field.Name())
			continue
		}
		c.Violation(key, s.stmt.Pos(), "a store into the field %s of an existing list: a *List is shared by pointer between all holders of the value, between evaluations and between goroutines, and its only mutable part is the cache of its items. State that one observer leaves in the list (a flag, a cursor, a counter) changes what the next or a concurrent observer sees of the same, unchanged value", s.field.Name())
	}
}

// returnsFreshList: every return of the function hands back a list that the
// function created itself: a literal, a local with one definition that is a
// literal or the result of such a function, or the result of such a function.
func returnsFreshList(c *Ctx, la *listAnchors, fn *types.Func, depth int) bool {
	if fn == nil || fn.Pkg() != la.vp.Types || depth > 3 {
		return false
	}
	fd := findFuncDecl(la.vp, fn)
	if fd == nil || fd.Body == nil {
		return false
	}
	info := la.vp.TypesInfo
	var fresh func(e ast.Expr, d int) bool
	fresh = func(e ast.Expr, d int) bool {
		e = ast.Unparen(e)
		if u, ok := e.(*ast.UnaryExpr); ok && u.Op == token.AND {
			e = ast.Unparen(u.X)
		}
		switch t := e.(type) {
		case *ast.CompositeLit:
			nm := namedOf(info.TypeOf(t))
			return nm != nil && nm.Obj() == la.listType
		case *ast.CallExpr:
			if bid, ok := ast.Unparen(t.Fun).(*ast.Ident); ok && bid.Name == "new" {
				if _, isB := info.Uses[bid].(*types.Builtin); isB {
					return true
				}
			}
			return returnsFreshList(c, la, Callee(info, t), depth+1)
		case *ast.Ident:
			if d > 2 {
				return false
			}
			obj := info.ObjectOf(t)
			if as, i := definingAssign(info, fd, obj); as != nil && len(as.Rhs) == len(as.Lhs) && countAssignments(info, fd, obj) == 1 {
				return fresh(as.Rhs[i], d+1)
			}
		}
		return false
	}
	n, all := 0, true
	inspectNoLit(fd.Body, func(x ast.Node) bool {
		if r, ok := x.(*ast.ReturnStmt); ok {
			n++
			if len(r.Results) == 0 || !fresh(r.Results[0], 0) {
				all = false
			}
		}
		return true
	})
	return n > 0 && all
}
