package main

import (
	"fmt"
	"go/ast"
	"go/constant"
	"go/token"
	"go/types"
	"sort"
	"strings"

	"golang.org/x/tools/go/packages"
)

// ---------------------------------------------------------------------------
// abstract evaluation of an escaper: which sinks can a rune reach?

type escSink struct {
	kind string // "raw", "const", "fmt"
	text string // constant text or format
	pos  token.Pos
}

type escaperEval struct {
	c     *Ctx
	info  *types.Info
	rvar  types.Object
	r     rune
	sinks []escSink
	bools map[types.Object]bool // assumed values of boolean parameters (the context flag of an escaper)
}

// tri evaluates a condition for the concrete rune: 1 true, 0 false, -1 unknown.
func (e *escaperEval) tri(x ast.Expr) int {
	x = ast.Unparen(x)
	if tv := e.info.Types[x]; tv.Value != nil && tv.Value.Kind() == constant.Bool {
		if constant.BoolVal(tv.Value) {
			return 1
		}
		return 0
	}
	switch t := x.(type) {
	case *ast.Ident:
		if v, ok := e.bools[e.info.ObjectOf(t)]; ok {
			if v {
				return 1
			}
			return 0
		}
	case *ast.UnaryExpr:
		if t.Op == token.NOT {
			switch e.tri(t.X) {
			case 1:
				return 0
			case 0:
				return 1
			}
		}
	case *ast.BinaryExpr:
		switch t.Op {
		case token.LAND:
			a, b := e.tri(t.X), e.tri(t.Y)
			if a == 0 || b == 0 {
				return 0
			}
			if a == 1 && b == 1 {
				return 1
			}
			return -1
		case token.LOR:
			a, b := e.tri(t.X), e.tri(t.Y)
			if a == 1 || b == 1 {
				return 1
			}
			if a == 0 && b == 0 {
				return 0
			}
			return -1
		case token.LSS, token.LEQ, token.GTR, token.GEQ, token.EQL, token.NEQ:
			lv, lok := e.val(t.X)
			rv, rok := e.val(t.Y)
			if !lok || !rok {
				return -1
			}
			var res bool
			switch t.Op {
			case token.LSS:
				res = lv < rv
			case token.LEQ:
				res = lv <= rv
			case token.GTR:
				res = lv > rv
			case token.GEQ:
				res = lv >= rv
			case token.EQL:
				res = lv == rv
			case token.NEQ:
				res = lv != rv
			}
			if res {
				return 1
			}
			return 0
		}
	}
	return -1
}

func (e *escaperEval) val(x ast.Expr) (int64, bool) {
	x = ast.Unparen(x)
	if tv := e.info.Types[x]; tv.Value != nil {
		return constant.Int64Val(constant.ToInt(tv.Value))
	}
	if id, ok := x.(*ast.Ident); ok && e.info.ObjectOf(id) == e.rvar {
		return int64(e.r), true
	}
	return 0, false
}

// run walks statements; returns false if the path certainly ended (return/continue).
func (e *escaperEval) run(stmts []ast.Stmt) {
	for _, s := range stmts {
		switch t := s.(type) {
		case *ast.ExprStmt:
			e.sink(t.X)
		case *ast.AssignStmt:
			for _, r := range t.Rhs {
				e.sink(r)
			}
		case *ast.IfStmt:
			switch e.tri(t.Cond) {
			case 1:
				e.run(t.Body.List)
			case 0:
				if t.Else != nil {
					e.runStmt(t.Else)
				}
			default:
				e.run(t.Body.List)
				if t.Else != nil {
					e.runStmt(t.Else)
				}
			}
		case *ast.SwitchStmt:
			e.runSwitch(t)
		case *ast.BlockStmt:
			e.run(t.List)
		}
	}
}

func (e *escaperEval) runStmt(s ast.Stmt) {
	e.run([]ast.Stmt{s})
}

func (e *escaperEval) runSwitch(sw *ast.SwitchStmt) {
	// switch r { case consts: ... default: ... }  or tagless
	var def *ast.CaseClause
	matched := false
	for _, cl := range sw.Body.List {
		cc := cl.(*ast.CaseClause)
		if cc.List == nil {
			def = cc
			continue
		}
		for _, ce := range cc.List {
			var res int
			if sw.Tag != nil {
				tv, tok := e.val(sw.Tag)
				cv, cok := e.val(ce)
				if tok && cok {
					if tv == cv {
						res = 1
					}
				} else {
					res = -1
				}
			} else {
				res = e.tri(ce)
			}
			if res == 1 {
				e.run(cc.Body)
				matched = true
				break
			}
			if res == -1 {
				e.run(cc.Body)
			}
		}
		if matched {
			return
		}
	}
	if def != nil {
		e.run(def.Body)
	}
}

// sink records writes.
func (e *escaperEval) sink(x ast.Expr) {
	call, ok := ast.Unparen(x).(*ast.CallExpr)
	if !ok {
		return
	}
	name := ""
	if sel, ok := ast.Unparen(call.Fun).(*ast.SelectorExpr); ok {
		name = sel.Sel.Name
	}
	switch name {
	case "WriteRune", "WriteByte":
		if len(call.Args) == 1 {
			if id, ok := ast.Unparen(call.Args[0]).(*ast.Ident); ok && e.info.ObjectOf(id) == e.rvar {
				e.sinks = append(e.sinks, escSink{"raw", "", call.Pos()})
				return
			}
			if tv := e.info.Types[call.Args[0]]; tv.Value != nil {
				if v, ok := constant.Int64Val(constant.ToInt(tv.Value)); ok {
					e.sinks = append(e.sinks, escSink{"const", string(rune(v)), call.Pos()})
					return
				}
			}
		}
		e.sinks = append(e.sinks, escSink{"raw", "", call.Pos()})
	case "WriteString":
		if len(call.Args) == 1 {
			if tv := e.info.Types[call.Args[0]]; tv.Value != nil && tv.Value.Kind() == constant.String {
				e.sinks = append(e.sinks, escSink{"const", constant.StringVal(tv.Value), call.Pos()})
				return
			}
		}
		e.sinks = append(e.sinks, escSink{"raw", "", call.Pos()})
	case "Fprintf":
		if len(call.Args) >= 2 {
			if tv := e.info.Types[call.Args[1]]; tv.Value != nil && tv.Value.Kind() == constant.String {
				e.sinks = append(e.sinks, escSink{"fmt", constant.StringVal(tv.Value), call.Pos()})
				return
			}
		}
		e.sinks = append(e.sinks, escSink{"raw", "", call.Pos()})
	default:
		if strings.HasPrefix(name, "Write") {
			e.sinks = append(e.sinks, escSink{"raw", "", call.Pos()})
		}
	}
}

// escaperSinks finds the loop over the runes of the string parameter of an
// escaper and evaluates its body for one rune.
func (c *Ctx) escaperSinks(pkg *packages.Package, fd *ast.FuncDecl, r rune) ([]escSink, bool) {
	return c.escaperSinksCtx(pkg, fd, r, nil)
}

// escaperSinksCtx evaluates the escaper with its boolean parameters fixed.
func (c *Ctx) escaperSinksCtx(pkg *packages.Package, fd *ast.FuncDecl, r rune, bools map[types.Object]bool) ([]escSink, bool) {
	info := pkg.TypesInfo
	var loop *ast.RangeStmt
	ast.Inspect(fd.Body, func(x ast.Node) bool {
		if rs, ok := x.(*ast.RangeStmt); ok && loop == nil {
			if b, ok := info.TypeOf(rs.X).Underlying().(*types.Basic); ok && b.Info()&types.IsString != 0 {
				loop = rs
			}
		}
		return true
	})
	if loop == nil {
		return nil, false
	}
	v, ok := loop.Value.(*ast.Ident)
	if !ok {
		return nil, false
	}
	ev := &escaperEval{c: c, info: info, rvar: info.Defs[v], r: r, bools: bools}
	ev.run(loop.Body.List)
	return ev.sinks, true
}

// ---------------------------------------------------------------------------
// R17.1 JSON string escaper

func ruleR171(c *Ctx) {
	ep := c.Pkg("value/export")
	if ep == nil {
		c.Undecided("package value/export", token.NoPos, "not found")
		return
	}
	fd := c.FuncDecl(ep, "jsonExporter", "String")
	if fd == nil {
		c.Undecided("value/export.jsonExporter.String", token.NoPos, "not found")
		return
	}
	valid := func(r rune, s escSink) string {
		switch s.kind {
		case "raw":
			if r < 0x20 || r == '"' || r == '\\' {
				return "is written raw"
			}
			return ""
		case "const":
			short := map[rune]string{'"': `\"`, '\\': `\\`, '\n': `\n`, '\r': `\r`, '\t': `\t`, '\b': `\b`, '\f': `\f`, '/': `\/`}
			if s.text == short[r] || s.text == fmt.Sprintf(`\u%04x`, r) || s.text == fmt.Sprintf(`\u%04X`, r) {
				return ""
			}
			if s.text == string(r) && !(r < 0x20 || r == '"' || r == '\\') {
				return ""
			}
			return fmt.Sprintf("is written as %q", s.text)
		case "fmt":
			if s.text == `\u%04x` || s.text == `\u%04X` {
				if r > 0xFFFF {
					return `can be written with the format \u%04x, which gives more than four hex digits above U+FFFF (a surrogate pair is required)`
				}
				return ""
			}
			return fmt.Sprintf("is written with the format %q", s.text)
		}
		return "reaches an unknown sink"
	}
	var samples []rune
	for r := rune(0); r < 0x20; r++ {
		samples = append(samples, r)
	}
	samples = append(samples, '"', '\\', ' ', 'a', '/', 0x7f, 0x80, 0xe4, 0x2028, 0x2029, 0xd7ff, 0xe000, 0xfffd, 0xffff, 0x10000, 0x1f600, 0xe0001, 0x10ffff)
	n := 0
	var problems []string
	for _, r := range samples {
		sinks, ok := c.escaperSinks(ep, fd, r)
		if !ok {
			c.Undecided("value/export.jsonExporter.String#escaper", fd.Pos(), "loop over the runes of the string not found")
			return
		}
		n++
		if len(sinks) == 0 {
			problems = append(problems, fmt.Sprintf("U+%04X is dropped", r))
			continue
		}
		for _, s := range sinks {
			if msg := valid(r, s); msg != "" {
				problems = append(problems, fmt.Sprintf("U+%04X %s (%s)", r, msg, c.posStr(s.pos)))
			}
		}
	}
	// summarise
	key := "value/export.jsonExporter.String#escaper"
	if len(problems) == 0 {
		c.OK(key, fd.Pos(), "abstract evaluation of the escaper for %d representative code points (all of U+0000-U+001F, quote, backslash, BMP and supplementary samples): every possible sink is a valid JSON representation of the code point", n)
	} else {
		sort.Strings(problems)
		if len(problems) > 6 {
			problems = append(problems[:6], fmt.Sprintf("... and %d more", len(problems)-6))
		}
		c.Violation(key, fd.Pos(), "the JSON string escaper can emit text that a JSON parser rejects or decodes to another string: %s", strings.Join(problems, "; "))
	}
	// quotes around
	key = "value/export.jsonExporter.String#quotes"
	nq := 0
	inspectNoLit(fd.Body, func(x ast.Node) bool {
		if call, ok := x.(*ast.CallExpr); ok && len(call.Args) == 1 {
			if tv := ep.TypesInfo.Types[call.Args[0]]; tv.Value != nil && tv.Value.Kind() == constant.String && constant.StringVal(tv.Value) == `"` {
				if _, inLoop := c.Parent(c.Parent(call)).(*ast.BlockStmt); inLoop {
					if _, isFn := c.Parent(c.Parent(c.Parent(call))).(*ast.FuncDecl); isFn {
						nq++
					}
				}
			}
		}
		return true
	})
	c.Check(nq == 2, key, fd.Pos(), "the string is enclosed in one opening and one closing quote", fmt.Sprintf("the string is enclosed in %d quote writes instead of 2", nq))
}

// ---------------------------------------------------------------------------
// R17.2 separator typestate of the container exporters

func ruleR172(c *Ctx) {
	ep := c.Pkg("value/export")
	if ep == nil {
		c.Undecided("package value/export", token.NoPos, "not found")
		return
	}
	info := ep.TypesInfo
	for _, typ := range []struct{ name, open, close string }{{"jsonListExporter", "[", "]"}, {"jsonMapExporter", "{", "}"}} {
		add := c.FuncDecl(ep, typ.name, "Add")
		key := "value/export." + typ.name
		if add == nil || len(add.Recv.List[0].Names) != 1 {
			c.Undecided(key, token.NoPos, "Add not found")
			continue
		}
		recv := info.Defs[add.Recv.List[0].Names[0]]
		var problems []string
		// (i) every literal starts with first: true
		nLit := 0
		for _, f := range ep.Syntax {
			ast.Inspect(f, func(x ast.Node) bool {
				cl, ok := x.(*ast.CompositeLit)
				if !ok || !isNamed(info.TypeOf(cl), modPath+"/value/export", typ.name) {
					return true
				}
				nLit++
				okFirst := false
				for _, el := range cl.Elts {
					if kv, ok := el.(*ast.KeyValueExpr); ok {
						if k, ok := kv.Key.(*ast.Ident); ok && k.Name == "first" {
							if tv := info.Types[kv.Value]; tv.Value != nil && constant.BoolVal(tv.Value) {
								okFirst = true
							}
						}
					}
				}
				if !okFirst {
					problems = append(problems, "a container exporter is created without first:true (a separator is written in front of the first member)")
				}
				return true
			})
		}
		if nLit == 0 {
			problems = append(problems, "no literal of the exporter found")
		}
		// (ii) the comma is written exactly when the receiver's own first flag is false, and the flag is cleared otherwise
		g := c.CFG(add)
		var comma *ast.CallExpr
		ast.Inspect(add.Body, func(x ast.Node) bool {
			if call, ok := x.(*ast.CallExpr); ok && len(call.Args) == 1 {
				if tv := info.Types[call.Args[0]]; tv.Value != nil && tv.Value.Kind() == constant.String && constant.StringVal(tv.Value) == "," {
					comma = call
				}
			}
			return true
		})
		ownFirst := func(e ast.Expr) bool {
			sel, ok := ast.Unparen(e).(*ast.SelectorExpr)
			if !ok || sel.Sel.Name != "first" {
				return false
			}
			id, ok := ast.Unparen(sel.X).(*ast.Ident)
			return ok && info.ObjectOf(id) == recv
		}
		if comma == nil {
			problems = append(problems, "no separator is written between the members")
		} else {
			guarded := false
			for _, gd := range g.Guards(comma) {
				if !gd.Val && ownFirst(gd.Cond) {
					guarded = true
				}
			}
			if !guarded {
				problems = append(problems, "the separator is not written under 'the flag first of this very container is false' (a flag shared between containers, or another condition, lets nested and sibling containers disturb each other)")
			}
			cleared := false
			ast.Inspect(add.Body, func(x ast.Node) bool {
				as, ok := x.(*ast.AssignStmt)
				if !ok || len(as.Lhs) != 1 || len(as.Rhs) != 1 || !ownFirst(as.Lhs[0]) {
					return true
				}
				if tv := info.Types[as.Rhs[0]]; tv.Value != nil && !constant.BoolVal(tv.Value) {
					for _, gd := range g.Guards(as) {
						if gd.Val && ownFirst(gd.Cond) {
							cleared = true
						}
					}
				}
				return true
			})
			if !cleared {
				problems = append(problems, "the flag first is not cleared when the first member is written")
			}
		}
		// (iii) Open / Close write the matching brackets
		for _, m := range []struct{ name, want string }{{"Open", typ.open}, {"Close", typ.close}} {
			fd := c.FuncDecl(ep, typ.name, m.name)
			if fd == nil {
				problems = append(problems, m.name+" not found")
				continue
			}
			var written []string
			ast.Inspect(fd.Body, func(x ast.Node) bool {
				if call, ok := x.(*ast.CallExpr); ok && len(call.Args) == 1 {
					if tv := info.Types[call.Args[0]]; tv.Value != nil && tv.Value.Kind() == constant.String {
						written = append(written, constant.StringVal(tv.Value))
					}
				}
				return true
			})
			if len(written) != 1 || written[0] != m.want {
				problems = append(problems, fmt.Sprintf("%s writes %q instead of %q", m.name, written, m.want))
			}
		}
		c.Check(len(problems) == 0, key, add.Pos(), "starts with first:true, writes ',' exactly in front of every member but the first of this container, and the matching brackets", strings.Join(problems, "; "))
	}
}

// ---------------------------------------------------------------------------
// R17.3 text reaches the JSON buffer only through the escaper

func ruleR173(c *Ctx) {
	ep := c.Pkg("value/export")
	if ep == nil {
		c.Undecided("package value/export", token.NoPos, "not found")
		return
	}
	info := ep.TypesInfo
	n := 0
	for _, f := range ep.Syntax {
		for _, d := range f.Decls {
			fd, ok := d.(*ast.FuncDecl)
			if !ok || fd.Body == nil || fd.Recv == nil || !strings.HasPrefix(recvTypeName(fd.Recv.List[0].Type), "json") {
				continue
			}
			isEscaper := recvTypeName(fd.Recv.List[0].Type) == "jsonExporter" && fd.Name.Name == "String"
			ast.Inspect(fd.Body, func(x ast.Node) bool {
				call, ok := x.(*ast.CallExpr)
				if !ok {
					return true
				}
				sel, ok := ast.Unparen(call.Fun).(*ast.SelectorExpr)
				if !ok || !infallibleReceiver(info.TypeOf(sel.X)) && !(sel.Sel.Name == "Fprintf") {
					return true
				}
				if !strings.HasPrefix(sel.Sel.Name, "Write") && sel.Sel.Name != "Fprintf" {
					return true
				}
				n++
				key := fmt.Sprintf("%s#buffer-write[%d]", declName(ep, fd), ordinalIn(fd, call, func(y ast.Node) bool { _, ok := y.(*ast.CallExpr); return ok }))
				allConst := true
				for _, a := range call.Args {
					if info.Types[a].Value == nil {
						if infallibleReceiver(info.TypeOf(a)) {
							continue // the buffer itself as first argument of Fprintf
						}
						allConst = false
					}
				}
				if allConst || isEscaper {
					c.OK(key, call.Pos(), "writes %s", map[bool]string{true: "a constant", false: "inside the escaper"}[allConst])
				} else {
					c.Violation(key, call.Pos(), "%s writes the non constant text %s into the JSON document without going through the string escaper: quotes, backslashes and control characters in keys or values break the document", declName(ep, fd), nodeStr(c.Fset, call.Args[len(call.Args)-1]))
				}
				return true
			})
		}
	}
	if n < 8 {
		c.Undecided("value/export#json-buffer-writes", token.NoPos, "only %d buffer writes found", n)
	}
}

// ---------------------------------------------------------------------------
// R17.4 the generic traversal closes what it opened and exports present keys only

func ruleR174(c *Ctx) {
	ep := c.Pkg("value/export")
	if ep == nil {
		c.Undecided("package value/export", token.NoPos, "not found")
		return
	}
	info := ep.TypesInfo
	export := c.FuncDecl(ep, "", "Export")
	if export == nil {
		c.Undecided("value/export.Export", token.NoPos, "not found")
		return
	}
	// the generic traversal: Export and the functions of the package it calls (the container cases may be
	// extracted into helpers)
	traversal := []*ast.FuncDecl{export}
	seenDecl := map[*ast.FuncDecl]bool{export: true}
	for i := 0; i < len(traversal) && i < 8; i++ {
		ast.Inspect(traversal[i].Body, func(x ast.Node) bool {
			if call, ok := x.(*ast.CallExpr); ok {
				if cal := Callee(info, call); cal != nil && cal.Pkg() == ep.Types && cal.Type().(*types.Signature).Recv() == nil {
					if d := findFuncDecl(ep, cal); d != nil && d.Body != nil && !seenDecl[d] {
						seenDecl[d] = true
						traversal = append(traversal, d)
					}
				}
			}
			return true
		})
	}
	isExporterIface := func(t types.Type) bool {
		nm := namedOf(t)
		if nm == nil || nm.Obj().Pkg() != ep.Types {
			return false
		}
		_, isIface := nm.Underlying().(*types.Interface)
		return isIface && (nm.Obj().Name() == "ListExporter" || nm.Obj().Name() == "MapExporter")
	}
	n := 0
	var addCall *ast.CallExpr
	var addDecl *ast.FuncDecl
	for _, fd := range traversal {
		fd := fd
		g := c.CFG(fd)
		fname := declName(ep, fd)
		inspectNoLit(fd.Body, func(x ast.Node) bool {
			call, ok := x.(*ast.CallExpr)
			if !ok {
				return true
			}
			sel, ok := ast.Unparen(call.Fun).(*ast.SelectorExpr)
			if !ok {
				return true
			}
			if sel.Sel.Name == "Add" && len(call.Args) == 2 && isExporterIface(info.TypeOf(sel.X)) {
				addCall, addDecl = call, fd
			}
			if sel.Sel.Name != "Open" || !isExporterIface(info.TypeOf(sel.X)) {
				return true
			}
			id, ok := ast.Unparen(sel.X).(*ast.Ident)
			if !ok {
				return true
			}
			obj := info.ObjectOf(id)
			n++
			key := fmt.Sprintf("%s#open-close:%s", fname, id.Name)
			isClose := func(y ast.Node) bool {
				return containsNode(y, func(z ast.Node) bool {
					cc, ok := z.(*ast.CallExpr)
					if !ok {
						return false
					}
					s2, ok := ast.Unparen(cc.Fun).(*ast.SelectorExpr)
					if !ok || s2.Sel.Name != "Close" {
						return false
					}
					i2, ok := ast.Unparen(s2.X).(*ast.Ident)
					return ok && info.ObjectOf(i2) == obj
				})
			}
			isSuccessExit := func(y ast.Node) bool {
				r, ok := y.(*ast.ReturnStmt)
				if !ok {
					return false
				}
				if isClose(r) {
					return false
				}
				// error exits: return err under err != nil
				for _, gd := range g.Guards(r) {
					if be, ok := ast.Unparen(gd.Cond).(*ast.BinaryExpr); ok && be.Op == token.NEQ && gd.Val && !gd.Synth {
						if eid, ok := ast.Unparen(be.X).(*ast.Ident); ok && isErrorType(info.TypeOf(eid)) {
							return false
						}
					}
				}
				return true
			}
			blk, idx, ok := g.Pos(call)
			if !ok {
				return true
			}
			found, trail := g.PathAvoiding(blk.Nodes[idx], isSuccessExit, isClose)
			if found {
				c.Violation(key, call.Pos(), "after %s.Open() there is a path to a successful return (%s) that does not call %s.Close(): the container is left open and the document is not well formed", id.Name, c.posStr(trail[len(trail)-1].Pos()), id.Name)
			} else {
				c.OK(key, call.Pos(), "every path from Open to a successful return calls Close")
			}
			return true
		})
	}
	if n < 2 {
		c.Undecided("value/export.Export#open-close", export.Pos(), "expected the list and the map case, found %d Open calls", n)
	}
	// present keys only: ma.Add(k, item) under ok of v.Get(k); keys collected by append
	key := "value/export.Export#present-keys-only"
	if addCall == nil {
		c.Undecided(key, export.Pos(), "map member export not found")
		return
	}
	fd := addDecl
	g := c.CFG(fd)
	guarded := false
	for _, gd := range g.Guards(addCall) {
		if id, ok := ast.Unparen(gd.Cond).(*ast.Ident); ok && gd.Val {
			if as, i := definingAssign(info, fd, info.ObjectOf(id)); as != nil && i == 1 && len(as.Rhs) == 1 {
				if call, ok := ast.Unparen(as.Rhs[0]).(*ast.CallExpr); ok {
					if sel, ok := ast.Unparen(call.Fun).(*ast.SelectorExpr); ok && sel.Sel.Name == "Get" {
						guarded = true
					}
				}
			}
		}
	}
	keysByAppend := true
	ast.Inspect(fd.Body, func(x ast.Node) bool {
		call, ok := x.(*ast.CallExpr)
		if !ok {
			return true
		}
		if id, ok := ast.Unparen(call.Fun).(*ast.Ident); ok && id.Name == "make" && len(call.Args) >= 2 {
			if sl, ok := info.TypeOf(call.Args[0]).Underlying().(*types.Slice); ok {
				if b, ok := sl.Elem().Underlying().(*types.Basic); ok && b.Kind() == types.String {
					if v, isC := constInt(info.Types[call.Args[1]]); !isC || v != 0 {
						keysByAppend = false
					}
				}
			}
		}
		return true
	})
	// Neither form is required for the property: with the key-domain agreement of all map storages
	// (R13.1, part of this property's rule set: Size = number of iterated keys, Get finds exactly those)
	// a presized key list has no unused slot and a lookup of an iterated key cannot fail.
	switch {
	case guarded && keysByAppend:
		c.OK(key, addCall.Pos(), "keys are collected by append while iterating, and a member is exported only if Get finds its key")
	case guarded:
		c.OK(key, addCall.Pos(), "a member is exported only if Get finds its key (unused slots of the presized key list are dropped)")
	case keysByAppend:
		c.OK(key, addCall.Pos(), "keys are collected by append while iterating: every exported key is a key of the map (Get finds it by R13.1)")
	default:
		c.OK(key, addCall.Pos(), "the key list is sized by Size() and the lookup result is not tested: exact only because Size, Iter and Get of every map storage agree (R13.1, checked with this property)")
	}
}
