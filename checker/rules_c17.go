package main

import (
	"fmt"
	"go/ast"
	"go/constant"
	"go/token"
	"go/types"
	"sort"
	"strings"

	"golang.org/x/tools/go/packages"
)

// ---------------------------------------------------------------------------
// abstract evaluation of an escaper: which sinks can a rune reach?

type escSink struct {
	kind string // "raw", "const", "fmt"
	text string // constant text or format
	pos  token.Pos
}

type escaperEval struct {
	c     *Ctx
	info  *types.Info
	rvar  types.Object
	r     rune
	sinks []escSink
	bools map[types.Object]bool // assumed values of boolean parameters (the context flag of an escaper)
	pkg   *packages.Package
	// the loop variable may be overwritten before it is written (r = '\uFFFD'): replaced says that on the evaluated
	// path it certainly was (r holds the new value), alts are values it may have under conditions that stayed unknown
	replaced  bool
	alts      []int64 // -1: a value that is no constant
	uncertain int
	// strs: local string variables with a known constant value (ref, ok := escapeRune(r, attr))
	strs map[types.Object]string
	// evaluation of a helper function: the values it can return, and whether the current path has ended
	rets  []escRet
	ended bool
	broke bool // the path ended with a break (which leaves a switch only)
	depth int
}

// escRet is one possible result of a helper of an escaper: (string, bool) or (string).
type escRet struct {
	str   string
	known bool // the string is a constant
	ok    int  // 1 true, 0 false, -1 unknown or absent
}

// tri evaluates a condition for the concrete rune: 1 true, 0 false, -1 unknown.
func (e *escaperEval) tri(x ast.Expr) int {
	x = ast.Unparen(x)
	if tv := e.info.Types[x]; tv.Value != nil && tv.Value.Kind() == constant.Bool {
		if constant.BoolVal(tv.Value) {
			return 1
		}
		return 0
	}
	switch t := x.(type) {
	case *ast.Ident:
		if v, ok := e.bools[e.info.ObjectOf(t)]; ok {
			if v {
				return 1
			}
			return 0
		}
	case *ast.CallExpr:
		// a predicate over the rune (unicode.IsControl(r), isXMLChar(r)): evaluated as a set of code points
		if e.pkg != nil && !e.replaced && len(e.alts) == 0 {
			p := &runePred{c: e.c, pkg: e.pkg, v: e.rvar}
			set := p.eval(t)
			if p.fail == "" {
				for _, iv := range set {
					if iv.lo <= e.r && e.r <= iv.hi {
						return 1
					}
				}
				return 0
			}
		}
	case *ast.UnaryExpr:
		if t.Op == token.NOT {
			switch e.tri(t.X) {
			case 1:
				return 0
			case 0:
				return 1
			}
		}
	case *ast.BinaryExpr:
		switch t.Op {
		case token.LAND:
			a, b := e.tri(t.X), e.tri(t.Y)
			if a == 0 || b == 0 {
				return 0
			}
			if a == 1 && b == 1 {
				return 1
			}
			return -1
		case token.LOR:
			a, b := e.tri(t.X), e.tri(t.Y)
			if a == 1 || b == 1 {
				return 1
			}
			if a == 0 && b == 0 {
				return 0
			}
			return -1
		case token.LSS, token.LEQ, token.GTR, token.GEQ, token.EQL, token.NEQ:
			lv, lok := e.val(t.X)
			rv, rok := e.val(t.Y)
			if !lok || !rok {
				return -1
			}
			var res bool
			switch t.Op {
			case token.LSS:
				res = lv < rv
			case token.LEQ:
				res = lv <= rv
			case token.GTR:
				res = lv > rv
			case token.GEQ:
				res = lv >= rv
			case token.EQL:
				res = lv == rv
			case token.NEQ:
				res = lv != rv
			}
			if res {
				return 1
			}
			return 0
		}
	}
	return -1
}

func (e *escaperEval) val(x ast.Expr) (int64, bool) {
	x = ast.Unparen(x)
	if tv := e.info.Types[x]; tv.Value != nil {
		return constant.Int64Val(constant.ToInt(tv.Value))
	}
	if id, ok := x.(*ast.Ident); ok && e.info.ObjectOf(id) == e.rvar {
		return int64(e.r), true
	}
	return 0, false
}

// run walks statements; returns false if the path certainly ended (return/continue).
func (e *escaperEval) run(stmts []ast.Stmt) {
	for _, s := range stmts {
		if e.ended {
			return
		}
		switch t := s.(type) {
		case *ast.ReturnStmt:
			ret := escRet{ok: -1}
			if len(t.Results) >= 1 {
				if tv := e.info.Types[t.Results[0]]; tv.Value != nil && tv.Value.Kind() == constant.String {
					ret.str, ret.known = constant.StringVal(tv.Value), true
				} else if id, isID := ast.Unparen(t.Results[0]).(*ast.Ident); isID {
					if sv, has := e.strs[e.info.ObjectOf(id)]; has {
						ret.str, ret.known = sv, true
					}
				}
				for _, r := range t.Results {
					e.sink(r)
				}
			}
			if len(t.Results) == 2 {
				ret.ok = e.tri(t.Results[1])
			}
			e.rets = append(e.rets, ret)
			e.ended = true
			return
		case *ast.BranchStmt:
			if t.Tok == token.CONTINUE || t.Tok == token.BREAK {
				// continue: the body of the loop over the runes is left for this rune; break inside a switch ends the clause
				e.ended = true
				e.broke = t.Tok == token.BREAK
				return
			}
		case *ast.ExprStmt:
			e.sink(t.X)
		case *ast.AssignStmt:
			for _, r := range t.Rhs {
				e.sink(r)
			}
			// the rune itself is overwritten: what is written afterwards is no longer the rune of the string
			for i, l := range t.Lhs {
				if id, ok := ast.Unparen(l).(*ast.Ident); ok && e.info.ObjectOf(id) == e.rvar && e.rvar != nil {
					nv := int64(-1)
					if t.Tok == token.ASSIGN && len(t.Rhs) == len(t.Lhs) {
						if tv := e.info.Types[t.Rhs[i]]; tv.Value != nil {
							if v, ok := constant.Int64Val(constant.ToInt(tv.Value)); ok {
								nv = v
							}
						}
					}
					if e.uncertain == 0 && nv >= 0 {
						e.r, e.replaced = rune(nv), true
					} else {
						e.alts = append(e.alts, nv)
					}
				}
			}
		case *ast.IfStmt:
			if t.Init != nil {
				// x, ok := table[r]  /  x, ok := helper(r, flags): the possible outcomes are evaluated one by one
				if outs, ok := e.initOutcomes(t.Init); ok {
					as := t.Init.(*ast.AssignStmt)
					allEnded := true
					for _, o := range outs {
						if id, isID := as.Lhs[0].(*ast.Ident); isID && id.Name != "_" {
							if e.strs == nil {
								e.strs = map[types.Object]string{}
							}
							if o.known {
								e.strs[e.info.ObjectOf(id)] = o.str
							} else {
								delete(e.strs, e.info.ObjectOf(id))
							}
						}
						if len(as.Lhs) == 2 {
							if id, isID := as.Lhs[1].(*ast.Ident); isID && id.Name != "_" {
								if e.bools == nil {
									e.bools = map[types.Object]bool{}
								}
								if o.ok >= 0 {
									e.bools[e.info.ObjectOf(id)] = o.ok == 1
								} else {
									delete(e.bools, e.info.ObjectOf(id))
								}
							}
						}
						e.ended = false
						e.ifBranches(t)
						if !e.ended {
							allEnded = false
						}
					}
					e.ended = allEnded && len(outs) > 0
					continue
				}
				e.runStmt(t.Init)
			}
			e.ifBranches(t)
		case *ast.SwitchStmt:
			e.runSwitch(t)
		case *ast.BlockStmt:
			e.run(t.List)
		}
	}
}

func (e *escaperEval) runStmt(s ast.Stmt) {
	e.run([]ast.Stmt{s})
}

// ifBranches evaluates the condition of an if statement for the current rune and runs the branch(es) it admits.
func (e *escaperEval) ifBranches(t *ast.IfStmt) {
	switch e.tri(t.Cond) {
	case 1:
		e.run(t.Body.List)
	case 0:
		if t.Else != nil {
			e.runStmt(t.Else)
		}
	default:
		e.uncertain++
		e.run(t.Body.List)
		endedA := e.ended
		e.ended = false
		if t.Else != nil {
			e.runStmt(t.Else)
		}
		e.ended = endedA && e.ended
		e.uncertain--
	}
}

// initOutcomes evaluates `x, ok := table[r]` (a map literal at package level that is never assigned) or
// `x[, ok] := helper(r, flags...)` (a function of the package, interpreted for the current rune).
func (e *escaperEval) initOutcomes(init ast.Stmt) ([]escRet, bool) {
	as, ok := init.(*ast.AssignStmt)
	if !ok || len(as.Rhs) != 1 || len(as.Lhs) < 1 || len(as.Lhs) > 2 || e.replaced || len(e.alts) > 0 {
		return nil, false
	}
	isRune := func(x ast.Expr) bool {
		id, ok := ast.Unparen(x).(*ast.Ident)
		return ok && e.info.ObjectOf(id) == e.rvar
	}
	switch rhs := ast.Unparen(as.Rhs[0]).(type) {
	case *ast.IndexExpr:
		if !isRune(rhs.Index) {
			return nil, false
		}
		id, ok := ast.Unparen(rhs.X).(*ast.Ident)
		if !ok {
			return nil, false
		}
		v, ok := e.info.ObjectOf(id).(*types.Var)
		if !ok || v.Parent() != v.Pkg().Scope() {
			return nil, false
		}
		lit, ok := singleDefExpr[v]
		if !ok {
			return nil, false
		}
		cl, ok := ast.Unparen(lit).(*ast.CompositeLit)
		if !ok {
			return nil, false
		}
		if _, isMap := e.info.TypeOf(cl).Underlying().(*types.Map); !isMap {
			return nil, false
		}
		for _, el := range cl.Elts {
			kv, ok := el.(*ast.KeyValueExpr)
			if !ok {
				return nil, false
			}
			ktv, vtv := e.info.Types[kv.Key], e.info.Types[kv.Value]
			if ktv.Value == nil || vtv.Value == nil || vtv.Value.Kind() != constant.String {
				return nil, false
			}
			if k, ok := constant.Int64Val(constant.ToInt(ktv.Value)); ok && rune(k) == e.r {
				return []escRet{{str: constant.StringVal(vtv.Value), known: true, ok: 1}}, true
			}
		}
		return []escRet{{str: "", known: true, ok: 0}}, true
	case *ast.CallExpr:
		if e.pkg == nil || e.depth > 2 {
			return nil, false
		}
		cal := Callee(e.info, rhs)
		if cal == nil || cal.Pkg() != e.pkg.Types {
			return nil, false
		}
		fd := findFuncDecl(e.pkg, cal)
		if fd == nil || fd.Body == nil || fd.Type.Params == nil || fd.Type.Results == nil {
			return nil, false
		}
		var params []*ast.Ident
		for _, fl := range fd.Type.Params.List {
			params = append(params, fl.Names...)
		}
		if len(params) != len(rhs.Args) {
			return nil, false
		}
		sub := &escaperEval{c: e.c, info: e.info, pkg: e.pkg, r: e.r, bools: map[types.Object]bool{}, depth: e.depth + 1}
		for i, a := range rhs.Args {
			switch {
			case isRune(a) && sub.rvar == nil:
				sub.rvar = e.info.Defs[params[i]]
			default:
				switch e.tri(a) {
				case 1:
					sub.bools[e.info.Defs[params[i]]] = true
				case 0:
					sub.bools[e.info.Defs[params[i]]] = false
				default:
					return nil, false
				}
			}
		}
		if sub.rvar == nil {
			return nil, false
		}
		sub.run(fd.Body.List)
		// a helper that writes itself is not a pure (string, bool) function of the rune
		if len(sub.sinks) > 0 || len(sub.rets) == 0 || !sub.ended {
			return nil, false
		}
		return sub.rets, true
	}
	return nil, false
}

func (e *escaperEval) runSwitch(sw *ast.SwitchStmt) {
	// switch r { case consts: ... default: ... }  or tagless
	var def *ast.CaseClause
	matched := false
	for _, cl := range sw.Body.List {
		cc := cl.(*ast.CaseClause)
		if cc.List == nil {
			def = cc
			continue
		}
		for _, ce := range cc.List {
			var res int
			if sw.Tag != nil {
				tv, tok := e.val(sw.Tag)
				cv, cok := e.val(ce)
				if tok && cok {
					if tv == cv {
						res = 1
					}
				} else {
					res = -1
				}
			} else {
				res = e.tri(ce)
			}
			if res == 1 {
				e.run(cc.Body)
				matched = true
				break
			}
			if res == -1 {
				e.uncertain++
				e.run(cc.Body)
				e.uncertain--
				e.ended, e.broke = false, false // the clause may not have been taken
			}
		}
		if matched {
			if e.broke {
				e.ended, e.broke = false, false // break leaves the switch, the statements behind it run
			}
			return
		}
	}
	if def != nil {
		e.run(def.Body)
		if e.broke {
			e.ended, e.broke = false, false
		}
	}
}

// sink records writes.
func (e *escaperEval) sink(x ast.Expr) {
	call, ok := ast.Unparen(x).(*ast.CallExpr)
	if !ok {
		return
	}
	name := ""
	if sel, ok := ast.Unparen(call.Fun).(*ast.SelectorExpr); ok {
		name = sel.Sel.Name
	}
	switch name {
	case "WriteRune", "WriteByte":
		if len(call.Args) == 1 {
			if id, ok := ast.Unparen(call.Args[0]).(*ast.Ident); ok && e.info.ObjectOf(id) == e.rvar {
				if e.replaced {
					e.sinks = append(e.sinks, escSink{"const", string(e.r), call.Pos()})
				} else {
					e.sinks = append(e.sinks, escSink{"raw", "", call.Pos()})
				}
				for _, a := range e.alts {
					if a >= 0 {
						e.sinks = append(e.sinks, escSink{"const", string(rune(a)), call.Pos()})
					} else {
						e.sinks = append(e.sinks, escSink{"const", "a computed value", call.Pos()})
					}
				}
				return
			}
			if tv := e.info.Types[call.Args[0]]; tv.Value != nil {
				if v, ok := constant.Int64Val(constant.ToInt(tv.Value)); ok {
					e.sinks = append(e.sinks, escSink{"const", string(rune(v)), call.Pos()})
					return
				}
			}
		}
		e.sinks = append(e.sinks, escSink{"raw", "", call.Pos()})
	case "WriteString":
		if len(call.Args) == 1 {
			if id, ok := ast.Unparen(call.Args[0]).(*ast.Ident); ok {
				if sv, has := e.strs[e.info.ObjectOf(id)]; has {
					e.sinks = append(e.sinks, escSink{"const", sv, call.Pos()})
					return
				}
			}
			if tv := e.info.Types[call.Args[0]]; tv.Value != nil && tv.Value.Kind() == constant.String {
				e.sinks = append(e.sinks, escSink{"const", constant.StringVal(tv.Value), call.Pos()})
				return
			}
		}
		e.sinks = append(e.sinks, escSink{"raw", "", call.Pos()})
	case "Fprintf":
		if len(call.Args) >= 2 {
			if tv := e.info.Types[call.Args[1]]; tv.Value != nil && tv.Value.Kind() == constant.String {
				e.sinks = append(e.sinks, escSink{"fmt", constant.StringVal(tv.Value), call.Pos()})
				return
			}
		}
		e.sinks = append(e.sinks, escSink{"raw", "", call.Pos()})
	default:
		if strings.HasPrefix(name, "Write") {
			e.sinks = append(e.sinks, escSink{"raw", "", call.Pos()})
		}
	}
}

// escaperSinks finds the loop over the runes of the string parameter of an
// escaper and evaluates its body for one rune.
func (c *Ctx) escaperSinks(pkg *packages.Package, fd *ast.FuncDecl, r rune) ([]escSink, bool) {
	return c.escaperSinksCtx(pkg, fd, r, nil)
}

// escaperSinksCtx evaluates the escaper with its boolean parameters fixed.
func (c *Ctx) escaperSinksCtx(pkg *packages.Package, fd *ast.FuncDecl, r rune, bools map[types.Object]bool) ([]escSink, bool) {
	info := pkg.TypesInfo
	var loop *ast.RangeStmt
	ast.Inspect(fd.Body, func(x ast.Node) bool {
		if rs, ok := x.(*ast.RangeStmt); ok && loop == nil {
			if b, ok := info.TypeOf(rs.X).Underlying().(*types.Basic); ok && b.Info()&types.IsString != 0 {
				loop = rs
			}
		}
		return true
	})
	if loop == nil {
		return nil, false
	}
	v, ok := loop.Value.(*ast.Ident)
	if !ok {
		return nil, false
	}
	ev := &escaperEval{c: c, info: info, rvar: info.Defs[v], r: r, bools: bools, pkg: pkg}
	ev.run(loop.Body.List)
	return ev.sinks, true
}

// jsonEscaperDecl resolves the function that escapes a string for the JSON
// document: jsonExporter.String itself, or the function of the package it
// hands the string to (two levels), found by its loop over the runes.
func (c *Ctx) jsonEscaperDecl(ep *packages.Package) *ast.FuncDecl {
	info := ep.TypesInfo
	start := c.FuncDecl(ep, "jsonExporter", "String")
	if start == nil {
		return nil
	}
	hasRuneLoop := func(fd *ast.FuncDecl) bool {
		return containsNode(fd.Body, func(x ast.Node) bool {
			rs, ok := x.(*ast.RangeStmt)
			if !ok {
				return false
			}
			b, ok := info.TypeOf(rs.X).Underlying().(*types.Basic)
			return ok && b.Info()&types.IsString != 0
		})
	}
	cur := []*ast.FuncDecl{start}
	for depth := 0; depth < 3; depth++ {
		var next []*ast.FuncDecl
		for _, fd := range cur {
			if hasRuneLoop(fd) {
				return fd
			}
			ast.Inspect(fd.Body, func(x ast.Node) bool {
				if call, ok := x.(*ast.CallExpr); ok {
					if cal := Callee(info, call); cal != nil && cal.Pkg() == ep.Types {
						if d := findFuncDecl(ep, cal); d != nil && d.Body != nil {
							next = append(next, d)
						}
					}
				}
				return true
			})
		}
		cur = next
	}
	return start
}

// ---------------------------------------------------------------------------
// R17.1 JSON string escaper

func ruleR171(c *Ctx) {
	ep := c.Pkg("value/export")
	if ep == nil {
		c.Undecided("package value/export", token.NoPos, "not found")
		return
	}
	fd := c.jsonEscaperDecl(ep)
	if fd == nil {
		c.Undecided("value/export.jsonExporter.String", token.NoPos, "not found")
		return
	}
	// the escaping is delegated to a library: encoding/json produces a JSON string (with its quotes) for every Go
	// string; the quoting functions of strconv and fmt's %q produce Go syntax, which is not JSON (\x.., \a, \v, \U........)
	{
		info := ep.TypesInfo
		var strParam types.Object
		if fd.Type.Params != nil {
			for _, f := range fd.Type.Params.List {
				for _, nm := range f.Names {
					if b, ok := info.Defs[nm].Type().Underlying().(*types.Basic); ok && b.Kind() == types.String {
						strParam = info.Defs[nm]
					}
				}
			}
		}
		hasLoop := containsNode(fd.Body, func(x ast.Node) bool { _, ok := x.(*ast.RangeStmt); return ok }) || containsNode(fd.Body, func(x ast.Node) bool { _, ok := x.(*ast.ForStmt); return ok })
		var lib *ast.CallExpr
		libName := ""
		inspectNoLit(fd.Body, func(x ast.Node) bool {
			call, ok := x.(*ast.CallExpr)
			if !ok || lib != nil {
				return true
			}
			cal := Callee(info, call)
			if cal == nil || cal.Pkg() == nil {
				return true
			}
			mentionsStr := false
			for _, a := range call.Args {
				if mentions(info, a, strParam) {
					mentionsStr = true
				}
			}
			if !mentionsStr {
				return true
			}
			full := cal.Pkg().Path() + "." + cal.Name()
			switch full {
			case "encoding/json.Marshal", "strconv.Quote", "strconv.QuoteToASCII", "strconv.QuoteToGraphic", "strconv.AppendQuote", "strconv.AppendQuoteToASCII":
				lib, libName = call, full
			case "fmt.Sprintf", "fmt.Fprintf", "fmt.Appendf":
				for _, a := range call.Args {
					if tv := info.Types[a]; tv.Value != nil && tv.Value.Kind() == constant.String && strings.Contains(constant.StringVal(tv.Value), "%q") {
						lib, libName = call, "fmt %q"
					}
				}
			}
			return true
		})
		if lib != nil && !hasLoop {
			key := "value/export.jsonExporter.String#escaper"
			if libName == "encoding/json.Marshal" {
				c.OK(key, lib.Pos(), "the string is encoded by encoding/json.Marshal, which yields a quoted JSON string for every Go string")
				c.OK("value/export.jsonExporter.String#quotes", lib.Pos(), "the quotes are part of the output of encoding/json.Marshal")
			} else {
				c.Violation(key, lib.Pos(), "the JSON string is produced by %s, which writes Go syntax, not JSON: control characters become \\x.. / \\a / \\v, code points above U+FFFF \\U........ - a JSON parser rejects these", libName)
			}
			return
		}
	}
	valid := func(r rune, s escSink) string {
		switch s.kind {
		case "raw":
			if r < 0x20 || r == '"' || r == '\\' {
				return "is written raw"
			}
			return ""
		case "const":
			short := map[rune]string{'"': `\"`, '\\': `\\`, '\n': `\n`, '\r': `\r`, '\t': `\t`, '\b': `\b`, '\f': `\f`, '/': `\/`}
			if s.text == short[r] || s.text == fmt.Sprintf(`\u%04x`, r) || s.text == fmt.Sprintf(`\u%04X`, r) {
				return ""
			}
			if s.text == string(r) && !(r < 0x20 || r == '"' || r == '\\') {
				return ""
			}
			return fmt.Sprintf("is written as %q", s.text)
		case "fmt":
			if s.text == `\u%04x` || s.text == `\u%04X` {
				if r > 0xFFFF {
					return `can be written with the format \u%04x, which gives more than four hex digits above U+FFFF (a surrogate pair is required)`
				}
				return ""
			}
			return fmt.Sprintf("is written with the format %q", s.text)
		}
		return "reaches an unknown sink"
	}
	var samples []rune
	for r := rune(0); r < 0x20; r++ {
		samples = append(samples, r)
	}
	samples = append(samples, '"', '\\', ' ', 'a', '/', 0x7f, 0x80, 0xe4, 0x2028, 0x2029, 0xd7ff, 0xe000, 0xfffd, 0xffff, 0x10000, 0x1f600, 0xe0001, 0x10ffff)
	n := 0
	var problems []string
	for _, r := range samples {
		sinks, ok := c.escaperSinks(ep, fd, r)
		if !ok {
			c.Undecided("value/export.jsonExporter.String#escaper", fd.Pos(), "loop over the runes of the string not found")
			return
		}
		n++
		if len(sinks) == 0 {
			problems = append(problems, fmt.Sprintf("U+%04X is dropped", r))
			continue
		}
		for _, s := range sinks {
			if msg := valid(r, s); msg != "" {
				problems = append(problems, fmt.Sprintf("U+%04X %s (%s)", r, msg, c.posStr(s.pos)))
			}
		}
	}
	// summarise
	key := "value/export.jsonExporter.String#escaper"
	if len(problems) == 0 {
		c.OK(key, fd.Pos(), "abstract evaluation of the escaper for %d representative code points (all of U+0000-U+001F, quote, backslash, BMP and supplementary samples): every possible sink is a valid JSON representation of the code point", n)
	} else {
		sort.Strings(problems)
		if len(problems) > 6 {
			problems = append(problems[:6], fmt.Sprintf("... and %d more", len(problems)-6))
		}
		c.Violation(key, fd.Pos(), "the JSON string escaper can emit text that a JSON parser rejects or decodes to another string: %s", strings.Join(problems, "; "))
	}
	// quotes around
	key = "value/export.jsonExporter.String#quotes"
	nq := 0
	inspectNoLit(fd.Body, func(x ast.Node) bool {
		if call, ok := x.(*ast.CallExpr); ok && len(call.Args) == 1 {
			if tv := ep.TypesInfo.Types[call.Args[0]]; tv.Value != nil && tv.Value.Kind() == constant.String && constant.StringVal(tv.Value) == `"` {
				if _, inLoop := c.Parent(c.Parent(call)).(*ast.BlockStmt); inLoop {
					if _, isFn := c.Parent(c.Parent(c.Parent(call))).(*ast.FuncDecl); isFn {
						nq++
					}
				}
			}
		}
		return true
	})
	c.Check(nq == 2, key, fd.Pos(), "the string is enclosed in one opening and one closing quote", fmt.Sprintf("the string is enclosed in %d quote writes instead of 2", nq))
}

// ---------------------------------------------------------------------------
// R17.2 separator typestate of the container exporters

func ruleR172(c *Ctx) {
	ep := c.Pkg("value/export")
	if ep == nil {
		c.Undecided("package value/export", token.NoPos, "not found")
		return
	}
	info := ep.TypesInfo
	isCommaWrite := func(x ast.Node) bool {
		call, ok := x.(*ast.CallExpr)
		if !ok || len(call.Args) < 1 {
			return false
		}
		tv := info.Types[call.Args[len(call.Args)-1]]
		return tv.Value != nil && tv.Value.Kind() == constant.String && constant.StringVal(tv.Value) == ","
	}
	for _, typ := range []struct{ name, open, close string }{{"jsonListExporter", "[", "]"}, {"jsonMapExporter", "{", "}"}} {
		add := c.FuncDecl(ep, typ.name, "Add")
		key := "value/export." + typ.name
		if add == nil || len(add.Recv.List[0].Names) != 1 {
			c.Undecided(key, token.NoPos, "Add not found")
			continue
		}
		addRecv := info.Defs[add.Recv.List[0].Names[0]]
		var problems []string
		undecided := ""
		// (i) where is the separator logic: in Add, or in a method Add calls on a part of its receiver
		sep := add
		var path []string // field path from the container to the separator state (empty: the container itself)
		if !containsNode(add.Body, isCommaWrite) {
			sep = nil
			ast.Inspect(add.Body, func(x ast.Node) bool {
				call, ok := x.(*ast.CallExpr)
				if !ok || sep != nil {
					return true
				}
				sel, ok := ast.Unparen(call.Fun).(*ast.SelectorExpr)
				if !ok {
					return true
				}
				cal := Callee(info, call)
				if cal == nil || cal.Pkg() != ep.Types {
					return true
				}
				d := findFuncDecl(ep, cal)
				if d == nil || d.Body == nil || d.Recv == nil || !containsNode(d.Body, isCommaWrite) {
					return true
				}
				// receiver expression: a field chain rooted in Add's receiver
				var p []string
				cur := ast.Unparen(sel.X)
				for {
					if s2, ok := cur.(*ast.SelectorExpr); ok {
						p = append([]string{s2.Sel.Name}, p...)
						cur = ast.Unparen(s2.X)
						continue
					}
					break
				}
				if id, ok := cur.(*ast.Ident); ok && info.ObjectOf(id) == addRecv && len(p) > 0 {
					sep, path = d, p
				}
				return true
			})
		}
		if sep == nil || len(sep.Recv.List[0].Names) != 1 {
			c.Violation(key, add.Pos(), "no separator is written between the members")
			continue
		}
		sepRecv := info.Defs[sep.Recv.List[0].Names[0]]
		var byAddrParam types.Object // the *bool parameter of a separator helper that gets the flag by address
		byAddrFlag := ""
		// (ii) persistence: updates of the state must reach the container: pointer receivers, value fields on the path
		isPtrRecv := func(fd *ast.FuncDecl) bool {
			_, ok := fd.Recv.List[0].Type.(*ast.StarExpr)
			return ok
		}
		if !isPtrRecv(add) {
			problems = append(problems, "Add has a value receiver: the separator state it updates is lost after each member")
		}
		if sep != add && !isPtrRecv(sep) {
			// the state may be handed to the helper by address (separate(&j.first)): then the helper's receiver does not matter
			byAddress := false
			if sep.Type.Params != nil {
				for _, fl := range sep.Type.Params.List {
					if pt, ok := info.TypeOf(fl.Type).(*types.Pointer); ok {
						if b, ok := pt.Elem().Underlying().(*types.Basic); ok && b.Kind() == types.Bool {
							byAddress = true
						}
					}
				}
			}
			if byAddress {
				// the flag is *p inside the helper; at the call site in Add it is &recv.F with F a field of the container
				byAddrField := ""
				for _, fl := range sep.Type.Params.List {
					if pt, ok := info.TypeOf(fl.Type).(*types.Pointer); ok && len(fl.Names) == 1 {
						if b, ok := pt.Elem().Underlying().(*types.Basic); ok && b.Kind() == types.Bool {
							byAddrParam = info.Defs[fl.Names[0]]
						}
					}
				}
				sepObj, _ := info.Defs[sep.Name].(*types.Func)
				ast.Inspect(add.Body, func(y ast.Node) bool {
					cc, ok := y.(*ast.CallExpr)
					if !ok || sepObj == nil || Callee(info, cc) != sepObj.Origin() {
						return true
					}
					for _, a := range cc.Args {
						if u, ok := ast.Unparen(a).(*ast.UnaryExpr); ok && u.Op == token.AND {
							if fs, ok := ast.Unparen(u.X).(*ast.SelectorExpr); ok {
								if id, ok := ast.Unparen(fs.X).(*ast.Ident); ok && info.ObjectOf(id) == addRecv {
									byAddrField = fs.Sel.Name
								}
							}
						}
					}
					return true
				})
				if byAddrParam == nil || byAddrField == "" {
					undecided = "the separator state is handed to " + sep.Name.Name + " by address (a *bool parameter), but not as the address of a field of the container"
					byAddrParam = nil
				} else {
					byAddrFlag = byAddrField
					path = nil // the flag is a field of the container itself
				}
			} else {
				problems = append(problems, sep.Name.Name+" has a value receiver: the separator state it updates is lost")
			}
		}
		// the state type and its path: every field on the path is held by value (a pointer could be shared between containers)
		contT := LookupType(ep, typ.name)
		var stateT types.Type
		if contT != nil {
			stateT = contT.Type()
			for _, fname := range path {
				st, ok := stateT.Underlying().(*types.Struct)
				if !ok {
					undecided = "separator state is not reached through struct fields"
					break
				}
				var ft types.Type
				for i := 0; i < st.NumFields(); i++ {
					if st.Field(i).Name() == fname {
						ft = st.Field(i).Type()
					}
				}
				if ft == nil {
					undecided = "field " + fname + " not found"
					break
				}
				if _, isPtr := ft.Underlying().(*types.Pointer); isPtr {
					problems = append(problems, "the separator state is held through the pointer field "+fname+": it can be shared between containers, nested and sibling containers then disturb each other")
				}
				stateT = ft
			}
		}
		if undecided == "" && len(problems) > 0 {
			c.Violation(key, sep.Pos(), "%s", strings.Join(problems, "; "))
			continue
		}
		if strings.Contains(undecided, "by address") {
			c.Undecided(key, sep.Pos(), "%s", undecided)
			continue
		}
		// (iii) the flag: the one bool field of the separator's receiver it tests
		flag := ""
		var flagChain []string // fields between the separator's receiver and the flag
		ast.Inspect(sep.Body, func(x ast.Node) bool {
			sel, ok := x.(*ast.SelectorExpr)
			if !ok {
				return true
			}
			if b, ok := info.TypeOf(sel).Underlying().(*types.Basic); !ok || b.Kind() != types.Bool {
				return true
			}
			if fs, ok := info.Selections[sel]; !ok || fs.Kind() != types.FieldVal {
				return true
			}
			var chain []string
			cur := ast.Unparen(sel.X)
			for {
				if s2, ok := cur.(*ast.SelectorExpr); ok {
					chain = append([]string{s2.Sel.Name}, chain...)
					cur = ast.Unparen(s2.X)
					continue
				}
				break
			}
			if id, ok := cur.(*ast.Ident); !ok || info.ObjectOf(id) != sepRecv {
				return true
			}
			name := strings.Join(append(append([]string{}, chain...), sel.Sel.Name), ".")
			if flag == "" || flag == name {
				flag = name
				flagChain = chain
			} else {
				flag = "?"
			}
			return false
		})
		if byAddrParam != nil {
			flag, flagChain = byAddrFlag, nil
		}
		if flag == "" || flag == "?" {
			c.Undecided(key, sep.Pos(), "the separator logic does not depend on exactly one boolean field reachable from its receiver")
			continue
		}
		if len(flagChain) > 0 {
			// the flag lives in a part of the receiver: that part must be held by value all the way
			t := info.TypeOf(sep.Recv.List[0].Type)
			if pt, ok := t.(*types.Pointer); ok {
				t = pt.Elem()
			}
			for _, fname := range flagChain {
				if pt, ok := t.Underlying().(*types.Pointer); ok {
					t = pt.Elem()
				}
				st, ok := t.Underlying().(*types.Struct)
				if !ok {
					break
				}
				for i := 0; i < st.NumFields(); i++ {
					if st.Field(i).Name() == fname {
						t = st.Field(i).Type()
						if _, isPtr := t.Underlying().(*types.Pointer); isPtr {
							problems = append(problems, "the separator state "+flag+" is held through the pointer field "+fname+": it is shared between all containers of one export, so nested and sibling containers disturb each other (e.g. a missing ',' behind an empty nested container)")
						}
					}
				}
			}
			if len(problems) > 0 {
				c.Violation(key, sep.Pos(), "%s", strings.Join(problems, "; "))
				continue
			}
			flag = flag[strings.LastIndex(flag, ".")+1:]
			path = append(path, flagChain...)
		}
		// abstract run of the separator logic for a value of the flag
		type outcome struct {
			comma, val, ok bool
		}
		run := func(v bool) outcome {
			o := outcome{val: v, ok: true}
			var walk func(stmts []ast.Stmt) bool // true: returned
			condVal := func(e ast.Expr) (bool, bool) {
				e = ast.Unparen(e)
				neg := false
				if u, ok := e.(*ast.UnaryExpr); ok && u.Op == token.NOT {
					neg = true
					e = ast.Unparen(u.X)
				}
				if sel, ok := e.(*ast.SelectorExpr); ok && sel.Sel.Name == flag {
					if id := rootIdent(sel.X); id != nil && info.ObjectOf(id) == sepRecv {
						return o.val != neg, true
					}
				}
				if st, ok := e.(*ast.StarExpr); ok && byAddrParam != nil {
					if id, ok := ast.Unparen(st.X).(*ast.Ident); ok && info.ObjectOf(id) == byAddrParam {
						return o.val != neg, true
					}
				}
				return false, false
			}
			walk = func(stmts []ast.Stmt) bool {
				for _, s := range stmts {
					switch t := s.(type) {
					case *ast.IfStmt:
						if cv, known := condVal(t.Cond); known {
							if cv {
								if walk(t.Body.List) {
									return true
								}
							} else if t.Else != nil {
								switch e := t.Else.(type) {
								case *ast.BlockStmt:
									if walk(e.List) {
										return true
									}
								case *ast.IfStmt:
									if walk([]ast.Stmt{e}) {
										return true
									}
								}
							}
							continue
						}
						// another condition (error handling): must not touch the flag or the comma
						if containsNode(t, isCommaWrite) || containsNode(t, func(y ast.Node) bool {
							if id, ok := y.(*ast.Ident); ok && byAddrParam != nil && info.ObjectOf(id) == byAddrParam {
								return true
							}
							sel, ok := y.(*ast.SelectorExpr)
							return ok && sel.Sel.Name == flag
						}) {
							o.ok = false
						}
					case *ast.AssignStmt:
						if containsNode(t, isCommaWrite) {
							o.comma = true
						}
						if len(t.Lhs) == 1 && len(t.Rhs) == 1 {
							isFlagLhs := false
							if sel, ok := ast.Unparen(t.Lhs[0]).(*ast.SelectorExpr); ok && sel.Sel.Name == flag {
								isFlagLhs = true
							}
							if st, ok := ast.Unparen(t.Lhs[0]).(*ast.StarExpr); ok && byAddrParam != nil {
								if id, ok := ast.Unparen(st.X).(*ast.Ident); ok && info.ObjectOf(id) == byAddrParam {
									isFlagLhs = true
								}
							}
							if isFlagLhs {
								if tv := info.Types[t.Rhs[0]]; tv.Value != nil && tv.Value.Kind() == constant.Bool {
									o.val = constant.BoolVal(tv.Value)
								} else {
									o.ok = false
								}
							}
						}
					case *ast.ExprStmt:
						if containsNode(t, isCommaWrite) {
							o.comma = true
						}
					case *ast.ReturnStmt:
						if containsNode(t, isCommaWrite) {
							o.comma = true
						}
						return true
					case *ast.BlockStmt:
						if walk(t.List) {
							return true
						}
					default:
						if containsNode(s, isCommaWrite) {
							o.ok = false
						}
					}
				}
				return false
			}
			// Add itself continues with the export of the member behind the separator logic: stop there
			walk(sep.Body.List)
			return o
		}
		// (iv) the initial value of the flag in a new container
		initVals := map[bool]bool{}
		nLit := 0
		var flagInit func(e ast.Expr, t types.Type, p []string, depth int) (bool, bool)
		flagInit = func(e ast.Expr, t types.Type, p []string, depth int) (bool, bool) {
			// value of the flag in the struct value e of type t, following path p
			e = ast.Unparen(e)
			if u, ok := e.(*ast.UnaryExpr); ok && u.Op == token.AND {
				e = ast.Unparen(u.X)
			}
			switch v := e.(type) {
			case *ast.CompositeLit:
				want := flag
				if len(p) > 0 {
					want = p[0]
				}
				for _, el := range v.Elts {
					if kv, ok := el.(*ast.KeyValueExpr); ok {
						if k, ok := kv.Key.(*ast.Ident); ok && k.Name == want {
							if len(p) == 0 {
								if tv := info.Types[kv.Value]; tv.Value != nil && tv.Value.Kind() == constant.Bool {
									return constant.BoolVal(tv.Value), true
								}
								return false, false
							}
							return flagInit(kv.Value, nil, p[1:], depth)
						}
					}
				}
				return false, true // zero value
			case *ast.CallExpr:
				if depth < 2 {
					if cal := Callee(info, v); cal != nil && cal.Pkg() == ep.Types {
						if d := findFuncDecl(ep, cal); d != nil && d.Body != nil {
							var res *ast.ReturnStmt
							nRet := 0
							inspectNoLit(d.Body, func(y ast.Node) bool {
								if r, ok := y.(*ast.ReturnStmt); ok && len(r.Results) == 1 {
									res = r
									nRet++
								}
								return true
							})
							if nRet == 1 {
								return flagInit(res.Results[0], nil, p, depth+1)
							}
						}
					}
				}
			}
			return false, false
		}
		for _, f := range ep.Syntax {
			ast.Inspect(f, func(x ast.Node) bool {
				cl, ok := x.(*ast.CompositeLit)
				if !ok || !isNamed(info.TypeOf(cl), modPath+"/value/export", typ.name) {
					return true
				}
				nLit++
				v, ok := flagInit(cl, nil, path, 0)
				if !ok {
					undecided = "the initial value of the separator state in " + nodeStr(c.Fset, cl) + " is not understood"
					return true
				}
				initVals[v] = true
				return true
			})
		}
		if undecided != "" {
			c.Undecided(key, add.Pos(), "%s", undecided)
			continue
		}
		if nLit == 0 {
			problems = append(problems, "no literal of the exporter found")
		}
		if len(initVals) > 1 {
			problems = append(problems, "containers are created with different initial separator states")
		}
		for v0 := range initVals {
			first := run(v0)
			if !first.ok {
				c.Undecided(key, sep.Pos(), "the separator logic is not understood")
				problems = nil
				break
			}
			if first.comma {
				problems = append(problems, fmt.Sprintf("a new container starts with %s=%v, for which a separator is written in front of the first member", flag, v0))
			}
			if first.val == v0 {
				problems = append(problems, fmt.Sprintf("the state %s is not changed when the first member is written: no separator is ever written between the members of this container", flag))
			} else {
				second := run(first.val)
				if !second.ok {
					c.Undecided(key, sep.Pos(), "the separator logic is not understood")
					problems = nil
					break
				}
				if !second.comma {
					problems = append(problems, "no separator is written in front of the second member")
				}
				if second.val != first.val {
					problems = append(problems, fmt.Sprintf("the state %s flips back with the second member: separators are missing in front of every other member", flag))
				}
			}
		}
		// (v) Open / Close write the matching brackets
		for _, m := range []struct{ name, want string }{{"Open", typ.open}, {"Close", typ.close}} {
			fd := c.FuncDecl(ep, typ.name, m.name)
			if fd == nil {
				problems = append(problems, m.name+" not found")
				continue
			}
			var written []string
			ast.Inspect(fd.Body, func(x ast.Node) bool {
				if call, ok := x.(*ast.CallExpr); ok && len(call.Args) == 1 {
					if tv := info.Types[call.Args[0]]; tv.Value != nil && tv.Value.Kind() == constant.String {
						written = append(written, constant.StringVal(tv.Value))
					}
				}
				return true
			})
			if len(written) != 1 || written[0] != m.want {
				problems = append(problems, fmt.Sprintf("%s writes %q instead of %q", m.name, written, m.want))
			}
		}
		c.Check(len(problems) == 0, key, add.Pos(), "the separator state belongs to the container and survives Add; a new container writes no ',' in front of its first member and one in front of every further member; matching brackets", strings.Join(problems, "; "))
	}
}

// ---------------------------------------------------------------------------
// R17.3 text reaches the JSON buffer only through the escaper

func ruleR173(c *Ctx) {
	ep := c.Pkg("value/export")
	if ep == nil {
		c.Undecided("package value/export", token.NoPos, "not found")
		return
	}
	info := ep.TypesInfo
	n := 0
	escaper := c.jsonEscaperDecl(ep)
	// the files that declare the JSON exporter types: everything in them writes into the JSON document
	jsonFiles := map[string]bool{}
	for _, f := range ep.Syntax {
		for _, d := range f.Decls {
			if fd, ok := d.(*ast.FuncDecl); ok && fd.Recv != nil && strings.HasPrefix(recvTypeName(fd.Recv.List[0].Type), "json") {
				jsonFiles[c.Fset.Position(f.Pos()).Filename] = true
			}
		}
	}
	for _, f := range ep.Syntax {
		for _, d := range f.Decls {
			fd, ok := d.(*ast.FuncDecl)
			if !ok || fd.Body == nil || !jsonFiles[c.Fset.Position(f.Pos()).Filename] {
				continue
			}
			isEscaper := fd == escaper
			ast.Inspect(fd.Body, func(x ast.Node) bool {
				call, ok := x.(*ast.CallExpr)
				if !ok {
					return true
				}
				sel, ok := ast.Unparen(call.Fun).(*ast.SelectorExpr)
				if !ok || !infallibleReceiver(info.TypeOf(sel.X)) && !(sel.Sel.Name == "Fprintf") {
					return true
				}
				if !strings.HasPrefix(sel.Sel.Name, "Write") && sel.Sel.Name != "Fprintf" {
					return true
				}
				n++
				key := fmt.Sprintf("%s#buffer-write[%d]", declName(ep, fd), ordinalIn(fd, call, func(y ast.Node) bool { _, ok := y.(*ast.CallExpr); return ok }))
				allConst := true
				for _, a := range call.Args {
					if info.Types[a].Value == nil {
						if infallibleReceiver(info.TypeOf(a)) {
							continue // the buffer itself as first argument of Fprintf
						}
						allConst = false
					}
				}
				if allConst || isEscaper {
					c.OK(key, call.Pos(), "writes %s", map[bool]string{true: "a constant", false: "inside the escaper"}[allConst])
				} else {
					c.Violation(key, call.Pos(), "%s writes the non constant text %s into the JSON document without going through the string escaper: quotes, backslashes and control characters in keys or values break the document", declName(ep, fd), nodeStr(c.Fset, call.Args[len(call.Args)-1]))
				}
				return true
			})
		}
	}
	if n < 5 {
		c.Undecided("value/export#json-buffer-writes", token.NoPos, "only %d buffer writes found", n)
	}
}

// ---------------------------------------------------------------------------
// R17.4 the generic traversal closes what it opened and exports present keys only

func ruleR174(c *Ctx) {
	ep := c.Pkg("value/export")
	if ep == nil {
		c.Undecided("package value/export", token.NoPos, "not found")
		return
	}
	info := ep.TypesInfo
	export := c.FuncDecl(ep, "", "Export")
	if export == nil {
		c.Undecided("value/export.Export", token.NoPos, "not found")
		return
	}
	// the generic traversal: Export and the functions of the package it calls (the container cases may be
	// extracted into helpers)
	traversal := []*ast.FuncDecl{export}
	seenDecl := map[*ast.FuncDecl]bool{export: true}
	for i := 0; i < len(traversal) && i < 8; i++ {
		ast.Inspect(traversal[i].Body, func(x ast.Node) bool {
			if call, ok := x.(*ast.CallExpr); ok {
				if cal := Callee(info, call); cal != nil && cal.Pkg() == ep.Types && cal.Type().(*types.Signature).Recv() == nil {
					if d := findFuncDecl(ep, cal); d != nil && d.Body != nil && !seenDecl[d] {
						seenDecl[d] = true
						traversal = append(traversal, d)
					}
				}
			}
			return true
		})
	}
	isExporterIface := func(t types.Type) bool {
		nm := namedOf(t)
		if nm == nil || nm.Obj().Pkg() != ep.Types {
			return false
		}
		_, isIface := nm.Underlying().(*types.Interface)
		return isIface && (nm.Obj().Name() == "ListExporter" || nm.Obj().Name() == "MapExporter")
	}
	n := 0
	var addCall *ast.CallExpr
	var addDecl *ast.FuncDecl
	for _, fd := range traversal {
		fd := fd
		g := c.CFG(fd)
		fname := declName(ep, fd)
		inspectNoLit(fd.Body, func(x ast.Node) bool {
			call, ok := x.(*ast.CallExpr)
			if !ok {
				return true
			}
			sel, ok := ast.Unparen(call.Fun).(*ast.SelectorExpr)
			if !ok {
				return true
			}
			if sel.Sel.Name == "Add" && len(call.Args) == 2 && isExporterIface(info.TypeOf(sel.X)) {
				addCall, addDecl = call, fd
			}
			if sel.Sel.Name != "Open" || !isExporterIface(info.TypeOf(sel.X)) {
				return true
			}
			id, ok := ast.Unparen(sel.X).(*ast.Ident)
			if !ok {
				return true
			}
			obj := info.ObjectOf(id)
			n++
			key := fmt.Sprintf("%s#open-close:%s", fname, id.Name)
			isClose := func(y ast.Node) bool {
				return containsNode(y, func(z ast.Node) bool {
					cc, ok := z.(*ast.CallExpr)
					if !ok {
						return false
					}
					s2, ok := ast.Unparen(cc.Fun).(*ast.SelectorExpr)
					if !ok || s2.Sel.Name != "Close" {
						return false
					}
					i2, ok := ast.Unparen(s2.X).(*ast.Ident)
					return ok && info.ObjectOf(i2) == obj
				})
			}
			isSuccessExit := func(y ast.Node) bool {
				r, ok := y.(*ast.ReturnStmt)
				if !ok {
					return false
				}
				if isClose(r) {
					return false
				}
				// error exits: return err under err != nil
				for _, gd := range g.Guards(r) {
					if be, ok := ast.Unparen(gd.Cond).(*ast.BinaryExpr); ok && be.Op == token.NEQ && gd.Val && !gd.Synth {
						if eid, ok := ast.Unparen(be.X).(*ast.Ident); ok && isErrorType(info.TypeOf(eid)) {
							return false
						}
					}
				}
				return true
			}
			blk, idx, ok := g.Pos(call)
			if !ok {
				return true
			}
			found, trail := g.PathAvoiding(blk.Nodes[idx], isSuccessExit, isClose)
			if found {
				c.Violation(key, call.Pos(), "after %s.Open() there is a path to a successful return (%s) that does not call %s.Close(): the container is left open and the document is not well formed", id.Name, c.posStr(trail[len(trail)-1].Pos()), id.Name)
			} else {
				c.OK(key, call.Pos(), "every path from Open to a successful return calls Close")
			}
			return true
		})
	}
	if n < 2 {
		c.Undecided("value/export.Export#open-close", export.Pos(), "expected the list and the map case, found %d Open calls", n)
	}
	// present keys only: ma.Add(k, item) under ok of v.Get(k); keys collected by append
	key := "value/export.Export#present-keys-only"
	if addCall == nil {
		c.Undecided(key, export.Pos(), "map member export not found")
		return
	}
	fd := addDecl
	g := c.CFG(fd)
	guarded := false
	for _, gd := range g.Guards(addCall) {
		if id, ok := ast.Unparen(gd.Cond).(*ast.Ident); ok && gd.Val {
			if as, i := definingAssign(info, fd, info.ObjectOf(id)); as != nil && i == 1 && len(as.Rhs) == 1 {
				if call, ok := ast.Unparen(as.Rhs[0]).(*ast.CallExpr); ok {
					if sel, ok := ast.Unparen(call.Fun).(*ast.SelectorExpr); ok && sel.Sel.Name == "Get" {
						guarded = true
					}
				}
			}
		}
	}
	keysByAppend := true
	ast.Inspect(fd.Body, func(x ast.Node) bool {
		call, ok := x.(*ast.CallExpr)
		if !ok {
			return true
		}
		if id, ok := ast.Unparen(call.Fun).(*ast.Ident); ok && id.Name == "make" && len(call.Args) >= 2 {
			if sl, ok := info.TypeOf(call.Args[0]).Underlying().(*types.Slice); ok {
				if b, ok := sl.Elem().Underlying().(*types.Basic); ok && b.Kind() == types.String {
					if v, isC := constInt(info.Types[call.Args[1]]); !isC || v != 0 {
						keysByAppend = false
					}
				}
			}
		}
		return true
	})
	// Neither form is required for the property: with the key-domain agreement of all map storages
	// (R13.1, part of this property's rule set: Size = number of iterated keys, Get finds exactly those)
	// a presized key list has no unused slot and a lookup of an iterated key cannot fail.
	switch {
	case guarded && keysByAppend:
		c.OK(key, addCall.Pos(), "keys are collected by append while iterating, and a member is exported only if Get finds its key")
	case guarded:
		c.OK(key, addCall.Pos(), "a member is exported only if Get finds its key (unused slots of the presized key list are dropped)")
	case keysByAppend:
		c.OK(key, addCall.Pos(), "keys are collected by append while iterating: every exported key is a key of the map (Get finds it by R13.1)")
	default:
		c.OK(key, addCall.Pos(), "the key list is sized by Size() and the lookup result is not tested: exact only because Size, Iter and Get of every map storage agree (R13.1, checked with this property)")
	}
}

// ---------------------------------------------------------------------------
// R17.5 nothing that is handed back to a sync.Pool is returned.
//
// pool.Put(x) gives x to whoever calls Get next. A result that still refers
// to x's memory (x.Bytes(), x itself, a field of x) is overwritten by the next
// user: an exported document that the caller holds changes when the next
// export starts. Results derived from a pooled object have to be copied
// (string(...), bytes.Clone, slices.Clone, append to a nil slice). The pinned
// tree uses no sync.Pool; the rule is armed for the day an exporter does.

func ruleR175(c *Ctx) {
	n := 0
	for _, pkg := range c.RepoPkgs {
		if strings.Contains(pkg.PkgPath, "/example") || strings.HasSuffix(pkg.PkgPath, "/gen") {
			continue
		}
		info := pkg.TypesInfo
		forEachFuncBody([]*packages.Package{pkg}, func(pkg *packages.Package, fn ast.Node, body *ast.BlockStmt) {
			k := 0
			ast.Inspect(body, func(x ast.Node) bool {
				call, ok := x.(*ast.CallExpr)
				if !ok || len(call.Args) != 1 {
					return true
				}
				cal := Callee(info, call)
				if cal == nil || cal.Pkg() == nil || cal.Pkg().Path() != "sync" || cal.Name() != "Put" {
					return true
				}
				n++
				k++
				key := fmt.Sprintf("%s#pool.Put[%d]:%s", c.FuncName(fn)+litSuffix(c, fn), k, nodeStr(c.Fset, call.Args[0]))
				pooled := nodeStr(c.Fset, ast.Unparen(call.Args[0]))
				var bad ast.Expr
				inspectNoLit(body, func(y ast.Node) bool {
					r, ok := y.(*ast.ReturnStmt)
					if !ok || bad != nil {
						return true
					}
					for _, res := range r.Results {
						e := ast.Unparen(res)
						// copies
						if cc, ok := e.(*ast.CallExpr); ok {
							if tv, ok := info.Types[cc.Fun]; ok && tv.IsType() {
								if b, ok := tv.Type.Underlying().(*types.Basic); ok && b.Info()&types.IsString != 0 {
									continue // string(x.Bytes()) copies
								}
							}
							if cl := Callee(info, cc); cl != nil && cl.Pkg() != nil && (cl.Pkg().Path() == "bytes" || cl.Pkg().Path() == "slices") && cl.Name() == "Clone" {
								continue
							}
							if cl := Callee(info, cc); cl != nil && cl.Name() == "String" {
								continue // a string is immutable and copied out of the buffer
							}
							if id, ok := ast.Unparen(cc.Fun).(*ast.Ident); ok && id.Name == "append" && len(cc.Args) >= 1 {
								if a0, ok := ast.Unparen(cc.Args[0]).(*ast.CallExpr); ok {
									if tv, ok := info.Types[a0.Fun]; ok && tv.IsType() {
										continue // append([]byte(nil), ...)
									}
								}
							}
						}
						if containsNodeDeep(e, func(z ast.Node) bool {
							ze, ok := z.(ast.Expr)
							return ok && nodeStr(c.Fset, ast.Unparen(ze)) == pooled
						}) {
							// only reference types keep the memory alive
							switch info.TypeOf(e).Underlying().(type) {
							case *types.Slice, *types.Pointer, *types.Map, *types.Interface:
								bad = e
							}
						}
					}
					return true
				})
				if bad != nil {
					c.Violation(key, bad.Pos(), "the function hands %s back to the sync.Pool and returns %s, which still refers to its memory: the next user of the pooled object overwrites what the caller holds (an exported document changes or becomes unparsable when the next export starts)", pooled, nodeStr(c.Fset, bad))
				} else {
					c.OK(key, call.Pos(), "no result of the function refers to the pooled object")
				}
				return true
			})
		})
	}
	if n == 0 {
		c.Note("repo#sync.Pool", token.NoPos, "sync.Pool is not used")
	}
}

// ---------------------------------------------------------------------------
// R17.6 the JSON exporter leaves the scalars of the language to the traversal.
//
// The generic traversal (Export) writes a scalar as the JSON string of its
// ToString form; that is what C17 compares the decoded document with. The
// Custom hook of an exporter exists for host types. If the JSON exporter's
// Custom takes over one of the scalar types of the value package (Int, Float,
// String, Bool) the document carries another text for it than ToString (a
// float formatted with another verb, a bare number), and export and value
// disagree.

func ruleR176(c *Ctx) {
	ep := c.Pkg("value/export")
	if ep == nil {
		c.Undecided("package value/export", token.NoPos, "not found")
		return
	}
	info := ep.TypesInfo
	fd := c.FuncDecl(ep, "jsonExporter", "Custom")
	key := "value/export.jsonExporter.Custom#scalars"
	if fd == nil {
		c.Undecided(key, token.NoPos, "jsonExporter.Custom not found")
		return
	}
	scalar := func(t types.Type) string {
		for _, nmn := range []string{"Int", "Float", "String", "Bool"} {
			if isNamed(t, modPath+"/value", nmn) {
				if _, isPtr := t.(*types.Pointer); !isPtr {
					return nmn
				}
			}
		}
		return ""
	}
	var hit ast.Node
	name := ""
	ast.Inspect(fd.Body, func(x ast.Node) bool {
		if hit != nil {
			return false
		}
		switch t := x.(type) {
		case *ast.TypeAssertExpr:
			if t.Type != nil {
				if s := scalar(info.TypeOf(t.Type)); s != "" {
					hit, name = t, s
				}
			}
		case *ast.CaseClause:
			for _, e := range t.List {
				if tv, ok := info.Types[e]; ok && tv.IsType() {
					if s := scalar(tv.Type); s != "" {
						hit, name = e, s
					}
				}
			}
		}
		return true
	})
	if hit != nil {
		c.Violation(key, hit.Pos(), "the Custom hook of the JSON exporter handles the scalar type value.%s itself: the document carries the text this code produces instead of the ToString form that the generic traversal writes for every scalar, so the decoded document and the value disagree (e.g. 1.234567e+06 exported as 1234567)", name)
	} else {
		c.OK(key, fd.Pos(), "the Custom hook of the JSON exporter does not take over a scalar type of the value package")
	}
}

// ---------------------------------------------------------------------------
// R17.7 parallel slices stay parallel
//
// Two slices that are filled side by side (keys = append(keys, k); items =
// append(items, v) in the same block) are parallel: element i of one belongs
// to element i of the other. Sorting one of them alone breaks the pairing; a
// later loop over the sorted one that indexes the other with the same index
// attaches every value to the wrong key. The document is still valid JSON -
// with the values of a map permuted.

func ruleR177(c *Ctx) {
	n := 0
	for _, pkg := range c.RepoPkgs {
		info := pkg.TypesInfo
		for _, f := range pkg.Syntax {
			for _, d := range f.Decls {
				fd, ok := d.(*ast.FuncDecl)
				if !ok || fd.Body == nil {
					continue
				}
				// slices sorted on their own
				sorted := map[types.Object]token.Pos{}
				ast.Inspect(fd.Body, func(x ast.Node) bool {
					call, ok := x.(*ast.CallExpr)
					if !ok || len(call.Args) == 0 {
						return true
					}
					cal := Callee(info, call)
					if cal == nil || cal.Pkg() == nil {
						return true
					}
					isSort := cal.Pkg().Path() == "sort" && (cal.Name() == "Strings" || cal.Name() == "Ints" || cal.Name() == "Float64s" || cal.Name() == "Slice" || cal.Name() == "SliceStable") ||
						cal.Pkg().Path() == "slices" && strings.HasPrefix(cal.Name(), "Sort")
					if !isSort {
						return true
					}
					if id, ok := ast.Unparen(call.Args[0]).(*ast.Ident); ok {
						if o := info.ObjectOf(id); o != nil {
							sorted[o] = call.Pos()
						}
					}
					return true
				})
				if len(sorted) == 0 {
					continue
				}
				// slices appended in the same block as a sorted one
				appendTarget := func(s ast.Stmt) types.Object {
					as, ok := s.(*ast.AssignStmt)
					if !ok || len(as.Lhs) != 1 || len(as.Rhs) != 1 {
						return nil
					}
					call, ok := ast.Unparen(as.Rhs[0]).(*ast.CallExpr)
					if !ok || len(call.Args) < 2 {
						return nil
					}
					if id, ok := ast.Unparen(call.Fun).(*ast.Ident); !ok || id.Name != "append" {
						return nil
					}
					l, ok1 := as.Lhs[0].(*ast.Ident)
					a0, ok2 := ast.Unparen(call.Args[0]).(*ast.Ident)
					if !ok1 || !ok2 || info.ObjectOf(l) != info.ObjectOf(a0) {
						return nil
					}
					return info.ObjectOf(l)
				}
				parallel := map[types.Object]types.Object{} // other slice -> the sorted slice it is parallel to
				ast.Inspect(fd.Body, func(x ast.Node) bool {
					blk, ok := x.(*ast.BlockStmt)
					if !ok {
						return true
					}
					var targets []types.Object
					for _, st := range blk.List {
						if t := appendTarget(st); t != nil {
							targets = append(targets, t)
						}
					}
					for _, a := range targets {
						if _, isSorted := sorted[a]; !isSorted {
							continue
						}
						for _, b := range targets {
							if b != a {
								if _, alsoSorted := sorted[b]; !alsoSorted {
									parallel[b] = a
								}
							}
						}
					}
					return true
				})
				for b, a := range parallel {
					n++
					key := fmt.Sprintf("%s#parallel-slices:%s/%s", declName(pkg, fd), a.Name(), b.Name())
					var bad ast.Node
					ast.Inspect(fd.Body, func(x ast.Node) bool {
						rs, ok := x.(*ast.RangeStmt)
						if !ok || bad != nil || rs.Pos() < sorted[a] {
							return true
						}
						xid, ok1 := ast.Unparen(rs.X).(*ast.Ident)
						kid, ok2 := rs.Key.(*ast.Ident)
						if !ok1 || !ok2 || info.ObjectOf(xid) != a || kid.Name == "_" {
							return true
						}
						ast.Inspect(rs.Body, func(y ast.Node) bool {
							ix, ok := y.(*ast.IndexExpr)
							if !ok {
								return true
							}
							bid, ok1 := ast.Unparen(ix.X).(*ast.Ident)
							iid, ok2 := ast.Unparen(ix.Index).(*ast.Ident)
							if ok1 && ok2 && info.ObjectOf(bid) == b && info.ObjectOf(iid) == info.ObjectOf(kid) {
								bad = ix
							}
							return true
						})
						return true
					})
					if bad != nil {
						c.Violation(key, bad.Pos(), "%s and %s are filled side by side (element i of one belongs to element i of the other), %s alone is sorted, and afterwards %s is indexed with the index of a loop over the sorted %s: every value is attached to the key that happens to sort into its old position - the exported map has the right keys and the values permuted", a.Name(), b.Name(), a.Name(), b.Name(), a.Name())
					} else {
						c.OK(key, fd.Pos(), "%s is sorted on its own, but %s is not indexed in parallel afterwards", a.Name(), b.Name())
					}
				}
			}
		}
	}
	c.Note("parallel-slices", token.NoPos, "%d pairs of slices filled side by side with one of them sorted alone", n)
}
