package main

import (
	"go/ast"
	"go/token"
	"go/types"

	"golang.org/x/tools/go/cfg"
)

// FCFG is the control flow graph of one function body (declaration or
// literal; nested literals are separate graphs) with dominator information.
type FCFG struct {
	tagCond  map[ast.Expr]ast.Expr // synthesized comparisons for the case expressions of tag switches
	G        *cfg.CFG
	Fn       ast.Node
	where    map[ast.Node]nodePos // every sub node of a block node -> position
	idom     []int                // immediate dominator by block index, -1 = none/unreachable
	info     *types.Info
	switchOf map[*ast.CaseClause]*ast.SwitchStmt
	caseTag  map[ast.Expr]*ast.SwitchStmt // case expression -> its tag switch
	preds    [][]int
	live     []bool
}

type nodePos struct {
	block *cfg.Block
	index int
}

var cfgCache = map[ast.Node]*FCFG{}

func funcBody(fn ast.Node) *ast.BlockStmt {
	switch t := fn.(type) {
	case *ast.FuncDecl:
		return t.Body
	case *ast.FuncLit:
		return t.Body
	}
	return nil
}

// noReturn reports calls that never return (panic, os.Exit, log.Fatal*).
func noReturn(info *types.Info, call *ast.CallExpr) bool {
	if id, ok := ast.Unparen(call.Fun).(*ast.Ident); ok {
		if b, ok := info.Uses[id].(*types.Builtin); ok && b.Name() == "panic" {
			return true
		}
	}
	if fn := Callee(info, call); fn != nil && fn.Pkg() != nil {
		switch fn.Pkg().Path() + "." + fn.Name() {
		case "os.Exit", "log.Fatal", "log.Fatalf", "log.Fatalln", "log.Panic", "log.Panicf", "log.Panicln", "runtime.Goexit":
			return true
		}
	}
	return false
}

// CFG returns the (cached) control flow graph of fn, a *ast.FuncDecl or
// *ast.FuncLit.
func (p *Program) CFG(fn ast.Node) *FCFG {
	if f, ok := cfgCache[fn]; ok {
		return f
	}
	body := funcBody(fn)
	if body == nil {
		return nil
	}
	pkg := p.PkgOf(fn)
	var info *types.Info
	if pkg != nil {
		info = pkg.TypesInfo
	}
	g := cfg.New(body, func(call *ast.CallExpr) bool {
		if info == nil {
			return true
		}
		return !noReturn(info, call)
	})
	f := &FCFG{G: g, Fn: fn, where: map[ast.Node]nodePos{}, info: info, switchOf: map[*ast.CaseClause]*ast.SwitchStmt{}}
	ast.Inspect(body, func(x ast.Node) bool {
		if sw, ok := x.(*ast.SwitchStmt); ok {
			for _, cl := range sw.Body.List {
				if cc, ok := cl.(*ast.CaseClause); ok {
					f.switchOf[cc] = sw
					if sw.Tag != nil {
						if f.caseTag == nil {
							f.caseTag = map[ast.Expr]*ast.SwitchStmt{}
						}
						for _, ce := range cc.List {
							f.caseTag[ce] = sw
						}
					}
				}
			}
		}
		return true
	})
	for _, b := range g.Blocks {
		for i, n := range b.Nodes {
			np := nodePos{b, i}
			ast.Inspect(n, func(x ast.Node) bool {
				if x == nil {
					return true
				}
				if _, isLit := x.(*ast.FuncLit); isLit {
					f.where[x] = np
					return false
				}
				if _, seen := f.where[x]; !seen {
					f.where[x] = np
				}
				return true
			})
		}
	}
	f.computeDominators()
	cfgCache[fn] = f
	return f
}

func (f *FCFG) computeDominators() {
	n := len(f.G.Blocks)
	f.preds = make([][]int, n)
	f.live = make([]bool, n)
	f.idom = make([]int, n)
	for i := range f.idom {
		f.idom[i] = -1
	}
	if n == 0 {
		return
	}
	// reverse post order from entry (block 0)
	var order []int
	seen := make([]bool, n)
	var dfs func(b int)
	dfs = func(b int) {
		seen[b] = true
		for _, s := range f.G.Blocks[b].Succs {
			if !seen[s.Index] {
				dfs(int(s.Index))
			}
		}
		order = append(order, b)
	}
	dfs(0)
	copy(f.live, seen)
	for _, b := range f.G.Blocks {
		if !seen[b.Index] {
			continue
		}
		for _, s := range b.Succs {
			f.preds[s.Index] = append(f.preds[s.Index], int(b.Index))
		}
	}
	rpo := make([]int, 0, len(order))
	for i := len(order) - 1; i >= 0; i-- {
		rpo = append(rpo, order[i])
	}
	num := make([]int, n)
	for i, b := range rpo {
		num[b] = i
	}
	f.idom[0] = 0
	intersect := func(a, b int) int {
		for a != b {
			for num[a] > num[b] {
				a = f.idom[a]
			}
			for num[b] > num[a] {
				b = f.idom[b]
			}
		}
		return a
	}
	for changed := true; changed; {
		changed = false
		for _, b := range rpo[1:] {
			newIdom := -1
			for _, p := range f.preds[b] {
				if f.idom[p] == -1 {
					continue
				}
				if newIdom == -1 {
					newIdom = p
				} else {
					newIdom = intersect(p, newIdom)
				}
			}
			if newIdom != f.idom[b] {
				f.idom[b] = newIdom
				changed = true
			}
		}
	}
}

// Pos returns block and node index of the CFG node that contains n.
func (f *FCFG) Pos(n ast.Node) (*cfg.Block, int, bool) {
	np, ok := f.where[n]
	if !ok {
		return nil, 0, false
	}
	return np.block, np.index, true
}

// Live reports whether n is in the graph and reachable from the entry.
func (f *FCFG) Live(n ast.Node) bool {
	b, _, ok := f.Pos(n)
	return ok && f.live[b.Index]
}

func (f *FCFG) blockDominates(a, b int) bool {
	if !f.live[a] || !f.live[b] {
		return false
	}
	for {
		if a == b {
			return true
		}
		if b == 0 {
			return false
		}
		b = f.idom[b]
		if b < 0 {
			return false
		}
	}
}

// Dominates reports whether every path from the function entry to b passes
// through a (node granularity; a node dominates itself).
func (f *FCFG) Dominates(a, b ast.Node) bool {
	ba, ia, ok1 := f.Pos(a)
	bb, ib, ok2 := f.Pos(b)
	if !ok1 || !ok2 {
		return false
	}
	if ba == bb {
		return ia <= ib && f.live[ba.Index]
	}
	return f.blockDominates(int(ba.Index), int(bb.Index))
}

// Guard is a branch condition known to have the value Val.
type Guard struct {
	Cond ast.Expr
	Val  bool
	// Synth: the fact is the positive form of a false (in)equality, Cond is not a node of the source
	Synth bool
	// Derived: the fact was read from the body of a pure predicate that the source calls (isArrow(t)); the call itself
	// is reported as a fact of its own. Rules that look for *forbidden* dependences skip derived facts.
	Derived bool
}

// condOf reports whether the block ends in a two way branch on a boolean
// expression and returns that expression. Loop and switch headers of go/cfg
// also have two successors; they are told apart by the type of the last node.
func (f *FCFG) condOf(b *cfg.Block) ast.Expr {
	if len(b.Succs) != 2 || len(b.Nodes) == 0 {
		return nil
	}
	switch b.Kind {
	case cfg.KindRangeLoop, cfg.KindSelectCaseBody:
		return nil
	}
	e, ok := b.Nodes[len(b.Nodes)-1].(ast.Expr)
	if !ok {
		return nil
	}
	// a case expression of a tag switch stands for the comparison tag == e
	if sw, ok := f.caseTag[e]; ok {
		switch ast.Unparen(sw.Tag).(type) {
		case *ast.Ident, *ast.SelectorExpr:
			if f.tagCond == nil {
				f.tagCond = map[ast.Expr]ast.Expr{}
			}
			if c, ok := f.tagCond[e]; ok {
				return c
			}
			c := &ast.BinaryExpr{X: sw.Tag, OpPos: e.Pos(), Op: token.EQL, Y: e}
			f.tagCond[e] = c
			return c
		}
		return nil
	}
	if f.info != nil {
		t := f.info.TypeOf(e)
		if t == nil {
			return nil
		}
		if bt, ok := t.Underlying().(*types.Basic); !ok || bt.Info()&types.IsBoolean == 0 {
			return nil
		}
		// the case expression of a tag switch over booleans is no branch condition on its own
		if cc, ok := b.Stmt.(*ast.CaseClause); ok {
			for _, ce := range cc.List {
				if ce == e {
					if sw, ok := f.switchOf[cc]; ok && sw.Tag != nil {
						return nil
					}
				}
			}
		}
	}
	return e
}

// Guards returns the leaf branch conditions whose outcome is fixed on every
// path from the entry to n ("facts known at n"). Short circuit operators and
// negations are already split by go/cfg, so the conditions are leaves.
func (f *FCFG) Guards(n ast.Node) []Guard {
	bn, _, ok := f.Pos(n)
	if !ok || !f.live[bn.Index] {
		return nil
	}
	var res []Guard
	target := int(bn.Index)
	for d := target; ; {
		// d dominates target. Look at the dominator's own dominating branch:
		// a cond block c with successor s where s dominates target and c is
		// the only predecessor of s.
		id := f.idom[d]
		if d == 0 || id < 0 {
			break
		}
		d = id
		blk := f.G.Blocks[d]
		if cond := f.condOf(blk); cond != nil {
			for k, s := range blk.Succs {
				si := int(s.Index)
				if blk.Succs[0] == blk.Succs[1] {
					break
				}
				if len(f.preds[si]) == 1 && f.blockDominates(si, target) {
					expandGuard(cond, k == 0, &res)
				}
			}
		}
	}
	return res
}

// expandGuard splits a branch condition with a known outcome into the leaf
// facts it implies (go/cfg does not split short circuit operators):
// A && B true => A true, B true; A || B false => A false, B false; !A flips.
func expandGuard(cond ast.Expr, val bool, out *[]Guard) {
	cond = ast.Unparen(cond)
	switch t := cond.(type) {
	case *ast.UnaryExpr:
		if t.Op == token.NOT {
			expandGuard(t.X, !val, out)
			return
		}
	case *ast.BinaryExpr:
		if t.Op == token.LAND && val || t.Op == token.LOR && !val {
			expandGuard(t.X, val, out)
			expandGuard(t.Y, val, out)
			return
		}
	}
	// a call of a pure predicate of the module (func isArrow(t Token) bool { return t.typ == tOperate && t.image == "->" })
	// stands for its body: the facts of the body are added, the call itself is kept as a fact as well
	if call, ok := cond.(*ast.CallExpr); ok && guardInline != nil {
		if inl := guardInline(call); inl != nil {
			from := len(*out)
			expandGuard(inl, val, out)
			for i := from; i < len(*out); i++ {
				(*out)[i].Derived = true
			}
		}
	}
	cond = canonCompare(cond)
	*out = append(*out, Guard{Cond: cond, Val: val})
	// a false (in)equality is also reported in its positive form, so that rules need not know
	// which way round a condition was written: !(a != b) => a == b, !(a == b) => a != b
	if be, ok := cond.(*ast.BinaryExpr); ok && !val && (be.Op == token.EQL || be.Op == token.NEQ) {
		op := token.EQL
		if be.Op == token.EQL {
			op = token.NEQ
		}
		*out = append(*out, Guard{Cond: &ast.BinaryExpr{X: be.X, OpPos: be.OpPos, Op: op, Y: be.Y}, Val: true, Synth: true})
	}
}

// PathAvoiding reports whether there is a path that starts right after the
// node `from` (or at the function entry if from is nil) and reaches a node
// for which target returns true without first passing a node for which
// barrier returns true. Predicates are applied to the CFG nodes (statements
// and branch conditions) in execution order. If target is nil, the path has to
// reach a function exit (a block without successors).
func (f *FCFG) PathAvoiding(from ast.Node, target, barrier func(ast.Node) bool) (bool, []ast.Node) {
	var startBlock *cfg.Block
	startIdx := 0
	if from == nil {
		if len(f.G.Blocks) == 0 {
			return false, nil
		}
		startBlock = f.G.Blocks[0]
	} else {
		b, i, ok := f.Pos(from)
		if !ok {
			return false, nil
		}
		startBlock, startIdx = b, i+1
	}
	visited := map[int32]bool{}
	var trail []ast.Node
	var walk func(b *cfg.Block, idx int) bool
	walk = func(b *cfg.Block, idx int) bool {
		mark := len(trail)
		for i := idx; i < len(b.Nodes); i++ {
			n := b.Nodes[i]
			if target != nil && target(n) {
				trail = append(trail, n)
				return true
			}
			if barrier != nil && barrier(n) {
				trail = trail[:mark]
				return false
			}
		}
		if len(b.Nodes) > idx {
			trail = append(trail, b.Nodes[len(b.Nodes)-1])
		}
		if len(b.Succs) == 0 {
			if target == nil {
				return true
			}
			trail = trail[:mark]
			return false
		}
		for _, s := range b.Succs {
			if visited[s.Index] {
				continue
			}
			visited[s.Index] = true
			if walk(s, 0) {
				return true
			}
		}
		trail = trail[:mark]
		return false
	}
	if walk(startBlock, startIdx) {
		return true, trail
	}
	return false, nil
}

// containsNode reports whether sub is n or a descendant of n (function
// literals are not entered).
func containsNode(n ast.Node, pred func(ast.Node) bool) bool {
	found := false
	ast.Inspect(n, func(x ast.Node) bool {
		if x == nil || found {
			return false
		}
		if _, ok := x.(*ast.FuncLit); ok && x != n {
			return false
		}
		if pred(x) {
			found = true
			return false
		}
		return true
	})
	return found
}

// PathFromBlock is like PathAvoiding but starts at the beginning of a block
// and accepts a block level target (e.g. "the loop header is reached again").
func (f *FCFG) PathFromBlock(start *cfg.Block, target, barrier func(ast.Node) bool, blockTarget func(*cfg.Block) bool) (bool, []ast.Node) {
	visited := map[int32]bool{}
	var trail []ast.Node
	var walk func(b *cfg.Block, first bool) bool
	walk = func(b *cfg.Block, first bool) bool {
		if !first && blockTarget != nil && blockTarget(b) {
			return true
		}
		mark := len(trail)
		for _, n := range b.Nodes {
			if target != nil && target(n) {
				trail = append(trail, n)
				return true
			}
			if barrier != nil && barrier(n) {
				trail = trail[:mark]
				return false
			}
		}
		if len(b.Nodes) > 0 {
			trail = append(trail, b.Nodes[len(b.Nodes)-1])
		}
		for _, s := range b.Succs {
			if blockTarget != nil && blockTarget(s) {
				return true
			}
			if visited[s.Index] {
				continue
			}
			visited[s.Index] = true
			if walk(s, false) {
				return true
			}
		}
		trail = trail[:mark]
		return false
	}
	visited[start.Index] = true
	if walk(start, true) {
		return true, trail
	}
	return false, nil
}

// RangeBlocks returns the body, loop and done blocks of a range statement.
func (f *FCFG) RangeBlocks(rs *ast.RangeStmt) (body, loop, done *cfg.Block) {
	for _, b := range f.G.Blocks {
		if b.Stmt != ast.Stmt(rs) {
			continue
		}
		switch b.Kind {
		case cfg.KindRangeBody:
			body = b
		case cfg.KindRangeLoop:
			loop = b
		case cfg.KindRangeDone:
			done = b
		}
	}
	return
}

// PathAvoidingEdges is PathAvoiding from the function entry with an edge
// filter: at a two way branch on a boolean condition, the edge for the value
// val is followed only if edgeOK(cond, val) holds. It is used to look for
// paths under an assumption ("c is not nil").
func (f *FCFG) PathAvoidingEdges(target, barrier func(ast.Node) bool, edgeOK func(cond ast.Expr, val bool) bool) (bool, []ast.Node) {
	if len(f.G.Blocks) == 0 {
		return false, nil
	}
	visited := map[int32]bool{}
	var trail []ast.Node
	var walk func(b *cfg.Block) bool
	walk = func(b *cfg.Block) bool {
		mark := len(trail)
		for _, n := range b.Nodes {
			if target != nil && target(n) {
				trail = append(trail, n)
				return true
			}
			if barrier != nil && barrier(n) {
				trail = trail[:mark]
				return false
			}
		}
		if len(b.Nodes) > 0 {
			trail = append(trail, b.Nodes[len(b.Nodes)-1])
		}
		if len(b.Succs) == 0 {
			if target == nil {
				return true // a function exit is reached
			}
			trail = trail[:mark]
			return false
		}
		cond := f.condOf(b)
		for i, s := range b.Succs {
			if cond != nil && edgeOK != nil && !edgeOK(cond, i == 0) {
				continue
			}
			if visited[s.Index] {
				continue
			}
			visited[s.Index] = true
			if walk(s) {
				return true
			}
		}
		trail = trail[:mark]
		return false
	}
	visited[f.G.Blocks[0].Index] = true
	if walk(f.G.Blocks[0]) {
		return true, trail
	}
	return false, nil
}

// reachesBlock reports whether the block target can be reached from the
// statement after from.
func (f *FCFG) reachesBlock(from ast.Node, target *cfg.Block) bool {
	b, _, ok := f.Pos(from)
	if !ok {
		return false
	}
	visited := map[int32]bool{}
	var walk func(b *cfg.Block) bool
	walk = func(b *cfg.Block) bool {
		for _, s := range b.Succs {
			if s == target {
				return true
			}
			if visited[s.Index] {
				continue
			}
			visited[s.Index] = true
			if walk(s) {
				return true
			}
		}
		return false
	}
	return walk(b)
}

// guardConst is set by the loader: it reports whether an expression is a
// compile time constant (or nil) according to the type information.
var guardConst func(e ast.Expr) bool

func isLiteralOperand(e ast.Expr) bool {
	e = ast.Unparen(e)
	switch t := e.(type) {
	case *ast.BasicLit:
		return true
	case *ast.Ident:
		if t.Name == "nil" {
			return true
		}
	case *ast.UnaryExpr:
		if t.Op == token.SUB || t.Op == token.ADD {
			return isLiteralOperand(t.X)
		}
	}
	return guardConst != nil && guardConst(e)
}

// canonCompare writes a comparison whose left operand is a constant and whose
// right operand is not with the constant on the right (0 > x becomes x < 0),
// so that rules need not know which way round a condition was written. The
// new node shares its operands with the source.
func canonCompare(cond ast.Expr) ast.Expr {
	be, ok := cond.(*ast.BinaryExpr)
	if !ok {
		return cond
	}
	var op token.Token
	switch be.Op {
	case token.EQL, token.NEQ:
		op = be.Op
	case token.LSS:
		op = token.GTR
	case token.GTR:
		op = token.LSS
	case token.LEQ:
		op = token.GEQ
	case token.GEQ:
		op = token.LEQ
	default:
		return cond
	}
	if !isLiteralOperand(be.X) || isLiteralOperand(be.Y) {
		return cond
	}
	return &ast.BinaryExpr{X: be.Y, OpPos: be.OpPos, Op: op, Y: be.X}
}

// PathEdgesFrom searches a path from the beginning of the block start to a
// block for which blockTarget holds, following at a two way branch only the
// edges that edgeOK admits; barrier nodes end a path.
func (f *FCFG) PathEdgesFrom(start *cfg.Block, blockTarget func(*cfg.Block) bool, barrier func(ast.Node) bool, edgeOK func(cond ast.Expr, val bool) bool) bool {
	visited := map[int32]bool{start.Index: true}
	var walk func(b *cfg.Block) bool
	walk = func(b *cfg.Block) bool {
		for _, n := range b.Nodes {
			if barrier != nil && barrier(n) {
				return false
			}
		}
		cond := f.condOf(b)
		for i, s := range b.Succs {
			if cond != nil && len(b.Succs) == 2 && edgeOK != nil && !edgeOK(cond, i == 0) {
				continue
			}
			if blockTarget(s) {
				return true
			}
			if visited[s.Index] {
				continue
			}
			visited[s.Index] = true
			if walk(s) {
				return true
			}
		}
		return false
	}
	return walk(start)
}

// PathEdgesFromNode searches a path that starts right after the node from and
// reaches a node for which target holds, following at a two way branch only
// the edges that edgeOK admits; barrier nodes end a path.
func (f *FCFG) PathEdgesFromNode(from ast.Node, target, barrier func(ast.Node) bool, edgeOK func(cond ast.Expr, val bool) bool) (bool, ast.Node) {
	sb, si, ok := f.Pos(from)
	if !ok {
		return false, nil
	}
	visited := map[int32]bool{}
	var hit ast.Node
	var walk func(b *cfg.Block, idx int) bool
	walk = func(b *cfg.Block, idx int) bool {
		for i := idx; i < len(b.Nodes); i++ {
			n := b.Nodes[i]
			if target(n) {
				hit = n
				return true
			}
			if barrier != nil && barrier(n) {
				return false
			}
		}
		cond := f.condOf(b)
		for i, s := range b.Succs {
			if cond != nil && len(b.Succs) == 2 && edgeOK != nil && !edgeOK(cond, i == 0) {
				continue
			}
			if visited[s.Index] {
				continue
			}
			visited[s.Index] = true
			if walk(s, 0) {
				return true
			}
		}
		return false
	}
	if walk(sb, si+1) {
		return true, hit
	}
	return false, nil
}

// PathEdgesFromBlock is PathEdgesFromNode starting at the beginning of a block.
func (f *FCFG) PathEdgesFromBlock(start *cfg.Block, target, barrier func(ast.Node) bool, edgeOK func(cond ast.Expr, val bool) bool) (bool, ast.Node) {
	visited := map[int32]bool{start.Index: true}
	var hit ast.Node
	var walk func(b *cfg.Block) bool
	walk = func(b *cfg.Block) bool {
		for _, n := range b.Nodes {
			if target(n) {
				hit = n
				return true
			}
			if barrier != nil && barrier(n) {
				return false
			}
		}
		cond := f.condOf(b)
		for i, s := range b.Succs {
			if cond != nil && len(b.Succs) == 2 && edgeOK != nil && !edgeOK(cond, i == 0) {
				continue
			}
			if visited[s.Index] {
				continue
			}
			visited[s.Index] = true
			if walk(s) {
				return true
			}
		}
		return false
	}
	if walk(start) {
		return true, hit
	}
	return false, nil
}

// guardInline is set by the loader: for a call of a function of the module whose body is a single return of a
// boolean expression over its parameters it returns that expression with the parameters replaced by the arguments
// (new nodes for the operators, the operands are shared with the source); nil otherwise.
var guardInline func(call *ast.CallExpr) ast.Expr

var guardInlineCache = map[*ast.CallExpr]ast.Expr{}

func substExpr(e ast.Expr, sub map[types.Object]ast.Expr, info *types.Info) (ast.Expr, bool) {
	switch t := e.(type) {
	case *ast.Ident:
		if r, ok := sub[info.ObjectOf(t)]; ok {
			return r, true
		}
		return t, true
	case *ast.BasicLit:
		return t, true
	case *ast.ParenExpr:
		x, ok := substExpr(t.X, sub, info)
		return &ast.ParenExpr{X: x}, ok
	case *ast.UnaryExpr:
		x, ok := substExpr(t.X, sub, info)
		return &ast.UnaryExpr{Op: t.Op, OpPos: t.OpPos, X: x}, ok
	case *ast.BinaryExpr:
		x, ok1 := substExpr(t.X, sub, info)
		y, ok2 := substExpr(t.Y, sub, info)
		return &ast.BinaryExpr{X: x, OpPos: t.OpPos, Op: t.Op, Y: y}, ok1 && ok2
	case *ast.SelectorExpr:
		x, ok := substExpr(t.X, sub, info)
		if x == t.X {
			return t, ok
		}
		return &ast.SelectorExpr{X: x, Sel: t.Sel}, ok
	}
	return e, false
}
