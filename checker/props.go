package main

import (
	"strings"

	"golang.org/x/tools/go/packages"
)

func init() {
	register(&Property{
		ID:        "C01",
		Technique: "abstract interpretation of push/pop counts over the generated closures' statement structure + child-context tracing on the typed AST; symbolic normal forms of the Stack primitives; scope-recording agreement checks, producer-stack capture check of lazy list producers, scope check of let values",
		Explanation: "Decides the structural conditions on which name resolution and slot addressing of the compiled closures rest " +
			"(every generated child is called with exactly as many pending pushes as its compile-time context knows; frames are exactly the pushed arguments; " +
			"the closure context is built in the order it was compiled against; the parser records the outer names the generator looks up; the Stack primitives have the frame-layout normal form). " +
			"Not decided: equality of results with a reference interpreter, operator/method semantics, evaluation order inside built-ins.",
		Assumptions: []string{"host code calls generated functions through Func.Eval with as many arguments as were declared at Generate"},
		Rules: []*Rule{
			{ID: "R01.1", Title: "frame-slot agreement: child closures are called at the stack depth of their compile-time context", Floor: 39, Run: ruleR011},
			{ID: "R01.1b", Title: "frame balance: CreateFrame(n) is reached with exactly n pending pushes; callbacks leave captured stacks balanced", Floor: 55, Run: ruleR011b},
			{ID: "R01.2", Title: "closure context: slot indices come from the matching compile-time list; parallel slices share the loop key; context allocated per closure creation", Floor: 16, Run: ruleR012},
			{ID: "R01.3", Title: "scope recording: each ClosureLiteral carries the very Names/OuterIdents/Recursive its body was parsed with", Floor: 3, Run: ruleR013},
			{ID: "R01.5", Title: "frame-layout algebra: Get/Push/CreateFrame/Init and the storage address exactly offs+n / offs+size / {offs+size-n, n}", Floor: 8, Run: ruleR015},
			{ID: "R01.6", Title: "evaluation order: sub expressions are evaluated in reference order (A before B, value before inner, try before catch, callee/receiver before arguments)", Floor: 15, Run: ruleR016},
			{ID: "R01.7", Title: "lazily compiled boolean operators yield a Bool or an error, like their eager implementations", Floor: 2, Run: ruleR017},
			{ID: "R13.4", Title: "map-field closures: the closure-field branch of a generated method call returns only after a function was extracted from the entry, otherwise the method is called (see C13)", Floor: 1, Run: ruleR134},
			{ID: "R16.5", Title: "scope links ask their parent for the looked up name itself (see C16)", Floor: 5, Run: ruleR165},
			{ID: "R16.7", Title: "the value of a let is parsed in the enclosing scope (see C16)", Floor: 2, Run: ruleR167},
			{ID: "R01.4", Title: "captured-name agreement between parseLiteral (emitted identifier names) and AddArgs (recorded outer names)", Floor: 1, Run: ruleR014},
			{ID: "R02.7", Title: "optimizer: subtree promotion only under the generated code's own condition (see C02)", Floor: 2, Run: ruleR027},
			{ID: "R02.8", Title: "optimizer: first-match folding of switch nodes (see C02)", Floor: 0, Run: ruleR028},
			{ID: "R10.4", Title: "the producer of a lazy list uses the stack of its consumer only: no value stack is captured from the call that built the list", Floor: 20, Run: ruleR104},
			{ID: "R02.11", Title: "the optimizer applies a constant closure only for an argument count the generated call accepts (see C02)", Floor: 1, Run: ruleR0211},
		},
	})
	register(&Property{
		ID:        "C02",
		Technique: "guard dominance on per-function CFGs (purity and commutativity flags dominate every Generate-time execution), conjunct-closure check of purity propagation, who-may-call check of the recovering optimizer entry, flag/implementation witness tables, sibling agreement of generator and optimizer dispatch, subtree promotions checked against the child roles read from the generated code, finite enumeration of the arity tests of optimizer and generated call over all orderings of (Args, count), reaches-a-result dataflow of child purities, no-failure-under-constant-test and flag-store checks",
		Explanation: "Decides that the optimizer executes operator/function implementations at Generate time only under the IsPure flag of the very descriptor it executes, regroups only under IsCommutative/same-operator, " +
			"that the generator's purity result conjoins the purity of every sub expression and statically bound callee, that declared flags have no asymmetry/impurity witness in the implementation, that optimizer code is reachable only through the recovering wrapper, " +
			"that optimizer and generator consult the same handlers per AST node kind, and that the optimizer replaces a node by one of its children only under the condition under which the generated code returns that child's value. Not decided: equality of folded and run-time values, execution counts, purity of host functions and methods.",
		Assumptions: []string{"unary operators and the list/map/closure handlers are pure (they carry no purity flag)", "host-declared IsPure/IsCommutative flags of host operators are truthful"},
		Rules: []*Rule{
			{ID: "R02.1", Title: "purity-guarded folding: Impl.Calc / Function.Func run at Generate time only under the same descriptor's IsPure", Floor: 6, Run: ruleR021},
			{ID: "R02.2", Title: "regroup guard: rebuilt Operate nodes only under IsCommutative and same operator", Floor: 2, Run: ruleR022},
			{ID: "R02.3", Title: "purity propagation: every returned purity conjoins all child purities and statically bound callee flags", Floor: 15, Run: ruleR023},
			{ID: "R02.4", Title: "declared flags vs implementation: commutative operators have no asymmetry witness and are not compiled lazily; pure functions reach no source of non-determinism", Floor: 19, Run: func(c *Ctx) {
				ruleR024(func(p *packages.Package) bool {
					return !strings.HasSuffix(p.PkgPath, "/example") || strings.HasSuffix(p.PkgPath, "value/example")
				})(c)
				ruleR024a(c)
			}},
			{ID: "R02.6", Title: "sibling agreement: optimizer and generated code consult the same handlers to find the callee of a call", Floor: 2, Run: ruleR026},
			{ID: "R01.7", Title: "lazily compiled boolean operators yield a Bool or an error, like the eager implementations the folder executes (see C01)", Floor: 2, Run: ruleR017},
			{ID: "R02.5", Title: "panic containment: optimizer code runs only inside parser2.Optimize, which recovers and restores the AST", Floor: 10, Run: ruleR025},
			{ID: "R02.7", Title: "subtree promotion: a node is replaced by one of its children only under the condition under which the generated code returns that child's value (roles read from the generator)", Floor: 2, Run: ruleR027},
			{ID: "R02.8", Title: "first-match folding: a folding loop over the cases of a switch takes a case only on established equality and moves on only past cases decided negative", Floor: 0, Run: ruleR028},
			{ID: "R02.9", Title: "success of Parse/Generate does not depend on whether a node was folded: no failure of its own under a test for a *Const node", Floor: 5, Run: ruleR029},
			{ID: "R02.10", Title: "declared purity is never upgraded: a store into IsPure/IsCommutative of an existing descriptor is a constant, the setter's parameter or a conjunction with the old value", Floor: 1, Run: ruleR0210},
			{ID: "R02.11", Title: "sibling agreement on arity: the optimizer applies a constant closure only for an argument count the generated call accepts (evaluated over all orderings of Args and the count)", Floor: 1, Run: ruleR0211},
		},
	})
	register(&Property{
		ID:        "C03",
		Technique: "symbolic normal forms of the level arithmetic (op+1, opPos+1), loop/accumulator dataflow of the precedence loop, dominator and must-pass-through checks of token tests on per-function CFGs, pairing check of depth counters (increment/decrement on every exit path)",
		Explanation: "Decides the structural conditions of the precedence climbing scheme as implemented: one recursion level per operator in table order, left associative accumulation loop whose continuation test is this level's operator, " +
			"prefix operators that are also binary parse their operand at opPos+1 and every such operator gets its position, a successful Parse has seen EOF behind the top level expression, every consumed token is identified by a Peek test or type checked (keywords/operators also by spelling) before a successful return, implicit '*' only in comfort mode. " +
			"Not decided: the grouping outcome for arbitrary tables and inputs, maximal munch of the operator detector, the postfix binding order.",
		Rules: []*Rule{
			{ID: "R03.1", Title: "one recursion level per operator: nextParserCall descends to parseOp(op+1) while op+1 < len(operators), then parseUnary", Floor: 3, Run: ruleR031},
			{ID: "R03.2", Title: "left associative accumulation loop in parseOp", Floor: 7, Run: ruleR032},
			{ID: "R03.3", Title: "prefix operators: operand parsed at opPos+1 under opPos>=0; every prefix operator that is also binary gets its table index", Floor: 3, Run: ruleR033},
			{ID: "R03.4", Title: "EOF test dominates every successful return of Parse", Floor: 1, Run: ruleR034},
			{ID: "R03.5", Title: "token consumption discipline: every Next() is justified by a Peek test or its token is checked before success", Floor: 35, Run: ruleR035},
			{ID: "R03.6", Title: "implicit multiplication bookkeeping only in comfort mode", Floor: 3, Run: ruleR036},
			{ID: "R03.7", Title: "the parser is purely constructive: grouping never depends on the node kind of an already parsed operand (parentheses are honoured)", Floor: 1, Run: ruleR037},
			{ID: "R03.9", Title: "a consumed postfix opener always builds its node: no path accepts the brackets without a node", Floor: 3, Run: ruleR039},
			{ID: "R04.8", Title: "input is never silently truncated: the end-of-input mark cannot be forged by a character of the input (see C04)", Floor: 1, Run: ruleR048},
			{ID: "R10.3", Title: "a field that one function increments and decrements (a depth counter) is back at its old value on every exit of that function (package parser2; see C10)", Floor: 0, Run: ruleR103(func(p *packages.Package) bool { return p.PkgPath == modPath })},
			{ID: "R15.12", Title: "comment skipping is opt-in: the constructor of the parser leaves it switched off", Floor: 1, Run: ruleR1512},
		},
	})
	register(&Property{
		ID:        "C04",
		Technique: "structured must-advance analysis of every scanner loop with sentinel agreement, call-graph cycle check of the recursive descent (every cycle consumes a token), who-may-call check of the recovering optimizer entry, reachability of explicit panics, return-discipline check on CFG guards, wrapper-per-recursion-level check of the recursive descent (call-graph cycles incl. function values), symbolic start-implies-continue check of the matchers with table lookups, liveness of decode widths, constant bound of the value stack against the Go stack limit",
		Explanation: "Decides structural totality conditions of tokenizer and parser: every rune level loop advances the input on every path back to its head and has an exit that is taken on the end-of-input sentinel peek really returns; " +
			"the recursive descent has no cycle of calls that consumes no token (except the well founded op→op+1 edge); folding panics are contained (R02.5); no explicit panic is reachable from Parse inside package parser2; " +
			"every return of a parser/generator function hands back a result or a non-nil error, never neither. Not decided: index/bounds panics, running time, Go stack depth for deeply nested input.",
		Assumptions: []string{"host supplied number/identifier Matchers accept the rune they announced (the default matchers are checked by R04.6)", "operator spellings contain no NUL rune"},
		Rules: []*Rule{
			{ID: "R04.1", Title: "scanner loops: progress on every path back to the head, exit on the end-of-input sentinel", Floor: 12, Run: ruleR041},
			{ID: "R04.2", Title: "parser recursion consumes: no cycle of parser calls without a consumed token", Floor: 1, Run: ruleR042},
			{ID: "R04.3", Title: "folding panics are contained (= R02.5)", Floor: 10, Run: ruleR025},
			{ID: "R04.4", Title: "no explicit panic reachable from Parser.Parse inside package parser2", Floor: 1, Run: ruleR044},
			{ID: "R04.6", Title: "default matchers: the start test implies the continuation predicate (symbolic implication over predicate atoms)", Floor: 2, Run: ruleR046},
			{ID: "R04.5", Title: "result discipline: (result, nil) or (nil, non-nil error), never (nil, nil)", Floor: 90, Run: ruleR045},
			{ID: "R04.7", Title: "slicing and indexing of strings on the parsing path is bounded by decode widths or a length test", Floor: 8, Run: ruleR047},
			{ID: "R04.8", Title: "the end-of-input mark cannot be forged by a character of the input", Floor: 1, Run: ruleR048},
			{ID: "R04.9", Title: "error decoration that scales with the configuration is added once, not once per nesting level", Floor: 1, Run: ruleR049},
			{ID: "R04.10", Title: "optional handlers are called at Generate time only under their nil test", Floor: 1, Run: ruleR0410},
			{ID: "R04.11", Title: "a scope lookup asks its parent scope at most once on every path (no exponential name resolution)", Floor: 4, Run: ruleR0411},
			{ID: "R04.12", Title: "Generate-time execution of program-defined code (constant closures, methods on constants) is bounded by a budget", Floor: 3, Run: ruleR0412},
			{ID: "R04.13", Title: "no unchecked (single-value) type assertion on a value of the language in Generate-time code", Floor: 1, Run: ruleR0413},
			{ID: "R04.15", Title: "the recursive descent hands the error of a nested parse call up unchanged (no wrapper per nesting level)", Floor: 8, Run: ruleR0415},
			{ID: "R15.11", Title: "the width of a decoded rune is not dropped (see C15)", Floor: 5, Run: ruleR1511},
			{ID: "R05.8", Title: "folding a self application terminates with a recoverable panic: the value stack bound is reached before the Go stack is exhausted (see C05)", Floor: 1, Run: ruleR058},
			{ID: "R10.3", Title: "a field that one function increments and decrements (a depth counter) is back at its old value on every exit of that function (see C10)", Floor: 0, Run: ruleR103(nil)},
			{ID: "R03.3", Title: "operator levels are entered in range of the operator table (see C03)", Floor: 3, Run: ruleR033},
		},
	})
	register(&Property{
		ID:        "C05",
		Technique: "goroutine-boundary containment check (recover semantics modelled: recover must be called directly by the deferred function; role table of the iterator dependency verified against its source), flow-sensitive use-before-error-check on CFG guards, guard dominance for integer faults and range-checked arguments, call-graph reachability of explicit panics, frozen table of fresh-stack sites, result-binding check of deferred recover helpers",
		Explanation: "Decides structural fault-containment conditions: every goroutine that can run closures of the evaluated program starts with a deferred function that itself calls recover(), or every function handed to a goroutine-crossing combinator of the iterator dependency is a recovering adapter (and a recovered downstream panic is re-raised on the calling goroutine); " +
			"no value returned together with an error is asserted/called/dereferenced before the error was compared with nil; integer division, modulo and signed shifts are guarded; arguments of panicking callees (rand.Intn, make, iterator.CombineN) are range checked; explicit panics reachable from evaluation are re-raises, the arg-package protocol or the recursion guard; " +
			"the recursion guard exists and the try expression is evaluated under a recover; fresh value stacks (which restart the recursion guard) occur only at the listed sites. Not decided: absence of every Go run-time panic (index out of range, nil map), Go stack exhaustion, panics while a lazy result is consumed after Eval returned.",
		Assumptions: []string{"host supplied matchers, operators and functions are not analysed", "the role table of the iterator dependency (which parameters run on another goroutine) is frozen in the checker and compared with the dependency's go statements on every run"},
		Rules: []*Rule{
			{ID: "R05.1", Title: "goroutine boundary containment: recovering entry or recovering adapters at every goroutine-crossing combinator", Floor: 5, Run: ruleR051},
			{ID: "R05.2", Title: "no use of a value before the error returned with it was compared with nil", Floor: 20, Run: ruleR052},
			{ID: "R05.3", Title: "integer division/modulo and signed shifts are guarded", Floor: 3, Run: ruleR053},
			{ID: "R05.4", Title: "arguments of panicking callees (rand.Intn, make, strings.Repeat, iterator.CombineN) are range checked", Floor: 4, Run: ruleR054},
			{ID: "R05.5", Title: "explicit panics reachable from evaluation: re-raise, arg protocol or recursion guard only", Floor: 3, Run: ruleR055},
			{ID: "R05.6", Title: "fresh value stacks (recursion guard restarts) only at the listed sites", Floor: 8, Run: ruleR056},
			{ID: "R05.8", Title: "recursion guard: the stack grows only below a constant bound", Floor: 1, Run: ruleR058},
			{ID: "R05.9", Title: "try/catch evaluates the try expression under a recover", Floor: 2, Run: ruleR059},
			{ID: "R10.1d", Title: "closure values built by built-ins during an evaluation keep no mutable state (no store into captured variables)", Floor: 1, Run: ruleR101closureValues},
			{ID: "R05.10", Title: "a recovered panic is reported on every path (error result set, callback called or panic raised again)", Floor: 8, Run: ruleR0510},
			{ID: "R05.11", Title: "a deferred recover helper stores into a named result of the very function that defers it", Floor: 40, Run: ruleR0511},
		},
	})
	register(&Property{
		ID:        "C06",
		Technique: "ownership check of value stacks at goroutine-crossing combinators (role table of the iterator dependency), lexical construction-site check of iterator pipelines, effect check of generated closures (no store to compile-time scope), lock-set check of the List cache, producer-stack capture check, receiver-mutating method calls on compile-time objects",
		Explanation: "Decides necessary conditions of schedule independence: no function that a goroutine-crossing combinator (MapAuto, FilterAuto, Merge) runs concurrently with its consumer or with its sibling shares a value stack with them (every such stack is created inside the producer / per worker); " +
			"every iterator pipeline with callbacks is built inside the list's producer function, i.e. per iteration; generated closures store nothing into compile-time scope; every access to the materialisation cache of List holds the list's mutex and the producer/size fields are written at construction only. " +
			"Not decided: equality of parallel and sequential results, order restoration inside the dependency, race freedom in the sense of the race detector.",
		Assumptions: []string{"role table of the iterator dependency as in R05.1"},
		Rules: []*Rule{
			{ID: "R06.1", Title: "value stacks are goroutine confined at MapAuto/FilterAuto/Merge", Floor: 3, Run: ruleR061},
			{ID: "R06.3", Title: "iterator pipelines with callbacks are constructed per iteration (inside the list producer)", Floor: 15, Run: ruleR063},
			{ID: "R06.2", Title: "the materialisation cache of List (items, itemsPresent) is accessed under its mutex only; iterable/size are immutable after construction", Floor: 8, Run: ruleR062},
			{ID: "R06.4", Title: "deep traversals of language values are complete: no success before the elements of a container were handed to the recursion", Floor: 2, Run: ruleR064},
			{ID: "R05.1", Title: "a failing element fails the evaluation under every schedule: code that a combinator runs on a goroutine of its own recovers (see C05)", Floor: 5, Run: ruleR051},
			{ID: "R10.1a", Title: "generated closures store nothing into generator (compile time) scope", Floor: 25, Run: ruleR101closures},
			{ID: "R10.1d", Title: "closure values built by built-ins during an evaluation keep no mutable state (no store into captured variables)", Floor: 1, Run: ruleR101closureValues},
			{ID: "R09.1", Title: "list backing slices are never written in place (see C09)", Floor: 36, Run: ruleR091},
			{ID: "R09.2", Title: "maps are never updated in place (see C09)", Floor: 40, Run: ruleR092},
			{ID: "R09.3", Title: "language values other than List never append in place to a slice shared with their receiver (see C09)", Floor: 1, Run: ruleR093},
			{ID: "R10.4", Title: "the producer of a lazy list uses the stack of its consumer only: no value stack is captured from the call that built the list", Floor: 20, Run: ruleR104},
		},
	})
	register(&Property{
		ID:        "C07",
		Technique: "flow-sensitive error-drop analysis on per-function CFGs (every error definition reaches a test/return/hand-over before overwrite or exit), dead-store check for value receivers, arity-vs-stack-slot check of every method/function declaration (interprocedural constant binding, two levels), sibling agreement of map storages (R13.1), aliasing discipline of list backing slices (R09.1), path-sensitive postcondition of the materialising method (success implies presence, no store after failure)",
		Explanation: "Decides, for the clause 'misuse yields an error' and for the mechanisms the built-ins share: no error produced inside a built-in is dropped on any path; a method that records an error in its receiver can be observed by its caller; " +
			"no method or function reads a stack slot beyond its declared arity; the map storages agree on their key domain and list backing slices are not aliased by their providers (R13.1, R09.1); string cutting keeps one unit (runes or bytes) per quantity; text to number conversions read the same number syntax as the language's own number parser. Not decided: the mathematical result of each of the ~120 built-ins.",
		Rules: []*Rule{
			{ID: "R07.1", Title: "no error is dropped in the built-ins (tested, returned or handed on, on every path)", Floor: 600, Run: ruleR071},
			{ID: "R07.2", Title: "stores into fields of a value receiver are not lost (error sinks are shared)", Floor: 0, Run: ruleR072},
			{ID: "R07.3", Title: "declared arity covers every stack slot the implementation reads", Floor: 121, Run: ruleR073},
			{ID: "R07.4", Title: "string positions: a rune count is never equated with, added to or subtracted from a byte count", Floor: 4, Run: ruleR074},
			{ID: "R07.5", Title: "a rune that is written into a result is decoded from a string known to be non empty (must-analysis on the CFG)", Floor: 1, Run: ruleR075},
			{ID: "R07.6", Title: "no address of an element of a slice is kept while the same function appends to that slice", Floor: 0, Run: ruleR076},
			{ID: "R07.7", Title: "one number syntax: text to number conversions of the value package agree with the number parser of the language (kind and base)", Floor: 2, Run: ruleR077},
			{ID: "R07.8", Title: "errors are not swallowed: no success return is reached from the non-nil branch of an error test without the error being used", Floor: 1, Run: ruleR078},
			{ID: "R14.1", Title: "the = and < matrices: mirrored cells, integer cells compare integers exactly (see C14)", Floor: 11, Run: ruleR141},
			{ID: "R06.4", Title: "deep traversals of language values are complete: no success before the elements of a container were handed to the recursion", Floor: 2, Run: ruleR064},
			{ID: "R13.1", Title: "key-domain agreement of the map storages (see C13)", Floor: 9, Run: ruleR131},
			{ID: "R09.1", Title: "list backing slices are never written in place (see C09)", Floor: 36, Run: ruleR091},
			{ID: "R09.2", Title: "maps are never updated in place (see C09)", Floor: 40, Run: ruleR092},
			{ID: "R07.9", Title: "materialising a lazy list: success implies the items are present, and nothing is cached while an error of the producer is pending", Floor: 2, Run: ruleR079},
			{ID: "R13.3", Title: "flattening a chain of map wrappers copies the abstract view of the whole chain, not the storage below it (see C13)", Floor: 3, Run: ruleR133},
			{ID: "R07.10", Title: "a static function registered under the name of a function of package math is bound to that function (writer's and reader's tables agree)", Floor: 8, Run: ruleR0710},
		},
	})
	register(&Property{
		ID:        "C08",
		Technique: "construction-site purity check of lazy stages (no consuming method, no closure call outside the producer; consuming methods derived from the source), early-exit check of short-circuit consumers on CFG guards, stop-propagation check of every producer literal (repository and iterator dependency), per-iteration state check of stage producers, read-ahead discipline of producer loops (element independent exit before error forwarding, no latched element errors), who-may-call check of the eager parallel combinators",
		Explanation: "Decides the structural side of laziness: building a lazy stage iterates nothing and calls no closure; first/single/present/indexWhere/~ leave their loop over the producer as soon as the result is decided; every producer (in the repository and in the iterator dependency) returns when the consumer answers false, or ignores the answer only for its last element; " +
			"stage producers keep all state they modify per iteration; a loop over a producer that can drop the element it has just pulled on an element independent exit tests that exit before it forwards the element's error, and no element error is stored beyond the loop while the loop goes on. Not decided: demand counts, the read-ahead width, errors behind the decisive element in other shapes or in parallel mode.",
		Rules: []*Rule{
			{ID: "R08.1", Title: "stage constructors do not consume: no list iteration and no closure call outside the returned producer", Floor: 21, Run: ruleR081},
			{ID: "R08.2", Title: "short circuit consumers return inside the loop over the producer", Floor: 5, Run: ruleR082},
			{ID: "R08.3", Title: "stop is propagated: no producer calls the consumer again after it answered false", Floor: 47, Run: ruleR083},
			{ID: "R08.4", Title: "no list is rendered into a message (List.String iterates the list a second time)", Floor: 1, Run: ruleR084},
			{ID: "R08.5", Title: "the error of a read-ahead element is not reported: an element independent exit that drops the pulled element precedes every forwarding of its error", Floor: 2, Run: ruleR085},
			{ID: "R08.6", Title: "generated code of language constructs does not consume lists (no Eval/ToSlice/Size/deep evaluation inside generated closures)", Floor: 1, Run: ruleR086},
			{ID: "R10.1b", Title: "stage producers modify only state created inside the producer (per iteration)", Floor: 23, Run: ruleR101stages},
			{ID: "R08.7", Title: "stages use the measuring combinators (MapAuto, FilterAuto), never the ones that start their workers at once", Floor: 2, Run: ruleR087},
		},
	})
	register(&Property{
		ID:        "C09",
		Technique: "ownership/aliasing analysis of backing slices (origin classification of every slice that is written in place or becomes the storage of a list), guard check of the capacity trim of append, receiver-store check of all MapStorage implementations, call-site restriction of the one in-place map update (ListMap.Append) to maps created by the calling function, determinism check of lazy producers (no range over a Go map), store classification of List fields (cache fill and trim only)",
		Explanation: "Decides the mechanism of persistence, not content equality: every in-place write to a []Value (element store, swap, delete-by-append, sort, copy) targets a slice the function allocated itself; a slice that becomes the storage of a list is not written afterwards and is not a buffer the iterator dependency reuses; " +
			"the in-place append trims the parent's capacity whenever spare capacity was left; ToSlice returns a capacity-capped view and CopyToSlice a fresh copy; no map storage method stores into its receiver; ListMap.Append and Go-map stores only touch maps the function created. Not decided: behaviour of host-provided storages, observable equality of old values.",
		Rules: []*Rule{
			{ID: "R09.1", Title: "list backing slices: in-place writes only on own allocations; new lists not backed by reused buffers; append trims the parent; ToSlice capped, CopyToSlice fresh", Floor: 36, Run: ruleR091},
			{ID: "R09.2", Title: "maps are never updated in place: no receiver stores; ListMap.Append / Go map stores only on maps created by the function", Floor: 40, Run: ruleR092},
			{ID: "R09.3", Title: "language values other than List never append to a slice field of their receiver or of a shallow copy of it without capping or cloning it", Floor: 1, Run: ruleR093},
			{ID: "R09.4", Title: "a lazy list delivers the same sequence at every traversal: no producer ranges over a Go map", Floor: 21, Run: ruleR094},
			{ID: "R09.5", Title: "a list has no state besides its materialisation cache: no store into another field of an existing list", Floor: 4, Run: ruleR095},
		},
	})
	register(&Property{
		ID:        "C10",
		Technique: "effect analysis: every store in code reachable from evaluation entry points (call-graph closure over static calls, method values and interface dispatch) is classified by the lifetime of its target; generated closures and stage producers are checked for stores into compile-time / per-list scope; aliasing rules R09.1/R09.2; per-closure allocation of the closure context (R01.2), pairing check of depth counters, producer-stack capture check, postcondition of the materialising method",
		Explanation: "Decides 'no evaluation-time store outlives the evaluation': code reachable from evaluation writes no package level variable, no field of the generator/optimizer/parser and no language value reached through a pointer (other than the mutex protected List cache); generated closures store nothing into generator scope; stage producers keep their state per iteration; " +
			"list/map values are never written in place (R09); the closure context is allocated per closure creation (R01.2); every Eval creates its own stack and no generator-owned stack is used by evaluation code. Not decided: host functions with hidden state, random.",
		Rules: []*Rule{
			{ID: "R10.1a", Title: "generated closures store nothing into generator (compile time) scope", Floor: 25, Run: ruleR101closures},
			{ID: "R10.1b", Title: "stage producers modify only state created inside the producer (per iteration)", Floor: 23, Run: ruleR101stages},
			{ID: "R10.1d", Title: "closure values built by built-ins during an evaluation keep no mutable state (no store into captured variables)", Floor: 1, Run: ruleR101closureValues},
			{ID: "R10.1c", Title: "evaluation code stores nothing into package level variables, generator fields or shared language values", Floor: 1, Run: ruleR101effects},
			{ID: "R10.2", Title: "every Eval creates its own stack; no generator-owned stack is used by evaluation code", Floor: 2, Run: ruleR102},
			{ID: "R10.2b", Title: "a stack never adopts a slice it does not own: NewStack(x...) only with a slice the calling function allocated itself", Floor: 1, Run: ruleR102b},
			{ID: "R10.3", Title: "a field that one function increments and decrements (a depth counter) is back at its old value on every exit of that function", Floor: 0, Run: ruleR103(nil)},
			{ID: "R09.1", Title: "list backing slices are never written in place (see C09)", Floor: 36, Run: ruleR091},
			{ID: "R09.2", Title: "maps are never updated in place (see C09)", Floor: 40, Run: ruleR092},
			{ID: "R09.3", Title: "language values other than List never append to a slice field of their receiver or of a shallow copy of it without capping or cloning it", Floor: 1, Run: ruleR093},
			{ID: "R01.2", Title: "closure context allocated per closure creation, slots in compile order (see C01)", Floor: 16, Run: ruleR012},
			{ID: "R07.9", Title: "materialising a lazy list: success implies the items are present, and nothing is cached while an error of the producer is pending", Floor: 2, Run: ruleR079},
			{ID: "R10.4", Title: "the producer of a lazy list uses the stack of its consumer only: no value stack is captured from the call that built the list", Floor: 20, Run: ruleR104},
			{ID: "R11.2", Title: "generators share no mutable table: no package level map is handed to a registration method of a generator", Floor: 4, Run: ruleR112},
		},
	})
	register(&Property{
		ID:        "C11",
		Technique: "the effect and ownership rules of C06/C10 read as necessary conditions of data-race freedom: lifetime classification of every evaluation-time store, mutex discipline of the List cache (lock set, append inside the trimming critical section), goroutine confinement of value stacks, per-iteration pipelines, write-once check of the package level variables evaluation code reads, producer-stack capture check, postcondition of the materialising method",
		Explanation: "Decides the necessary condition 'every evaluation-time store targets memory allocated during that evaluation or is lock protected': generated closures are read-only after Generate (no store into compile-time scope), evaluation code writes no package level variable / generator field / shared language value, the List cache is accessed under its mutex only and an append into spare capacity happens in the critical section that trims the parent, " +
			"no generator-owned stack is used by evaluation code, every Eval has its own stack, iterator pipelines are built per iteration, and set-up code (value.New, registration helpers) writes the package level variables that evaluation code reads only once per process (declaration, init, package level sync.Once). Not decided: actual race freedom (no sound may-alias analysis in reach), equality of concurrent and isolated outcomes.",
		Assumptions: []string{"host functions and host values registered by the application are themselves safe for concurrent use"},
		Rules: []*Rule{
			{ID: "R10.1a", Title: "generated closures store nothing into generator (compile time) scope", Floor: 25, Run: ruleR101closures},
			{ID: "R10.1b", Title: "stage producers modify only state created inside the producer (per iteration)", Floor: 23, Run: ruleR101stages},
			{ID: "R10.1d", Title: "closure values built by built-ins during an evaluation keep no mutable state (no store into captured variables)", Floor: 1, Run: ruleR101closureValues},
			{ID: "R10.1c", Title: "evaluation code stores nothing into package level variables, generator fields or shared language values", Floor: 1, Run: ruleR101effects},
			{ID: "R10.2", Title: "every Eval creates its own stack; no generator-owned stack is used by evaluation code", Floor: 2, Run: ruleR102},
			{ID: "R10.2b", Title: "a stack never adopts a slice it does not own: NewStack(x...) only with a slice the calling function allocated itself", Floor: 1, Run: ruleR102b},
			{ID: "R11.1", Title: "package level variables read by evaluation code are written once per process only (declaration, init, package level sync.Once)", Floor: 11, Run: ruleR111},
			{ID: "R06.2", Title: "the List cache is accessed under its mutex only", Floor: 8, Run: ruleR062},
			{ID: "R09.1", Title: "list backing slices are never written in place; an append into spare capacity happens inside the critical section that trims the parent (see C09)", Floor: 36, Run: ruleR091},
			{ID: "R09.3", Title: "language values other than List never append in place to a slice shared with their receiver (see C09)", Floor: 1, Run: ruleR093},
			{ID: "R09.2", Title: "maps are never updated in place (see C09)", Floor: 40, Run: ruleR092},
			{ID: "R06.1", Title: "value stacks are goroutine confined at MapAuto/FilterAuto/Merge", Floor: 3, Run: ruleR061},
			{ID: "R06.3", Title: "iterator pipelines with callbacks are constructed per iteration", Floor: 15, Run: ruleR063},
			{ID: "R07.9", Title: "materialising a lazy list: success implies the items are present, and nothing is cached while an error of the producer is pending", Floor: 2, Run: ruleR079},
			{ID: "R10.4", Title: "the producer of a lazy list uses the stack of its consumer only: no value stack is captured from the call that built the list", Floor: 20, Run: ruleR104},
			{ID: "R11.2", Title: "generators share no mutable table: no package level map is handed to a registration method of a generator", Floor: 4, Run: ruleR112},
		},
	})
	register(&Property{
		ID:        "C12",
		Technique: "channel-protocol pairing at every spawn site: must-pass-through of the deferred blocking drain in Parse, close-dominates-return in the tokenizer goroutine, pattern analysis of the iterator dependency's goroutines (break that leaves only a select; plain send vs early-exit receiver) reported at the repository call sites that reach them, must-pass-through of the feeding call behind every consumer spawn",
		Explanation: "Decides the structural pairing of goroutine starts with what ends them: the tokenizer goroutine closes its channel on every exit and Parse defers a blocking drain directly behind its start; every repository call into the iterator dependency is checked against the termination-protocol defects found in the dependency's source (known findings D16 at the map/accept/merge call sites; any new call site is a violation); " +
			"behind every multiUse consumer spawn every path runs the feeding function. Not decided: timing ('short grace period'), termination of the user closures themselves.",
		Rules: []*Rule{
			{ID: "R12.1", Title: "tokenizer goroutine: closes its channel on every exit; Parse defers a blocking drain behind the start", Floor: 2, Run: ruleR121},
			{ID: "R12.2", Title: "calls into the iterator dependency reach no goroutine with a defective termination protocol (ineffective break, blocked send)", Floor: 19, Run: ruleR122},
			{ID: "R12.4", Title: "consumer goroutines are always fed: every path behind the spawn runs the CopyProducer feeding function", Floor: 1, Run: ruleR124},
			{ID: "R12.5", Title: "pulled iterators are stopped: every path from iter.Pull/Pull2 to an exit of the function calls stop (or stop is deferred)", Floor: 0, Run: ruleR125},
			{ID: "R06.4", Title: "deep traversals of language values are complete: no success before the elements of a container were handed to the recursion", Floor: 2, Run: ruleR064},
		},
	})
	register(&Property{
		ID:        "C13",
		Technique: "sibling agreement of the MapStorage implementations: symbolic key-domain extraction (DNF over storage atoms with absorption) from Get, Iter and Size of every implementation; presence-test dominance for wrappers that add keys; representation-independence check of observers (no assertion to a concrete storage); abstract-view check of the flattening",
		Explanation: "Decides that every map representation answers Get, Iter and Size over one and the same symbolic key domain (so member access, get, isAvail, ~, size(), list(), string(), equality and export can not see different key sets), that wrappers which add keys are built only after a boolean presence test found them absent (put, +, createLowPass, map literals), " +
			"that observers never inspect the concrete representation (apart from the depth counter of replace chains and optional capability interfaces), and that the flattening of deep replace chains copies the map's own abstract view; plus the in-place update rules R09.2. Not decided: agreement of values (only key domains), host-provided storages.",
		Assumptions: []string{"a host function behind NewFuncMapFactory accepts only the keys it was declared with"},
		Rules: []*Rule{
			{ID: "R13.1", Title: "key-domain agreement: Get, Iter and Size of every MapStorage implementation range over the same symbolic key set", Floor: 9, Run: ruleR131},
			{ID: "R13.2", Title: "uniqueness: wrappers that add keys are dominated by a boolean presence test; map literals test before append", Floor: 5, Run: ruleR132},
			{ID: "R13.3", Title: "representation independence: observers use the MapStorage interface only; flattening copies the abstract view", Floor: 3, Run: ruleR133},
			{ID: "R13.4", Title: "the methods of a map stay reachable: the closure-field branch of a generated method call returns only after a function was extracted from the entry", Floor: 1, Run: ruleR134},
			{ID: "R18.7", Title: "attribute form or element form of a map is decided per map (a field of the exporter), never per entry: the XML writer drops attributes that follow a child", Floor: 1, Run: ruleR187},
			{ID: "R09.2", Title: "maps are never updated in place (see C09)", Floor: 40, Run: ruleR092},
			{ID: "R09.3", Title: "language values other than List never append to a slice field of their receiver or of a shallow copy of it without capping or cloning it", Floor: 1, Run: ruleR093},
			{ID: "R13.5", Title: "kind tables have no hole: a switch over reflect.Kind that handles a kind handles every narrower kind of the same family", Floor: 1, Run: ruleR135},
		},
	})
	register(&Property{
		ID:        "C14",
		Technique: "table and wiring checks: mirror-image comparison of the cells of the = and < matrices, parameter-position dataflow of the derived operators against a reference table taken from the property text, registration/assertion type agreement, identity of the relation object used by all consumers, size-test dominance in container equality, use-before-error-check (R05.2), guard check of float-to-integer conversions in comparison cells (two-sided bound)",
		Explanation: "Decides the table and wiring conditions the algebraic laws need: the = and < matrices have a cell for both operand orders of every mixed pair and mirrored cells convert each operand type the same way; != > <= >= are computed from the objects registered for = and < with the operand order and evaluation order of the reference table (ordering first, so incomparable operands fail); " +
			"every implementation asserts exactly the Go types it is registered for; switch, ~, groupByEqual, min/max/order and the element comparison of containers all call the object registered as the operator; container equality compares sizes on every path to 'equal'; no Go == on two language values; results are not used before their error was checked. Not decided: the laws on values themselves (transitivity etc. follow from Go's float/int/string semantics), NaN.",
		Rules: []*Rule{
			{ID: "R14.1", Title: "the = and < matrices are symmetric: mirrored cells exist and are mirror images", Floor: 11, Run: ruleR141},
			{ID: "R14.2", Title: "derived operators != > <= >= route through the = and < objects in reference order", Floor: 4, Run: ruleR142},
			{ID: "R14.3", Title: "registration/assertion agreement: operands are asserted to the Go type of their registered type id", Floor: 70, Run: ruleR143},
			{ID: "R14.4", Title: "one equality, one ordering: all consumers call the registered operator object; no Go == on values", Floor: 3, Run: ruleR144},
			{ID: "R14.7", Title: "container equality compares sizes before it can report equal", Floor: 2, Run: ruleR147},
			{ID: "R14.8", Title: "searches decide by the equality function alone: no candidate is skipped before the registered equality was asked", Floor: 2, Run: ruleR148},
			{ID: "R14.9", Title: "comparison cells convert no float operand to an integer without a test that bounds it from both sides", Floor: 8, Run: ruleR149},
			{ID: "R13.1", Title: "key-domain agreement of the map storages: map equality compares Size, Iter and Get (see C13)", Floor: 9, Run: ruleR131},
			{ID: "R05.2", Title: "no use of a value before the error returned with it was compared with nil (see C05)", Floor: 20, Run: ruleR052},
			{ID: "R02.8", Title: "first-match folding of switch nodes agrees with the run-time order of the equality tests (see C02)", Floor: 0, Run: ruleR028},
			{ID: "R02.4", Title: "the relations = and < and the operators derived from them are not declared commutative (regroupable): a comparison never yields a boolean where the written expression compares incomparable operands (see C02)", Floor: 15, Run: ruleR024(func(p *packages.Package) bool { return strings.HasSuffix(p.PkgPath, "/value") })},
			{ID: "R09.1", Title: "the membership operator works on a copy: list backing slices are never written in place (see C09)", Floor: 36, Run: ruleR091},
		},
	})
	register(&Property{
		ID:        "C15",
		Technique: "constant propagation of the comment-skipping flag through the scanner's call sites, dominance and ordering checks inside peek, case-constant vs written-constant agreement of the escape and alias tables against reference tables taken from the property text, implicit-multiplication guard (R03.6), parameter-identity check of the text handed to the tokenizer, liveness of decode widths, table-lookup mechanism of the superscripts evaluated per rune",
		Explanation: "Decides the structural side of layout independence: comment skipping is off at every call made while the characters of one token are read and on at the two token boundaries; a cached '/' is re-examined, adjacent comments are skipped in a loop, the re-examination position lies behind the skipped comments, line breaks in block comments and between tokens are counted; " +
			"the escape table of string literals and the typographic/superscript alias tables equal the documented ones; quoted identifiers are emitted without keyword/text-operator lookup; implicit '*' bookkeeping only in comfort mode. Not decided: AST invariance under re-spacing as such, comfort-mode juxtaposition semantics, line attribution in general.",
		Rules: []*Rule{
			{ID: "R15.1", Title: "comment skipping flag: off inside tokens, on at token boundaries, forwarded unchanged", Floor: 12, Run: ruleR151},
			{ID: "R15.2", Title: "comment recognition: cached '/' re-examined, adjacent comments looped, snapshot behind comments, line breaks counted", Floor: 5, Run: ruleR152},
			{ID: "R15.3", Title: "escape table of string literals equals the documented one", Floor: 1, Run: ruleR153},
			{ID: "R15.4", Title: "typographic aliases, superscripts and their exclusion sets equal the documented tables", Floor: 3, Run: ruleR154},
			{ID: "R15.6", Title: "quoted identifiers denote their exact content (no keyword / text operator lookup)", Floor: 1, Run: ruleR156},
			{ID: "R15.7", Title: "string literals and quoted identifiers are built from runes as written, not from the alias-replacing readers", Floor: 2, Run: ruleR157},
			{ID: "R15.8", Title: "the image of a number or identifier consists of exactly the runes the matcher accepted (aliases in their ASCII form)", Floor: 1, Run: ruleR158},
			{ID: "R15.9", Title: "string literals are decoded once: the string converter handed to the parser wraps the decoded text as it is", Floor: 1, Run: ruleR159},
			{ID: "R15.10", Title: "the tokenizer scans the source exactly as it was handed to Parse (nothing is trimmed or rewritten before the lines are counted)", Floor: 2, Run: ruleR1510},
			{ID: "R15.11", Title: "the width of a decoded rune is not dropped: the variable it is stored into is read before it is overwritten", Floor: 5, Run: ruleR1511},
			{ID: "R03.6", Title: "implicit multiplication bookkeeping only in comfort mode (see C03)", Floor: 3, Run: ruleR036},
			{ID: "R15.12", Title: "comment skipping is opt-in: the constructor of the parser leaves it switched off", Floor: 1, Run: ruleR1512},
		},
	})
	register(&Property{
		ID:        "C16",
		Technique: "agreement checks between the parser's scope functions and the generator: dependence of the recorded outer name on Identifier.ThisName (R01.4), guard dominance in AddMap, wrapping order and name identity in GenerateWithMap, single-use check of closure scopes, dedup-key agreement in AddArgs, scope-identity check of the parse call that yields a let's value",
		Explanation: "Decides the structural conditions of implicit-attribute mode: the name a closure captures for an attribute is the map's name (R01.4); AddMap lets exactly the constants and static functions of the wrapped scope win and turns every other name into an attribute of the given map; GenerateWithMap uses one name as the single stack argument and as attribute owner, wraps the generator scope with AddMap and adds the arguments on top; " +
			"a scope that contains closure parameters is used for that closure body only; the outer-name list is deduplicated by the value that is appended; closure literals carry the variables their scope was built from (R01.3). Not decided: behavioural equivalence with the explicitly rewritten program.",
		Rules: []*Rule{
			{ID: "R01.4", Title: "captured-name agreement between parseLiteral and AddArgs (see C01)", Floor: 1, Run: ruleR014},
			{ID: "R16.1", Title: "AddMap: constants/static functions of the wrapped scope win, all other names become attributes of the map", Floor: 1, Run: ruleR161},
			{ID: "R16.2", Title: "GenerateWithMap: one name for stack argument and attribute owner; AddMap wraps the generator scope, arguments on top", Floor: 1, Run: ruleR162},
			{ID: "R16.6", Title: "IsMap and AccessMap of a map handler recognise a map the same way (sibling agreement)", Floor: 1, Run: ruleR166},
			{ID: "R16.3", Title: "closure scopes are used for the closure body only; outer names are deduplicated by the appended value", Floor: 4, Run: ruleR163},
			{ID: "R16.4", Title: "every identifier resolved to an attribute is rewritten to a map access, whatever follows it", Floor: 2, Run: ruleR164},
			{ID: "R16.5", Title: "scope links ask their parent for the looked up name itself (no renaming links: lexical scoping)", Floor: 5, Run: ruleR165},
			{ID: "R16.7", Title: "the value of a let is parsed in the enclosing scope: only the inner expression sees the new name", Floor: 2, Run: ruleR167},
			{ID: "R01.3", Title: "scope recording of closure literals (see C01)", Floor: 3, Run: ruleR013},
		},
	})
	register(&Property{
		ID:        "C17",
		Technique: "abstract evaluation of the string escaper (three-valued evaluation of its switch/if conditions for every mandatory and representative code point; no code is run), typestate check of the separator flag on CFG guards, who-writes check of the JSON buffer, must-pass-through of Close behind Open in the generic traversal",
		Explanation: "Decides the structural side of JSON validity: for all of U+0000-U+001F, quote, backslash and representative BMP/supplementary code points every sink the escaper can reach is a valid JSON representation of that code point (\\u%04x only up to U+FFFF); the separator flag belongs to the container being written, starts true, is cleared with the first member and guards the comma; brackets match; " +
			"non-constant text reaches the buffer only inside the escaper; every path of the traversal from Open to a successful return calls Close, keys are collected by append and a member is exported only if Get finds its key. Not decided: that scalars' ToString is the intended string form, round-trip equality of decoded documents, invalid UTF-8.",
		Rules: []*Rule{
			{ID: "R17.1", Title: "JSON string escaper: every reachable sink is a valid JSON representation (abstract evaluation per code point)", Floor: 2, Run: ruleR171},
			{ID: "R17.2", Title: "separator typestate of list and map exporters; matching brackets", Floor: 2, Run: ruleR172},
			{ID: "R17.3", Title: "non-constant text reaches the JSON buffer only through the escaper", Floor: 10, Run: ruleR173},
			{ID: "R17.4", Title: "generic traversal: Close on every successful path behind Open; only present keys are exported", Floor: 3, Run: ruleR174},
			{ID: "R07.8", Title: "errors are not swallowed: no success return is reached from the non-nil branch of an error test without the error being used", Floor: 1, Run: ruleR078},
			{ID: "R17.5", Title: "nothing that is handed back to a sync.Pool is returned (no result refers to pooled memory)", Floor: 0, Run: ruleR175},
			{ID: "R17.6", Title: "the Custom hook of the JSON exporter does not take over the scalar types of the value package (scalars are written as their ToString form by the traversal)", Floor: 1, Run: ruleR176},
			{ID: "R07.2", Title: "stores into fields of a value receiver are not lost: exporter state survives Add (see C07)", Floor: 0, Run: ruleR072},
			{ID: "R13.1", Title: "key-domain agreement of the map storages (see C13)", Floor: 9, Run: ruleR131},
			{ID: "R17.7", Title: "parallel slices stay parallel: of two slices filled side by side none is sorted alone and then used to index the other", Floor: 0, Run: ruleR177},
		},
	})
	register(&Property{
		ID:        "C18",
		Technique: "name-position check (constant, constant-fed parameter or validator-dominated) of every Open/Attr call, who-writes check of the raw sinks, abstract evaluation of the XML escaper per code point, structured depth counting of Open/Close with role summaries per function, recover-semantics check of ToHtml, pairing check of depth counters, per-code-point evaluation follows overwritten runes and predicate calls (code-point sets)",
		Explanation: "Decides the structural side of injection freedom and well-formedness: every element and attribute name is a constant, a parameter fed with constants only, or dominated by the XML name validator; a map is exported in attribute form only if all its keys passed that validator; raw sinks receive constants, names or the host's custom renderer output; " +
			"attribute values and character data go through the escaper, whose every reachable sink for < > & ' \" is the entity; on every non-failing path each function changes the element depth by exactly its role (+1 open, -1 close, 0 otherwise); ToHtml recovers panics into its error. Not decided: illegal XML characters (excluded by the property), attribute-value normalisation of CR/LF/TAB by XML parsers, javascript: URLs, CSS semantics.",
		Rules: []*Rule{
			{ID: "R18.1", Title: "element and attribute names are constants or validated; attribute form only for maps whose keys are all names", Floor: 35, Run: ruleR181},
			{ID: "R18.2", Title: "raw sinks receive constants, names or the custom renderer's output; values and text go through the escaper", Floor: 12, Run: ruleR182},
			{ID: "R18.3", Title: "XML escaper: < > & ' \" always become entities (abstract evaluation per code point)", Floor: 1, Run: ruleR183},
			{ID: "R18.4", Title: "elements are balanced: every function changes the depth by exactly its role on non-failing paths", Floor: 15, Run: ruleR184},
			{ID: "R18.5", Title: "ToHtml recovers panics into its error result", Floor: 1, Run: ruleR185},
			{ID: "R18.6", Title: "the XML name validator accepts only XML name characters (value-set analysis of its condition over all code points)", Floor: 1, Run: ruleR186},
			{ID: "R18.7", Title: "attribute form or element form of a map is decided per map (a field of the exporter), never per entry: the XML writer drops attributes that follow a child", Floor: 1, Run: ruleR187},
			{ID: "R10.3", Title: "a field that one function increments and decrements (a depth counter) is back at its old value on every exit of that function (value/export; see C10)", Floor: 0, Run: ruleR103(func(p *packages.Package) bool { return strings.HasPrefix(p.PkgPath, modPath+"/value/export") })},
			{ID: "R07.8", Title: "errors are not swallowed: no success return is reached from the non-nil branch of an error test without the error being used", Floor: 1, Run: ruleR078},
			{ID: "R17.5", Title: "nothing that is handed back to a sync.Pool is returned (no result refers to pooled memory)", Floor: 0, Run: ruleR175},
			{ID: "R07.2", Title: "stores into fields of a value receiver are not lost: exporter state survives Add (see C07)", Floor: 0, Run: ruleR072},
			{ID: "R05.10", Title: "a recovered panic is reported on every path: a result the caller sees is set (see C05)", Floor: 8, Run: ruleR0510},
			{ID: "R17.7", Title: "parallel slices stay parallel: of two slices filled side by side none is sorted alone and then used to index the other", Floor: 0, Run: ruleR177},
		},
	})
	register(&Property{
		ID:        "C19",
		Technique: "flag/implementation witness tables over the example configurations, symbolic index check of the operator-table insertion, operand-conservation check of the optimizer's regrouping, abstract evaluation of the tokenizer's implicit-multiplication conditions over all (previous token, blank) combinations, plus the generic-body rules of C01-C03 (frame slots, guarded folding, purity propagation, precedence climbing), pairing check of depth counters",
		Explanation: "Decides the code-shape clauses the bounded-exhaustive statement rests on, for every value type at once because the generic bodies are analysed uninstantiated: the example configurations declare no commutative/pure flag that the implementation contradicts; AddOpBehind inserts directly behind the reference operator (registration order is priority); the optimizer's regrouping keeps the variable operand and folds only the operand proven constant; the tokenizer inserts the implicit '*' exactly for the documented (previous token, blank) combinations; " +
			"the generic generator, optimizer and parser rules of C01, C02 and C03 hold. Not decided: the computed values themselves - no expression is evaluated; equality with the operators' own definitions for every expression is a run-time quantity.",
		Rules: []*Rule{
			{ID: "R19.4", Title: "example configurations: declared flags vs implementation (R02.4 on example/bool.go, example/minimal.go)", Floor: 8, Run: ruleR024(func(p *packages.Package) bool {
				return strings.HasSuffix(p.PkgPath, "/example") && !strings.HasSuffix(p.PkgPath, "value/example")
			})},
			{ID: "R19.1", Title: "regrouping folds the operand proven constant and keeps the other one", Floor: 2, Run: ruleR191},
			{ID: "R19.2", Title: "AddOpBehind inserts directly behind the reference operator", Floor: 1, Run: ruleR192},
			{ID: "R19.3", Title: "implicit multiplication is inserted exactly for the documented token pairs", Floor: 3, Run: ruleR193},
			{ID: "R01.1", Title: "frame-slot agreement of the generic generator (see C01)", Floor: 39, Run: ruleR011},
			{ID: "R02.1", Title: "purity-guarded folding (see C02)", Floor: 6, Run: ruleR021},
			{ID: "R02.2", Title: "regroup guard (see C02)", Floor: 2, Run: ruleR022},
			{ID: "R02.3", Title: "purity propagation (see C02)", Floor: 15, Run: ruleR023},
			{ID: "R02.7", Title: "subtree promotion only under the generated code's own condition (see C02)", Floor: 2, Run: ruleR027},
			{ID: "R02.8", Title: "first-match folding of switch nodes (see C02)", Floor: 0, Run: ruleR028},
			{ID: "R10.2b", Title: "a stack never adopts a slice it does not own (see C10)", Floor: 1, Run: ruleR102b},
			{ID: "R10.3", Title: "a field that one function increments and decrements (a depth counter) is back at its old value on every exit of that function (see C10)", Floor: 0, Run: ruleR103(nil)},
			{ID: "R03.1", Title: "one recursion level per operator (see C03)", Floor: 3, Run: ruleR031},
			{ID: "R03.2", Title: "left associative accumulation loop (see C03)", Floor: 7, Run: ruleR032},
			{ID: "R03.3", Title: "prefix operators (see C03)", Floor: 3, Run: ruleR033},
			{ID: "R03.4", Title: "EOF test dominates every successful return of Parse (see C03)", Floor: 1, Run: ruleR034},
		},
	})
	register(&Property{
		ID:        "C20",
		Technique: "polynomial normal forms of the index and description formulas compared with the property's bin definition, guard dominance of the float-to-int conversion (clamp before convert), index-origin check of every bins access, straight-line accumulation check, allocation check of the accumulator rows, length-agreement check of the collectBinning loops, pass-through check of the float argument readers (single assignment, no arithmetic between the value's ToFloat and the accumulator), aliasing rule R09.1",
		Explanation: "Decides the structural side of mass conservation: getIndex computes floor((x-start)/size)+1 and converts to int only under 0 <= f < bins established in the float domain, returning the two outer bins otherwise; getDescr(i) describes [start+(i-1)*size, start+i*size) with the open side for the outer bins, the interval getIndex maps to i; every access to the bins uses a getIndex result of the matching axis, whose size is the length of that slice dimension; Add performs exactly one '+=' of the summand on every call; " +
			"rows are separate allocations; collectBinning accumulates element-wise only under equal lengths and never into a slice handed out by a list; negative counts are rejected before make; the grid parameters and weights handed to the accumulator are the floats the argument readers returned, and a reader returns what the value's ToFloat gave (no cleaning, rounding or re-parsing on the way). Not decided: floating point rounding of the index formula at bin edges, the sums themselves, additivity for every split (a run-time relation).",
		Rules: []*Rule{
			{ID: "R20.1", Title: "getIndex: index formula, clamp before convert, results are valid bins", Floor: 3, Run: ruleR201},
			{ID: "R20.6", Title: "getDescr(i) describes the interval getIndex maps to i", Floor: 3, Run: ruleR206},
			{ID: "R20.2", Title: "bins are indexed by getIndex results of the matching axis; Add accumulates exactly once; rows are separate allocations", Floor: 12, Run: ruleR202},
			{ID: "R20.3", Title: "collectBinning accumulates element-wise under equal lengths", Floor: 2, Run: ruleR203},
			{ID: "R20.7", Title: "sums are published as accumulated: the float of a bin becomes a value by a plain conversion, no arithmetic on the way", Floor: 2, Run: ruleR207},
			{ID: "R20.8", Title: "grid and weights reach the accumulator as given: binning builtins hand on what a float reader returned, and a float reader returns what the value's ToFloat gave", Floor: 12, Run: ruleR208},
			{ID: "R05.4", Title: "counts are range checked before make (see C05)", Floor: 4, Run: ruleR054},
			{ID: "R09.1", Title: "list backing slices are never written in place (see C09)", Floor: 36, Run: ruleR091},
			{ID: "R13.1", Title: "key-domain agreement of the map storages, incl. the bin description (see C13)", Floor: 9, Run: ruleR131},
		},
	})
}
