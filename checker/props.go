package main

func init() {
	register(&Property{
		ID:        "C01",
		Technique: "abstract interpretation of push/pop counts over the generated closures' statement structure + child-context tracing on the typed AST; symbolic normal forms of the Stack primitives; scope-recording agreement checks",
		Explanation: "Decides the structural conditions on which name resolution and slot addressing of the compiled closures rest " +
			"(every generated child is called with exactly as many pending pushes as its compile-time context knows; frames are exactly the pushed arguments; " +
			"the closure context is built in the order it was compiled against; the parser records the outer names the generator looks up; the Stack primitives have the frame-layout normal form). " +
			"Not decided: equality of results with a reference interpreter, operator/method semantics, evaluation order inside built-ins.",
		Assumptions: []string{"host code calls generated functions through Func.Eval with as many arguments as were declared at Generate"},
		Rules: []*Rule{
			{ID: "R01.1", Title: "frame-slot agreement: child closures are called at the stack depth of their compile-time context", Floor: 39, Run: ruleR011},
			{ID: "R01.1b", Title: "frame balance: CreateFrame(n) is reached with exactly n pending pushes; callbacks leave captured stacks balanced", Floor: 55, Run: ruleR011b},
			{ID: "R01.2", Title: "closure context: slot indices come from the matching compile-time list; parallel slices share the loop key; context allocated per closure creation", Floor: 16, Run: ruleR012},
			{ID: "R01.3", Title: "scope recording: each ClosureLiteral carries the very Names/OuterIdents/Recursive its body was parsed with", Floor: 3, Run: ruleR013},
			{ID: "R01.5", Title: "frame-layout algebra: Get/Push/CreateFrame/Init and the storage address exactly offs+n / offs+size / {offs+size-n, n}", Floor: 8, Run: ruleR015},
			{ID: "R01.4", Title: "captured-name agreement between parseLiteral (emitted identifier names) and AddArgs (recorded outer names)", Floor: 1, Run: ruleR014},
		},
	})
}
