package main

import (
	"fmt"
	"go/ast"
	"go/constant"
	"go/token"
	"go/types"
	"strings"

	"golang.org/x/tools/go/cfg"
	"golang.org/x/tools/go/packages"
)

var errorType = types.Universe.Lookup("error").Type()

func isErrorType(t types.Type) bool { return t != nil && types.Identical(t, errorType) }

// infallibleWriter: writes to these never fail; ignoring their error is the
// accepted idiom of the code base.
func infallibleReceiver(t types.Type) bool {
	return isNamed(t, "bytes", "Buffer") || isNamed(t, "strings", "Builder")
}

func builtinPkgs(c *Ctx) []*packages.Package {
	var res []*packages.Package
	for _, p := range c.RepoPkgs {
		rel := strings.TrimPrefix(strings.TrimPrefix(p.PkgPath, modPath), "/")
		switch rel {
		case "value", "funcGen", "value/export", "listMap":
			res = append(res, p)
		}
	}
	return res
}

// ---------------------------------------------------------------------------
// R07.1 no error is dropped

func ruleR071(c *Ctx) {
	n := 0
	forEachFuncBody(builtinPkgs(c), func(pkg *packages.Package, fn ast.Node, body *ast.BlockStmt) {
		info := pkg.TypesInfo
		g := c.CFG(fn)
		fname := c.FuncName(fn) + litSuffix(c, fn)

		// (c) calls whose error result is not even assigned
		inspectNoLit(body, func(x ast.Node) bool {
			es, ok := x.(*ast.ExprStmt)
			if !ok {
				return true
			}
			call, ok := es.X.(*ast.CallExpr)
			if !ok {
				return true
			}
			t := info.TypeOf(call)
			hasErr := false
			switch tt := t.(type) {
			case *types.Tuple:
				for i := 0; i < tt.Len(); i++ {
					if isErrorType(tt.At(i).Type()) {
						hasErr = true
					}
				}
			default:
				hasErr = isErrorType(t)
			}
			if !hasErr {
				return true
			}
			if sel, ok := ast.Unparen(call.Fun).(*ast.SelectorExpr); ok && infallibleReceiver(info.TypeOf(sel.X)) {
				return true
			}
			if cal := Callee(info, call); cal != nil && cal.Pkg() != nil {
				switch cal.Pkg().Path() {
				case "fmt", "log":
					return true
				}
				// writes into an infallible buffer through fmt.Fprintf(buf, ...)
			}
			if fd := c.EnclosingDecl(call); fd != nil && fd.Recv != nil && recvTypeName(fd.Recv.List[0].Type) == "textExporter" {
				return true // host side text dump to an io.Writer; no language built-in
			}
			n++
			key := fmt.Sprintf("%s#ignored-error:%s", fname, nodeStr(c.Fset, call.Fun))
			c.Violation(key, call.Pos(), "the error returned by %s is not even assigned: a failure goes unnoticed and the built-in continues with a wrong result", nodeStr(c.Fset, call.Fun))
			return true
		})

		// error variables of this function and their definition nodes
		type def struct {
			node ast.Node // CFG node
			obj  types.Object
			call string
			rs   *ast.RangeStmt
		}
		var defs []def
		isRead := func(x ast.Node, obj types.Object) bool {
			found := false
			ast.Inspect(x, func(y ast.Node) bool {
				if found {
					return false
				}
				if as, ok := y.(*ast.AssignStmt); ok {
					// the left side of a plain assignment is no read
					for _, r := range as.Rhs {
						if mentions(info, r, obj) {
							found = true
						}
					}
					for _, l := range as.Lhs {
						if id, ok := ast.Unparen(l).(*ast.Ident); ok && info.ObjectOf(id) == obj {
							continue
						}
						if mentions(info, l, obj) {
							found = true
						}
					}
					return false
				}
				if id, ok := y.(*ast.Ident); ok && info.ObjectOf(id) == obj && info.Defs[id] == nil {
					found = true
				}
				return true
			})
			return found
		}
		namedResults := map[types.Object]bool{}
		var ft *ast.FuncType
		switch t := fn.(type) {
		case *ast.FuncDecl:
			ft = t.Type
		case *ast.FuncLit:
			ft = t.Type
		}
		if ft != nil && ft.Results != nil {
			for _, f := range ft.Results.List {
				for _, nm := range f.Names {
					namedResults[info.Defs[nm]] = true
				}
			}
		}
		inspectNoLit(body, func(x ast.Node) bool {
			switch t := x.(type) {
			case *ast.AssignStmt:
				if len(t.Rhs) != 1 {
					return true
				}
				call, ok := ast.Unparen(t.Rhs[0]).(*ast.CallExpr)
				if !ok {
					return true
				}
				for i, l := range t.Lhs {
					id, ok := l.(*ast.Ident)
					if !ok {
						continue
					}
					if id.Name == "_" {
						// discarded result of error type
						if tup, ok := info.TypeOf(call).(*types.Tuple); ok && i < tup.Len() && isErrorType(tup.At(i).Type()) {
							n++
							c.Violation(fmt.Sprintf("%s#discarded-error:%s", fname, nodeStr(c.Fset, call.Fun)), t.Pos(), "the error returned by %s is discarded with _", nodeStr(c.Fset, call.Fun))
						}
						continue
					}
					obj := info.ObjectOf(id)
					if obj == nil || !isErrorType(obj.Type()) {
						continue
					}
					// captured variable assigned inside a literal: the enclosing function has to read it
					if obj.Pos() < fn.Pos() || obj.Pos() > fn.End() {
						outer := c.EnclosingFunc(fn)
						readOutside := false
						// a named result of an enclosing function is returned by it
						for q := outer; q != nil; q = c.EnclosingFunc(q) {
							var qt *ast.FuncType
							switch t := q.(type) {
							case *ast.FuncDecl:
								qt = t.Type
							case *ast.FuncLit:
								qt = t.Type
							}
							if qt != nil && qt.Results != nil {
								for _, f := range qt.Results.List {
									for _, nm := range f.Names {
										if info.Defs[nm] == obj {
											readOutside = true
										}
									}
								}
							}
						}
						for q := outer; q != nil && !readOutside; q = c.EnclosingFunc(q) {
							ast.Inspect(funcBody(q), func(y ast.Node) bool {
								if y == fn {
									return false
								}
								if id2, ok := y.(*ast.Ident); ok && info.ObjectOf(id2) == obj && info.Defs[id2] == nil {
									if _, isLhs := c.Parent(id2).(*ast.AssignStmt); !isLhs || !isAssignTarget(c.Parent(id2).(*ast.AssignStmt), id2) {
										readOutside = true
									}
								}
								return !readOutside
							})
						}
						n++
						key := fmt.Sprintf("%s#error-sink:%s", fname, id.Name)
						c.Check(readOutside, key, t.Pos(), "the error stored in the captured variable "+id.Name+" is read by the enclosing function", "the error is stored in the captured variable "+id.Name+", which the enclosing function never reads")
						continue
					}
					defs = append(defs, def{t, obj, nodeStr(c.Fset, call.Fun), nil})
				}
			case *ast.RangeStmt:
				if id, ok := t.Value.(*ast.Ident); ok && t.Tok == token.DEFINE {
					if obj := info.Defs[id]; obj != nil && isErrorType(obj.Type()) {
						defs = append(defs, def{id, obj, "range " + nodeStr(c.Fset, t.X), t})
					}
				}
			}
			return true
		})
		for _, d := range defs {
			n++
			key := fmt.Sprintf("%s#error-of:%s[%d]", fname, d.call, ordinalIn(fn, d.node, func(z ast.Node) bool {
				for _, dd := range defs {
					if dd.node == z {
						return true
					}
				}
				return false
			}))
			if _, _, ok := g.Pos(d.node); !ok {
				c.OK(key, d.node.Pos(), "definition not in the control flow graph (unreachable)")
				continue
			}
			isOtherDef := func(x ast.Node) bool {
				for _, dd := range defs {
					if dd.obj == d.obj && dd.node != d.node {
						if blk, idx, ok := g.Pos(dd.node); ok && blk.Nodes[idx] == x {
							return true
						}
					}
				}
				// the same definition reached again (loop)
				if blk, idx, ok := g.Pos(d.node); ok && blk.Nodes[idx] == x {
					return true
				}
				return false
			}
			isExit := func(x ast.Node) bool {
				r, ok := x.(*ast.ReturnStmt)
				if !ok {
					return false
				}
				if len(r.Results) == 0 && namedResults[d.obj] {
					return false // bare return of the named error result
				}
				if isRead(r, d.obj) {
					return false
				}
				// another error takes precedence on this path (it is known to be non-nil here)
				for _, gd := range g.Guards(r) {
					if be, ok := ast.Unparen(gd.Cond).(*ast.BinaryExpr); ok && be.Op == token.NEQ && gd.Val {
						if id, ok := ast.Unparen(be.X).(*ast.Ident); ok && info.ObjectOf(id) != d.obj && isErrorType(info.TypeOf(id)) {
							if y, ok := ast.Unparen(be.Y).(*ast.Ident); ok && y.Name == "nil" {
								return false
							}
						}
						// the other error may be kept in a field (source.err != nil)
						if sel, ok := ast.Unparen(be.X).(*ast.SelectorExpr); ok && isErrorType(info.TypeOf(sel)) {
							if fs, ok := info.Selections[sel]; ok && fs.Kind() == types.FieldVal {
								if y, ok := ast.Unparen(be.Y).(*ast.Ident); ok && y.Name == "nil" {
									return false
								}
							}
						}
					}
				}
				return true
			}
			if d.rs != nil {
				body, loop, done := g.RangeBlocks(d.rs)
				if body == nil || loop == nil {
					c.OK(key, d.node.Pos(), "range statement not in the control flow graph (unreachable)")
					continue
				}
				// an exit that drops the pulled element as a whole under a condition that does not depend on the element
				// ("the quota is used up", iterator.FirstN) drops a read-ahead element; its error must not be reported (C08)
				elemObjs := map[types.Object]bool{}
				for _, e := range []ast.Expr{d.rs.Key, d.rs.Value} {
					if id, ok := e.(*ast.Ident); ok && id.Name != "_" {
						elemObjs[info.ObjectOf(id)] = true
					}
				}
				mentionsElem := func(n ast.Node) bool {
					return containsNodeDeep(n, func(y ast.Node) bool {
						id, ok := y.(*ast.Ident)
						return ok && elemObjs[info.ObjectOf(id)]
					})
				}
				rangeExit := func(x ast.Node) bool {
					if !isExit(x) {
						return false
					}
					if blkStmt, ok := c.Parent(x).(*ast.BlockStmt); ok && len(blkStmt.List) == 1 {
						if ifs, ok := c.Parent(blkStmt).(*ast.IfStmt); ok && ifs.Body == blkStmt && ifs.Init == nil && !mentionsElem(ifs.Cond) && !mentionsElem(x) &&
							!containsNode(ifs.Cond, func(y ast.Node) bool { _, isCall := y.(*ast.CallExpr); return isCall }) {
							// the element's value must not have been used before either
							if used, _ := g.PathFromBlock(body, func(y ast.Node) bool { return y == x }, func(y ast.Node) bool { return y != ast.Node(ifs.Cond) && mentionsElem(y) }, nil); used {
								return false
							}
						}
					}
					return true
				}
				found, trail := g.PathFromBlock(body, rangeExit, func(x ast.Node) bool { return isRead(x, d.obj) }, func(b *cfg.Block) bool { return b == loop || b == done })
				if found {
					where := ""
					if len(trail) > 0 {
						where = " (path ends at " + c.posStr(trail[len(trail)-1].Pos()) + ")"
					}
					c.Violation(key, d.node.Pos(), "the error delivered with an item of %s is neither tested, returned nor passed on on some path through the loop body%s: a failing element is silently skipped", d.call, where)
				} else {
					c.OK(key, d.node.Pos(), "the error delivered with every item of %s is tested, returned or passed on on every path through the loop body", d.call)
				}
				continue
			}
			blk, idx, _ := g.Pos(d.node)
			start := blk.Nodes[idx]
			// the defining statement itself may read the old value (err = wrap(err)); that is no use of the new one
			found, trail := g.PathAvoiding(start, func(x ast.Node) bool { return isOtherDef(x) || isExit(x) }, func(x ast.Node) bool {
				return isRead(x, d.obj)
			})
			if !found && !namedResults[d.obj] {
				// falling off the end of the function without a read
				f2, _ := g.PathAvoiding(start, nil, func(x ast.Node) bool {
					if isRead(x, d.obj) {
						return true
					}
					_, isRet := x.(*ast.ReturnStmt)
					return isRet
				})
				found = f2
			}
			if found {
				where := ""
				if len(trail) > 0 {
					where = " (path ends at " + c.posStr(trail[len(trail)-1].Pos()) + ")"
				}
				c.Violation(key, d.node.Pos(), "the error of %s is assigned to %s but on some path it is neither tested, returned nor passed on before it is overwritten or the function returns%s: the failure is dropped silently", d.call, d.obj.Name(), where)
			} else {
				c.OK(key, d.node.Pos(), "the error of %s is tested, returned or passed on on every path", d.call)
			}
		}
	})
	// (d) an error that was found to be non-nil is not ignored afterwards
	optDecls := map[*ast.FuncDecl]bool{}
	if ods, _ := c.optimizerMethods(); ods != nil {
		for _, od := range ods {
			optDecls[od] = true
		}
	}
	forEachFuncBody(builtinPkgs(c), func(pkg *packages.Package, fn ast.Node, body *ast.BlockStmt) {
		info := pkg.TypesInfo
		fname := c.FuncName(fn) + litSuffix(c, fn)
		k := 0
		inspectNoLit(body, func(x ast.Node) bool {
			ifs, ok := x.(*ast.IfStmt)
			if !ok {
				return true
			}
			be, ok := ast.Unparen(ifs.Cond).(*ast.BinaryExpr)
			if !ok || be.Op != token.NEQ {
				return true
			}
			id, ok := ast.Unparen(be.X).(*ast.Ident)
			if !ok || !isErrorType(info.TypeOf(id)) {
				return true
			}
			if y, ok := ast.Unparen(be.Y).(*ast.Ident); !ok || y.Name != "nil" {
				return true
			}
			obj := info.ObjectOf(id)
			if obj == nil || obj.Pos() < fn.Pos() || obj.Pos() > fn.End() {
				return true // a captured error sink: the error is already recorded there (checked as error-sink above)
			}
			if fd := c.EnclosingDecl(ifs); fd != nil && optDecls[fd] {
				return true // the optimizer: an error while folding means "do not fold", the error occurs again at run time
			}
			k++
			key := fmt.Sprintf("%s#non-nil-branch:%s[%d]", fname, id.Name, k)
			handled := false
			ast.Inspect(ifs.Body, func(y ast.Node) bool {
				if handled {
					return false
				}
				switch t := y.(type) {
				case *ast.ReturnStmt:
					// returns some error
					if len(t.Results) > 0 {
						last := ast.Unparen(t.Results[len(t.Results)-1])
						if lid, ok := last.(*ast.Ident); !ok || lid.Name != "nil" {
							if isErrorType(info.TypeOf(last)) || mentions(info, t, obj) {
								handled = true
							}
						}
						// a probe: the function reports presence with a final bool (v, ok) and answers "absent" here: the
						// failed lookup is the absence (closureInField: AccessMap failed = no such field)
						if tv := info.Types[last]; tv.Value != nil && tv.Value.Kind() == constant.Bool && !constant.BoolVal(tv.Value) {
							handled = true
						}
					} else {
						handled = true // bare return with named results
					}
				case *ast.Ident:
					if info.ObjectOf(t) == obj && info.Defs[t] == nil {
						// a use as a value (not a further comparison with nil)
						if pb, ok := c.Parent(t).(*ast.BinaryExpr); ok && (pb.Op == token.NEQ || pb.Op == token.EQL) {
							return true
						}
						handled = true
					}
				case *ast.CallExpr:
					if noReturn(info, t) {
						handled = true
					}
				}
				return true
			})
			if !handled {
				// break out of a loop, the error is examined behind the loop
				if containsNode(ifs.Body, func(y ast.Node) bool { b, ok := y.(*ast.BranchStmt); return ok && b.Tok == token.BREAK }) {
					if loop := enclosingLoop(c, ifs, fn); loop != nil {
						ast.Inspect(body, func(y ast.Node) bool {
							if uid, ok := y.(*ast.Ident); ok && uid.Pos() > loop.End() && info.ObjectOf(uid) == obj {
								handled = true
							}
							return !handled
						})
					}
				}
			}
			if handled {
				c.OK(key, ifs.Pos(), "on the branch where %s is non-nil the error is returned, recorded or passed on", id.Name)
			} else {
				c.Violation(key, ifs.Pos(), "the error %s is compared with nil, but on the non-nil branch it is neither returned, recorded nor passed on: the failure is swallowed (e.g. a failing list element is skipped)", id.Name)
			}
			return true
		})
		n += k
	})
	if n < 100 {
		c.Undecided("value#error-definitions", token.NoPos, "only %d error producing sites found", n)
	}
}

func isAssignTarget(as *ast.AssignStmt, id *ast.Ident) bool {
	for _, l := range as.Lhs {
		if ast.Unparen(l) == ast.Expr(id) {
			return true
		}
	}
	return false
}

// ---------------------------------------------------------------------------
// R07.2 stores to fields of a value receiver are lost

func ruleR072(c *Ctx) {
	n := 0
	for _, pkg := range builtinPkgs(c) {
		info := pkg.TypesInfo
		for _, f := range pkg.Syntax {
			for _, d := range f.Decls {
				fd, ok := d.(*ast.FuncDecl)
				if !ok || fd.Recv == nil || fd.Body == nil || len(fd.Recv.List[0].Names) == 0 {
					continue
				}
				if _, isPtr := fd.Recv.List[0].Type.(*ast.StarExpr); isPtr {
					continue
				}
				recv := info.Defs[fd.Recv.List[0].Names[0]]
				if recv == nil {
					continue
				}
				if _, isStruct := recv.Type().Underlying().(*types.Struct); !isStruct {
					continue
				}
				var stores []*ast.AssignStmt
				ast.Inspect(fd.Body, func(x ast.Node) bool {
					as, ok := x.(*ast.AssignStmt)
					if !ok {
						return true
					}
					for _, l := range as.Lhs {
						if sel, ok := ast.Unparen(l).(*ast.SelectorExpr); ok {
							if id, ok := ast.Unparen(sel.X).(*ast.Ident); ok && info.ObjectOf(id) == recv {
								stores = append(stores, as)
							}
						}
					}
					return true
				})
				if len(stores) == 0 {
					continue
				}
				n++
				key := declName(pkg, fd) + "#value-receiver-store"
				// the modified copy is handed on: returned, or used as a whole after the store
				handedOn := false
				ast.Inspect(fd.Body, func(x ast.Node) bool {
					id, ok := x.(*ast.Ident)
					if !ok || info.ObjectOf(id) != recv || id.Pos() < stores[0].End() {
						return true
					}
					if sel, ok := c.Parent(id).(*ast.SelectorExpr); ok && sel.X == ast.Expr(id) {
						return true // field access only
					}
					handedOn = true
					return true
				})
				if handedOn {
					c.OK(key, fd.Pos(), "the method works on a copy on purpose and hands the modified copy on")
				} else {
					c.Violation(key, stores[0].Pos(), "%s has a value receiver but stores into its field (%s): the store changes a copy only, the caller never sees it (an error recorded this way is lost)", declName(pkg, fd), nodeStr(c.Fset, stores[0].Lhs[0]))
				}
			}
		}
	}
	if n == 0 {
		c.Note("value#value-receiver-stores", token.NoPos, "no method with a value receiver stores into its receiver")
	}
}

// ---------------------------------------------------------------------------
// R07.3 declared arity covers the stack slots the implementation reads

// maxStackIndex returns the largest constant index read from the stack
// variable st inside body, following calls that pass st on (two levels).
func (c *Ctx) maxStackIndex(a *genAnchors, pkg *packages.Package, body ast.Node, st types.Object, consts map[types.Object]constant.Value, depth int) (int, token.Pos) {
	info := pkg.TypesInfo
	maxIdx, at := -1, token.NoPos
	note := func(v int, p token.Pos) {
		if v > maxIdx {
			maxIdx, at = v, p
		}
	}
	valOf := func(e ast.Expr) (int, bool) {
		if tv := info.Types[e]; tv.Value != nil {
			return constInt(tv)
		}
		if id, ok := ast.Unparen(e).(*ast.Ident); ok {
			if cv, ok := consts[info.ObjectOf(id)]; ok && cv != nil {
				return constInt(types.TypeAndValue{Value: cv})
			}
		}
		return 0, false
	}
	isSt := func(e ast.Expr) bool {
		id, ok := ast.Unparen(e).(*ast.Ident)
		return ok && info.ObjectOf(id) == st
	}
	ast.Inspect(body, func(x ast.Node) bool {
		call, ok := x.(*ast.CallExpr)
		if !ok {
			return true
		}
		if sel, ok := ast.Unparen(call.Fun).(*ast.SelectorExpr); ok && isSt(sel.X) {
			if isCallTo(info, call, a.get) && len(call.Args) == 1 {
				if v, ok := valOf(call.Args[0]); ok {
					note(v, call.Pos())
				}
			}
			return true
		}
		if depth >= 2 {
			return true
		}
		// st passed on to another function of the repository
		si := -1
		for i, arg := range call.Args {
			if isSt(arg) {
				si = i
			}
		}
		if si < 0 {
			return true
		}
		cal := Callee(info, call)
		if cal == nil || cal.Pkg() == nil {
			return true
		}
		p := c.Pkgs[cal.Pkg().Path()]
		if p == nil || !strings.HasPrefix(p.PkgPath, modPath) {
			return true
		}
		sig := cal.Type().(*types.Signature)
		recv := ""
		if sig.Recv() != nil {
			if nm := namedOf(sig.Recv().Type()); nm != nil {
				recv = nm.Obj().Name()
			}
		}
		fd := c.FuncDecl(p, recv, cal.Name())
		if fd == nil || fd.Body == nil {
			return true
		}
		// bind parameters
		var params []types.Object
		for _, fl := range fd.Type.Params.List {
			for _, nm := range fl.Names {
				params = append(params, p.TypesInfo.Defs[nm])
			}
		}
		if si >= len(params) {
			return true
		}
		sub := map[types.Object]constant.Value{}
		for i, arg := range call.Args {
			if i < len(params) {
				if tv := info.Types[arg]; tv.Value != nil {
					sub[params[i]] = tv.Value
				}
			}
		}
		if v, pos := c.maxStackIndex(a, p, fd.Body, params[si], sub, depth+1); v > maxIdx {
			maxIdx, at = v, pos
			_ = pos
			at = call.Pos()
		}
		return true
	})
	return maxIdx, at
}

func ruleR073(c *Ctx) {
	a := c.genAnchors()
	if len(a.missing) > 0 {
		c.Undecided(strings.Join(a.missing, ","), token.NoPos, "anchors not found")
		return
	}
	vp := c.Pkg("value")
	if vp == nil {
		c.Undecided("package value", token.NoPos, "not found")
		return
	}
	methodAtType := LookupFunc(vp, "MethodAtType")
	if methodAtType == nil {
		c.Undecided("value.MethodAtType", token.NoPos, "not found")
		return
	}
	n := 0
	for _, pkg := range c.RepoPkgs {
		info := pkg.TypesInfo
		for _, f := range pkg.Syntax {
			ast.Inspect(f, func(x ast.Node) bool {
				switch t := x.(type) {
				case *ast.CallExpr:
					if !isCallTo(info, t, methodAtType) || len(t.Args) != 2 {
						return true
					}
					declared, ok := constInt(info.Types[t.Args[0]])
					if !ok {
						return true
					}
					name := methodNameOf(c, info, t)
					key := fmt.Sprintf("%s#method %q", strings.TrimPrefix(strings.TrimPrefix(pkg.PkgPath, modPath), "/"), name)
					n++
					if declared < 0 {
						c.OK(key, t.Pos(), "variable number of arguments")
						return true
					}
					var body ast.Node
					var st types.Object
					var bpkg = pkg
					switch impl := ast.Unparen(t.Args[1]).(type) {
					case *ast.FuncLit:
						body = impl.Body
						if ps := impl.Type.Params.List; len(ps) == 2 && len(ps[1].Names) == 1 {
							st = info.Defs[ps[1].Names[0]]
						} else if len(ps) == 1 && len(ps[0].Names) == 2 {
							st = info.Defs[ps[0].Names[1]]
						}
					case *ast.Ident:
						if fn, ok := info.Uses[impl].(*types.Func); ok && fn.Pkg() != nil {
							if p := c.Pkgs[fn.Pkg().Path()]; p != nil {
								if fd := c.FuncDecl(p, "", fn.Name()); fd != nil {
									body, bpkg = fd.Body, p
									var params []types.Object
									for _, fl := range fd.Type.Params.List {
										for _, nm := range fl.Names {
											params = append(params, p.TypesInfo.Defs[nm])
										}
									}
									if len(params) == 2 {
										st = params[1]
									}
								}
							}
						}
					}
					// a method expression: String.Contains, (*List).Map - the receiver is the first parameter, the stack the second
					if sel, ok := ast.Unparen(t.Args[1]).(*ast.SelectorExpr); ok && body == nil {
						if ms, ok := info.Selections[sel]; ok && ms.Kind() == types.MethodExpr {
							if fn, ok := ms.Obj().(*types.Func); ok && fn.Pkg() != nil {
								if p := c.Pkgs[fn.Pkg().Path()]; p != nil {
									if fd := findFuncDecl(p, fn); fd != nil && fd.Body != nil {
										var params []types.Object
										for _, fl := range fd.Type.Params.List {
											for _, nm := range fl.Names {
												params = append(params, p.TypesInfo.Defs[nm])
											}
										}
										if len(params) == 1 {
											body, bpkg, st = fd.Body, p, params[0]
										}
									}
								}
							}
						}
					}
					if body == nil || st == nil {
						c.Undecided(key, t.Pos(), "implementation of the method not understood")
						return true
					}
					used, at := c.maxStackIndex(a, bpkg, body, st, nil, 0)
					if used > declared {
						c.Violation(key, at, "method %q is declared with %d argument(s), but its implementation reads stack slot %d (receiver is slot 0): the call-site arity check lets a call with %d argument(s) pass, and the method reads a slot of another frame", name, declared, used, declared)
					} else {
						c.OK(key, t.Pos(), "declared %d argument(s); highest stack slot read: %d", declared, used)
					}
				case *ast.CompositeLit:
					if nm := namedOf(info.TypeOf(t)); nm == nil || nm.Obj() != a.funcType {
						return true
					}
					var funcVal, argsVal ast.Expr
					for _, el := range t.Elts {
						if kv, ok := el.(*ast.KeyValueExpr); ok {
							if k, ok := kv.Key.(*ast.Ident); ok {
								switch k.Name {
								case "Func":
									funcVal = kv.Value
								case "Args":
									argsVal = kv.Value
								}
							}
						}
					}
					if funcVal == nil || argsVal == nil {
						return true
					}
					declared, ok := constInt(info.Types[argsVal])
					if !ok || declared < 0 {
						return true
					}
					var body ast.Node
					var st types.Object
					var bpkg = pkg
					switch impl := ast.Unparen(funcVal).(type) {
					case *ast.FuncLit:
						body = impl.Body
						if ps := impl.Type.Params.List; len(ps) >= 1 && len(ps[0].Names) >= 1 {
							st = info.Defs[ps[0].Names[0]]
						}
					case *ast.Ident:
						if fn, ok := info.Uses[impl].(*types.Func); ok && fn.Pkg() != nil {
							if p := c.Pkgs[fn.Pkg().Path()]; p != nil {
								if fd := c.FuncDecl(p, "", fn.Name()); fd != nil && len(fd.Type.Params.List) >= 1 && len(fd.Type.Params.List[0].Names) >= 1 {
									body, bpkg = fd.Body, p
									st = p.TypesInfo.Defs[fd.Type.Params.List[0].Names[0]]
								}
							}
						}
					}
					if body == nil || st == nil {
						return true
					}
					// a VarArgs wrapper relaxes the arity: Function{...}.VarArgs(min, max)
					relaxed := false
					for q := c.Parent(t); q != nil; q = c.Parent(q) {
						if call, ok := q.(*ast.CallExpr); ok {
							if sel, ok := ast.Unparen(call.Fun).(*ast.SelectorExpr); ok && strings.HasPrefix(sel.Sel.Name, "VarArgs") {
								relaxed = true
							}
						}
						if _, ok := q.(ast.Stmt); ok {
							break
						}
					}
					n++
					decl := c.EnclosingDecl(t)
					ord := 0
					if decl != nil {
						ord = ordinalIn(decl, t, func(y ast.Node) bool {
							c2, ok := y.(*ast.CompositeLit)
							return ok && namedOf(info.TypeOf(c2)) != nil && namedOf(info.TypeOf(c2)).Obj() == a.funcType
						})
					}
					key := fmt.Sprintf("%s#Function-literal[%d]", c.FuncName(t), ord)
					used, at := c.maxStackIndex(a, bpkg, body, st, nil, 0)
					if used >= declared && !relaxed {
						c.Violation(key, at, "the function is declared with Args: %d, but its implementation reads stack slot %d: a call with %d argument(s) passes the arity check and the function reads a slot of another frame", declared, used, declared)
					} else {
						c.OK(key, t.Pos(), "declared %d argument(s); highest stack slot read: %d", declared, used)
					}
				}
				return true
			})
		}
	}
	if n < 80 {
		c.Undecided("value#arity-declarations", token.NoPos, "only %d arity declarations found", n)
	}
}

// methodNameOf finds the key of the MethodMap entry a MethodAtType call belongs to.
func methodNameOf(c *Ctx, info *types.Info, call *ast.CallExpr) string {
	for q := c.Parent(call); q != nil; q = c.Parent(q) {
		if kv, ok := q.(*ast.KeyValueExpr); ok {
			if tv := info.Types[kv.Key]; tv.Value != nil && tv.Value.Kind() == constant.String {
				return constant.StringVal(tv.Value)
			}
		}
		if _, ok := q.(ast.Stmt); ok {
			break
		}
	}
	return "?"
}
