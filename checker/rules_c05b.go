package main

import (
	"fmt"
	"go/ast"
	"go/token"
	"go/types"
	"sort"
	"strings"

	"golang.org/x/tools/go/packages"
)

// ---------------------------------------------------------------------------
// R05.4 callees that panic on out of range arguments

// intRoots collects the integer variables an expression is computed from,
// not looking into len()/cap()/Size() calls (which are never negative).
func intRoots(info *types.Info, e ast.Expr, out map[types.Object]*ast.Ident) {
	ast.Inspect(e, func(n ast.Node) bool {
		switch t := n.(type) {
		case *ast.CallExpr:
			if id, ok := ast.Unparen(t.Fun).(*ast.Ident); ok {
				if b, ok := info.Uses[id].(*types.Builtin); ok && (b.Name() == "len" || b.Name() == "cap") {
					return false
				}
			}
			if sel, ok := ast.Unparen(t.Fun).(*ast.SelectorExpr); ok && (sel.Sel.Name == "Size" || sel.Sel.Name == "Len") {
				return false
			}
			// conversions int(x): look inside
		case *ast.Ident:
			if obj, ok := info.ObjectOf(t).(*types.Var); ok {
				switch obj.Type().Underlying().(type) {
				case *types.Basic:
					out[obj] = t
				}
			}
		}
		return true
	})
}

// expandCopies adds, for every root that is a local variable assigned exactly
// once by a plain copy (`bins := int(count)`, `n := count`: an identifier,
// possibly converted, no arithmetic), the roots of the copied expression: a
// range check of the original is a range check of the copy.
func (c *Ctx) expandCopies(info *types.Info, n ast.Node, roots map[types.Object]*ast.Ident) {
	encl := c.EnclosingFunc(n)
	if encl == nil {
		return
	}
	for round := 0; round < 3; round++ {
		added := false
		for obj := range roots {
			if countAssignments(info, encl, obj) != 1 {
				continue
			}
			ast.Inspect(encl, func(x ast.Node) bool {
				as, ok := x.(*ast.AssignStmt)
				if !ok || len(as.Lhs) != len(as.Rhs) || (as.Tok != token.DEFINE && as.Tok != token.ASSIGN) {
					return true
				}
				for i, l := range as.Lhs {
					id, isID := l.(*ast.Ident)
					if !isID || info.ObjectOf(id) != obj {
						continue
					}
					e := ast.Unparen(as.Rhs[i])
					if call, isCall := e.(*ast.CallExpr); isCall && len(call.Args) == 1 {
						if tv, ok := info.Types[call.Fun]; ok && tv.IsType() {
							e = ast.Unparen(call.Args[0])
						}
					}
					src, isSrc := e.(*ast.Ident)
					if !isSrc {
						continue
					}
					if v, ok := info.ObjectOf(src).(*types.Var); ok {
						if _, isBasic := v.Type().Underlying().(*types.Basic); isBasic {
							if _, have := roots[v]; !have {
								roots[v] = src
								added = true
							}
						}
					}
				}
				return true
			})
		}
		if !added {
			return
		}
	}
}

// rangeGuarded: some variable of the roots is compared with a constant on
// every path to n.
func (c *Ctx) rangeGuarded(info *types.Info, n ast.Node, roots map[types.Object]*ast.Ident) bool {
	c.expandCopies(info, n, roots)
	for _, gd := range c.GuardsDeep(n) {
		be, ok := ast.Unparen(gd.Cond).(*ast.BinaryExpr)
		if !ok {
			continue
		}
		switch be.Op {
		case token.LSS, token.LEQ, token.GTR, token.GEQ, token.EQL, token.NEQ:
		default:
			continue
		}
		x, y := be.X, be.Y
		if info.Types[x].Value != nil {
			x, y = y, x
		}
		if info.Types[y].Value == nil {
			continue
		}
		found := false
		ast.Inspect(x, func(z ast.Node) bool {
			if id, ok := z.(*ast.Ident); ok {
				if _, ok := roots[info.ObjectOf(id)]; ok {
					found = true
				}
			}
			return !found
		})
		if found {
			return true
		}
	}
	return false
}

func ruleR054(c *Ctx) {
	type sink struct {
		pkg, name string
		arg       int
		what      string
	}
	sinks := []sink{
		{"math/rand", "Intn", 0, "panics for n <= 0"}, {"math/rand", "Int31n", 0, "panics for n <= 0"}, {"math/rand", "Int63n", 0, "panics for n <= 0"},
		{"strings", "Repeat", 1, "panics for a negative count"},
		{iterPath, "CombineN", 1, "allocates make([]I, n, n) and indexes vals[pos]: panics for n < 1"},
	}
	n := 0
	pkgs := evalPkgs(c)
	// functions whose int parameter flows into make: checked at their call sites (one level)
	type paramSink struct {
		fn  *types.Func
		arg int
	}
	var paramSinks []paramSink
	for _, pkg := range pkgs {
		info := pkg.TypesInfo
		for _, f := range pkg.Syntax {
			for _, d := range f.Decls {
				fd, ok := d.(*ast.FuncDecl)
				if !ok || fd.Body == nil {
					continue
				}
				fobj, _ := info.Defs[fd.Name].(*types.Func)
				params := map[types.Object]int{}
				i := 0
				for _, fl := range fd.Type.Params.List {
					for _, nm := range fl.Names {
						params[info.Defs[nm]] = i
						i++
					}
				}
				ast.Inspect(fd.Body, func(x ast.Node) bool {
					call, ok := x.(*ast.CallExpr)
					if !ok {
						return true
					}
					id, ok := ast.Unparen(call.Fun).(*ast.Ident)
					if !ok {
						return true
					}
					if b, ok := info.Uses[id].(*types.Builtin); !ok || b.Name() != "make" || len(call.Args) < 2 {
						return true
					}
					for _, la := range call.Args[1:] {
						if info.Types[la].Value != nil {
							continue
						}
						roots := map[types.Object]*ast.Ident{}
						intRoots(info, la, roots)
						if len(roots) == 0 {
							continue
						}
						n++
						key := fmt.Sprintf("%s#make:%s", c.FuncName(call)+litSuffix(c, c.EnclosingFunc(call)), nodeStr(c.Fset, la))
						if c.rangeGuarded(info, call, roots) {
							c.OK(key, call.Pos(), "length %s is range checked before make", nodeStr(c.Fset, la))
							continue
						}
						// parameter of this function: obligation moves to the call sites
						moved := false
						for obj := range roots {
							if pi, ok := params[obj]; ok && fobj != nil && c.EnclosingFunc(call) == ast.Node(fd) {
								paramSinks = append(paramSinks, paramSink{fobj.Origin(), pi})
								moved = true
							}
						}
						if moved {
							c.OK(key, call.Pos(), "length %s is a parameter; the obligation is checked at the call sites", nodeStr(c.Fset, la))
							continue
						}
						// loop counters and values derived from slices are bounded
						bounded := true
						for obj, id := range roots {
							if !c.nonNegativeByConstruction(info, fd, obj) {
								bounded = false
								_ = id
							}
						}
						if bounded {
							c.OK(key, call.Pos(), "length %s is non negative by construction (counter/len derived)", nodeStr(c.Fset, la))
						} else {
							c.Violation(key, call.Pos(), "make with the length %s, which derives from a run time value, without a range check: a negative length raises a Go run time panic (if the list is consumed lazily, after Eval has returned and outside any recover)", nodeStr(c.Fset, la))
						}
					}
					return true
				})
			}
		}
	}
	for _, pkg := range pkgs {
		info := pkg.TypesInfo
		for _, f := range pkg.Syntax {
			ast.Inspect(f, func(x ast.Node) bool {
				call, ok := x.(*ast.CallExpr)
				if !ok {
					return true
				}
				cal := Callee(info, call)
				if cal == nil || cal.Pkg() == nil {
					return true
				}
				check := func(ai int, what string) {
					if ai >= len(call.Args) || info.Types[call.Args[ai]].Value != nil {
						return
					}
					roots := map[types.Object]*ast.Ident{}
					intRoots(info, call.Args[ai], roots)
					if len(roots) == 0 {
						return
					}
					n++
					key := fmt.Sprintf("%s#%s(%s)", c.FuncName(call)+litSuffix(c, c.EnclosingFunc(call)), cal.Name(), nodeStr(c.Fset, call.Args[ai]))
					if c.rangeGuarded(info, call, roots) {
						c.OK(key, call.Pos(), "argument %s of %s is range checked", nodeStr(c.Fset, call.Args[ai]), cal.Name())
					} else {
						c.Violation(key, call.Pos(), "%s.%s %s; its argument %s derives from a run time value and is not range checked on every path", cal.Pkg().Name(), cal.Name(), what, nodeStr(c.Fset, call.Args[ai]))
					}
				}
				for _, s := range sinks {
					if cal.Pkg().Path() == s.pkg && cal.Name() == s.name {
						check(s.arg, s.what)
					}
				}
				for _, ps := range paramSinks {
					if cal == ps.fn {
						check(ps.arg, "allocates a slice of that length (make panics for a negative length)")
					}
				}
				return true
			})
		}
	}
	if n < 4 {
		c.Undecided("value#range-checked-arguments", token.NoPos, "only %d sites found", n)
	}
}

// nonNegativeByConstruction: the variable is only assigned constants >= 0,
// len()/Size() values, or incremented.
func (c *Ctx) nonNegativeByConstruction(info *types.Info, fd *ast.FuncDecl, obj types.Object) bool {
	ok := true
	seen := false
	ast.Inspect(fd, func(n ast.Node) bool {
		switch t := n.(type) {
		case *ast.AssignStmt:
			for i, l := range t.Lhs {
				id, isId := l.(*ast.Ident)
				if !isId || info.ObjectOf(id) != obj {
					continue
				}
				seen = true
				if t.Tok == token.ADD_ASSIGN {
					continue
				}
				var rhs ast.Expr
				if len(t.Rhs) == len(t.Lhs) {
					rhs = t.Rhs[i]
				} else {
					ok = false
					continue
				}
				if v, isC := constInt(info.Types[rhs]); isC && v >= 0 {
					continue
				}
				roots := map[types.Object]*ast.Ident{}
				intRoots(info, rhs, roots)
				delete(roots, obj)
				if len(roots) != 0 {
					ok = false
				}
			}
		case *ast.RangeStmt:
			for _, e := range []ast.Expr{t.Key, t.Value} {
				if id, isId := e.(*ast.Ident); isId && info.ObjectOf(id) == obj {
					seen = true
				}
			}
		}
		return true
	})
	return ok && seen
}

// ---------------------------------------------------------------------------
// R05.5 explicit panics reachable from evaluation

func ruleR055(c *Ctx) {
	a := c.genAnchors()
	if len(a.missing) > 0 {
		c.Undecided(strings.Join(a.missing, ","), token.NoPos, "anchors not found")
		return
	}
	pkgs := evalPkgs(c)
	if p := c.Pkg("value/arg"); p != nil {
		pkgs = append(pkgs, p)
	}
	type fnode struct {
		pkg  *packages.Package
		decl *ast.FuncDecl
	}
	decls := map[*types.Func]fnode{}
	byName := map[string][]*types.Func{} // methods by name, for interface dispatch
	for _, pkg := range pkgs {
		for _, f := range pkg.Syntax {
			for _, d := range f.Decls {
				if fd, ok := d.(*ast.FuncDecl); ok && fd.Body != nil {
					if obj, ok := pkg.TypesInfo.Defs[fd.Name].(*types.Func); ok {
						decls[obj.Origin()] = fnode{pkg, fd}
						if fd.Recv != nil {
							byName[fd.Name.Name] = append(byName[fd.Name.Name], obj.Origin())
						}
					}
				}
			}
		}
	}
	hasStackParam := func(pkg *packages.Package, ft *ast.FuncType) bool {
		if ft.Params == nil {
			return false
		}
		for _, f := range ft.Params.List {
			if a.isStack(pkg.TypesInfo.TypeOf(f.Type)) {
				return true
			}
		}
		return false
	}
	// roots: every function (declaration or literal) that receives a value stack is evaluation code
	seen := map[*types.Func]bool{}
	var work []*types.Func
	scanBodies := []struct {
		pkg  *packages.Package
		body ast.Node
		name string
	}{}
	for fn, nd := range decls {
		if hasStackParam(nd.pkg, nd.decl.Type) {
			work = append(work, fn)
		}
	}
	// literals with a stack parameter inside functions that are not roots themselves (registration tables)
	for _, pkg := range pkgs {
		for _, f := range pkg.Syntax {
			ast.Inspect(f, func(n ast.Node) bool {
				if lit, ok := n.(*ast.FuncLit); ok && hasStackParam(pkg, lit.Type) {
					scanBodies = append(scanBodies, struct {
						pkg  *packages.Package
						body ast.Node
						name string
					}{pkg, lit.Body, c.FuncName(lit) + litSuffix(c, lit)})
				}
				return true
			})
		}
	}
	type psite struct {
		pkg  *packages.Package
		call *ast.CallExpr
		in   string
	}
	var panics []psite
	scan := func(pkg *packages.Package, body ast.Node, name string) {
		info := pkg.TypesInfo
		ast.Inspect(body, func(n ast.Node) bool {
			switch t := n.(type) {
			case *ast.CallExpr:
				if id, ok := ast.Unparen(t.Fun).(*ast.Ident); ok {
					if b, ok := info.Uses[id].(*types.Builtin); ok && b.Name() == "panic" {
						panics = append(panics, psite{pkg, t, name})
					}
				}
				if cal := Callee(info, t); cal != nil {
					if _, ok := decls[cal]; ok {
						work = append(work, cal)
					} else if sig, ok := cal.Type().(*types.Signature); ok && sig.Recv() != nil {
						if _, isIface := sig.Recv().Type().Underlying().(*types.Interface); isIface {
							work = append(work, byName[cal.Name()]...)
						}
					}
				}
			case *ast.SelectorExpr:
				if s, ok := info.Selections[t]; ok && s.Kind() == types.MethodVal {
					if fn, ok := s.Obj().(*types.Func); ok {
						if _, ok := decls[fn.Origin()]; ok {
							work = append(work, fn.Origin())
						}
					}
				}
			case *ast.Ident:
				// function values: f := someFunc
				if fn, ok := info.Uses[t].(*types.Func); ok {
					if _, ok := decls[fn.Origin()]; ok {
						work = append(work, fn.Origin())
					}
				}
			}
			return true
		})
	}
	for _, sb := range scanBodies {
		scan(sb.pkg, sb.body, sb.name)
	}
	for len(work) > 0 {
		fn := work[len(work)-1]
		work = work[:len(work)-1]
		if seen[fn] {
			continue
		}
		seen[fn] = true
		nd := decls[fn]
		scan(nd.pkg, nd.decl.Body, declName(nd.pkg, nd.decl))
	}
	if len(seen) < 100 {
		c.Undecided("value#evaluation-reachable-functions", token.NoPos, "only %d functions found reachable from evaluation code", len(seen))
		return
	}
	// dedupe and classify
	done := map[token.Pos]bool{}
	sort.Slice(panics, func(i, j int) bool { return panics[i].call.Pos() < panics[j].call.Pos() })
	n := 0
	for _, ps := range panics {
		if done[ps.call.Pos()] {
			continue
		}
		done[ps.call.Pos()] = true
		info := ps.pkg.TypesInfo
		fd := c.EnclosingDecl(ps.call)
		where := c.FuncName(ps.call)
		key := fmt.Sprintf("%s#panic[%d]", where, ordinalIn(rootOrDecl(fd, nil), ps.call, func(x ast.Node) bool {
			cc, ok := x.(*ast.CallExpr)
			if !ok {
				return false
			}
			id, ok := ast.Unparen(cc.Fun).(*ast.Ident)
			return ok && id.Name == "panic"
		}))
		n++
		// (a) re-raise of a recovered value
		if len(ps.call.Args) == 1 {
			if id, ok := ast.Unparen(ps.call.Args[0]).(*ast.Ident); ok {
				reraise := false
				if encl := c.EnclosingDecl(ps.call); encl != nil {
					ast.Inspect(encl, func(x ast.Node) bool {
						as, ok := x.(*ast.AssignStmt)
						if !ok {
							return true
						}
						for i, l := range as.Lhs {
							lid, ok := l.(*ast.Ident)
							if !ok {
								continue
							}
							var rhs ast.Expr
							if len(as.Rhs) == len(as.Lhs) {
								rhs = as.Rhs[i]
							}
							if rhs == nil {
								continue
							}
							fromRecover := false
							if rc, ok := ast.Unparen(rhs).(*ast.CallExpr); ok {
								if rid, ok := ast.Unparen(rc.Fun).(*ast.Ident); ok && rid.Name == "recover" {
									fromRecover = true
								}
							}
							if rid, ok := ast.Unparen(rhs).(*ast.Ident); ok {
								// pan = rec where rec := recover()
								if ras, ri := definingAssign(info, encl, info.ObjectOf(rid)); ras != nil && len(ras.Rhs) == len(ras.Lhs) {
									if rc, ok := ast.Unparen(ras.Rhs[ri]).(*ast.CallExpr); ok {
										if r2, ok := ast.Unparen(rc.Fun).(*ast.Ident); ok && r2.Name == "recover" {
											fromRecover = true
										}
									}
								}
							}
							if fromRecover && info.ObjectOf(lid) == info.ObjectOf(id) {
								reraise = true
							}
						}
						return true
					})
				}
				if reraise {
					c.OK(key, ps.call.Pos(), "re-raise of a recovered panic value on the calling goroutine")
					continue
				}
			}
			// panic(g.pan): a field that only ever receives recovered values (g.pan = rec with rec := recover()) in the package
			if sel, ok := ast.Unparen(ps.call.Args[0]).(*ast.SelectorExpr); ok {
				if fld, ok := info.ObjectOf(sel.Sel).(*types.Var); ok && fld.IsField() {
					nStores, allRecovered := 0, true
					if pp := c.PkgOf(ps.call); pp != nil {
						pinfo := pp.TypesInfo
						for _, f := range pp.Syntax {
							ast.Inspect(f, func(x ast.Node) bool {
								as, ok := x.(*ast.AssignStmt)
								if !ok || len(as.Lhs) != len(as.Rhs) {
									return true
								}
								for i, l := range as.Lhs {
									ls, ok := ast.Unparen(l).(*ast.SelectorExpr)
									if !ok || pinfo.ObjectOf(ls.Sel) != fld {
										continue
									}
									nStores++
									fromRecover := false
									switch r := ast.Unparen(as.Rhs[i]).(type) {
									case *ast.CallExpr:
										if rid, ok := ast.Unparen(r.Fun).(*ast.Ident); ok && rid.Name == "recover" {
											fromRecover = true
										}
									case *ast.Ident:
										if encl := c.EnclosingDecl(as); encl != nil {
											if ras, ri := definingAssign(pinfo, encl, pinfo.ObjectOf(r)); ras != nil && len(ras.Rhs) == len(ras.Lhs) {
												if rc, ok := ast.Unparen(ras.Rhs[ri]).(*ast.CallExpr); ok {
													if r2, ok := ast.Unparen(rc.Fun).(*ast.Ident); ok && r2.Name == "recover" {
														fromRecover = true
													}
												}
											}
										}
									}
									if !fromRecover {
										allRecovered = false
									}
								}
								return true
							})
						}
					}
					if nStores > 0 && allRecovered {
						c.OK(key, ps.call.Pos(), "re-raise of a recovered panic value kept in the field %s on the calling goroutine", fld.Name())
						continue
					}
				}
			}
		}
		// (b) the arg package protocol: panics with pError inside helpers that are only called under defer CatchErr
		if ps.pkg.PkgPath == modPath+"/value/arg" {
			c.OK(key, ps.call.Pos(), "arg package protocol: the panic carries a pError and the helpers are called under 'defer CatchErr' (checked by R05.5b)")
			continue
		}
		// (c) the recursion guard
		if fd != nil && fd.Name.Name == "set" && fd.Recv != nil && recvTypeName(fd.Recv.List[0].Type) == "stackStorage" {
			c.OK(key, ps.call.Pos(), "recursion guard of the value stack: recovered by try/catch (R05.9) and by the top level recover of the generated function")
			continue
		}
		c.Violation(key, ps.call.Pos(), "explicit panic in code reachable from evaluation (in %s): the fault is not returned as an ordinary error", ps.in)
	}
	if n == 0 {
		c.Undecided("value#reachable-panics", token.NoPos, "no panic site found at all (the recursion guard should be one)")
	}
	// (R05.5b) arg helpers that panic are called only in functions that start with defer CatchErr
	if argPkg := c.Pkg("value/arg"); argPkg != nil {
		info := argPkg.TypesInfo
		catchErr := LookupFunc(argPkg, "CatchErr")
		panicking := map[*types.Func]bool{}
		for fn, nd := range decls {
			if nd.pkg != argPkg {
				continue
			}
			if containsNode(nd.decl.Body, func(x ast.Node) bool {
				cc, ok := x.(*ast.CallExpr)
				if !ok {
					return false
				}
				id, ok := ast.Unparen(cc.Fun).(*ast.Ident)
				if !ok || id.Name != "panic" {
					return false
				}
				// CatchErr's own re-raise does not count
				return nd.decl.Name.Name != "CatchErr"
			}) {
				panicking[fn] = true
			}
		}
		// close over helpers calling panicking helpers without their own CatchErr
		for changed := true; changed; {
			changed = false
			for fn, nd := range decls {
				if nd.pkg != argPkg || panicking[fn] || c.startsWithCatchErr(argPkg, nd.decl.Body, catchErr) {
					continue
				}
				if containsNode(nd.decl.Body, func(x ast.Node) bool {
					cc, ok := x.(*ast.CallExpr)
					return ok && panicking[Callee(info, cc)]
				}) {
					// only direct calls in the function's own body (not in literals that install CatchErr themselves)
					direct := false
					inspectNoLit(nd.decl.Body, func(x ast.Node) bool {
						if cc, ok := x.(*ast.CallExpr); ok && panicking[Callee(info, cc)] {
							direct = true
						}
						return true
					})
					if direct {
						panicking[fn] = true
						changed = true
					}
				}
			}
		}
		m := 0
		for _, pkg := range c.RepoPkgs {
			pinfo := pkg.TypesInfo
			for _, f := range pkg.Syntax {
				ast.Inspect(f, func(x ast.Node) bool {
					cc, ok := x.(*ast.CallExpr)
					if !ok || !panicking[Callee(pinfo, cc)] {
						return true
					}
					encl := c.EnclosingFunc(cc)
					if fd, ok := encl.(*ast.FuncDecl); ok {
						if obj, ok := pinfo.Defs[fd.Name].(*types.Func); ok && panicking[obj.Origin()] {
							return true // helper that itself belongs to the protocol
						}
					}
					body := funcBody(encl)
					m++
					key := fmt.Sprintf("%s#arg-helper-call[%d]", c.FuncName(cc)+litSuffix(c, encl), m)
					if body != nil && c.startsWithCatchErr(pkg, body, catchErr) {
						c.OK(key, cc.Pos(), "called in a function that starts with defer CatchErr")
					} else {
						c.Violation(key, cc.Pos(), "%s panics with a pError to report a wrong argument, but the enclosing function does not start with 'defer CatchErr(&err)': the panic is not converted into an error", nodeStr(c.Fset, cc.Fun))
					}
					return true
				})
			}
		}
	}
}

func (c *Ctx) startsWithCatchErr(pkg *packages.Package, body *ast.BlockStmt, catchErr *types.Func) bool {
	if catchErr == nil || body == nil {
		return false
	}
	for _, s := range body.List {
		switch t := s.(type) {
		case *ast.DeclStmt:
			continue
		case *ast.DeferStmt:
			return isCallTo(pkg.TypesInfo, t.Call, catchErr)
		default:
			return false
		}
	}
	return false
}

// ---------------------------------------------------------------------------
// R05.6 fresh stacks restart the recursion guard

// hostBoundary: functions where a fresh stack is the only option because no
// stack of the running evaluation is in scope, and that are entered from host
// code (printing, export) or at the top of an evaluation / at Generate time.
var freshStackAllowed = map[string]string{
	"funcGen.Func.Eval":                 "top of an evaluation",
	"funcGen.New":                       "scratch stack of the optimizer, Generate time",
	"funcGen.optimizer.Optimize":        "constant folding at Generate time",
	"value.List.String":                 "fmt.Stringer, host side printing",
	"value.Map.String":                  "fmt.Stringer, host side printing",
	"value.flatten":                     "host side helper without a stack parameter",
	"value/export.jsonListExporter.Add": "export runs in host code after the evaluation",
	"value/export.jsonMapExporter.Add":  "export runs in host code after the evaluation",
	"value/export.xmlListExporter.Add":  "export runs in host code after the evaluation",
	"value/export.xmlMapExporter.Add":   "export runs in host code after the evaluation",
	"value/export.ToHtml":               "export runs in host code after the evaluation",
	"value/export.textExporter.ToText":  "export runs in host code after the evaluation",
}

func ruleR056(c *Ctx) {
	a := c.genAnchors()
	if len(a.missing) > 0 {
		c.Undecided(strings.Join(a.missing, ","), token.NoPos, "anchors not found")
		return
	}
	newEmpty := LookupFunc(a.fg, "NewEmptyStack")
	newStack := LookupFunc(a.fg, "NewStack")
	if newEmpty == nil || newStack == nil {
		c.Undecided("funcGen.NewEmptyStack/NewStack", token.NoPos, "not found")
		return
	}
	// A site inside a private helper belongs to the one function that uses the helper (three levels):
	// extracting a site into a helper, or inlining a helper, does not change what the site is.
	type declRef struct {
		pkg *packages.Package
		fd  *ast.FuncDecl
	}
	callers := map[*types.Func]map[*ast.FuncDecl]declRef{}
	for _, pkg := range evalPkgs(c) {
		info := pkg.TypesInfo
		for _, f := range pkg.Syntax {
			ast.Inspect(f, func(x ast.Node) bool {
				call, ok := x.(*ast.CallExpr)
				if !ok {
					return true
				}
				cal := Callee(info, call)
				fd := c.EnclosingDecl(call)
				if cal == nil || fd == nil || cal.Pkg() == nil || !strings.HasPrefix(cal.Pkg().Path(), modPath) {
					return true
				}
				if callers[cal.Origin()] == nil {
					callers[cal.Origin()] = map[*ast.FuncDecl]declRef{}
				}
				callers[cal.Origin()][fd] = declRef{pkg, fd}
				return true
			})
		}
	}
	owner := func(pkg *packages.Package, fd *ast.FuncDecl) declRef {
		cur := declRef{pkg, fd}
		for depth := 0; depth < 3; depth++ {
			if ast.IsExported(cur.fd.Name.Name) {
				break
			}
			if _, allowed := freshStackAllowed[declName(cur.pkg, cur.fd)]; allowed {
				break
			}
			obj, _ := cur.pkg.TypesInfo.Defs[cur.fd.Name].(*types.Func)
			if obj == nil {
				break
			}
			cs := callers[obj.Origin()]
			delete(cs, cur.fd) // recursion
			if len(cs) != 1 {
				break
			}
			for _, r := range cs {
				cur = r
			}
		}
		return cur
	}
	type site struct {
		call *ast.CallExpr
		ctor *types.Func
	}
	sites := map[string][]site{} // owner name -> sites
	n := 0
	for _, pkg := range evalPkgs(c) {
		info := pkg.TypesInfo
		for _, f := range pkg.Syntax {
			ast.Inspect(f, func(x ast.Node) bool {
				call, ok := x.(*ast.CallExpr)
				if !ok || !(isCallTo(info, call, newEmpty) || isCallTo(info, call, newStack)) {
					return true
				}
				fd := c.EnclosingDecl(call)
				if fd == nil {
					return true
				}
				n++
				ctor := newEmpty
				if isCallTo(info, call, newStack) {
					ctor = newStack
				}
				o := owner(pkg, fd)
				oname := declName(o.pkg, o.fd)
				sites[oname] = append(sites[oname], site{call, ctor})
				return true
			})
		}
	}
	for oname, ss := range sites {
		sort.Slice(ss, func(i, j int) bool {
			pi, pj := c.Fset.Position(ss[i].call.Pos()), c.Fset.Position(ss[j].call.Pos())
			if pi.Filename != pj.Filename {
				return pi.Filename < pj.Filename
			}
			return pi.Offset < pj.Offset
		})
		ord := map[string]int{}
		for _, st := range ss {
			ord[st.ctor.Name()]++
			key := fmt.Sprintf("%s#%s[%d]", oname, st.ctor.Name(), ord[st.ctor.Name()])
			if why, ok := freshStackAllowed[oname]; ok {
				c.OK(key, st.call.Pos(), "fresh stack at a host boundary: %s", why)
				continue
			}
			c.Violation(key, st.call.Pos(), "closures of the running program are evaluated on a fresh value stack: the 10000 slot recursion guard starts again at zero, so recursion through this site is bounded by nothing but the Go stack (fatal 'stack overflow' of the process instead of an error)")
		}
	}
	if n < 8 {
		c.Undecided("value#NewEmptyStack-sites", token.NoPos, "only %d sites found", n)
	}
}

// ---------------------------------------------------------------------------
// R05.8 recursion guard present; R05.9 try recovers

func ruleR058(c *Ctx) {
	a := c.genAnchors()
	if len(a.missing) > 0 {
		c.Undecided(strings.Join(a.missing, ","), token.NoPos, "anchors not found")
		return
	}
	info := a.fg.TypesInfo
	fd := c.FuncDecl(a.fg, "stackStorage", "set")
	if fd == nil {
		c.Undecided("funcGen.stackStorage.set", token.NoPos, "not found")
		return
	}
	key := "funcGen.stackStorage.set#recursion-guard"
	nk := paramKeyOf(info, fd, 0)
	var app *ast.CallExpr
	ast.Inspect(fd.Body, func(n ast.Node) bool {
		if call, ok := n.(*ast.CallExpr); ok {
			if id, ok := ast.Unparen(call.Fun).(*ast.Ident); ok && id.Name == "append" {
				app = call
			}
		}
		return true
	})
	if app == nil {
		c.Undecided(key, fd.Pos(), "no append that grows the stack")
		return
	}
	// before the append: a comparison of the slot index with a constant whose exceeding side does not reach the append
	g := c.CFG(fd)
	guarded := false
	bound := 0
	for _, gd := range g.Guards(app) {
		be, ok := ast.Unparen(gd.Cond).(*ast.BinaryExpr)
		if !ok {
			continue
		}
		k, _ := exprKey(info, be.X)
		v, isC := constInt(info.Types[be.Y])
		if k != nk || !isC {
			continue
		}
		if (be.Op == token.GTR || be.Op == token.GEQ) && !gd.Val || (be.Op == token.LSS || be.Op == token.LEQ) && gd.Val {
			guarded, bound = true, v
		}
	}
	// The bound has to stop a runaway recursion before the Go stack is exhausted, which is fatal (no recover): every
	// level of a recursion of the evaluated program holds at least one slot of the value stack and at least two Go
	// frames (the generated call closure and the body of the called closure: 544 bytes measured on amd64, at least
	// 256 bytes on a 32 bit platform). The runtime grows a goroutine stack by doubling up to 1e9 bytes on 64 bit and
	// 250e6 bytes on 32 bit platforms, i.e. the largest stack is 2^29 and 2^27 bytes: bound*256 must stay below 2^27.
	const maxBound = (1 << 27) / 256
	if guarded && bound > maxBound {
		c.Violation(key, app.Pos(), "the value stack may grow to %d slots before a runaway recursion is stopped: every level of an evaluated recursion needs a slot and at least 256 bytes of Go stack (544 measured on amd64), so the Go stack (at most 2^27 bytes on 32 bit platforms, 2^29 on 64 bit) is exhausted first - a fatal error that no recover catches and that terminates the process, also while the optimizer folds a self application during Parse/Generate; the bound has to stay below %d", bound, maxBound)
	} else if guarded && bound > 0 {
		c.OK(key, app.Pos(), "the value stack grows only below the constant bound %d (< %d: the Go stack cannot be exhausted first); beyond it the evaluation is aborted", bound, maxBound)
	} else {
		c.Violation(key, app.Pos(), "the append that grows the value stack is not limited by a comparison of the slot index with a constant bound: runaway recursion exhausts memory / the Go stack instead of being reported")
	}
}

func ruleR059(c *Ctx) {
	a := c.genAnchors()
	if len(a.missing) > 0 {
		c.Undecided(strings.Join(a.missing, ","), token.NoPos, "anchors not found")
		return
	}
	fwd := c.forwarders(a)
	n := 0
	for _, gi := range c.generatorFuncs(a, fwd) {
		info := gi.pkg.TypesInfo
		gname := declName(gi.pkg, gi.decl)
		// variables that may hold the try child itself: guarded := tryFunc
		tryAlias := map[types.Object]bool{}
		ast.Inspect(gi.decl.Body, func(x ast.Node) bool {
			as, ok := x.(*ast.AssignStmt)
			if !ok || len(as.Lhs) != len(as.Rhs) {
				return true
			}
			for i, r := range as.Rhs {
				if obj := gi.childObj(info, r); obj != nil && gi.field[obj] == "TryCatch.Try" {
					if id, ok := ast.Unparen(as.Lhs[i]).(*ast.Ident); ok && id.Name != "_" {
						tryAlias[info.ObjectOf(id)] = true
					}
				}
			}
			return true
		})
		// the try child kept in a field of a small struct whose methods are the generated code:
		// tryCatchEval{tryFunc: tryFunc, ...}; every call of that field in the package evaluates the try expression
		tryFields := map[types.Object]bool{}
		ast.Inspect(gi.decl.Body, func(x ast.Node) bool {
			kv, ok := x.(*ast.KeyValueExpr)
			if !ok {
				return true
			}
			kid, ok := kv.Key.(*ast.Ident)
			if !ok {
				return true
			}
			isTryVal := false
			if obj := gi.childObj(info, kv.Value); obj != nil && gi.field[obj] == "TryCatch.Try" {
				isTryVal = true
			}
			if id, ok := ast.Unparen(kv.Value).(*ast.Ident); ok && tryAlias[info.ObjectOf(id)] {
				isTryVal = true
			}
			if fld, ok := info.ObjectOf(kid).(*types.Var); ok && fld.IsField() && isTryVal {
				tryFields[fld] = true
			}
			return true
		})
		if len(tryFields) > 0 {
			for _, f := range gi.pkg.Syntax {
				ast.Inspect(f, func(x ast.Node) bool {
					call, ok := x.(*ast.CallExpr)
					if !ok {
						return true
					}
					sel, ok := ast.Unparen(call.Fun).(*ast.SelectorExpr)
					if !ok || !tryFields[info.ObjectOf(sel.Sel)] {
						return true
					}
					n++
					key := fmt.Sprintf("%s#try-evaluation[%d]", gname, n)
					body := c.enclosingBody(call)
					if body != nil && c.startsWithRecoveringDefer(gi.pkg, body) {
						c.OK(key, call.Pos(), "the try expression (kept in the field %s) is evaluated under a deferred function that calls recover()", sel.Sel.Name)
					} else {
						c.Violation(key, call.Pos(), "the try expression (kept in the field %s) is evaluated without a recover: a fault raised as a Go panic (recursion guard, host function) can not be handled by try/catch", sel.Sel.Name)
					}
					return true
				})
			}
		}
		// the try child handed to a wrapper constructor: protected := panicToError(tryFunc), where the literal the
		// constructor returns calls its parameter - that call is the evaluation of the try expression
		ast.Inspect(gi.decl.Body, func(x ast.Node) bool {
			call, ok := x.(*ast.CallExpr)
			if !ok {
				return true
			}
			cal := Callee(info, call)
			if cal == nil || cal.Pkg() != gi.pkg.Types {
				return true
			}
			hd := findFuncDecl(gi.pkg, cal)
			if hd == nil || hd.Body == nil || hd.Type.Params == nil {
				return true
			}
			pi := 0
			for _, fl := range hd.Type.Params.List {
				for _, nm := range fl.Names {
					if pi < len(call.Args) {
						arg := call.Args[pi]
						isTryArg := false
						if obj := gi.childObj(info, arg); obj != nil && gi.field[obj] == "TryCatch.Try" {
							isTryArg = true
						}
						if id, ok := ast.Unparen(arg).(*ast.Ident); ok && tryAlias[info.ObjectOf(id)] {
							isTryArg = true
						}
						if isTryArg {
							pobj := info.Defs[nm]
							ast.Inspect(hd.Body, func(y ast.Node) bool {
								ic, ok := y.(*ast.CallExpr)
								if !ok {
									return true
								}
								if id, ok := ast.Unparen(ic.Fun).(*ast.Ident); ok && info.ObjectOf(id) == pobj {
									n++
									key := fmt.Sprintf("%s#try-evaluation[%d]", gname, n)
									body := c.enclosingBody(ic)
									if body != nil && c.startsWithRecoveringDefer(gi.pkg, body) {
										c.OK(key, ic.Pos(), "the try expression is evaluated by the wrapper %s under a deferred function that calls recover()", cal.Name())
									} else {
										c.Violation(key, ic.Pos(), "the try expression is handed to %s, which evaluates it without a recover: a fault raised as a Go panic (recursion guard, host function) can not be handled by try/catch", cal.Name())
									}
								}
								return true
							})
						}
					}
					pi++
				}
			}
			return true
		})
		ast.Inspect(gi.decl.Body, func(x ast.Node) bool {
			call, ok := x.(*ast.CallExpr)
			if !ok {
				return true
			}
			obj := gi.childObj(info, call.Fun)
			isTry := obj != nil && gi.field[obj] == "TryCatch.Try"
			if id, ok := ast.Unparen(call.Fun).(*ast.Ident); ok && tryAlias[info.ObjectOf(id)] {
				isTry = true
			}
			if !isTry {
				return true
			}
			n++
			key := fmt.Sprintf("%s#try-evaluation[%d]", gname, n)
			body := c.enclosingBody(call)
			if body != nil && c.startsWithRecoveringDefer(gi.pkg, body) {
				c.OK(key, call.Pos(), "the try expression is evaluated under a deferred function that calls recover(): panics become errors the catch part can handle")
			} else {
				c.Violation(key, call.Pos(), "the try expression is evaluated without a recover: a fault raised as a Go panic (recursion guard, host function) can not be handled by try/catch")
			}
			return true
		})
	}
	if n < 2 {
		c.Undecided("funcGen#try-evaluation", token.NoPos, "expected the generic and the custom try/catch generator, found %d", n)
	}
}

// ---------------------------------------------------------------------------
// R05.10 a recovered panic always becomes an outcome

// ruleR0510: in every function that calls recover() directly, each path
// through the branch "a panic was recovered" has to report it: assign the
// error result the function can set (a named error result of the function
// that defers it, or *err of a pointer parameter), hand it to a callback, or
// panic again. Where the function has no error to set (the optimizer wrapper
// restores the AST, the consumer guard keeps the value for a later re-panic),
// the path has to assign a variable that outlives the recovering function.
func ruleR0510(c *Ctx) {
	n := 0
	forEachFuncBody(c.RepoPkgs, func(pkg *packages.Package, fn ast.Node, body *ast.BlockStmt) {
		info := pkg.TypesInfo
		var ifs *ast.IfStmt
		var recObj types.Object
		inspectNoLit(body, func(x ast.Node) bool {
			t, ok := x.(*ast.IfStmt)
			if !ok || t.Init == nil {
				return true
			}
			as, ok := t.Init.(*ast.AssignStmt)
			if !ok || len(as.Lhs) != 1 || len(as.Rhs) != 1 {
				return true
			}
			call, ok := ast.Unparen(as.Rhs[0]).(*ast.CallExpr)
			if !ok {
				return true
			}
			if id, ok := ast.Unparen(call.Fun).(*ast.Ident); ok {
				if b, ok := info.Uses[id].(*types.Builtin); ok && b.Name() == "recover" {
					ifs = t
					if l, ok := as.Lhs[0].(*ast.Ident); ok {
						recObj = info.ObjectOf(l)
					}
				}
			}
			return true
		})
		if ifs == nil {
			// recover() in another shape
			if callsRecoverDirectly(info, body) {
				n++
				c.Undecided(c.FuncName(fn)+litSuffix(c, fn)+"#recovered-panic-reported", fn.Pos(), "recover() is not used in the form `if rec := recover(); rec != nil`")
			}
			return
		}
		n++
		key := c.FuncName(fn) + litSuffix(c, fn) + "#recovered-panic-reported"
		// what this function can set
		errTargets := map[types.Object]bool{}
		ptrTargets := map[types.Object]bool{}
		var ft *ast.FuncType
		switch t := fn.(type) {
		case *ast.FuncDecl:
			ft = t.Type
		case *ast.FuncLit:
			ft = t.Type
		}
		if ft.Params != nil {
			for _, f := range ft.Params.List {
				for _, nm := range f.Names {
					if p, ok := info.TypeOf(nm).(*types.Pointer); ok && isErrorType(p.Elem()) {
						ptrTargets[info.Defs[nm]] = true
					}
				}
			}
		}
		// named error results of the enclosing functions (the deferred literal sets them)
		for cur := fn; cur != nil; cur = c.EnclosingFunc(cur) {
			var t *ast.FuncType
			switch f := cur.(type) {
			case *ast.FuncDecl:
				t = f.Type
			case *ast.FuncLit:
				t = f.Type
			}
			if t != nil && t.Results != nil {
				for _, f := range t.Results.List {
					for _, nm := range f.Names {
						if isErrorType(info.TypeOf(nm)) {
							errTargets[info.Defs[nm]] = true
						}
					}
				}
			}
			if len(errTargets) > 0 {
				break
			}
		}
		strong := len(errTargets)+len(ptrTargets) > 0
		// the function that defers this literal: its plain locals die with it
		var deferring ast.Node
		if lit, ok := fn.(*ast.FuncLit); ok {
			if call, ok := c.Parent(lit).(*ast.CallExpr); ok && call.Fun == ast.Expr(lit) {
				if _, ok := c.Parent(call).(*ast.DeferStmt); ok {
					deferring = c.EnclosingFunc(lit)
				}
			}
		}
		namedResult := func(obj types.Object) bool {
			var t *ast.FuncType
			switch f := deferring.(type) {
			case *ast.FuncDecl:
				t = f.Type
			case *ast.FuncLit:
				t = f.Type
			}
			if t == nil || t.Results == nil {
				return false
			}
			for _, f := range t.Results.List {
				for _, nm := range f.Names {
					if info.Defs[nm] == obj {
						return true
					}
				}
			}
			return false
		}
		isSink := func(x ast.Node) bool {
			return containsNode(x, func(y ast.Node) bool {
				switch t := y.(type) {
				case *ast.AssignStmt:
					for _, l := range t.Lhs {
						l = ast.Unparen(l)
						if id, ok := l.(*ast.Ident); ok {
							obj := info.ObjectOf(id)
							if errTargets[obj] {
								return true
							}
							if !strong && obj != nil && (obj.Pos() < fn.Pos() || obj.Pos() > fn.End()) {
								// a captured variable: it has to outlive the deferring function (a named result of it,
								// or a variable of a scope further out); a plain local of the deferring function is lost
								if deferring == nil || namedResult(obj) || obj.Pos() < deferring.Pos() || obj.Pos() > deferring.End() {
									return true
								}
							}
						}
						if st, ok := l.(*ast.StarExpr); ok {
							if id, ok := ast.Unparen(st.X).(*ast.Ident); ok && ptrTargets[info.ObjectOf(id)] {
								return true
							}
						}
					}
				case *ast.CallExpr:
					if id, ok := ast.Unparen(t.Fun).(*ast.Ident); ok {
						if b, ok := info.Uses[id].(*types.Builtin); ok && b.Name() == "panic" {
							return true
						}
						// a callback (parameter or captured function value) that is handed an error
						if v, ok := info.ObjectOf(id).(*types.Var); ok && v != nil {
							if _, isFunc := v.Type().Underlying().(*types.Signature); isFunc {
								for _, a := range t.Args {
									if isErrorType(info.TypeOf(a)) {
										return true
									}
								}
							}
						}
					}
				}
				return false
			})
		}
		g := c.CFG(fn)
		found, trail := g.PathAvoidingEdges(nil, isSink, func(cond ast.Expr, val bool) bool {
			// follow only "a panic was recovered"
			if be, ok := ast.Unparen(cond).(*ast.BinaryExpr); ok && cond == ifs.Cond {
				_ = be
				return val
			}
			return true
		})
		_ = recObj
		if found {
			where := ""
			if len(trail) > 0 {
				where = " (path ends behind " + c.posStr(trail[len(trail)-1].Pos()) + ")"
			}
			if strong {
				c.Violation(key, ifs.Pos(), "a recovered panic is not reported on every path%s: the function can set an error result but leaves it nil, the caller gets a success with an empty value", where)
			} else {
				c.Violation(key, ifs.Pos(), "a recovered panic has no effect on every path%s: it is swallowed", where)
			}
		} else if strong {
			c.OK(key, ifs.Pos(), "every path through the recovering branch sets the error result, calls a callback with the error or panics again")
		} else {
			c.OK(key, ifs.Pos(), "every path through the recovering branch records the panic in state that outlives the function (no error result to set here)")
		}
	})
	if n < 6 {
		c.Undecided("recover-sites", token.NoPos, "only %d functions calling recover() found", n)
	}
}

// ---------------------------------------------------------------------------
// R05.11 a deferred recover reports into the result of the function that defers it
//
// `defer recoverToError(&err)` turns a panic into the error result only if err
// IS the result: a named result of the very function that executes the defer.
// If the function has unnamed results, &err binds to a variable of an
// enclosing function; the panic is still recovered, the literal returns its
// zero results - (nil, nil): the fault is neither raised nor reported.

func ruleR0511(c *Ctx) {
	n := 0
	forEachFuncBody(c.RepoPkgs, func(pkg *packages.Package, fn ast.Node, body *ast.BlockStmt) {
		info := pkg.TypesInfo
		k := 0
		inspectNoLit(body, func(x ast.Node) bool {
			d, ok := x.(*ast.DeferStmt)
			if !ok {
				return true
			}
			if _, isLit := ast.Unparen(d.Call.Fun).(*ast.FuncLit); isLit || !c.recoveringDefer(pkg, d) {
				return true
			}
			// pointer arguments: &x
			for _, a := range d.Call.Args {
				u, ok := ast.Unparen(a).(*ast.UnaryExpr)
				if !ok || u.Op != token.AND {
					continue
				}
				id, ok := ast.Unparen(u.X).(*ast.Ident)
				if !ok {
					continue
				}
				k++
				n++
				key := fmt.Sprintf("%s#recover-target[%d]", c.FuncName(fn)+litSuffix(c, fn), k)
				obj := info.ObjectOf(id)
				var ft *ast.FuncType
				switch t := fn.(type) {
				case *ast.FuncDecl:
					ft = t.Type
				case *ast.FuncLit:
					ft = t.Type
				}
				isResult := false
				if ft != nil && ft.Results != nil {
					for _, f := range ft.Results.List {
						for _, nm := range f.Names {
							if info.Defs[nm] == obj {
								isResult = true
							}
						}
					}
				}
				if isResult {
					c.OK(key, d.Pos(), "the recovered panic is stored into the named result %s of the function that defers the recover", id.Name)
					continue
				}
				// a function without results can only report through a variable of its caller:
				// var err error; func() { defer rec(&err); work() }(); if err != nil { ... }
				if ft != nil && (ft.Results == nil || len(ft.Results.List) == 0) && !(obj != nil && obj.Pos() >= fn.Pos() && obj.Pos() <= fn.End()) {
					c.OK(key, d.Pos(), "the function that defers the recover has no results; the recovered panic is stored into %s of the enclosing function, which looks at it after the call", id.Name)
					continue
				}
				declaredHere := obj != nil && obj.Pos() >= fn.Pos() && obj.Pos() <= fn.End()
				if declaredHere {
					// a variable read after the deferred call has run cannot be returned by a return statement: the
					// return value was already evaluated. Only a named result works.
					c.Violation(key, d.Pos(), "the deferred recover stores the panic into the local variable %s, which is no named result: the value a return statement hands back is computed before deferred calls run, so the recovered panic never reaches the caller", id.Name)
					continue
				}
				c.Violation(key, d.Pos(), "the deferred recover stores the panic into %s, a variable of an enclosing function and not a named result of the function that executes the defer: the panic is recovered, this function returns its zero results (a nil value and a nil error), and the fault is neither raised nor reported - try/catch yields nil instead of running the catch part", id.Name)
			}
			return true
		})
	})
	if n < 5 {
		c.Undecided("value#deferred-recover-helpers", token.NoPos, "only %d deferred recover helpers with a pointer argument found", n)
	}
}
