package main

import (
	"fmt"
	"go/ast"
	"go/printer"
	"go/token"
	"go/types"
	"io"
	"os"
	"sort"
	"strings"

	"golang.org/x/tools/go/packages"
)

const (
	modPath  = "github.com/hneemann/parser2"
	iterPath = "github.com/hneemann/iterator"
)

func printerFprint(w io.Writer, fset *token.FileSet, n ast.Node) error {
	return printer.Fprint(w, fset, n)
}

// Program is the loaded, type checked program.
type Program struct {
	RepoDir   string
	Fset      *token.FileSet
	Pkgs      map[string]*packages.Package // all packages by path
	RepoPkgs  []*packages.Package          // packages of the module, sorted
	Iter      *packages.Package            // the iterator dependency (may be nil)
	TotalPkgs int

	parents map[ast.Node]ast.Node
	fileOf  map[*ast.File]*packages.Package
	ssa     *ssaInfo
}

func loadProgram(repo, goarch, tags string) (*Program, error) {
	env := append(os.Environ(), "GOWORK=off", "GOFLAGS=-mod=mod", "GOPROXY=off", "GOSUMDB=off", "GOTOOLCHAIN=local", "CGO_ENABLED=0")
	if goarch != "" {
		env = append(env, "GOARCH="+goarch)
	}
	cfg := &packages.Config{
		Mode:  packages.LoadAllSyntax,
		Dir:   repo,
		Env:   env,
		Tests: false,
		Fset:  token.NewFileSet(),
	}
	if tags != "" {
		cfg.BuildFlags = []string{"-tags=" + tags}
	}
	initial, err := packages.Load(cfg, "./...")
	if err != nil {
		return nil, fmt.Errorf("loading packages: %v", err)
	}
	if len(initial) == 0 {
		return nil, fmt.Errorf("no packages loaded from %s", repo)
	}
	p := &Program{RepoDir: repo, Fset: cfg.Fset, Pkgs: map[string]*packages.Package{}, fileOf: map[*ast.File]*packages.Package{}}
	var errs []string
	packages.Visit(initial, nil, func(pkg *packages.Package) {
		p.Pkgs[pkg.PkgPath] = pkg
		p.TotalPkgs++
		if pkg.PkgPath == modPath || strings.HasPrefix(pkg.PkgPath, modPath+"/") || pkg.PkgPath == iterPath {
			for _, e := range pkg.Errors {
				errs = append(errs, e.Error())
			}
			if pkg.IllTyped {
				errs = append(errs, pkg.PkgPath+": ill typed")
			}
		}
	})
	if len(errs) > 0 {
		sort.Strings(errs)
		if len(errs) > 5 {
			errs = errs[:5]
		}
		return nil, fmt.Errorf("type errors: %s", strings.Join(errs, "; "))
	}
	for _, pkg := range initial {
		if pkg.PkgPath == modPath || strings.HasPrefix(pkg.PkgPath, modPath+"/") {
			p.RepoPkgs = append(p.RepoPkgs, pkg)
		}
	}
	sort.Slice(p.RepoPkgs, func(i, j int) bool { return p.RepoPkgs[i].PkgPath < p.RepoPkgs[j].PkgPath })
	if len(p.RepoPkgs) == 0 {
		return nil, fmt.Errorf("no package of module %s found in %s", modPath, repo)
	}
	p.Iter = p.Pkgs[iterPath]
	constPkgs := append([]*packages.Package{}, p.RepoPkgs...)
	if p.Iter != nil {
		constPkgs = append(constPkgs, p.Iter)
	}
	loadedPkgs = constPkgs
	guardInlineCache = map[*ast.CallExpr]ast.Expr{}
	guardInline = func(call *ast.CallExpr) ast.Expr {
		if e, ok := guardInlineCache[call]; ok {
			return e
		}
		var res ast.Expr
		for _, pkg := range constPkgs {
			info := pkg.TypesInfo
			if _, ok := info.Types[call]; !ok {
				continue
			}
			cal := Callee(info, call)
			if cal == nil || cal.Pkg() != pkg.Types {
				break
			}
			fd := findFuncDecl(pkg, cal)
			if fd == nil || fd.Body == nil || len(fd.Body.List) != 1 || fd.Recv != nil {
				break
			}
			ret, ok := fd.Body.List[0].(*ast.ReturnStmt)
			if !ok || len(ret.Results) != 1 {
				break
			}
			if b, ok := info.TypeOf(ret.Results[0]).Underlying().(*types.Basic); !ok || b.Info()&types.IsBoolean == 0 {
				break
			}
			sub := map[types.Object]ast.Expr{}
			i := 0
			for _, fl := range fd.Type.Params.List {
				for _, nm := range fl.Names {
					if i < len(call.Args) {
						sub[info.Defs[nm]] = call.Args[i]
					}
					i++
				}
			}
			if i != len(call.Args) {
				break
			}
			if e, ok := substExpr(ret.Results[0], sub, info); ok {
				res = e
			}
			break
		}
		guardInlineCache[call] = res
		return res
	}
	indexFuncValueVars(constPkgs)
	guardConst = func(e ast.Expr) bool {
		for _, pkg := range constPkgs {
			if tv, ok := pkg.TypesInfo.Types[e]; ok {
				return tv.Value != nil || tv.IsNil()
			}
		}
		return false
	}
	for _, pkg := range p.Pkgs {
		for _, f := range pkg.Syntax {
			p.fileOf[f] = pkg
		}
	}
	return p, nil
}

func (p *Program) countFuncs() int {
	n := 0
	for _, pkg := range p.RepoPkgs {
		for _, f := range pkg.Syntax {
			ast.Inspect(f, func(nd ast.Node) bool {
				switch nd.(type) {
				case *ast.FuncDecl, *ast.FuncLit:
					n++
				}
				return true
			})
		}
	}
	return n
}

func (p *Program) countFiles() int {
	n := 0
	for _, pkg := range p.RepoPkgs {
		n += len(pkg.Syntax)
	}
	return n
}

// Pkg returns the package of the module with the given path relative to the
// module root ("" is the root package).
func (p *Program) Pkg(rel string) *packages.Package {
	path := modPath
	if rel != "" {
		path += "/" + rel
	}
	return p.Pkgs[path]
}

// Parents lazily builds the parent map of all syntax of the repository and
// the iterator dependency.
func (p *Program) Parents() map[ast.Node]ast.Node {
	if p.parents != nil {
		return p.parents
	}
	p.parents = map[ast.Node]ast.Node{}
	add := func(pkg *packages.Package) {
		for _, f := range pkg.Syntax {
			var stack []ast.Node
			ast.Inspect(f, func(n ast.Node) bool {
				if n == nil {
					stack = stack[:len(stack)-1]
					return true
				}
				if len(stack) > 0 {
					p.parents[n] = stack[len(stack)-1]
				}
				stack = append(stack, n)
				return true
			})
		}
	}
	for _, pkg := range p.RepoPkgs {
		add(pkg)
	}
	if p.Iter != nil {
		add(p.Iter)
	}
	return p.parents
}

// Parent returns the syntactic parent of n.
func (p *Program) Parent(n ast.Node) ast.Node { return p.Parents()[n] }

// EnclosingFunc returns the innermost FuncDecl or FuncLit that contains n
// (not n itself).
func (p *Program) EnclosingFunc(n ast.Node) ast.Node {
	for q := p.Parent(n); q != nil; q = p.Parent(q) {
		switch q.(type) {
		case *ast.FuncDecl, *ast.FuncLit:
			return q
		}
	}
	return nil
}

// EnclosingDecl returns the FuncDecl that contains n.
func (p *Program) EnclosingDecl(n ast.Node) *ast.FuncDecl {
	for q := n; q != nil; q = p.Parent(q) {
		if fd, ok := q.(*ast.FuncDecl); ok {
			return fd
		}
	}
	return nil
}

// FuncDecl looks up a function or method declaration. recv == "" for functions.
func (p *Program) FuncDecl(pkg *packages.Package, recv, name string) *ast.FuncDecl {
	if pkg == nil {
		return nil
	}
	for _, f := range pkg.Syntax {
		for _, d := range f.Decls {
			fd, ok := d.(*ast.FuncDecl)
			if !ok || fd.Name.Name != name {
				continue
			}
			if recv == "" {
				if fd.Recv == nil {
					return fd
				}
				continue
			}
			if fd.Recv != nil && len(fd.Recv.List) == 1 && recvTypeName(fd.Recv.List[0].Type) == recv {
				return fd
			}
		}
	}
	return nil
}

func recvTypeName(e ast.Expr) string {
	for {
		switch t := e.(type) {
		case *ast.StarExpr:
			e = t.X
		case *ast.ParenExpr:
			e = t.X
		case *ast.IndexExpr:
			e = t.X
		case *ast.IndexListExpr:
			e = t.X
		case *ast.Ident:
			return t.Name
		default:
			return ""
		}
	}
}

// declName gives a stable, human readable name for a FuncDecl.
func declName(pkg *packages.Package, fd *ast.FuncDecl) string {
	short := pkg.PkgPath
	if short == modPath {
		short = "parser2"
	} else {
		short = strings.TrimPrefix(short, modPath+"/")
	}
	if fd.Recv != nil && len(fd.Recv.List) == 1 {
		return short + "." + recvTypeName(fd.Recv.List[0].Type) + "." + fd.Name.Name
	}
	return short + "." + fd.Name.Name
}

// PkgOf returns the package that contains the node.
func (p *Program) PkgOf(n ast.Node) *packages.Package {
	for q := n; q != nil; q = p.Parent(q) {
		if f, ok := q.(*ast.File); ok {
			return p.fileOf[f]
		}
	}
	return nil
}

// FuncName returns a stable name of the function that contains n, including
// the chain of enclosing literals: "value.List.Map$lit1$lit1".
func (p *Program) FuncName(n ast.Node) string {
	fd := p.EnclosingDecl(n)
	if fd == nil {
		// package level (var initialiser)
		pkg := p.PkgOf(n)
		name := "?"
		for q := n; q != nil; q = p.Parent(q) {
			if vs, ok := q.(*ast.ValueSpec); ok && len(vs.Names) > 0 {
				name = vs.Names[0].Name
			}
		}
		if pkg != nil {
			return strings.TrimPrefix(strings.TrimPrefix(pkg.PkgPath, modPath), "/") + ".var:" + name
		}
		return "var:" + name
	}
	pkg := p.PkgOf(fd)
	return declName(pkg, fd)
}

// LookupType finds a named type in a package.
func LookupType(pkg *packages.Package, name string) *types.TypeName {
	if pkg == nil || pkg.Types == nil {
		return nil
	}
	if tn, ok := pkg.Types.Scope().Lookup(name).(*types.TypeName); ok {
		return tn
	}
	return nil
}

// LookupMethod finds the method object of a named (possibly generic) type.
func LookupMethod(pkg *packages.Package, typeName, method string) *types.Func {
	tn := LookupType(pkg, typeName)
	if tn == nil {
		return nil
	}
	named, ok := tn.Type().(*types.Named)
	if !ok {
		return nil
	}
	for i := 0; i < named.NumMethods(); i++ {
		if m := named.Method(i); m.Name() == method {
			return m
		}
	}
	return nil
}

// LookupFunc finds a package level function.
func LookupFunc(pkg *packages.Package, name string) *types.Func {
	if pkg == nil || pkg.Types == nil {
		return nil
	}
	if f, ok := pkg.Types.Scope().Lookup(name).(*types.Func); ok {
		return f
	}
	return nil
}

// Callee resolves the statically known callee of a call (function, method or
// interface method); nil for calls of function values.
func Callee(info *types.Info, call *ast.CallExpr) *types.Func {
	fun := ast.Unparen(call.Fun)
	switch f := fun.(type) {
	case *ast.IndexExpr:
		fun = ast.Unparen(f.X)
	case *ast.IndexListExpr:
		fun = ast.Unparen(f.X)
	}
	var obj types.Object
	switch f := fun.(type) {
	case *ast.Ident:
		obj = info.Uses[f]
	case *ast.SelectorExpr:
		if sel, ok := info.Selections[f]; ok {
			obj = sel.Obj()
		} else {
			obj = info.Uses[f.Sel]
		}
	}
	if fn, ok := obj.(*types.Func); ok {
		return fn.Origin()
	}
	// a local variable that holds a function or method value and is never reassigned: consume := mu.runConsumer
	if v, ok := obj.(*types.Var); ok {
		if fn := funcValueVars[v]; fn != nil {
			return fn
		}
	}
	return nil
}

// funcValueVars maps a variable with exactly one assignment, whose value is a
// declared function or a method value, to that function (set by the loader).
var funcValueVars = map[*types.Var]*types.Func{}

func indexFuncValueVars(pkgs []*packages.Package) {
	funcValueVars = map[*types.Var]*types.Func{}
	singleDefExpr = map[*types.Var]ast.Expr{}
	count := map[*types.Var]int{}
	for _, pkg := range pkgs {
		info := pkg.TypesInfo
		note := func(lhs ast.Expr, rhs ast.Expr) {
			id, ok := ast.Unparen(lhs).(*ast.Ident)
			if !ok {
				return
			}
			v, ok := info.ObjectOf(id).(*types.Var)
			if !ok || v.IsField() {
				return
			}
			count[v]++
			if rhs == nil {
				return
			}
			singleDefExpr[v] = rhs
			var obj types.Object
			switch r := ast.Unparen(rhs).(type) {
			case *ast.Ident:
				obj = info.Uses[r]
			case *ast.SelectorExpr:
				if sel, ok := info.Selections[r]; ok {
					if sel.Kind() == types.MethodVal {
						obj = sel.Obj()
					}
				} else {
					obj = info.Uses[r.Sel]
				}
			}
			if fn, ok := obj.(*types.Func); ok {
				funcValueVars[v] = fn.Origin()
			}
		}
		for _, f := range pkg.Syntax {
			ast.Inspect(f, func(n ast.Node) bool {
				switch t := n.(type) {
				case *ast.AssignStmt:
					for i, l := range t.Lhs {
						var r ast.Expr
						if len(t.Rhs) == len(t.Lhs) {
							r = t.Rhs[i]
						}
						note(l, r)
					}
				case *ast.ValueSpec:
					for i, nm := range t.Names {
						var r ast.Expr
						if len(t.Values) == len(t.Names) {
							r = t.Values[i]
						}
						if r != nil {
							note(nm, r)
						}
					}
				case *ast.IncDecStmt:
					note(t.X, nil)
				case *ast.RangeStmt:
					if t.Key != nil {
						note(t.Key, nil)
					}
					if t.Value != nil {
						note(t.Value, nil)
					}
				case *ast.UnaryExpr:
					if t.Op == token.AND {
						note(t.X, nil) // address taken: may be written through the pointer
					}
				}
				return true
			})
		}
	}
	for v := range funcValueVars {
		if count[v] != 1 {
			delete(funcValueVars, v)
		}
	}
	for v := range singleDefExpr {
		if count[v] != 1 {
			delete(singleDefExpr, v)
		}
	}
}

// singleDefExpr maps a variable that is assigned exactly once (and whose address is not taken) to the expression
// it is assigned (set by the loader).
var singleDefExpr = map[*types.Var]ast.Expr{}

// isCallTo reports whether call is a static call of fn.
func isCallTo(info *types.Info, call *ast.CallExpr, fn *types.Func) bool {
	return fn != nil && Callee(info, call) == fn.Origin()
}

// namedOf strips pointers and returns the named type (origin for generics).
func namedOf(t types.Type) *types.Named {
	for {
		switch tt := t.(type) {
		case *types.Pointer:
			t = tt.Elem()
		case *types.Alias:
			t = types.Unalias(tt)
		case *types.Named:
			return tt.Origin()
		default:
			return nil
		}
	}
}

// isNamed reports whether t (or *t) is the named type pkgPath.name.
func isNamed(t types.Type, pkgPath, name string) bool {
	n := namedOf(t)
	if n == nil || n.Obj() == nil || n.Obj().Pkg() == nil {
		return false
	}
	return n.Obj().Name() == name && n.Obj().Pkg().Path() == pkgPath
}

// rootIdent returns the identifier at the root of a selector/index chain
// (a.b.c[i].d -> a).
func rootIdent(e ast.Expr) *ast.Ident {
	for {
		switch t := ast.Unparen(e).(type) {
		case *ast.Ident:
			return t
		case *ast.SelectorExpr:
			e = t.X
		case *ast.IndexExpr:
			e = t.X
		case *ast.StarExpr:
			e = t.X
		case *ast.SliceExpr:
			e = t.X
		case *ast.TypeAssertExpr:
			e = t.X
		case *ast.CallExpr:
			// method chain: x.f().g -> x
			if sel, ok := ast.Unparen(t.Fun).(*ast.SelectorExpr); ok {
				e = sel.X
			} else {
				return nil
			}
		default:
			return nil
		}
	}
}

// forEachFunc calls fn for every function body (declarations and literals) of
// the given packages.
func forEachFuncBody(pkgs []*packages.Package, fn func(pkg *packages.Package, node ast.Node, body *ast.BlockStmt)) {
	for _, pkg := range pkgs {
		for _, f := range pkg.Syntax {
			ast.Inspect(f, func(n ast.Node) bool {
				switch t := n.(type) {
				case *ast.FuncDecl:
					if t.Body != nil {
						fn(pkg, t, t.Body)
					}
				case *ast.FuncLit:
					fn(pkg, t, t.Body)
				}
				return true
			})
		}
	}
}

// inspectNoLit walks the body of one function without descending into nested
// function literals.
func inspectNoLit(body ast.Node, fn func(n ast.Node) bool) {
	ast.Inspect(body, func(n ast.Node) bool {
		if n == nil {
			return true
		}
		if _, ok := n.(*ast.FuncLit); ok && n != body {
			return false
		}
		return fn(n)
	})
}
