package main

import (
	"fmt"
	"go/ast"
	"go/token"
	"go/types"
	"strings"

	"golang.org/x/tools/go/packages"
)

// listAnchors: the lazy list machinery of package value.
type listAnchors struct {
	vp                   *packages.Package
	listType             *types.TypeName
	newFromIterable      *types.Func
	newFromSizedIterable *types.Func
	missing              []string
	consuming            map[*types.Func]bool // methods of *List that iterate the list
}

func (c *Ctx) listAnchors() *listAnchors {
	la := &listAnchors{vp: c.Pkg("value"), consuming: map[*types.Func]bool{}}
	if la.vp == nil {
		la.missing = append(la.missing, "package value")
		return la
	}
	la.listType = LookupType(la.vp, "List")
	la.newFromIterable = LookupFunc(la.vp, "NewListFromIterable")
	la.newFromSizedIterable = LookupFunc(la.vp, "NewListFromSizedIterable")
	if la.listType == nil {
		la.missing = append(la.missing, "value.List")
	}
	if la.newFromIterable == nil {
		la.missing = append(la.missing, "value.NewListFromIterable")
	}
	if la.newFromSizedIterable == nil {
		la.missing = append(la.missing, "value.NewListFromSizedIterable")
	}
	if len(la.missing) > 0 {
		return la
	}
	info := la.vp.TypesInfo
	// methods of *List that (transitively) call the producer field
	decls := map[*types.Func]*ast.FuncDecl{}
	for _, f := range la.vp.Syntax {
		for _, d := range f.Decls {
			if fd, ok := d.(*ast.FuncDecl); ok && fd.Body != nil && fd.Recv != nil && recvTypeName(fd.Recv.List[0].Type) == "List" {
				if obj, ok := info.Defs[fd.Name].(*types.Func); ok {
					decls[obj.Origin()] = fd
				}
			}
		}
	}
	callsProducer := func(body ast.Node) bool {
		return containsNodeDeep(body, func(n ast.Node) bool {
			call, ok := n.(*ast.CallExpr)
			if !ok {
				return false
			}
			sel, ok := ast.Unparen(call.Fun).(*ast.SelectorExpr)
			if !ok || sel.Sel.Name != "iterable" {
				return false
			}
			nm := namedOf(info.TypeOf(sel.X))
			return nm != nil && nm.Obj() == la.listType
		})
	}
	for fn, fd := range decls {
		// a method that merely wraps the producer call into a returned literal (stage constructor) does not consume
		consumes := false
		inspectNoLit(fd.Body, func(n ast.Node) bool {
			if rs, ok := n.(*ast.RangeStmt); ok && callsProducer(rs.X) {
				consumes = true
			}
			return true
		})
		if fd.Name.Name == "Iterate" {
			consumes = false
		}
		if consumes {
			la.consuming[fn] = true
		}
	}
	for changed := true; changed; {
		changed = false
		for fn, fd := range decls {
			if la.consuming[fn] {
				continue
			}
			hit := false
			inspectNoLit(fd.Body, func(n ast.Node) bool {
				if call, ok := n.(*ast.CallExpr); ok && la.consuming[Callee(info, call)] {
					hit = true
				}
				return true
			})
			if hit {
				la.consuming[fn] = true
				changed = true
			}
		}
	}
	return la
}

// containsNodeDeep is containsNode that also enters function literals.
func containsNodeDeep(n ast.Node, pred func(ast.Node) bool) bool {
	found := false
	ast.Inspect(n, func(x ast.Node) bool {
		if x == nil || found {
			return false
		}
		if pred(x) {
			found = true
		}
		return !found
	})
	return found
}

// ---------------------------------------------------------------------------
// R08.1 stage constructors do not consume

func ruleR081(c *Ctx) {
	la := c.listAnchors()
	if len(la.missing) > 0 {
		c.Undecided(strings.Join(la.missing, ","), token.NoPos, "anchors not found")
		return
	}
	if len(la.consuming) < 10 {
		c.Undecided("value.List#consuming-methods", token.NoPos, "only %d consuming methods derived", len(la.consuming))
		return
	}
	n := 0
	for _, pkg := range c.RepoPkgs {
		info := pkg.TypesInfo
		for _, f := range pkg.Syntax {
			ast.Inspect(f, func(x ast.Node) bool {
				call, ok := x.(*ast.CallExpr)
				if !ok || !(isCallTo(info, call, la.newFromIterable) || isCallTo(info, call, la.newFromSizedIterable)) || len(call.Args) == 0 {
					return true
				}
				fn := c.EnclosingFunc(call)
				if fn == nil {
					return true
				}
				if fd, ok := fn.(*ast.FuncDecl); ok && (fd.Name.Name == "NewListFromIterable" || fd.Name.Name == "NewListFromSizedIterable") {
					return true
				}
				n++
				key := fmt.Sprintf("%s#stage[%d]", c.FuncName(fn)+litSuffix(c, fn), ordinalIn(fn, call, func(y ast.Node) bool {
					cc, ok := y.(*ast.CallExpr)
					return ok && (isCallTo(info, cc, la.newFromIterable) || isCallTo(info, cc, la.newFromSizedIterable))
				}))
				producer := call.Args[0]
				var problems []string
				// the start of an iteration: the statements of the producer factory itself (func(st) iterator.Producer),
				// outside the producer and the callbacks it returns, run when the first element is pulled - a
				// consuming call there materialises a whole list before the first element is delivered
				if plit, ok := ast.Unparen(producer).(*ast.FuncLit); ok {
					inspectNoLit(plit.Body, func(y ast.Node) bool {
						if t, ok := y.(*ast.CallExpr); ok {
							if cal := Callee(info, t); cal != nil && la.consuming[cal] {
								problems = append(problems, fmt.Sprintf("%s (at %s) materialises a list when the iteration starts, before the first element is delivered", nodeStr(c.Fset, t.Fun), c.posStr(t.Pos())))
							}
						}
						return true
					})
				}
				ast.Inspect(funcBody(fn), func(y ast.Node) bool {
					if y == ast.Node(producer) {
						return false // inside the lazy producer everything is allowed
					}
					if lit, ok := y.(*ast.FuncLit); ok {
						// other literals (e.g. worker factories) are not executed at construction time unless called here
						_ = lit
						return false
					}
					switch t := y.(type) {
					case *ast.CallExpr:
						cal := Callee(info, t)
						if cal != nil && la.consuming[cal] {
							problems = append(problems, fmt.Sprintf("%s (at %s) iterates a list", nodeStr(c.Fset, t.Fun), c.posStr(t.Pos())))
						}
						// invocation of a program closure
						if sel, ok := ast.Unparen(t.Fun).(*ast.SelectorExpr); ok {
							xt := info.TypeOf(sel.X)
							if (sel.Sel.Name == "Func" || sel.Sel.Name == "Eval" || sel.Sel.Name == "EvalSt") && (isNamed(xt, modPath+"/funcGen", "Function") || isNamed(xt, modPath+"/value", "Closure")) {
								problems = append(problems, fmt.Sprintf("%s (at %s) calls a closure of the program", nodeStr(c.Fset, t.Fun), c.posStr(t.Pos())))
							}
						}
					case *ast.RangeStmt:
						if isProducerType(info.TypeOf(t.X)) {
							problems = append(problems, fmt.Sprintf("range over %s (at %s) iterates a list", nodeStr(c.Fset, t.X), c.posStr(t.Pos())))
						}
					}
					return true
				})
				if len(problems) == 0 {
					c.OK(key, call.Pos(), "building the stage evaluates no element and calls no closure; all work happens inside the producer")
				} else {
					c.Violation(key, call.Pos(), "the lazy stage is not lazy: while it is built, %s — elements are evaluated (closures run, errors are raised or swallowed) although no consumer has asked for them", strings.Join(problems, "; "))
				}
				return true
			})
		}
	}
	if n < 15 {
		c.Undecided("value#lazy-stages", token.NoPos, "only %d lazy stage constructions found", n)
	}
}

// ---------------------------------------------------------------------------
// R08.2 short circuit consumers stop

func ruleR082(c *Ctx) {
	la := c.listAnchors()
	if len(la.missing) > 0 {
		c.Undecided(strings.Join(la.missing, ","), token.NoPos, "anchors not found")
		return
	}
	info := la.vp.TypesInfo
	for _, name := range []string{"First", "Single", "Present", "IndexWhere", "containsItem"} {
		fd := c.FuncDecl(la.vp, "List", name)
		key := "value.List." + name + "#early-exit"
		if fd == nil {
			c.Undecided(key, token.NoPos, "method not found")
			continue
		}
		g := c.CFG(fd)
		var loops []*ast.RangeStmt
		inspectNoLit(fd.Body, func(n ast.Node) bool {
			if rs, ok := n.(*ast.RangeStmt); ok && isProducerType(info.TypeOf(rs.X)) {
				loops = append(loops, rs)
			}
			return true
		})
		if len(loops) == 0 {
			c.Violation(key, fd.Pos(), "%s does not iterate the list's producer lazily any more (no range over the producer): it has to materialise the whole list to decide", name)
			continue
		}
		// a consumer that stops at the decisive element must not pull the whole list first: no call of a consuming
		// method (Eval, ToSlice, Size, ... - the derived set of R08.1) in front of or next to the loop
		if bad := func() string {
			res := ""
			inspectNoLit(fd.Body, func(n ast.Node) bool {
				call, ok := n.(*ast.CallExpr)
				if !ok || res != "" {
					return true
				}
				if cal := Callee(info, call); cal != nil && la.consuming[cal] {
					if self, _ := info.Defs[fd.Name].(*types.Func); self == nil || cal != self.Origin() {
						res = cal.Name()
					}
				}
				return true
			})
			return res
		}(); bad != "" {
			c.Violation(key, fd.Pos(), "%s stops at the decisive element, but it calls %s, which pulls the whole list: every element of a lazy operand is evaluated (and the first error anywhere in it reported) before the search looks at the first one", name, bad)
			continue
		}
		ok := false
		for _, rs := range loops {
			// the error variable of the loop
			var errObj types.Object
			if id, isId := rs.Value.(*ast.Ident); isId {
				errObj = info.ObjectOf(id)
			}
			inspectNoLit(rs.Body, func(n ast.Node) bool {
				r, isRet := n.(*ast.ReturnStmt)
				if !isRet {
					return true
				}
				// not the error exit
				errExit := false
				for _, gd := range g.Guards(r) {
					if be, isBe := ast.Unparen(gd.Cond).(*ast.BinaryExpr); isBe && be.Op == token.NEQ && gd.Val {
						if id, isId := ast.Unparen(be.X).(*ast.Ident); isId && isErrorType(info.TypeOf(id)) {
							errExit = true
						}
					}
				}
				_ = errObj
				if !errExit {
					ok = true
				}
				return true
			})
		}
		c.Check(ok, key, loops[0].Pos(), name+" leaves the loop over the producer as soon as its result is decided", name+" has no return inside the loop over the producer other than the error exit: it pulls (and evaluates the closures for) all elements behind the decisive one")
	}
}

// ---------------------------------------------------------------------------
// R08.3 stop is propagated by every producer

func ruleR083(c *Ctx) {
	pkgs := []*packages.Package{}
	if p := c.Pkg("value"); p != nil {
		pkgs = append(pkgs, p)
	}
	if c.Iter != nil {
		pkgs = append(pkgs, c.Iter)
	}
	n := 0
	for _, pkg := range pkgs {
		info := pkg.TypesInfo
		for _, f := range pkg.Syntax {
			ast.Inspect(f, func(x ast.Node) bool {
				var lit ast.Node
				var litType *ast.FuncType
				var litBody *ast.BlockStmt
				switch t := x.(type) {
				case *ast.FuncLit:
					lit, litType, litBody = t, t.Type, t.Body
				case *ast.FuncDecl:
					// push iterators written as methods: func (m MergeMap) Iter(yield func(string, Value) bool)
					if t.Body == nil {
						return true
					}
					lit, litType, litBody = t, t.Type, t.Body
				default:
					return true
				}
				if litType.Params == nil || len(litType.Params.List) != 1 || len(litType.Params.List[0].Names) != 1 {
					return true
				}
				yobj := info.Defs[litType.Params.List[0].Names[0]]
				if yobj == nil || !isNamed(yobj.Type(), iterPath, "Consumer") {
					// func(yield func(...) bool) producers
					sig, isSig := yobj.Type().Underlying().(*types.Signature)
					if yobj == nil || !isSig || sig.Results().Len() != 1 {
						return true
					}
					if b, isB := sig.Results().At(0).Type().Underlying().(*types.Basic); !isB || b.Kind() != types.Bool {
						return true
					}
					if litType.Results != nil && len(litType.Results.List) > 0 {
						return true // helper with a result, e.g. flatten: handled by its own return discipline
					}
				}
				g := c.CFG(lit)
				isYieldCall := func(y ast.Node) bool {
					call, ok := y.(*ast.CallExpr)
					if !ok {
						return false
					}
					if id, ok := ast.Unparen(call.Fun).(*ast.Ident); ok && info.ObjectOf(id) == yobj {
						return true
					}
					// a helper that receives the consumer and returns its answer
					for _, a := range call.Args {
						if id, ok := ast.Unparen(a).(*ast.Ident); ok && info.ObjectOf(id) == yobj {
							if tv, ok := info.Types[call]; ok {
								if b, ok := tv.Type.Underlying().(*types.Basic); ok && b.Kind() == types.Bool {
									return true
								}
							}
						}
					}
					return false
				}
				k := 0
				// delegations: the consumer is handed to another iterator (X.Iter(yield)); what that iteration answered is
				// not known afterwards, so nothing may be produced after a delegation
				handsOn := func(call *ast.CallExpr) bool {
					for _, a := range call.Args {
						if id, ok := ast.Unparen(a).(*ast.Ident); ok && info.ObjectOf(id) == yobj {
							return true
						}
					}
					return false
				}
				// a delegation proper has no result (X.Iter(yield)); a helper that returns the consumer's answer as a bool
				// (flatten(v, nil, yield)) is treated like a call of the consumer itself; anything else (a helper that
				// starts goroutines and returns a channel) is not an iteration
				isDelegation := func(y ast.Node) bool {
					call, ok := y.(*ast.CallExpr)
					if !ok || !handsOn(call) {
						return false
					}
					tv, ok := info.Types[call]
					if !ok {
						return false
					}
					if tup, isTuple := tv.Type.(*types.Tuple); isTuple {
						return tup.Len() == 0
					}
					return false
				}
				dk := 0
				inspectNoLit(litBody, func(y ast.Node) bool {
					if !isDelegation(y) {
						return true
					}
					call := y.(*ast.CallExpr)
					dk++
					n++
					key := fmt.Sprintf("%s#delegation[%d]", c.FuncName(lit)+litSuffix(c, lit), dk)
					// the answer of the delegated iteration is returned
					if _, isRet := c.Parent(call).(*ast.ReturnStmt); isRet {
						c.OK(key, call.Pos(), "the result of the delegated iteration is returned")
						return true
					}
					blk, idx, ok := g.Pos(call)
					if !ok {
						c.OK(key, call.Pos(), "unreachable")
						return true
					}
					node := blk.Nodes[idx]
					again, _ := g.PathAvoiding(node, func(z ast.Node) bool { return containsNode(z, isYieldCall) || containsNode(z, isDelegation) }, nil)
					if !again {
						again, _ = g.PathAvoiding(node, func(z ast.Node) bool { return z == node }, nil)
					}
					if again {
						c.Violation(key, call.Pos(), "the consumer is handed to another iterator (%s) and the producer goes on producing afterwards: whether the consumer has stopped during the delegated iteration is not known, so it may be called again after it answered false (elements behind the decisive one are produced; a range-over-func loop body that is called again after it returned false panics)", nodeStr(c.Fset, call.Fun))
					} else {
						c.OK(key, call.Pos(), "the delegation is the last thing the producer does")
					}
					return true
				})
				inspectNoLit(litBody, func(y ast.Node) bool {
					if !isYieldCall(y) {
						return true
					}
					call := y.(*ast.CallExpr)
					k++
					n++
					key := fmt.Sprintf("%s#yield[%d]", c.FuncName(lit)+litSuffix(c, lit), k)
					// F2: part of a return expression
					for q := c.Parent(call); q != nil && q != ast.Node(lit); q = c.Parent(q) {
						if _, isRet := q.(*ast.ReturnStmt); isRet {
							c.OK(key, call.Pos(), "the consumer's answer is returned")
							return true
						}
						if _, isStmt := q.(ast.Stmt); isStmt {
							break
						}
					}
					// F1/F4: condition of an if whose 'stopped' branch returns
					if ifs := enclosingIfCond(c, call, lit); ifs != nil {
						// value of the condition when the consumer answered false: 1 true, 0 false, -1 unknown
						var tri func(e ast.Expr) int
						tri = func(e ast.Expr) int {
							e = ast.Unparen(e)
							if e == ast.Expr(call) {
								return 0
							}
							switch t := e.(type) {
							case *ast.UnaryExpr:
								if t.Op == token.NOT {
									switch tri(t.X) {
									case 0:
										return 1
									case 1:
										return 0
									}
								}
							case *ast.BinaryExpr:
								a, b := tri(t.X), tri(t.Y)
								// the call was evaluated: operands to its left let the evaluation go on (short circuit)
								if containsNode(t.Y, func(z ast.Node) bool { return z == ast.Node(call) }) {
									switch t.Op {
									case token.LAND:
										a = 1
									case token.LOR:
										a = 0
									}
								}
								switch t.Op {
								case token.LOR:
									if a == 1 || b == 1 {
										return 1
									}
									if a == 0 && b == 0 {
										return 0
									}
								case token.LAND:
									if a == 0 || b == 0 {
										return 0
									}
									if a == 1 && b == 1 {
										return 1
									}
								}
							}
							return -1
						}
						v := tri(ifs.Cond)
						stoppedIsThen, stoppedIsElse := v == 1, v == 0
						leaves := func(b ast.Node) bool {
							if b == nil {
								return false
							}
							blk, ok := b.(*ast.BlockStmt)
							if !ok || len(blk.List) == 0 {
								return false
							}
							switch t := blk.List[len(blk.List)-1].(type) {
							case *ast.ReturnStmt:
								return true
							case *ast.BranchStmt:
								return t.Tok == token.BREAK && false
							}
							return false
						}
						if stoppedIsThen && leaves(ifs.Body) || stoppedIsElse && leaves(ifs.Else) {
							c.OK(key, call.Pos(), "the producer returns as soon as the consumer answers false")
							return true
						}
						// any other form (if yield(...) { more } with nothing behind it): on the edge taken for 'stop' no
						// further call or delegation of the consumer is reachable
						if stoppedIsThen || stoppedIsElse {
							if cb, _, ok := g.Pos(ifs.Cond); ok && len(cb.Succs) == 2 {
								stopSucc := cb.Succs[1]
								if stoppedIsThen {
									stopSucc = cb.Succs[0]
								}
								again, _ := g.PathFromBlock(stopSucc, func(z ast.Node) bool { return containsNode(z, isYieldCall) || containsNode(z, isDelegation) }, nil, nil)
								if !again {
									c.OK(key, call.Pos(), "once the consumer answered false no further call of it is reachable")
									return true
								}
							}
						}
						c.Violation(key, call.Pos(), "the consumer's answer is tested, but the branch taken for 'stop' does not return: the producer keeps producing (and evaluating closures) after the consumer has stopped")
						return true
					}
					// F3: answer ignored: no further yield may be reachable
					blk, idx, ok := g.Pos(call)
					if !ok {
						c.OK(key, call.Pos(), "unreachable")
						return true
					}
					node := blk.Nodes[idx]
					again, _ := g.PathAvoiding(node, func(z ast.Node) bool { return containsNode(z, isYieldCall) }, nil)
					// the same node reached again through a loop counts as well
					if !again {
						again, _ = g.PathAvoiding(node, func(z ast.Node) bool { return z == node }, nil)
					}
					if again {
						c.Violation(key, call.Pos(), "the producer ignores the consumer's answer and can call it again: elements behind the decisive one are still evaluated")
					} else {
						c.OK(key, call.Pos(), "last element: nothing is produced after this call")
					}
					return true
				})
				return true
			})
		}
	}
	if n < 40 {
		c.Undecided("value#producers", token.NoPos, "only %d yield calls found", n)
	}
}

// enclosingIfCond returns the if statement whose condition contains n.
func enclosingIfCond(c *Ctx, n ast.Node, stop ast.Node) *ast.IfStmt {
	for q := c.Parent(n); q != nil && q != stop; q = c.Parent(q) {
		if ifs, ok := q.(*ast.IfStmt); ok {
			if ifs.Cond.Pos() <= n.Pos() && n.End() <= ifs.Cond.End() {
				return ifs
			}
			return nil
		}
		if _, ok := q.(ast.Stmt); ok {
			return nil
		}
	}
	return nil
}

// ---------------------------------------------------------------------------
// R10.1b list stage producers keep their state per iteration

func ruleR101stages(c *Ctx) {
	a := c.genAnchors()
	la := c.listAnchors()
	if len(a.missing) > 0 || len(la.missing) > 0 {
		c.Undecided("anchors", token.NoPos, "not found")
		return
	}
	n := 0
	for _, pkg := range c.RepoPkgs {
		info := pkg.TypesInfo
		for _, f := range pkg.Syntax {
			ast.Inspect(f, func(x ast.Node) bool {
				lit, ok := x.(*ast.FuncLit)
				if !ok {
					return true
				}
				// list producer literals: func(st Stack) Producer
				sig, ok := info.TypeOf(lit).(*types.Signature)
				if !ok || sig.Params().Len() != 1 || !a.isStack(sig.Params().At(0).Type()) || sig.Results().Len() != 1 || !isProducerType(sig.Results().At(0).Type()) {
					return true
				}
				n++
				key := fmt.Sprintf("%s#stage-state", c.FuncName(lit)+litSuffix(c, lit))
				var bad []string
				ast.Inspect(lit.Body, func(y ast.Node) bool {
					check := func(lhs ast.Expr) {
						base := rootIdent(lhs)
						if base == nil || base.Name == "_" {
							return
						}
						obj, ok := info.ObjectOf(base).(*types.Var)
						if !ok || obj.IsField() {
							return
						}
						if obj.Pos() >= lit.Pos() && obj.Pos() <= lit.End() {
							return
						}
						// pointer receivers/parameters that denote shared objects are covered by R06.2/R10.1c
						if _, isPtr := obj.Type().Underlying().(*types.Pointer); isPtr {
							return
						}
						bad = append(bad, fmt.Sprintf("%s (at %s)", base.Name, c.posStr(lhs.Pos())))
					}
					switch t := y.(type) {
					case *ast.AssignStmt:
						for _, l := range t.Lhs {
							if id, ok := l.(*ast.Ident); ok && t.Tok == token.DEFINE && info.Defs[id] != nil {
								continue
							}
							check(l)
						}
					case *ast.IncDecStmt:
						check(t.X)
					}
					return true
				})
				if fd := c.EnclosingDecl(lit); fd != nil && fd.Name.Name == "runConsumer" && len(bad) > 0 {
					// frozen exception: the list handed to a multiUse consumer wraps a channel fed producer that can be
					// consumed exactly once; the 'used' flag and the error sink exist to make a second iteration fail
					c.OK(key, lit.Pos(), "one-shot list of multiUse by design: the per-list state (%s) only makes a second iteration fail", strings.Join(bad, ", "))
					return true
				}
				if len(bad) == 0 {
					c.OK(key, lit.Pos(), "all state that the producer modifies is created inside the producer, i.e. anew for every iteration of the list")
				} else {
					c.Violation(key, lit.Pos(), "the producer of the lazy list modifies state that is created once per list, not once per iteration: %s — the second (repeated, nested or concurrent) iteration of the same list starts from the state the first one left", strings.Join(bad, ", "))
				}
				return true
			})
		}
	}
	if n < 15 {
		c.Undecided("value#list-producers", token.NoPos, "only %d list producer literals found", n)
	}
}

// ---------------------------------------------------------------------------
// R08.4 a list is not rendered into a message

// ruleR084: List.String() iterates the list (up to 11 elements) with a stack
// of its own. Handing a *List to a formatting function - typically to make an
// error message friendlier - therefore starts a second iteration of a lazy
// list: the stage closures run again, an error of an element behind the
// decisive one leaks into the message, and a one-shot source (multiUse) reports
// "can only be used once" instead of the real error.
func ruleR084(c *Ctx) {
	vp := c.Pkg("value")
	if vp == nil {
		c.Undecided("package value", token.NoPos, "not found")
		return
	}
	listT := LookupType(vp, "List")
	if listT == nil {
		c.Undecided("value.List", token.NoPos, "not found")
		return
	}
	n, calls := 0, 0
	for _, pkg := range evalPkgs(c) {
		info := pkg.TypesInfo
		for _, f := range pkg.Syntax {
			ast.Inspect(f, func(x ast.Node) bool {
				call, ok := x.(*ast.CallExpr)
				if !ok {
					return true
				}
				cal := Callee(info, call)
				if cal == nil || cal.Pkg() == nil || (cal.Pkg().Path() != "fmt" && cal.Pkg().Path() != "log") {
					return true
				}
				calls++
				for _, a := range call.Args {
					t := info.TypeOf(a)
					if pt, ok := t.(*types.Pointer); ok {
						if nm := namedOf(pt.Elem()); nm != nil && nm.Obj() == listT {
							n++
							key := fmt.Sprintf("%s#renders-list[%d]", c.FuncName(call)+litSuffix(c, c.EnclosingFunc(call)), n)
							c.Violation(key, call.Pos(), "the list %s is handed to %s.%s, which renders it with List.String(): the (lazy) list is iterated a second time, its stage closures run again, errors of elements behind the decisive one leak into the message and a one-shot source fails with 'can only be used once'", nodeStr(c.Fset, a), cal.Pkg().Name(), cal.Name())
						}
					}
				}
				return true
			})
		}
	}
	if calls < 20 {
		c.Undecided("value#formatting-calls", token.NoPos, "only %d calls of formatting functions found", calls)
		return
	}
	if n == 0 {
		c.OK("value#lists-in-messages", token.NoPos, "none of the %d calls of fmt/log functions in evaluation code is handed a *List", calls)
	}
}

// ---------------------------------------------------------------------------
// R08.5 the error of a read-ahead element is not reported.
//
// A loop over a producer that can leave the loop while it *drops* the element
// it has just pulled (a path from the start of the body to a return/break on
// which the element is neither handed to the consumer nor stored, under an
// exit condition that does not depend on the element: "the quota is used up")
// has pulled a read-ahead element. C08 allows the pull, not the report of an
// error only that element raises: the exit test has to come first, i.e. it
// dominates every forwarding of the element's error (yield(_, err), return
// err). iterator.FirstN is the model: `if i == n { return }` is the first
// statement of the body.

func ruleR085(c *Ctx) {
	pkgs := []*packages.Package{}
	if p := c.Pkg("value"); p != nil {
		pkgs = append(pkgs, p)
	}
	if c.Iter != nil {
		pkgs = append(pkgs, c.Iter)
	}
	nLoops, nExits := 0, 0
	forEachFuncBody(pkgs, func(pkg *packages.Package, fn ast.Node, body *ast.BlockStmt) {
		info := pkg.TypesInfo
		inspectNoLit(body, func(x ast.Node) bool {
			rs, ok := x.(*ast.RangeStmt)
			if !ok || rs.Key == nil || rs.Value == nil {
				return true
			}
			if _, isFunc := info.TypeOf(rs.X).Underlying().(*types.Signature); !isFunc {
				return true
			}
			vID, ok1 := rs.Key.(*ast.Ident)
			eID, ok2 := rs.Value.(*ast.Ident)
			if !ok1 || !ok2 || eID.Name == "_" || !isErrorType(info.TypeOf(eID)) {
				return true
			}
			vObj, eObj := info.ObjectOf(vID), info.ObjectOf(eID)
			nLoops++
			g := c.CFG(fn)
			if g == nil {
				return true
			}
			// variables that carry (parts of) the element
			elem := map[types.Object]bool{eObj: true}
			if vObj != nil && vID.Name != "_" {
				elem[vObj] = true
			}
			mentions := func(n ast.Node, set map[types.Object]bool) bool {
				return containsNodeDeep(n, func(y ast.Node) bool {
					id, ok := y.(*ast.Ident)
					return ok && set[info.ObjectOf(id)]
				})
			}
			for changed := true; changed; {
				changed = false
				ast.Inspect(rs.Body, func(y ast.Node) bool {
					as, ok := y.(*ast.AssignStmt)
					if !ok {
						return true
					}
					dep := false
					for _, r := range as.Rhs {
						if mentions(r, elem) {
							dep = true
						}
					}
					if !dep {
						return true
					}
					for _, l := range as.Lhs {
						if id, ok := l.(*ast.Ident); ok && id.Name != "_" {
							if o := info.ObjectOf(id); o != nil && !elem[o] {
								elem[o] = true
								changed = true
							}
						}
					}
					return true
				})
			}
			// the value part (not the error): handing it on or storing it is a use of the element
			valueVars := map[types.Object]bool{}
			for o := range elem {
				if o != eObj && !isErrorType(o.Type()) {
					valueVars[o] = true
				}
			}
			bodyBlk, _, _ := g.RangeBlocks(rs)
			if bodyBlk == nil {
				return true
			}
			isCall := func(n ast.Node) bool {
				return containsNode(n, func(y ast.Node) bool {
					_, ok := y.(*ast.CallExpr)
					return ok
				})
			}
			// (b) latching: the element's error is stored in a variable that outlives the loop and the loop goes on
			// pulling: the stored error is reported later no matter what the consumers decided in between
			_, loopBlk, _ := g.RangeBlocks(rs)
			lat := 0
			ast.Inspect(rs.Body, func(y ast.Node) bool {
				if _, isLit := y.(*ast.FuncLit); isLit {
					return false
				}
				as, ok := y.(*ast.AssignStmt)
				if !ok || as.Tok != token.ASSIGN || len(as.Lhs) != len(as.Rhs) {
					return true
				}
				for i, r := range as.Rhs {
					rid, ok := ast.Unparen(r).(*ast.Ident)
					if !ok || info.ObjectOf(rid) != eObj {
						continue
					}
					lid, ok := ast.Unparen(as.Lhs[i]).(*ast.Ident)
					if !ok {
						continue
					}
					lo := info.ObjectOf(lid)
					if lo == nil || (lo.Pos() >= rs.Body.Pos() && lo.Pos() < rs.Body.End()) {
						continue // a variable of the loop body
					}
					lat++
					nExits++
					key := fmt.Sprintf("%s#latched-error[%d]:%s", c.FuncName(fn)+litSuffix(c, fn), lat, lid.Name)
					blk, _, ok := g.Pos(as)
					again := false
					if ok && loopBlk != nil {
						if blk == loopBlk {
							again = true
						} else {
							// from the statement after the store: is the loop header reached again?
							again = g.reachesBlock(as, loopBlk)
						}
					}
					if again {
						c.Violation(key, as.Pos(), "the error of the current element is stored in %s, which outlives the loop, and the loop goes on pulling elements: the stored error is reported after the loop although the consumers may have decided their result on earlier elements (or handled the error themselves); an error has to be forwarded to the consumer on the spot or end the iteration", lid.Name)
					} else {
						c.OK(key, as.Pos(), "the error is stored in %s and the loop is left on every path", lid.Name)
					}
				}
				return true
			})
			// element independent exits: if <cond without element> { return | break }
			ord := 0
			ast.Inspect(rs.Body, func(y ast.Node) bool {
				if _, isLit := y.(*ast.FuncLit); isLit {
					return false
				}
				if inner, isLoop := y.(*ast.RangeStmt); isLoop && inner != rs {
					return false
				}
				if _, isLoop := y.(*ast.ForStmt); isLoop {
					return false
				}
				ifs, ok := y.(*ast.IfStmt)
				if !ok || ifs.Init != nil || mentions(ifs.Cond, elem) || isCall(ifs.Cond) {
					return true
				}
				if len(ifs.Body.List) != 1 {
					return true
				}
				var exit ast.Stmt
				switch t := ifs.Body.List[0].(type) {
				case *ast.ReturnStmt:
					if !isCall(t) && !mentions(t, elem) {
						exit = t
					}
				case *ast.BranchStmt:
					if t.Tok == token.BREAK && t.Label == nil {
						exit = t
					}
				}
				if exit == nil {
					return true
				}
				// is the exit reached from the start of the body without a use of the element's value?
				uses := func(n ast.Node) bool {
					if n == ast.Node(ifs.Cond) {
						return false
					}
					if mentions(n, valueVars) {
						return true
					}
					// any call that receives the error hands the element on as well
					return containsNode(n, func(y ast.Node) bool {
						call, ok := y.(*ast.CallExpr)
						if !ok {
							return false
						}
						for _, a := range call.Args {
							if mentions(a, elem) {
								return true
							}
						}
						return false
					})
				}
				found, _ := g.PathFromBlock(bodyBlk, func(n ast.Node) bool { return n == ast.Node(exit) }, uses, nil)
				if !found {
					return true // the element was delivered before: an eager stop, no read-ahead
				}
				nExits++
				ord++
				key := fmt.Sprintf("%s#read-ahead-exit[%d]", c.FuncName(fn)+litSuffix(c, fn), ord)
				// every forwarding of the element's error has to be dominated by the exit test
				var bad ast.Node
				ast.Inspect(rs.Body, func(z ast.Node) bool {
					if bad != nil {
						return false
					}
					if _, isLit := z.(*ast.FuncLit); isLit {
						return false
					}
					fwd := false
					switch t := z.(type) {
					case *ast.ReturnStmt:
						for _, r := range t.Results {
							if mentions(r, map[types.Object]bool{eObj: true}) {
								fwd = true
							}
						}
					case *ast.CallExpr:
						for _, a := range t.Args {
							if id, ok := ast.Unparen(a).(*ast.Ident); ok && info.ObjectOf(id) == eObj {
								fwd = true
							}
						}
					}
					if fwd && !g.Dominates(ifs.Cond, z) {
						bad = z
					}
					return true
				})
				if bad != nil {
					c.Violation(key, bad.Pos(), "the loop leaves on %s while it drops the element it has just pulled (a read-ahead element), but the error of that element is forwarded at line %d before this test: an error that only an element behind the decisive one raises is reported (the exit test has to be the first thing done with a pulled element, as in iterator.FirstN)", nodeStr(c.Fset, ifs.Cond), c.Fset.Position(bad.Pos()).Line)
				} else {
					c.OK(key, ifs.Pos(), "the exit test %s precedes every forwarding of the pulled element's error", nodeStr(c.Fset, ifs.Cond))
				}
				return true
			})
			return true
		})
	})
	if nLoops < 20 {
		c.Undecided("value#producer-loops", token.NoPos, "only %d loops over producers found", nLoops)
		return
	}
	c.OK("value#producer-loops", token.NoPos, "%d loops over producers examined, %d of them can drop a pulled element on an element independent exit", nLoops, nExits)
}

// ---------------------------------------------------------------------------
// R08.6 generated code does not consume lists.
//
// The closures that the generator functions return are the code of the
// language constructs (let, if, try/catch, operators, calls...). They hand
// list values on as they are; only built-ins that are documented to consume
// (and list access by index) iterate a list. A consuming call (Eval, ToSlice,
// Size, a deep evaluation helper, ...; the set is derived from the source as
// for R08.1) inside a generated closure of a construct makes every program
// that passes a lazy pipeline through that construct evaluate it completely,
// whether or not a consumer ever asks for an element.

func ruleR086(c *Ctx) {
	la := c.listAnchors()
	a := c.genAnchors()
	if len(la.missing) > 0 || len(a.missing) > 0 {
		c.Undecided(strings.Join(append(la.missing, a.missing...), ","), token.NoPos, "anchors not found")
		return
	}
	if len(la.consuming) < 10 {
		c.Undecided("value.List#consuming-methods", token.NoPos, "only %d consuming methods derived", len(la.consuming))
		return
	}
	// plain functions of the value package that consume transitively (deepEvalLists)
	vp := la.vp
	consuming := map[*types.Func]bool{}
	for k, v := range la.consuming {
		consuming[k] = v
	}
	for changed := true; changed; {
		changed = false
		for _, f := range vp.Syntax {
			for _, d := range f.Decls {
				fd, ok := d.(*ast.FuncDecl)
				if !ok || fd.Body == nil || fd.Recv != nil {
					continue
				}
				obj, _ := vp.TypesInfo.Defs[fd.Name].(*types.Func)
				if obj == nil || consuming[obj] {
					continue
				}
				if containsNodeDeep(fd.Body, func(y ast.Node) bool {
					call, ok := y.(*ast.CallExpr)
					if !ok {
						return false
					}
					cal := Callee(vp.TypesInfo, call)
					return cal != nil && consuming[cal]
				}) {
					// only helpers that take a value of the language
					takesValue := false
					if fd.Type.Params != nil {
						for _, p := range fd.Type.Params.List {
							t := vp.TypesInfo.TypeOf(p.Type)
							if isNamed(t, modPath+"/value", "Value") || isNamed(t, modPath+"/value", "List") {
								takesValue = true
							}
						}
					}
					if takesValue {
						consuming[obj] = true
						changed = true
					}
				}
			}
		}
	}
	fwd := c.forwarders(a)
	nLit := 0
	for _, gi := range c.generatorFuncs(a, fwd) {
		if strings.Contains(gi.pkg.PkgPath, "/example") || strings.HasSuffix(gi.pkg.PkgPath, "/gen") {
			continue
		}
		info := gi.pkg.TypesInfo
		gname := declName(gi.pkg, gi.decl)
		k := 0
		ast.Inspect(gi.decl.Body, func(x ast.Node) bool {
			lit, ok := x.(*ast.FuncLit)
			if !ok || lit.Type.Params == nil || len(lit.Type.Params.List) < 1 {
				return true
			}
			hasStack := false
			for _, p := range lit.Type.Params.List {
				if a.isStack(info.TypeOf(p.Type)) {
					hasStack = true
				}
			}
			if !hasStack {
				return true
			}
			nLit++
			ast.Inspect(lit.Body, func(y ast.Node) bool {
				call, ok := y.(*ast.CallExpr)
				if !ok {
					return true
				}
				cal := Callee(info, call)
				if cal == nil || !consuming[cal] {
					return true
				}
				k++
				key := fmt.Sprintf("%s#generated-code-consumes[%d]:%s", gname, k, cal.Name())
				c.Violation(key, call.Pos(), "the code generated for a language construct calls %s, which iterates a list: a lazy pipeline that merely passes through this construct is evaluated completely (every element closure runs, errors of elements nobody asks for are raised, an unbounded source never returns)", cal.Name())
				return true
			})
			return false
		})
	}
	if nLit < 20 {
		c.Undecided("funcGen#generated-closures", token.NoPos, "only %d generated closures found", nLit)
		return
	}
	c.OK("funcGen#generated-closures-do-not-consume", token.NoPos, "%d generated closures of language constructs examined against %d consuming functions: none iterates a list", nLit, len(consuming))
}

// ---------------------------------------------------------------------------
// R08.7 stages do not start their workers at once
//
// The iterator dependency has two families of parallel combinators. The *Auto
// ones (MapAuto, FilterAuto) run the first elements sequentially on the
// calling goroutine, measure, and only then hand over to workers; a consumer
// that stops at the decisive element within that prefix has evaluated nothing
// behind it. The *Parallel ones start one worker per CPU at the first element:
// the callback runs for elements behind the decisive one, and an error of a
// later element can be delivered with or before it. A stage of the value
// package that calls a *Parallel combinator directly is no longer lazy.

func ruleR087(c *Ctx) {
	n := 0
	for _, pkg := range c.RepoPkgs {
		if !strings.HasPrefix(pkg.PkgPath, modPath) {
			continue
		}
		info := pkg.TypesInfo
		forEachFuncBody([]*packages.Package{pkg}, func(_ *packages.Package, fn ast.Node, body *ast.BlockStmt) {
			inspectNoLit(body, func(x ast.Node) bool {
				call, ok := x.(*ast.CallExpr)
				if !ok {
					return true
				}
				cal := Callee(info, call)
				if cal == nil || cal.Pkg() == nil || !strings.HasSuffix(cal.Pkg().Path(), "hneemann/iterator") {
					return true
				}
				if !strings.HasSuffix(cal.Name(), "Auto") && !strings.HasSuffix(cal.Name(), "Parallel") {
					return true
				}
				n++
				key := fmt.Sprintf("%s#iterator.%s", c.FuncName(fn)+litSuffix(c, fn), cal.Name())
				if strings.HasSuffix(cal.Name(), "Parallel") {
					c.Violation(key, call.Pos(), "the stage calls iterator.%s, which starts its workers with the first element instead of measuring a sequential prefix first (iterator.%s): the callback is evaluated for elements behind the one that decides a short-circuit consumer (first, present, indexWhere, ~), and a failure of a later element is reported although sequential evaluation never reaches it", cal.Name(), strings.TrimSuffix(cal.Name(), "Parallel")+"Auto")
				} else {
					c.OK(key, call.Pos(), "the measuring combinator: the first elements are evaluated sequentially on the calling goroutine")
				}
				return true
			})
		})
	}
	if n < 2 {
		c.Undecided("value#parallel-combinators", token.NoPos, "only %d uses of the parallel combinators found", n)
	}
}
