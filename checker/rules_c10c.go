package main

import (
	"fmt"
	"go/ast"
	"go/constant"
	"go/token"
	"go/types"
	"sort"

	"golang.org/x/tools/go/packages"
)

// ---------------------------------------------------------------------------
// R10.3 balanced depth counters
//
// A field of a long lived object (parser, generator, exporter, list) that one
// function both increments and decrements is a depth counter: it is meant to
// be back at its old value when the function returns. If some path from the
// increment to an exit of the function passes no decrement (and no defer that
// holds one is registered), every call that takes this path leaks one level;
// the object then answers differently depending on what it was asked before -
// a parser that rejects valid input after enough rejected ones, an exporter
// that reports a flat table as "nested too deeply".
//
// The rule needs no list of counters: the pairing in one function together
// with a comparison of the field with a constant limit (>= 2) somewhere in the
// module is the evidence that the field is a depth counter. t.line++ and
// s.size++ are never decremented where they are incremented, and a cursor
// that is moved forth and back is never compared with a constant limit.

type counterOp struct {
	stmt  ast.Stmt
	field types.Object
	base  string
	inc   bool
}

// counterOpOf recognises x.f++, x.f--, x.f += c, x.f -= c on a struct field.
func counterOpOf(c *Ctx, info *types.Info, s ast.Stmt) (counterOp, bool) {
	var target ast.Expr
	inc := false
	switch t := s.(type) {
	case *ast.IncDecStmt:
		target, inc = t.X, t.Tok == token.INC
	case *ast.AssignStmt:
		if len(t.Lhs) != 1 || len(t.Rhs) != 1 || (t.Tok != token.ADD_ASSIGN && t.Tok != token.SUB_ASSIGN) {
			return counterOp{}, false
		}
		tv := info.Types[t.Rhs[0]]
		if tv.Value == nil || tv.Value.Kind() != constant.Int || constant.Sign(tv.Value) <= 0 {
			return counterOp{}, false
		}
		target, inc = t.Lhs[0], t.Tok == token.ADD_ASSIGN
	default:
		return counterOp{}, false
	}
	sel, ok := ast.Unparen(target).(*ast.SelectorExpr)
	if !ok {
		return counterOp{}, false
	}
	v, ok := info.ObjectOf(sel.Sel).(*types.Var)
	if !ok || !v.IsField() {
		return counterOp{}, false
	}
	return counterOp{stmt: s, field: v, base: nodeStr(c.Fset, sel.X), inc: inc}, true
}

func ruleR103(only func(pkg *packages.Package) bool) func(c *Ctx) {
	return func(c *Ctx) {
		nFuncs := 0
		limitCache := map[types.Object]int{}
		limited := func(field types.Object) bool {
			if v, ok := limitCache[field]; ok {
				return v == 1
			}
			res := 0
			for _, pkg := range c.RepoPkgs {
				info := pkg.TypesInfo
				for _, f := range pkg.Syntax {
					ast.Inspect(f, func(x ast.Node) bool {
						be, ok := x.(*ast.BinaryExpr)
						if !ok || res == 1 {
							return true
						}
						switch be.Op {
						case token.LSS, token.LEQ, token.GTR, token.GEQ, token.EQL, token.NEQ:
						default:
							return true
						}
						for _, pair := range [][2]ast.Expr{{be.X, be.Y}, {be.Y, be.X}} {
							sel, ok := ast.Unparen(pair[0]).(*ast.SelectorExpr)
							if !ok || info.ObjectOf(sel.Sel) != field {
								continue
							}
							if tv := info.Types[pair[1]]; tv.Value != nil && tv.Value.Kind() == constant.Int {
								if v, ok := constant.Int64Val(tv.Value); ok && v >= 2 {
									res = 1
								}
							}
						}
						return true
					})
				}
			}
			limitCache[field] = res
			return res == 1
		}
		for _, pkg := range c.RepoPkgs {
			if only != nil && !only(pkg) {
				continue
			}
			info := pkg.TypesInfo
			for _, f := range pkg.Syntax {
				for _, d := range f.Decls {
					fd, ok := d.(*ast.FuncDecl)
					if !ok || fd.Body == nil {
						continue
					}
					nFuncs++
					// the functions of the declaration: the body and every literal in it, each with a flow graph of its own
					var fns []ast.Node
					fns = append(fns, fd)
					ast.Inspect(fd.Body, func(x ast.Node) bool {
						if lit, ok := x.(*ast.FuncLit); ok {
							fns = append(fns, lit)
						}
						return true
					})
					for _, fn := range fns {
						var ops []counterOp
						inspectNoLit(funcBody(fn), func(x ast.Node) bool {
							if s, ok := x.(ast.Stmt); ok {
								if op, ok := counterOpOf(c, info, s); ok {
									ops = append(ops, op)
								}
							}
							return true
						})
						// decrements held by a defer of this function
						type deferred struct {
							d  *ast.DeferStmt
							op counterOp
						}
						var defs []deferred
						inspectNoLit(funcBody(fn), func(x ast.Node) bool {
							ds, ok := x.(*ast.DeferStmt)
							if !ok {
								return true
							}
							if lit, ok := ast.Unparen(ds.Call.Fun).(*ast.FuncLit); ok {
								ast.Inspect(lit.Body, func(y ast.Node) bool {
									if s, ok := y.(ast.Stmt); ok {
										if op, ok := counterOpOf(c, info, s); ok && !op.inc {
											defs = append(defs, deferred{ds, op})
										}
									}
									return true
								})
							}
							return true
						})
						k := 0
						for _, inc := range ops {
							if !inc.inc {
								continue
							}
							paired := false
							for _, o := range ops {
								if !o.inc && o.field == inc.field && o.base == inc.base {
									paired = true
								}
							}
							for _, df := range defs {
								if df.op.field == inc.field && df.op.base == inc.base {
									paired = true
								}
							}
							if !paired {
								continue
							}
							// a depth counter is compared with a limit somewhere (a constant of at least 2); a cursor that
							// is moved forth and back (pos++ ... pos--) is not
							if !limited(inc.field) {
								continue
							}
							k++
							key := fmt.Sprintf("%s#depth-counter[%d]:%s.%s", c.FuncName(fn), k, inc.base, inc.field.Name())
							g := c.CFG(fn)
							if g == nil {
								c.Undecided(key, inc.stmt.Pos(), "no flow graph")
								continue
							}
							// a defer that holds the decrement and is registered before the increment covers every exit
							covered := false
							for _, df := range defs {
								if df.op.field == inc.field && df.op.base == inc.base && g.Dominates(df.d, inc.stmt) {
									covered = true
								}
							}
							if covered {
								c.OK(key, inc.stmt.Pos(), "the decrement is deferred before the counter is incremented")
								continue
							}
							isDec := func(n ast.Node) bool {
								if s, ok := n.(ast.Stmt); ok {
									if op, ok := counterOpOf(c, info, s); ok && !op.inc && op.field == inc.field && op.base == inc.base {
										return true
									}
								}
								if ds, ok := n.(*ast.DeferStmt); ok {
									for _, df := range defs {
										if df.d == ds && df.op.field == inc.field && df.op.base == inc.base {
											return true
										}
									}
								}
								return false
							}
							leak, path := g.PathAvoiding(inc.stmt, nil, isDec)
							if !leak {
								c.OK(key, inc.stmt.Pos(), "every path from the increment to an exit of the function passes the decrement (or registers a defer that holds it)")
								continue
							}
							where := ""
							if len(path) > 0 {
								var ps []string
								for _, n := range path {
									if _, ok := n.(*ast.ReturnStmt); ok {
										ps = append(ps, c.posStr(n.Pos()))
									}
								}
								sort.Strings(ps)
								if len(ps) > 0 {
									where = " (exit at " + ps[len(ps)-1] + ")"
								}
							}
							c.Violation(key, inc.stmt.Pos(), "%s.%s is incremented and decremented by this function, but a path from the increment leaves the function without the decrement%s: every call that takes it leaks one level, and since the counter lives in %s, which outlives the call, later calls are answered differently for the same input", inc.base, inc.field.Name(), where, inc.base)
						}
					}
				}
			}
		}
		c.Note("functions-scanned", token.NoPos, "%d function declarations scanned for fields that one function increments and decrements", nFuncs)
	}
}

// ---------------------------------------------------------------------------
// R10.4 the producer of a lazy list uses the stack of its consumer only
//
// A stage method (map, iir, compact, ...) runs when the list is *built*; the
// producer it hands to NewListFromIterable runs later, every time somebody
// iterates the list, and gets the stack of that somebody as its parameter. The
// stack of the building call is a view on slots that have long been given
// back: a producer that still pushes arguments there overwrites whatever
// lives in those slots now (a let bound after the list), and if the list was
// folded into a constant, all concurrent evaluations push onto the one stack
// that existed at Generate time.

func ruleR104(c *Ctx) {
	la := c.listAnchors()
	a := c.genAnchors()
	if len(la.missing) > 0 || len(a.missing) > 0 {
		c.Undecided("value.List / funcGen.Stack", token.NoPos, "anchors not found")
		return
	}
	isStack := func(t types.Type) bool {
		nm := namedOf(t)
		return nm != nil && nm.Obj().Pkg() != nil && nm.Obj().Pkg().Path() == modPath+"/funcGen" && nm.Obj().Name() == "Stack"
	}
	n := 0
	for _, pkg := range c.RepoPkgs {
		info := pkg.TypesInfo
		for _, f := range pkg.Syntax {
			ast.Inspect(f, func(x ast.Node) bool {
				call, ok := x.(*ast.CallExpr)
				if !ok || !(isCallTo(info, call, la.newFromIterable) || isCallTo(info, call, la.newFromSizedIterable)) || len(call.Args) == 0 {
					return true
				}
				lit, ok := ast.Unparen(call.Args[0]).(*ast.FuncLit)
				if !ok {
					return true
				}
				fn := c.EnclosingFunc(call)
				if fn == nil {
					return true
				}
				n++
				key := fmt.Sprintf("%s#producer-stack[%d]", c.FuncName(fn)+litSuffix(c, fn), ordinalIn(fn, call, func(y ast.Node) bool {
					cc, ok := y.(*ast.CallExpr)
					return ok && (isCallTo(info, cc, la.newFromIterable) || isCallTo(info, cc, la.newFromSizedIterable))
				}))
				var bad *ast.Ident
				ast.Inspect(lit.Body, func(y ast.Node) bool {
					id, ok := y.(*ast.Ident)
					if !ok || bad != nil {
						return true
					}
					v, ok := info.Uses[id].(*types.Var)
					if !ok || v.IsField() || !isStack(v.Type()) {
						return true
					}
					// declared outside the producer literal: captured from the building call
					if v.Pos() < lit.Pos() || v.Pos() > lit.End() {
						if v.Parent() != nil && v.Parent() != v.Pkg().Scope() {
							bad = id
						}
					}
					return true
				})
				// a slice that an enclosing callback got as a parameter belongs to whoever calls the callback (the iterator
				// reuses its window buffer for every call): a producer that reads it later, when the list is iterated,
				// sees whatever the buffer holds then
				if bad == nil {
					var badSlice *ast.Ident
					ast.Inspect(lit.Body, func(y ast.Node) bool {
						id, ok := y.(*ast.Ident)
						if !ok || badSlice != nil {
							return true
						}
						v, ok := info.Uses[id].(*types.Var)
						if !ok || v.IsField() {
							return true
						}
						if _, isSlice := v.Type().Underlying().(*types.Slice); !isSlice {
							return true
						}
						if v.Pos() >= lit.Pos() && v.Pos() <= lit.End() {
							return true
						}
						// a parameter of an enclosing function literal (a callback), not of the method that builds the list
						for q := c.EnclosingFunc(lit); q != nil; q = c.EnclosingFunc(q) {
							fl, ok := q.(*ast.FuncLit)
							if !ok || fl.Type.Params == nil {
								continue
							}
							for _, f := range fl.Type.Params.List {
								for _, nm := range f.Names {
									if info.Defs[nm] == v {
										badSlice = id
									}
								}
							}
						}
						return true
					})
					if badSlice != nil {
						c.Violation(key, badSlice.Pos(), "the producer of a lazy list reads the slice %s, which an enclosing callback received as a parameter: the slice belongs to the caller of the callback (the iterator reuses one window buffer for all calls), and the producer runs later, whenever the list is iterated - a window that outlives the callback changes under its reader, and with a parallel stage behind it the buffer is read and written concurrently", badSlice.Name)
						return true
					}
				}
				if bad == nil {
					c.OK(key, call.Pos(), "the producer uses no value stack from outside: closures are called on the stack of whoever iterates the list")
				} else {
					c.Violation(key, bad.Pos(), "the producer of a lazy list uses the value stack %s of the call that built the list: when the list is iterated later, that stack's slots belong to something else (a let bound since then is overwritten without any error), and a list folded into a constant makes all concurrent evaluations push their arguments onto the one stack of Generate time", bad.Name)
				}
				return true
			})
		}
	}
	if n < 15 {
		c.Undecided("value#lazy-list-constructions", token.NoPos, "only %d constructions of lazy lists from a literal found", n)
	}
}
