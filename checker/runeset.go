package main

import (
	"go/ast"
	"go/constant"
	"go/token"
	"go/types"
	"sort"
	"unicode"

	"golang.org/x/tools/go/packages"
)

// ---------------------------------------------------------------------------
// Value-set abstract interpretation of rune predicates: a boolean expression
// over one rune variable is mapped to the exact set of code points for which
// it is true, represented as a sorted list of disjoint closed intervals.
// Nothing of the analysed program is executed; standard library predicates
// (unicode.IsLetter, ...) are modelled by their published range tables.

const maxRune = 0x10FFFF

type runeIv struct{ lo, hi rune }
type runeSet []runeIv // sorted, disjoint, non adjacent

func rsNorm(s runeSet) runeSet {
	sort.Slice(s, func(i, j int) bool { return s[i].lo < s[j].lo })
	var out runeSet
	for _, iv := range s {
		if iv.lo > iv.hi {
			continue
		}
		if n := len(out); n > 0 && iv.lo <= out[n-1].hi+1 {
			if iv.hi > out[n-1].hi {
				out[n-1].hi = iv.hi
			}
			continue
		}
		out = append(out, iv)
	}
	return out
}
func rsAll() runeSet { return runeSet{{0, maxRune}} }
func rsUnion(a, b runeSet) runeSet {
	return rsNorm(append(append(runeSet{}, a...), b...))
}
func rsComplement(a runeSet) runeSet {
	var out runeSet
	next := rune(0)
	for _, iv := range a {
		if iv.lo > next {
			out = append(out, runeIv{next, iv.lo - 1})
		}
		next = iv.hi + 1
	}
	if next <= maxRune {
		out = append(out, runeIv{next, maxRune})
	}
	return out
}
func rsIntersect(a, b runeSet) runeSet {
	return rsComplement(rsUnion(rsComplement(a), rsComplement(b)))
}
func rsMinus(a, b runeSet) runeSet { return rsIntersect(a, rsComplement(b)) }
func rsFromTable(t *unicode.RangeTable) runeSet {
	var s runeSet
	for _, r := range t.R16 {
		if r.Stride == 1 {
			s = append(s, runeIv{rune(r.Lo), rune(r.Hi)})
		} else {
			for c := rune(r.Lo); c <= rune(r.Hi); c += rune(r.Stride) {
				s = append(s, runeIv{c, c})
			}
		}
	}
	for _, r := range t.R32 {
		if r.Stride == 1 {
			s = append(s, runeIv{rune(r.Lo), rune(r.Hi)})
		} else {
			for c := rune(r.Lo); c <= rune(r.Hi); c += rune(r.Stride) {
				s = append(s, runeIv{c, c})
			}
		}
	}
	return rsNorm(s)
}

// models of the standard library predicates (by definition in package unicode)
var unicodeModels = map[string]func() runeSet{
	"IsLetter": func() runeSet { return rsFromTable(unicode.Letter) },
	"IsDigit":  func() runeSet { return rsFromTable(unicode.Digit) },
	"IsNumber": func() runeSet { return rsFromTable(unicode.Number) },
	"IsUpper":  func() runeSet { return rsFromTable(unicode.Upper) },
	"IsLower":  func() runeSet { return rsFromTable(unicode.Lower) },
	"IsSpace":  func() runeSet { return rsFromTable(unicode.White_Space) },
	"IsPunct":  func() runeSet { return rsFromTable(unicode.Punct) },
	"IsMark":   func() runeSet { return rsFromTable(unicode.Mark) },
	"IsSymbol": func() runeSet { return rsFromTable(unicode.Symbol) },
}

// runePred evaluates predicates over the rune variable v. Boolean atoms that
// do not depend on v (e.g. "i > 0") are taken from assume (expression text ->
// value); an atom that is neither is unknown.
type runePred struct {
	c      *Ctx
	pkg    *packages.Package
	v      types.Object
	assume map[string]bool
	fail   string
	depth  int
	// consts: expressions (by their text, e.g. "rr.lo") that stand for a constant rune while one element of a table is looked at
	consts map[string]rune
}

func (p *runePred) isVar(e ast.Expr) bool {
	e = ast.Unparen(e)
	if id, ok := e.(*ast.Ident); ok {
		return p.pkg.TypesInfo.ObjectOf(id) == p.v
	}
	// conversions rune(r), int32(r)
	if call, ok := e.(*ast.CallExpr); ok && len(call.Args) == 1 {
		if tv, ok := p.pkg.TypesInfo.Types[call.Fun]; ok && tv.IsType() {
			return p.isVar(call.Args[0])
		}
	}
	return false
}

func (p *runePred) constRune(e ast.Expr) (rune, bool) {
	if p.consts != nil {
		if v, ok := p.consts[nodeStr(p.c.Fset, ast.Unparen(e))]; ok {
			return v, true
		}
	}
	if tv := p.pkg.TypesInfo.Types[e]; tv.Value != nil {
		if v, ok := constant.Int64Val(constant.ToInt(tv.Value)); ok {
			return rune(v), true
		}
	}
	return 0, false
}

// eval returns the set of runes for which e is true.
func (p *runePred) eval(e ast.Expr) runeSet {
	info := p.pkg.TypesInfo
	e = ast.Unparen(e)
	if v, ok := p.assume[nodeStr(p.c.Fset, e)]; ok {
		if v {
			return rsAll()
		}
		return nil
	}
	if tv := info.Types[e]; tv.Value != nil && tv.Value.Kind() == constant.Bool {
		if constant.BoolVal(tv.Value) {
			return rsAll()
		}
		return nil
	}
	switch t := e.(type) {
	case *ast.UnaryExpr:
		if t.Op == token.NOT {
			return rsComplement(p.eval(t.X))
		}
	case *ast.BinaryExpr:
		switch t.Op {
		case token.LAND:
			return rsIntersect(p.eval(t.X), p.eval(t.Y))
		case token.LOR:
			return rsUnion(p.eval(t.X), p.eval(t.Y))
		case token.EQL, token.NEQ, token.LSS, token.LEQ, token.GTR, token.GEQ:
			x, y, op := t.X, t.Y, t.Op
			if !p.isVar(x) && p.isVar(y) {
				x, y = y, x
				op = map[token.Token]token.Token{token.LSS: token.GTR, token.GTR: token.LSS, token.LEQ: token.GEQ, token.GEQ: token.LEQ, token.EQL: token.EQL, token.NEQ: token.NEQ}[op]
			}
			if p.isVar(x) {
				if c, ok := p.constRune(y); ok {
					switch op {
					case token.EQL:
						return rsNorm(runeSet{{c, c}})
					case token.NEQ:
						return rsComplement(runeSet{{c, c}})
					case token.LSS:
						return rsNorm(runeSet{{0, c - 1}})
					case token.LEQ:
						return rsNorm(runeSet{{0, c}})
					case token.GTR:
						return rsNorm(runeSet{{c + 1, maxRune}})
					case token.GEQ:
						return rsNorm(runeSet{{c, maxRune}})
					}
				}
			}
		}
	case *ast.CallExpr:
		cal := Callee(info, t)
		if cal != nil && cal.Pkg() != nil {
			switch cal.Pkg().Path() {
			case "unicode":
				if m, ok := unicodeModels[cal.Name()]; ok && len(t.Args) == 1 && p.isVar(t.Args[0]) {
					return m()
				}
				if cal.Name() == "Is" || cal.Name() == "In" {
					// unicode.Is(unicode.Letter, r): the table is a package level variable of package unicode
					if len(t.Args) == 2 && p.isVar(t.Args[1]) {
						// a table of the repository: var tbl = &unicode.RangeTable{R16: []unicode.Range16{{Lo: .., Hi: .., Stride: ..}}}
						if tid, ok := ast.Unparen(t.Args[0]).(*ast.Ident); ok {
							if set, ok := p.rangeTableLiteral(tid); ok {
								return set
							}
						}
						if sel, ok := ast.Unparen(t.Args[0]).(*ast.SelectorExpr); ok {
							if tab, ok := unicode.Categories[sel.Sel.Name]; ok {
								return rsFromTable(tab)
							}
							if tab, ok := unicode.Scripts[sel.Sel.Name]; ok {
								return rsFromTable(tab)
							}
							if tab, ok := unicode.Properties[sel.Sel.Name]; ok {
								return rsFromTable(tab)
							}
							switch sel.Sel.Name {
							case "Letter":
								return rsFromTable(unicode.Letter)
							case "Digit":
								return rsFromTable(unicode.Digit)
							case "Number":
								return rsFromTable(unicode.Number)
							}
						}
					}
				}
			case "strings":
				if cal.Name() == "ContainsRune" && len(t.Args) == 2 && p.isVar(t.Args[1]) {
					if tv := info.Types[t.Args[0]]; tv.Value != nil && tv.Value.Kind() == constant.String {
						var s runeSet
						for _, r := range constant.StringVal(tv.Value) {
							s = append(s, runeIv{r, r})
						}
						return rsNorm(s)
					}
				}
			}
			// membership in a table of ranges: inRanges(r, table) with
			//   func inRanges(r rune, ranges []T) bool { return slices.ContainsFunc(ranges, func(x T) bool { return <cond over r, x.f> }) }
			// and table a package level literal of constant structs that is never assigned
			if q := p.c.Pkgs[cal.Pkg().Path()]; q != nil && len(t.Args) == 2 && p.isVar(t.Args[0]) && p.depth < 4 {
				if set, ok := p.tableMembership(q, cal, t.Args[1]); ok {
					return set
				}
			}
			// a predicate of the repository: func(r rune) bool { return <expr> }, also with boolean flags
			// (func(r rune, first bool) bool) and written as a tagless switch whose clauses return
			if q := p.c.Pkgs[cal.Pkg().Path()]; q != nil && len(t.Args) >= 1 && p.depth < 4 {
				if fd := findFuncDecl(q, cal); fd != nil && fd.Body != nil && fd.Recv == nil && fd.Type.Params != nil {
					var params []*ast.Ident
					for _, fl := range fd.Type.Params.List {
						params = append(params, fl.Names...)
					}
					var runeParam types.Object
					subAssume := map[string]bool{}
					okArgs := len(params) == len(t.Args)
					for i := 0; okArgs && i < len(params); i++ {
						switch {
						case p.isVar(t.Args[i]) && runeParam == nil:
							runeParam = q.TypesInfo.Defs[params[i]]
						default:
							// a boolean argument whose value is known here
							a := ast.Unparen(t.Args[i])
							if v, known := p.assume[nodeStr(p.c.Fset, a)]; known {
								subAssume[params[i].Name] = v
							} else if tv := info.Types[a]; tv.Value != nil && tv.Value.Kind() == constant.Bool {
								subAssume[params[i].Name] = constant.BoolVal(tv.Value)
							} else {
								okArgs = false
							}
						}
					}
					if okArgs && runeParam != nil {
						sub := &runePred{c: p.c, pkg: q, v: runeParam, assume: subAssume, depth: p.depth + 1}
						if len(params) == 1 {
							sub.assume = p.assume
						}
						if res, ok := sub.evalBody(fd.Body); ok {
							if sub.fail != "" {
								p.fail = sub.fail
							}
							return res
						}
					}
				}
			}
		}
	}
	if p.fail == "" {
		p.fail = nodeStr(p.c.Fset, e)
	}
	return nil
}

func rsString(s runeSet, max int) string {
	out := ""
	for i, iv := range s {
		if i >= max {
			out += " …"
			break
		}
		if out != "" {
			out += " "
		}
		if iv.lo == iv.hi {
			out += "U+" + hex4(iv.lo)
		} else {
			out += "U+" + hex4(iv.lo) + "-U+" + hex4(iv.hi)
		}
	}
	return out
}

func hex4(r rune) string {
	const d = "0123456789ABCDEF"
	s := ""
	for r > 0 || len(s) < 4 {
		s = string(d[r&15]) + s
		r >>= 4
	}
	return s
}

// evalBody evaluates the body of a predicate: a single return, or a tagless
// switch whose clauses are single returns (first match wins), optionally
// followed by a final return.
func (p *runePred) evalBody(body *ast.BlockStmt) (runeSet, bool) {
	if len(body.List) == 1 {
		if ret, ok := body.List[0].(*ast.ReturnStmt); ok && len(ret.Results) == 1 {
			return p.eval(ret.Results[0]), true
		}
	}
	if len(body.List) == 0 || len(body.List) > 2 {
		return nil, false
	}
	sw, ok := body.List[0].(*ast.SwitchStmt)
	if !ok || sw.Tag != nil || sw.Init != nil {
		return nil, false
	}
	var final ast.Expr
	if len(body.List) == 2 {
		ret, ok := body.List[1].(*ast.ReturnStmt)
		if !ok || len(ret.Results) != 1 {
			return nil, false
		}
		final = ret.Results[0]
	}
	remaining := rsAll()
	var res runeSet
	var def *ast.CaseClause
	for _, cl := range sw.Body.List {
		cc := cl.(*ast.CaseClause)
		if len(cc.Body) != 1 {
			return nil, false
		}
		ret, ok := cc.Body[0].(*ast.ReturnStmt)
		if !ok || len(ret.Results) != 1 {
			return nil, false
		}
		if cc.List == nil {
			def = cc
			continue
		}
		var cond runeSet
		for _, e := range cc.List {
			cond = rsUnion(cond, p.eval(e))
		}
		cond = rsIntersect(cond, remaining)
		res = rsUnion(res, rsIntersect(cond, p.eval(ret.Results[0])))
		remaining = rsMinus(remaining, cond)
	}
	if def != nil {
		res = rsUnion(res, rsIntersect(remaining, p.eval(def.Body[0].(*ast.ReturnStmt).Results[0])))
	} else if final != nil {
		res = rsUnion(res, rsIntersect(remaining, p.eval(final)))
	} else {
		return nil, false
	}
	return res, true
}

// tableMembership evaluates helper(r, table) for the shape described at its call.
func (p *runePred) tableMembership(q *packages.Package, cal *types.Func, tableArg ast.Expr) (runeSet, bool) {
	qi := q.TypesInfo
	fd := findFuncDecl(q, cal)
	if fd == nil || fd.Body == nil || fd.Recv != nil || len(fd.Body.List) == 0 || len(fd.Body.List) > 2 || fd.Type.Params == nil {
		return nil, false
	}
	var params []*ast.Ident
	for _, fl := range fd.Type.Params.List {
		params = append(params, fl.Names...)
	}
	if len(params) != 2 {
		return nil, false
	}
	var elemCond ast.Expr
	elemName := ""
	if len(fd.Body.List) == 2 {
		// for _, x := range ranges { if <cond over r, x.f> { return true } }; return false
		rs, ok1 := fd.Body.List[0].(*ast.RangeStmt)
		last, ok2 := fd.Body.List[1].(*ast.ReturnStmt)
		if !ok1 || !ok2 || len(last.Results) != 1 || nodeStr(p.c.Fset, last.Results[0]) != "false" || len(rs.Body.List) != 1 || rs.Value == nil {
			return nil, false
		}
		if id, ok := ast.Unparen(rs.X).(*ast.Ident); !ok || qi.ObjectOf(id) != qi.Defs[params[1]] {
			return nil, false
		}
		ifs, ok := rs.Body.List[0].(*ast.IfStmt)
		if !ok || ifs.Init != nil || ifs.Else != nil || len(ifs.Body.List) != 1 {
			return nil, false
		}
		if r, ok := ifs.Body.List[0].(*ast.ReturnStmt); !ok || len(r.Results) != 1 || nodeStr(p.c.Fset, r.Results[0]) != "true" {
			return nil, false
		}
		vid, ok := rs.Value.(*ast.Ident)
		if !ok {
			return nil, false
		}
		elemCond, elemName = ifs.Cond, vid.Name
	} else {
		ret, ok := fd.Body.List[0].(*ast.ReturnStmt)
		if !ok || len(ret.Results) != 1 {
			return nil, false
		}
		cf, ok := ast.Unparen(ret.Results[0]).(*ast.CallExpr)
		if !ok || len(cf.Args) != 2 {
			return nil, false
		}
		if c2 := Callee(qi, cf); c2 == nil || c2.Pkg() == nil || c2.Pkg().Path() != "slices" || c2.Name() != "ContainsFunc" {
			return nil, false
		}
		if id, ok := ast.Unparen(cf.Args[0]).(*ast.Ident); !ok || qi.ObjectOf(id) != qi.Defs[params[1]] {
			return nil, false
		}
		lit, ok := ast.Unparen(cf.Args[1]).(*ast.FuncLit)
		if !ok || len(lit.Body.List) != 1 || lit.Type.Params.NumFields() != 1 || len(lit.Type.Params.List[0].Names) != 1 {
			return nil, false
		}
		lr, ok := lit.Body.List[0].(*ast.ReturnStmt)
		if !ok || len(lr.Results) != 1 {
			return nil, false
		}
		elemCond, elemName = lr.Results[0], lit.Type.Params.List[0].Names[0].Name
	}
	// the table
	tid, ok := ast.Unparen(tableArg).(*ast.Ident)
	if !ok {
		return nil, false
	}
	tv, ok := p.pkg.TypesInfo.ObjectOf(tid).(*types.Var)
	if !ok || tv.Pkg() == nil || tv.Parent() != tv.Pkg().Scope() {
		return nil, false
	}
	tl, has := singleDefExpr[tv]
	if !has {
		return nil, false
	}
	cl, ok := ast.Unparen(tl).(*ast.CompositeLit)
	if !ok {
		return nil, false
	}
	sl, ok := p.pkg.TypesInfo.TypeOf(cl).Underlying().(*types.Slice)
	if !ok {
		return nil, false
	}
	st, ok := sl.Elem().Underlying().(*types.Struct)
	if !ok {
		return nil, false
	}
	var res runeSet
	for _, el := range cl.Elts {
		ecl, ok := ast.Unparen(el).(*ast.CompositeLit)
		if !ok {
			return nil, false
		}
		consts := map[string]rune{}
		for i, fe := range ecl.Elts {
			name := ""
			val := fe
			if kv, ok := fe.(*ast.KeyValueExpr); ok {
				if kid, ok := kv.Key.(*ast.Ident); ok {
					name = kid.Name
				}
				val = kv.Value
			} else if i < st.NumFields() {
				name = st.Field(i).Name()
			}
			vtv := p.pkg.TypesInfo.Types[val]
			if name == "" || vtv.Value == nil {
				return nil, false
			}
			v, ok := constant.Int64Val(constant.ToInt(vtv.Value))
			if !ok {
				return nil, false
			}
			consts[elemName+"."+name] = rune(v)
		}
		sub := &runePred{c: p.c, pkg: q, v: qi.Defs[params[0]], assume: map[string]bool{}, depth: p.depth + 1, consts: consts}
		set := sub.eval(elemCond)
		if sub.fail != "" {
			return nil, false
		}
		res = rsUnion(res, set)
	}
	return res, true
}

// rangeTableLiteral reads a package level *unicode.RangeTable literal that is never assigned.
func (p *runePred) rangeTableLiteral(id *ast.Ident) (runeSet, bool) {
	info := p.pkg.TypesInfo
	v, ok := info.ObjectOf(id).(*types.Var)
	if !ok || v.Pkg() == nil || v.Parent() != v.Pkg().Scope() {
		return nil, false
	}
	rhs, has := singleDefExpr[v]
	if !has {
		return nil, false
	}
	e := ast.Unparen(rhs)
	if u, ok := e.(*ast.UnaryExpr); ok && u.Op == token.AND {
		e = ast.Unparen(u.X)
	}
	cl, ok := e.(*ast.CompositeLit)
	if !ok || !isNamed(info.TypeOf(cl), "unicode", "RangeTable") {
		return nil, false
	}
	var res runeSet
	for _, el := range cl.Elts {
		kv, ok := el.(*ast.KeyValueExpr)
		if !ok {
			return nil, false
		}
		kid, ok := kv.Key.(*ast.Ident)
		if !ok {
			return nil, false
		}
		if kid.Name == "LatinOffset" {
			continue
		}
		if kid.Name != "R16" && kid.Name != "R32" {
			return nil, false
		}
		rl, ok := ast.Unparen(kv.Value).(*ast.CompositeLit)
		if !ok {
			return nil, false
		}
		for _, re := range rl.Elts {
			rc, ok := ast.Unparen(re).(*ast.CompositeLit)
			if !ok {
				return nil, false
			}
			vals := map[string]int64{}
			for i, fe := range rc.Elts {
				name := []string{"Lo", "Hi", "Stride"}[min(i, 2)]
				val := fe
				if fkv, ok := fe.(*ast.KeyValueExpr); ok {
					if fid, ok := fkv.Key.(*ast.Ident); ok {
						name = fid.Name
					}
					val = fkv.Value
				}
				tv := info.Types[val]
				if tv.Value == nil {
					return nil, false
				}
				n, ok := constant.Int64Val(constant.ToInt(tv.Value))
				if !ok {
					return nil, false
				}
				vals[name] = n
			}
			lo, hi, stride := vals["Lo"], vals["Hi"], vals["Stride"]
			if stride <= 0 || hi < lo || hi-lo > 0x110000 {
				return nil, false
			}
			if stride == 1 {
				res = append(res, runeIv{rune(lo), rune(hi)})
			} else {
				for r := lo; r <= hi; r += stride {
					res = append(res, runeIv{rune(r), rune(r)})
				}
			}
		}
	}
	return rsNorm(res), true
}
