package main

import (
	"fmt"
	"go/ast"
	"go/token"
	"go/types"
	"strings"

	"golang.org/x/tools/go/packages"
)

// ---------------------------------------------------------------------------
// recover semantics: recover() only stops a panic when it is called directly
// by the deferred function.

func callsRecoverDirectly(info *types.Info, body ast.Node) bool {
	found := false
	inspectNoLit(body, func(n ast.Node) bool {
		if call, ok := n.(*ast.CallExpr); ok {
			if id, ok := ast.Unparen(call.Fun).(*ast.Ident); ok {
				if b, ok := info.Uses[id].(*types.Builtin); ok && b.Name() == "recover" {
					found = true
				}
			}
		}
		return !found
	})
	return found
}

// recoveringDefer reports whether the defer statement installs a function
// that itself calls recover().
func (c *Ctx) recoveringDefer(pkg *packages.Package, d *ast.DeferStmt) bool {
	info := pkg.TypesInfo
	switch f := ast.Unparen(d.Call.Fun).(type) {
	case *ast.FuncLit:
		return callsRecoverDirectly(info, f.Body)
	default:
		if cal := Callee(info, d.Call); cal != nil && cal.Pkg() != nil {
			if p := c.Pkgs[cal.Pkg().Path()]; p != nil {
				sig := cal.Type().(*types.Signature)
				recv := ""
				if sig.Recv() != nil {
					if nm := namedOf(sig.Recv().Type()); nm != nil {
						recv = nm.Obj().Name()
					}
				}
				if fd := c.FuncDecl(p, recv, cal.Name()); fd != nil && fd.Body != nil {
					return callsRecoverDirectly(p.TypesInfo, fd.Body)
				}
			}
		}
	}
	return false
}

// startsWithRecoveringDefer: the first statement that is not a plain
// declaration is a recovering defer, so the whole body runs under it.
func (c *Ctx) startsWithRecoveringDefer(pkg *packages.Package, body *ast.BlockStmt) bool {
	for _, s := range body.List {
		switch t := s.(type) {
		case *ast.DeclStmt:
			continue
		case *ast.DeferStmt:
			return c.recoveringDefer(pkg, t)
		default:
			return false
		}
	}
	return false
}

// enclosingBody returns the innermost function body that contains n.
func (c *Ctx) enclosingBody(n ast.Node) *ast.BlockStmt {
	return funcBody(c.EnclosingFunc(n))
}

func evalPkgs(c *Ctx) []*packages.Package {
	var res []*packages.Package
	for _, p := range c.RepoPkgs {
		rel := strings.TrimPrefix(strings.TrimPrefix(p.PkgPath, modPath), "/")
		switch rel {
		case "value", "value/export", "value/export/xmlWriter", "funcGen", "listMap":
			res = append(res, p)
		}
	}
	return res
}

// ---------------------------------------------------------------------------
// R05.1 goroutine boundary containment

type iterRole struct {
	producers []int // argument positions of producers that run on another goroutine
	factory   int   // argument position of a factory whose products run on another goroutine (-1: none)
	yieldG    bool  // the consumer handed to the returned producer is called from another goroutine
}

var iterCrossing = map[string]iterRole{
	"MapAuto":        {factory: 1, yieldG: true},
	"FilterAuto":     {factory: 1, yieldG: true},
	"MapParallel":    {producers: []int{0}, factory: 1},
	"FilterParallel": {producers: []int{0}, factory: 1},
	"Merge":          {producers: []int{0, 1}, factory: -1},
	"MergeElements":  {producers: []int{0, 1}, factory: -1},
	"Equals":         {producers: []int{0, 1}, factory: -1},
	"ToChan":         {producers: []int{0}, factory: -1},
}

var iterSequential = map[string]bool{
	"Append": true, "Combine": true, "Combine3": true, "CombineN": true, "IirMap": true, "Cross": true, "FirstN": true, "Skip": true,
	"Reduce": true, "MapReduce": true, "Generate": true, "Empty": true, "Single": true, "Slice": true, "First": true, "ToSlice": true,
	"Filter": true, "Map": true, "Compact": true, "Group": true, "Thinning": true, "ReduceParallel": true, "CopyProducer": true,
}

func isProducerType(t types.Type) bool {
	return t != nil && isNamed(t, iterPath, "Producer")
}

func ruleR051(c *Ctx) {
	// (A) go statements of the repository
	nGo := 0
	for _, pkg := range c.RepoPkgs {
		info := pkg.TypesInfo
		if strings.HasSuffix(pkg.PkgPath, "/gen") || strings.HasSuffix(pkg.PkgPath, "value/example") {
			continue
		}
		for _, f := range pkg.Syntax {
			ast.Inspect(f, func(n ast.Node) bool {
				gs, ok := n.(*ast.GoStmt)
				if !ok {
					return true
				}
				nGo++
				key := fmt.Sprintf("%s#go[%d]", c.FuncName(gs), ordinalIn(rootOrDecl(c.EnclosingDecl(gs), f), gs, func(x ast.Node) bool { _, ok := x.(*ast.GoStmt); return ok }))
				var body *ast.BlockStmt
				var entryPkg = pkg
				entryName := ""
				switch fun := ast.Unparen(gs.Call.Fun).(type) {
				case *ast.FuncLit:
					body, entryName = fun.Body, "function literal"
				default:
					if cal := Callee(info, gs.Call); cal != nil && cal.Pkg() != nil {
						if p := c.Pkgs[cal.Pkg().Path()]; p != nil {
							sig := cal.Type().(*types.Signature)
							recv := ""
							if sig.Recv() != nil {
								if nm := namedOf(sig.Recv().Type()); nm != nil {
									recv = nm.Obj().Name()
								}
							}
							if fd := c.FuncDecl(p, recv, cal.Name()); fd != nil {
								body, entryPkg, entryName = fd.Body, p, declName(p, fd)
							}
						}
					}
				}
				if body == nil {
					c.Undecided(key, gs.Pos(), "entry function of the goroutine not resolved")
					return true
				}
				if c.startsWithRecoveringDefer(entryPkg, body) {
					c.OK(key, gs.Pos(), "goroutine entry %s runs entirely under a deferred function that calls recover()", entryName)
					return true
				}
				// goroutines that can not run program supplied closures
				if pkg.PkgPath == modPath {
					carries := false
					if cal := Callee(info, gs.Call); cal != nil {
						ast.Inspect(body, func(x ast.Node) bool {
							if call, ok := x.(*ast.CallExpr); ok {
								t := info.TypeOf(call.Fun)
								if t != nil && (isNamed(t, modPath+"/funcGen", "ParserFunc") || isProducerType(t)) {
									carries = true
								}
							}
							return true
						})
					}
					if !carries {
						c.OK(key, gs.Pos(), "tokenizer goroutine: it runs scanner code and the configured matchers only, no closure of the evaluated program")
						return true
					}
				}
				c.Violation(key, gs.Pos(), "the goroutine entry %s does not start with a deferred function that itself calls recover(): a panic raised in a closure it runs (or while it forces a lazy list) is not recovered by the generated function and terminates the host process", entryName)
				return true
			})
		}
	}
	if nGo < 2 {
		c.Undecided("repository#go-statements", token.NoPos, "expected the tokenizer and the multiUse spawn, found %d go statements", nGo)
	}

	// (B) calls into the iterator dependency
	if c.Iter == nil {
		c.Undecided("github.com/hneemann/iterator", token.NoPos, "dependency not loaded")
		return
	}
	// classification agrees with the dependency's source: crossing functions reach a go statement, sequential ones do not
	hasGo := map[string]bool{}
	iterDecls := map[string]*ast.FuncDecl{}
	for _, f := range c.Iter.Syntax {
		for _, d := range f.Decls {
			if fd, ok := d.(*ast.FuncDecl); ok && fd.Body != nil && fd.Recv == nil {
				iterDecls[fd.Name.Name] = fd
			}
		}
	}
	var reachesGo func(name string, seen map[string]bool) bool
	reachesGo = func(name string, seen map[string]bool) bool {
		if v, ok := hasGo[name]; ok {
			return v
		}
		if seen[name] {
			return false
		}
		seen[name] = true
		fd := iterDecls[name]
		if fd == nil {
			return false
		}
		res := false
		ast.Inspect(fd.Body, func(n ast.Node) bool {
			switch t := n.(type) {
			case *ast.GoStmt:
				res = true
			case *ast.CallExpr:
				if cal := Callee(c.Iter.TypesInfo, t); cal != nil && cal.Pkg() == c.Iter.Types {
					if reachesGo(cal.Name(), seen) {
						res = true
					}
				}
			}
			return !res
		})
		hasGo[name] = res
		return res
	}
	for name := range iterDecls {
		if !ast.IsExported(name) {
			continue
		}
		crossing := reachesGo(name, map[string]bool{})
		_, tc := iterCrossing[name]
		ts := iterSequential[name]
		if crossing && !tc || !crossing && !ts {
			c.Undecided("iterator."+name+"#role-table", iterDecls[name].Pos(), "the role table of the checker says crossing=%v sequential=%v, the dependency's source says it %s a go statement", tc, ts, map[bool]string{true: "reaches", false: "does not reach"}[crossing])
		}
	}
	for _, pkg := range c.RepoPkgs {
		info := pkg.TypesInfo
		for _, f := range pkg.Syntax {
			ast.Inspect(f, func(n ast.Node) bool {
				call, ok := n.(*ast.CallExpr)
				if !ok {
					return true
				}
				cal := Callee(info, call)
				if cal == nil || cal.Pkg() == nil || cal.Pkg().Path() != iterPath {
					return true
				}
				role, crossing := iterCrossing[cal.Name()]
				if !crossing {
					if !iterSequential[cal.Name()] {
						c.Undecided(c.FuncName(call)+"#iterator."+cal.Name(), call.Pos(), "iterator.%s is not in the role table", cal.Name())
					}
					return true
				}
				key := fmt.Sprintf("%s#iterator.%s", c.FuncName(call), cal.Name())
				var problems []string
				for _, pi := range role.producers {
					if pi < len(call.Args) && !c.isRecoveringProducer(pkg, call.Args[pi]) {
						problems = append(problems, fmt.Sprintf("producer argument %d (%s) runs in a goroutine of its own but is not wrapped by a recovering producer adapter", pi, nodeStr(c.Fset, call.Args[pi])))
					}
				}
				if role.factory >= 0 && role.factory < len(call.Args) {
					products, unknown := c.factoryProducts(pkg, call.Args[role.factory])
					if unknown != "" {
						c.Undecided(key, call.Pos(), "%s", unknown)
						return true
					}
					for _, pr := range products {
						if !c.startsWithRecoveringDefer(pr.pkg, pr.lit.Body) {
							problems = append(problems, "the function produced by the worker factory does not start with a deferred function that itself calls recover(): a panic in the mapped closure on a worker goroutine terminates the process")
							break
						}
					}
				}
				if role.yieldG {
					if msg := c.yieldGuarded(pkg, call); msg != "" {
						problems = append(problems, msg)
					}
				}
				if len(problems) == 0 {
					c.OK(key, call.Pos(), "every function that iterator.%s runs on another goroutine is a recovering adapter", cal.Name())
				} else {
					c.Violation(key, call.Pos(), "%s", strings.Join(problems, "; "))
				}
				return true
			})
		}
	}
}

// isRecoveringProducer: the expression is a call of a function/method whose
// returned producer literal runs the wrapped producer under a recovering defer.
func (c *Ctx) isRecoveringProducer(pkg *packages.Package, e ast.Expr) bool {
	info := pkg.TypesInfo
	call, ok := ast.Unparen(e).(*ast.CallExpr)
	if !ok {
		return false
	}
	cal := Callee(info, call)
	if cal == nil || cal.Pkg() == nil {
		return false
	}
	p := c.Pkgs[cal.Pkg().Path()]
	if p == nil {
		return false
	}
	sig := cal.Type().(*types.Signature)
	recv := ""
	if sig.Recv() != nil {
		if nm := namedOf(sig.Recv().Type()); nm != nil {
			recv = nm.Obj().Name()
		}
	}
	fd := c.FuncDecl(p, recv, cal.Name())
	if fd == nil || fd.Body == nil {
		return false
	}
	// single return of a literal
	var lit *ast.FuncLit
	nRet := 0
	inspectNoLit(fd.Body, func(n ast.Node) bool {
		if r, ok := n.(*ast.ReturnStmt); ok && len(r.Results) == 1 {
			nRet++
			lit, _ = ast.Unparen(r.Results[0]).(*ast.FuncLit)
		}
		return true
	})
	if nRet != 1 || lit == nil {
		return false
	}
	// every call of a producer inside the literal happens in a body that starts with a recovering defer
	nProd, allGuarded := 0, true
	countIn := func(root ast.Node) {
		ast.Inspect(root, func(n ast.Node) bool {
			cc, ok := n.(*ast.CallExpr)
			if !ok || !isProducerType(p.TypesInfo.TypeOf(cc.Fun)) {
				return true
			}
			nProd++
			body := c.enclosingBody(cc)
			if body == nil || !c.startsWithRecoveringDefer(p, body) {
				allGuarded = false
			}
			return true
		})
	}
	countIn(lit.Body)
	// the producer may be run by a function of the package that the literal calls (produceRecovered(yield))
	ast.Inspect(lit.Body, func(n ast.Node) bool {
		cc, ok := n.(*ast.CallExpr)
		if !ok {
			return true
		}
		if hc := Callee(p.TypesInfo, cc); hc != nil && hc.Pkg() == p.Types {
			if hd := findFuncDecl(p, hc); hd != nil && hd.Body != nil && hd != fd {
				countIn(hd.Body)
			}
		}
		return true
	})
	return nProd > 0 && allGuarded
}

// yieldGuarded checks that the producer returned by MapAuto/FilterAuto is only
// ever called with a recovering consumer, and that the recovered panic is
// raised again afterwards. It returns a description of the problem or "".
func (c *Ctx) yieldGuarded(pkg *packages.Package, call *ast.CallExpr) string {
	info := pkg.TypesInfo
	as, ok := c.Parent(call).(*ast.AssignStmt)
	if !ok || len(as.Lhs) != 1 {
		return "the producer returned by the parallel combinator is handed on directly: downstream stages are then called from the collector goroutine without a recover"
	}
	id, ok := as.Lhs[0].(*ast.Ident)
	if !ok {
		return "result of the parallel combinator is not kept in a variable"
	}
	uses, bad := c.producerUsesGuarded(pkg, c.EnclosingFunc(call), info.ObjectOf(id), id, 0)
	if bad != "" {
		return bad
	}
	if uses == 0 {
		return "the producer returned by the parallel combinator is never run"
	}
	return ""
}

// producerUsesGuarded: every use of the producer variable obj inside fn is a
// call with a recovering consumer whose recovered panic is raised again, or
// hands the producer to a private helper that does exactly that with its
// parameter (guardProducer(p)).
func (c *Ctx) producerUsesGuarded(pkg *packages.Package, fn ast.Node, obj types.Object, id *ast.Ident, depth int) (int, string) {
	info := pkg.TypesInfo
	body := funcBody(fn)
	uses, bad := 0, ""
	ast.Inspect(body, func(n ast.Node) bool {
		uid, ok := n.(*ast.Ident)
		if !ok || info.ObjectOf(uid) != obj || uid == id {
			return true
		}
		// another definition of the variable (var mapped P; if .. { mapped = A } else { mapped = B }) is no use
		switch pt := c.Parent(uid).(type) {
		case *ast.ValueSpec:
			for _, nm := range pt.Names {
				if nm == uid {
					return true
				}
			}
		case *ast.AssignStmt:
			for _, l := range pt.Lhs {
				if l == ast.Expr(uid) {
					return true
				}
			}
		}
		uses++
		uc, ok := c.Parent(uid).(*ast.CallExpr)
		if ok && uc.Fun != ast.Expr(uid) && depth < 2 {
			// handed to a private helper: the helper has to guard its parameter
			if cal := Callee(info, uc); cal != nil && cal.Pkg() == pkg.Types {
				if hfd := findFuncDecl(pkg, cal); hfd != nil && hfd.Body != nil && hfd.Type.Params != nil {
					k, pi := 0, -1
					for ai, a := range uc.Args {
						if ast.Unparen(a) == ast.Expr(uid) {
							pi = ai
						}
					}
					var pid *ast.Ident
					for _, f := range hfd.Type.Params.List {
						for _, nm := range f.Names {
							if k == pi {
								pid = nm
							}
							k++
						}
					}
					if pid != nil {
						hu, hb := c.producerUsesGuarded(pkg, hfd, info.Defs[pid], pid, depth+1)
						if hb != "" {
							bad = "in " + cal.Name() + ": " + hb
						} else if hu == 0 {
							bad = "the helper " + cal.Name() + " never runs the producer it is given"
						}
						return true
					}
				}
			}
		}
		if !ok || uc.Fun != uid || len(uc.Args) != 1 {
			bad = "the producer returned by the parallel combinator escapes unguarded (" + nodeStr(c.Fset, c.Parent(uid)) + ")"
			return true
		}
		// the argument: first result of a recovering consumer adapter factory
		aid, ok := ast.Unparen(uc.Args[0]).(*ast.Ident)
		if !ok {
			bad = "the consumer passed to the parallel producer is not a guarded consumer"
			return true
		}
		gas, gi := definingAssign(info, c.EnclosingFunc(uc), info.ObjectOf(aid))
		if gas == nil || gi != 0 || len(gas.Rhs) != 1 || len(gas.Lhs) != 2 {
			bad = "the consumer passed to the parallel producer is not the result of a consumer guard"
			return true
		}
		gcall, ok := ast.Unparen(gas.Rhs[0]).(*ast.CallExpr)
		if !ok {
			bad = "the consumer passed to the parallel producer is not the result of a consumer guard"
			return true
		}
		gcal := Callee(info, gcall)
		var gfd *ast.FuncDecl
		if gcal != nil && gcal.Pkg() != nil && c.Pkgs[gcal.Pkg().Path()] != nil {
			gfd = c.FuncDecl(c.Pkgs[gcal.Pkg().Path()], "", gcal.Name())
		}
		if gfd == nil || gfd.Body == nil {
			bad = "consumer guard not resolved"
			return true
		}
		gp := c.Pkgs[gcal.Pkg().Path()]
		okGuard := false
		inspectNoLit(gfd.Body, func(x ast.Node) bool {
			if r, isRet := x.(*ast.ReturnStmt); isRet && len(r.Results) == 2 {
				if body := c.funcValueBody(gp, gfd, r.Results[0]); body != nil && c.startsWithRecoveringDefer(gp, body) {
					okGuard = true
				}
			}
			return true
		})
		if !okGuard {
			bad = "the consumer guard " + gcal.Name() + " does not return a consumer that starts with a deferred function calling recover()"
			return true
		}
		// the second result (re-raise) is called after the producer ran
		rid, ok := gas.Lhs[1].(*ast.Ident)
		reraised := false
		if ok && rid.Name != "_" {
			robj := info.ObjectOf(rid)
			ast.Inspect(c.enclosingBody(uc), func(x ast.Node) bool {
				if rc, isCall := x.(*ast.CallExpr); isCall && rc.Pos() > uc.End() {
					if f, isId := ast.Unparen(rc.Fun).(*ast.Ident); isId && info.ObjectOf(f) == robj {
						reraised = true
					}
				}
				return true
			})
		}
		if !reraised {
			bad = "the panic recovered by the consumer guard is not raised again on the calling goroutine: the failure of the downstream stage is swallowed"
		}
		return true
	})
	return uses, bad
}

// ---------------------------------------------------------------------------
// R05.2 use before error check

func nilable(t types.Type) bool {
	if t == nil {
		return false
	}
	switch u := t.Underlying().(type) {
	case *types.Interface, *types.Pointer, *types.Signature, *types.Map:
		return true
	case *types.Struct:
		for i := 0; i < u.NumFields(); i++ {
			if _, ok := u.Field(i).Type().Underlying().(*types.Signature); ok {
				return true
			}
		}
	}
	return false
}

func ruleR052(c *Ctx) {
	errType := types.Universe.Lookup("error").Type()
	n := 0
	forEachFuncBody(evalPkgs(c), func(pkg *packages.Package, fn ast.Node, body *ast.BlockStmt) {
		info := pkg.TypesInfo
		g := c.CFG(fn)
		inspectNoLit(body, func(x ast.Node) bool {
			as, ok := x.(*ast.AssignStmt)
			if !ok || len(as.Rhs) != 1 || len(as.Lhs) != 2 {
				return true
			}
			call, ok := ast.Unparen(as.Rhs[0]).(*ast.CallExpr)
			if !ok {
				return true
			}
			vid, ok1 := as.Lhs[0].(*ast.Ident)
			eid, ok2 := as.Lhs[1].(*ast.Ident)
			if !ok1 || !ok2 || vid.Name == "_" || eid.Name == "_" {
				return true
			}
			vobj, eobj := info.ObjectOf(vid), info.ObjectOf(eid)
			if vobj == nil || eobj == nil || !types.Identical(eobj.Type(), errType) || !nilable(vobj.Type()) {
				return true
			}
			// uses of v that fault on a nil/zero value
			var uses []ast.Node
			ast.Inspect(body, func(y ast.Node) bool {
				switch t := y.(type) {
				case *ast.TypeAssertExpr:
					if id, ok := ast.Unparen(t.X).(*ast.Ident); ok && info.ObjectOf(id) == vobj && t.Type != nil {
						// single result form only
						if pas, ok := c.Parent(t).(*ast.AssignStmt); ok && len(pas.Lhs) == 2 && len(pas.Rhs) == 1 && pas.Rhs[0] == t {
							return true
						}
						if vs, ok := c.Parent(t).(*ast.ValueSpec); ok && len(vs.Names) == 2 {
							return true
						}
						uses = append(uses, t)
					}
				case *ast.CallExpr:
					// v(...) / v.Func(...) / v.Method(...)
					switch f := ast.Unparen(t.Fun).(type) {
					case *ast.Ident:
						if info.ObjectOf(f) == vobj {
							uses = append(uses, t)
						}
					case *ast.SelectorExpr:
						if id, ok := ast.Unparen(f.X).(*ast.Ident); ok && info.ObjectOf(id) == vobj {
							switch vobj.Type().Underlying().(type) {
							case *types.Interface:
								uses = append(uses, t)
							case *types.Struct:
								if _, isField := info.TypeOf(f).Underlying().(*types.Signature); isField {
									if sel, ok := info.Selections[f]; ok && sel.Kind() == types.FieldVal {
										uses = append(uses, t)
									}
								}
							case *types.Pointer:
								uses = append(uses, t)
							}
						}
					}
				case *ast.StarExpr:
					if id, ok := ast.Unparen(t.X).(*ast.Ident); ok && info.ObjectOf(id) == vobj {
						uses = append(uses, t)
					}
				}
				return true
			})
			for _, u := range uses {
				if u.Pos() < as.End() {
					continue
				}
				if !g.Dominates(as, u) {
					if c.EnclosingFunc(u) != fn {
						continue // used in a nested literal: not tracked
					}
					continue
				}
				n++
				key := fmt.Sprintf("%s#use-of:%s[%d]", c.FuncName(fn)+litSuffix(c, fn), vid.Name, ordinalIn(fn, u, func(z ast.Node) bool { return z == u || sameKind(z, u) }))
				checked := false
				for _, gd := range g.Guards(u) {
					be, ok := ast.Unparen(gd.Cond).(*ast.BinaryExpr)
					if !ok {
						continue
					}
					id, ok := ast.Unparen(be.X).(*ast.Ident)
					if !ok || info.ObjectOf(id) != eobj {
						continue
					}
					if y, ok := ast.Unparen(be.Y).(*ast.Ident); !ok || y.Name != "nil" {
						continue
					}
					if gd.Cond.Pos() < as.End() {
						continue // a test of an earlier value of err
					}
					if be.Op == token.NEQ && !gd.Val || be.Op == token.EQL && gd.Val {
						checked = true
					}
				}
				if checked {
					c.OK(key, u.Pos(), "%s is used only after %s was found to be nil", vid.Name, eid.Name)
				} else {
					c.Violation(key, u.Pos(), "%s (result of %s) is used (%s) before the error %s returned with it has been compared with nil: on the error path the value is nil and the use panics instead of the error being returned", vid.Name, nodeStr(c.Fset, call.Fun), nodeStr(c.Fset, u), eid.Name)
				}
			}
			return true
		})
	})
	if n == 0 {
		c.Undecided("value#use-after-error-check", token.NoPos, "no instance found")
	}
}

func sameKind(a, b ast.Node) bool {
	return fmt.Sprintf("%T", a) == fmt.Sprintf("%T", b)
}

// ---------------------------------------------------------------------------
// R05.3 integer faults

func ruleR053(c *Ctx) {
	n := 0
	forEachFuncBody(evalPkgs(c), func(pkg *packages.Package, fn ast.Node, body *ast.BlockStmt) {
		info := pkg.TypesInfo
		isInt := func(e ast.Expr) bool {
			t := info.TypeOf(e)
			if t == nil {
				return false
			}
			b, ok := t.Underlying().(*types.Basic)
			return ok && b.Info()&types.IsInteger != 0
		}
		check := func(pos token.Pos, node ast.Node, opnd ast.Expr, kind string) {
			if tv := info.Types[opnd]; tv.Value != nil {
				return
			}
			n++
			text := nodeStr(c.Fset, opnd)
			key := fmt.Sprintf("%s#%s:%s", c.FuncName(fn)+litSuffix(c, fn), kind, text)
			guarded := false
			for _, gd := range c.GuardsDeep(node) {
				be, ok := ast.Unparen(gd.Cond).(*ast.BinaryExpr)
				if !ok {
					continue
				}
				x, y := be.X, be.Y
				if info.Types[x].Value != nil {
					x, y = y, x
				}
				if info.Types[y].Value == nil || nodeStr(c.Fset, x) != text {
					continue
				}
				v, okc := constInt(info.Types[y])
				if !okc {
					continue
				}
				switch kind {
				case "divisor":
					if v == 0 && (be.Op == token.EQL && !gd.Val || be.Op == token.NEQ && gd.Val) {
						guarded = true
					}
					if be.Op == token.GTR && gd.Val && v >= 0 || be.Op == token.LEQ && !gd.Val && v >= 0 || be.Op == token.LSS && !gd.Val && v >= 1 || be.Op == token.GEQ && gd.Val && v >= 1 {
						guarded = true
					}
				case "shift-count":
					if be.Op == token.LSS && !gd.Val && v >= 0 || be.Op == token.GEQ && gd.Val && v >= 0 || be.Op == token.GTR && gd.Val && v >= -1 || be.Op == token.LEQ && !gd.Val && v >= -1 {
						guarded = true
					}
				}
			}
			if guarded {
				c.OK(key, pos, "%s %s is tested before the operation", kind, text)
			} else if kind == "divisor" {
				c.Violation(key, pos, "integer division/modulo by %s without a preceding test for zero: a zero divisor raises a Go run time panic that is no ordinary (catchable) error and kills the process on a worker goroutine", text)
			} else {
				c.Violation(key, pos, "shift by the signed count %s without a preceding test for a negative value: a negative count raises a Go run time panic", text)
			}
		}
		inspectNoLit(body, func(x ast.Node) bool {
			switch t := x.(type) {
			case *ast.BinaryExpr:
				switch t.Op {
				case token.QUO, token.REM:
					if isInt(t.X) && isInt(t.Y) {
						check(t.Pos(), t, t.Y, "divisor")
					}
				case token.SHL, token.SHR:
					if bt, ok := info.TypeOf(t.Y).Underlying().(*types.Basic); ok && bt.Info()&types.IsUnsigned == 0 && bt.Info()&types.IsInteger != 0 {
						check(t.Pos(), t, t.Y, "shift-count")
					}
				}
			case *ast.AssignStmt:
				if len(t.Lhs) == 1 && len(t.Rhs) == 1 {
					switch t.Tok {
					case token.QUO_ASSIGN, token.REM_ASSIGN:
						if isInt(t.Lhs[0]) && isInt(t.Rhs[0]) {
							check(t.Pos(), t, t.Rhs[0], "divisor")
						}
					case token.SHL_ASSIGN, token.SHR_ASSIGN:
						if bt, ok := info.TypeOf(t.Rhs[0]).Underlying().(*types.Basic); ok && bt.Info()&types.IsUnsigned == 0 {
							check(t.Pos(), t, t.Rhs[0], "shift-count")
						}
					}
				}
			}
			return true
		})
	})
	if n < 3 {
		c.Undecided("value#integer-operations", token.NoPos, "expected at least the %% << >> operators, found %d sites", n)
	}
}

// factoryProduct is a worker function that a worker factory hands out, with
// the syntactic scope that is executed once per product (the factory literal,
// or the private constructor function the factory delegates to).
type factoryProduct struct {
	lit   *ast.FuncLit
	scope ast.Node
	pkg   *packages.Package
}

// factoryProducts resolves the functions a worker factory returns. Accepted
// shapes: func() F { ...; return func(...){...} } and
// func() F { return newWorker(args) } with newWorker a function of the
// repository whose only return is a function literal. unknown is a
// description of a shape that is not understood (the caller reports it as
// undecided, not as a violation).
func (c *Ctx) factoryProducts(pkg *packages.Package, fac ast.Expr) (res []factoryProduct, unknown string) {
	lit, ok := ast.Unparen(fac).(*ast.FuncLit)
	if !ok {
		// a literal kept in a local variable with one definition: mapperFac := func() ... {...}
		if id, isID := ast.Unparen(fac).(*ast.Ident); isID {
			if v, isVar := pkg.TypesInfo.ObjectOf(id).(*types.Var); isVar {
				if rhs, has := singleDefExpr[v]; has {
					lit, ok = ast.Unparen(rhs).(*ast.FuncLit)
				}
			}
		}
	}
	if !ok {
		return nil, "the worker factory " + nodeStr(c.Fset, fac) + " is not a function literal"
	}
	info := pkg.TypesInfo
	n := 0
	inspectNoLit(lit.Body, func(x ast.Node) bool {
		r, isRet := x.(*ast.ReturnStmt)
		if !isRet || len(r.Results) != 1 {
			return true
		}
		n++
		switch t := ast.Unparen(r.Results[0]).(type) {
		case *ast.FuncLit:
			res = append(res, factoryProduct{lit: t, scope: lit, pkg: pkg})
		case *ast.CallExpr:
			cal := Callee(info, t)
			var fd *ast.FuncDecl
			var p *packages.Package
			if cal != nil && cal.Pkg() != nil {
				if p = c.Pkgs[cal.Pkg().Path()]; p != nil {
					fd = findFuncDecl(p, cal)
				}
			}
			if fd == nil || fd.Body == nil {
				unknown = "the worker factory returns " + nodeStr(c.Fset, t) + ", whose body is not available"
				return true
			}
			var inner *ast.FuncLit
			nRet := 0
			inspectNoLit(fd.Body, func(y ast.Node) bool {
				if rr, ok := y.(*ast.ReturnStmt); ok && len(rr.Results) == 1 {
					nRet++
					inner, _ = ast.Unparen(rr.Results[0]).(*ast.FuncLit)
				}
				return true
			})
			if nRet != 1 || inner == nil {
				unknown = "the worker constructor " + cal.Name() + " does not simply return a function literal"
				return true
			}
			res = append(res, factoryProduct{lit: inner, scope: fd, pkg: p})
		default:
			unknown = "the worker factory returns " + nodeStr(c.Fset, t)
		}
		return true
	})
	if n == 0 && unknown == "" {
		unknown = "the worker factory has no return"
	}
	return
}

// funcValueBody resolves an expression that denotes a function to the body
// that runs when it is called: a literal, a local with one definition that is
// a literal (named results assigned before a plain return), or a method value
// g.consume of a type of the package.
func (c *Ctx) funcValueBody(pkg *packages.Package, fn ast.Node, e ast.Expr) *ast.BlockStmt {
	info := pkg.TypesInfo
	switch t := ast.Unparen(e).(type) {
	case *ast.FuncLit:
		return t.Body
	case *ast.Ident:
		if v, ok := info.ObjectOf(t).(*types.Var); ok {
			// assigned exactly once (also a named result that is set before a plain return)
			if rhs, has := singleDefExpr[v]; has {
				if lit, ok := ast.Unparen(rhs).(*ast.FuncLit); ok {
					return lit.Body
				}
			}
		}
	case *ast.SelectorExpr:
		if sel, ok := info.Selections[t]; ok && sel.Kind() == types.MethodVal {
			if m, ok := sel.Obj().(*types.Func); ok && m.Pkg() == pkg.Types {
				if fd := findFuncDecl(pkg, m); fd != nil {
					return fd.Body
				}
			}
		}
	}
	return nil
}
