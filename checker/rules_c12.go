package main

import (
	"fmt"
	"go/ast"
	"go/token"
	"go/types"
	"sort"
	"strings"

	"golang.org/x/tools/go/packages"
)

// ---------------------------------------------------------------------------
// R12.1 the tokenizer goroutine is always released

func ruleR121(c *Ctx) {
	root := c.Pkg("")
	if root == nil {
		c.Undecided("package parser2", token.NoPos, "not found")
		return
	}
	info := root.TypesInfo
	parse := c.FuncDecl(root, "Parser", "Parse")
	run := c.FuncDecl(root, "Tokenizer", "run")
	start := LookupMethod(root, "Tokenizer", "Start")
	if parse == nil || run == nil || start == nil {
		c.Undecided("parser2.Parser.Parse/Tokenizer.run/Start", token.NoPos, "anchor not found")
		return
	}
	// (1) run closes the channel before every return, sends are unconditional (no select): the receiver has to read to the close
	key := "parser2.Tokenizer.run#close-on-exit"
	g := c.CFG(run)
	var closes []ast.Node
	var chanParam types.Object
	if run.Type.Params != nil && len(run.Type.Params.List) == 1 && len(run.Type.Params.List[0].Names) == 1 {
		chanParam = info.Defs[run.Type.Params.List[0].Names[0]]
	}
	inspectNoLit(run.Body, func(n ast.Node) bool {
		if call, ok := n.(*ast.CallExpr); ok {
			if id, ok := ast.Unparen(call.Fun).(*ast.Ident); ok && id.Name == "close" && len(call.Args) == 1 {
				if aid, ok := ast.Unparen(call.Args[0]).(*ast.Ident); ok && info.ObjectOf(aid) == chanParam {
					closes = append(closes, call)
				}
			}
		}
		return true
	})
	okClose, nRet := true, 0
	inspectNoLit(run.Body, func(n ast.Node) bool {
		if r, ok := n.(*ast.ReturnStmt); ok {
			nRet++
			dom := false
			for _, cl := range closes {
				if g.Dominates(cl, r) {
					dom = true
				}
			}
			if !dom {
				okClose = false
			}
		}
		return true
	})
	// the close may be the business of the goroutine that calls run: go func() { t.run(tokens); close(tokens) }()
	if !okClose && len(closes) == 0 && chanParam != nil {
		runObj, _ := info.Defs[run.Name].(*types.Func)
		closedByCaller := false
		for _, f := range root.Syntax {
			ast.Inspect(f, func(n ast.Node) bool {
				gs, ok := n.(*ast.GoStmt)
				if !ok {
					return true
				}
				lit, ok := ast.Unparen(gs.Call.Fun).(*ast.FuncLit)
				if !ok {
					return true
				}
				// the statements of the literal: ...; run(ch); close(ch) with nothing that can leave in between
				for i, st := range lit.Body.List {
					es, ok := st.(*ast.ExprStmt)
					if !ok {
						continue
					}
					call, ok := ast.Unparen(es.X).(*ast.CallExpr)
					if !ok || runObj == nil || Callee(info, call) != runObj.Origin() || len(call.Args) != 1 || i+1 >= len(lit.Body.List) {
						continue
					}
					// directly behind it (or deferred in front of it): close of the same channel
					chText := nodeStr(c.Fset, call.Args[0])
					isCloseOf := func(x ast.Node) bool {
						cc, ok := x.(*ast.CallExpr)
						if !ok || len(cc.Args) != 1 {
							return false
						}
						id, ok := ast.Unparen(cc.Fun).(*ast.Ident)
						return ok && id.Name == "close" && nodeStr(c.Fset, cc.Args[0]) == chText
					}
					if nes, ok := lit.Body.List[i+1].(*ast.ExprStmt); ok && isCloseOf(ast.Unparen(nes.X)) {
						closedByCaller = true
					}
					for _, before := range lit.Body.List[:i] {
						if ds, ok := before.(*ast.DeferStmt); ok && isCloseOf(ds.Call) {
							closedByCaller = true
						}
					}
				}
				return true
			})
		}
		if closedByCaller {
			okClose = true
		}
	}
	if chanParam == nil || nRet == 0 {
		c.Undecided(key, run.Pos(), "shape of run not recognised")
	} else {
		c.Check(okClose, key, run.Pos(), "the tokenizer goroutine closes the token channel on every exit", "the tokenizer goroutine can return without closing the token channel: the parser waits for a token forever (deadlock)")
	}

	// (2) every function that owns a started tokenizer (it calls Start, or a factory that returns a started tokenizer, and
	// does not hand the tokenizer to its own caller) defers a blocking drain directly behind the creation
	isTokPtr := func(t types.Type) bool { return isNamed(t, modPath, "Tokenizer") }
	factories := map[*types.Func]bool{}
	var allDecls []*ast.FuncDecl
	for _, f := range root.Syntax {
		for _, d := range f.Decls {
			if fd, ok := d.(*ast.FuncDecl); ok && fd.Body != nil {
				allDecls = append(allDecls, fd)
			}
		}
	}
	creates := func(n ast.Node) bool {
		return containsNode(n, func(y ast.Node) bool {
			call, ok := y.(*ast.CallExpr)
			if !ok {
				return false
			}
			if isCallTo(info, call, start) {
				return true
			}
			cal := Callee(info, call)
			return cal != nil && factories[cal]
		})
	}
	returnsTok := func(fd *ast.FuncDecl) bool {
		if fd.Type.Results == nil {
			return false
		}
		for _, r := range fd.Type.Results.List {
			if isTokPtr(info.TypeOf(r.Type)) {
				return true
			}
		}
		return false
	}
	for changed := true; changed; {
		changed = false
		for _, fd := range allDecls {
			obj, _ := info.Defs[fd.Name].(*types.Func)
			if obj == nil || factories[obj] || obj == start {
				continue
			}
			if returnsTok(fd) && creates(fd.Body) {
				factories[obj] = true
				changed = true
			}
		}
	}
	nOwners := 0
	for _, fd := range allDecls {
		obj, _ := info.Defs[fd.Name].(*types.Func)
		if obj == nil || factories[obj] || obj == start || !creates(fd.Body) {
			continue
		}
		nOwners++
		key := declName(root, fd) + "#tokenizer-released"
		var startStmt ast.Stmt
		var tokVar types.Object
		var list []ast.Stmt
		// the creating statement, at any block level
		ast.Inspect(fd.Body, func(x ast.Node) bool {
			blk, ok := x.(*ast.BlockStmt)
			if !ok || startStmt != nil {
				return true
			}
			for _, st := range blk.List {
				// tokenizer.Start() as a statement of its own: the variable was filled before
				if es, ok := st.(*ast.ExprStmt); ok {
					if call, ok := es.X.(*ast.CallExpr); ok && isCallTo(info, call, start) {
						if sel, ok := ast.Unparen(call.Fun).(*ast.SelectorExpr); ok {
							if id, ok := ast.Unparen(sel.X).(*ast.Ident); ok {
								startStmt, tokVar, list = st, info.ObjectOf(id), blk.List
								break
							}
						}
					}
				}
				as, ok := st.(*ast.AssignStmt)
				if !ok || len(as.Lhs) != 1 || len(as.Rhs) != 1 || !creates(as.Rhs[0]) {
					continue
				}
				if id, ok := as.Lhs[0].(*ast.Ident); ok {
					startStmt, tokVar, list = st, info.ObjectOf(id), blk.List
					break
				}
			}
			return true
		})
		if startStmt == nil || tokVar == nil {
			c.Undecided(key, fd.Pos(), "the function starts a tokenizer but does not keep it in a variable")
			continue
		}
		var next ast.Stmt
		for i, st := range list {
			if st == startStmt && i+1 < len(list) {
				next = list[i+1]
			}
		}
		d, isDefer := next.(*ast.DeferStmt)
		released := false
		why := "the statement behind the start of the tokenizer is not a defer"
		if isDefer {
			why = "the deferred call does not drain the token channel with a blocking receive-until-closed loop"
			// the deferred function: method of the tokenizer whose body is `for range t.tok {}`
			var body *ast.BlockStmt
			switch f := ast.Unparen(d.Call.Fun).(type) {
			case *ast.FuncLit:
				body = f.Body
			default:
				if cal := Callee(info, d.Call); cal != nil {
					sig := cal.Type().(*types.Signature)
					recv := ""
					if sig.Recv() != nil {
						if nm := namedOf(sig.Recv().Type()); nm != nil {
							recv = nm.Obj().Name()
						}
					}
					if dd := c.FuncDecl(root, recv, cal.Name()); dd != nil {
						body = dd.Body
					}
				}
			}
			if body != nil {
				released = blockingDrain(info, body)
			}
		}
		c.Check(released, key, startStmt.Pos(), fd.Name.Name+" defers a blocking drain of the token channel directly behind the start of the tokenizer: on every exit the goroutine can run to its end", "the tokenizer goroutine sends on an unbuffered channel without alternative, so it only ends if every token is received; "+why+": every call of "+fd.Name.Name+" that stops reading early (syntax error, trailing token, a test of the first tokens only) leaves one goroutine blocked forever")
	}
	if nOwners == 0 {
		c.Undecided("parser2#tokenizer-owners", token.NoPos, "no function that starts a tokenizer found (Parser.Parse expected)")
	}
	_ = parse
}

// blockingDrain: the body consists of a loop that receives from a channel
// until it is closed, with no way out before (no select/default, break, return).
func blockingDrain(info *types.Info, body *ast.BlockStmt) bool {
	if len(body.List) != 1 {
		return false
	}
	switch loop := body.List[0].(type) {
	case *ast.RangeStmt:
		if _, ok := info.TypeOf(loop.X).Underlying().(*types.Chan); !ok {
			return false
		}
		return !containsNode(loop.Body, func(n ast.Node) bool {
			switch t := n.(type) {
			case *ast.BranchStmt:
				return t.Tok == token.BREAK || t.Tok == token.GOTO
			case *ast.ReturnStmt:
				return true
			}
			return false
		})
	case *ast.ForStmt:
		// for { _, ok := <-ch; if !ok { return } }
		if loop.Cond != nil || loop.Init != nil {
			return false
		}
		hasSelect := containsNode(loop.Body, func(n ast.Node) bool { _, ok := n.(*ast.SelectStmt); return ok })
		if hasSelect {
			return false
		}
		recvOK := false
		ast.Inspect(loop.Body, func(n ast.Node) bool {
			if as, ok := n.(*ast.AssignStmt); ok && len(as.Lhs) == 2 && len(as.Rhs) == 1 {
				if u, ok := ast.Unparen(as.Rhs[0]).(*ast.UnaryExpr); ok && u.Op == token.ARROW {
					recvOK = true
				}
			}
			return true
		})
		return recvOK
	}
	return false
}

// ---------------------------------------------------------------------------
// R12.2 / R12.3 goroutine protocol defects of the iterator dependency, reported
// at the repository call sites that reach them

type iterDefect struct {
	kind string
	pos  token.Pos
	desc string
}

// iteratorDefects analyses one function of the dependency (with the helpers it calls).
func (c *Ctx) iteratorDefects() map[string][]iterDefect {
	res := map[string][]iterDefect{}
	if c.Iter == nil {
		return res
	}
	info := c.Iter.TypesInfo
	decls := map[string]*ast.FuncDecl{}
	for _, f := range c.Iter.Syntax {
		for _, d := range f.Decls {
			if fd, ok := d.(*ast.FuncDecl); ok && fd.Body != nil && fd.Recv == nil {
				decls[fd.Name.Name] = fd
			}
		}
	}
	direct := map[string][]iterDefect{}
	for name, fd := range decls {
		// R12.2: break that only leaves a select inside a loop, in a goroutine
		ast.Inspect(fd.Body, func(n ast.Node) bool {
			gs, ok := n.(*ast.GoStmt)
			if !ok {
				return true
			}
			lit, ok := gs.Call.Fun.(*ast.FuncLit)
			if !ok {
				return true
			}
			ast.Inspect(lit.Body, func(x ast.Node) bool {
				br, ok := x.(*ast.BranchStmt)
				if !ok || br.Tok != token.BREAK || br.Label != nil {
					return true
				}
				// innermost breakable statement
				var inner ast.Node
				inLoop := false
				for q := c.Parent(br); q != nil && q != ast.Node(lit); q = c.Parent(q) {
					switch q.(type) {
					case *ast.SelectStmt, *ast.SwitchStmt, *ast.TypeSwitchStmt, *ast.ForStmt, *ast.RangeStmt:
						if inner == nil {
							inner = q
						} else if _, isLoop := q.(*ast.ForStmt); isLoop {
							inLoop = true
						} else if _, isLoop := q.(*ast.RangeStmt); isLoop {
							inLoop = true
						}
					}
				}
				if _, isSel := inner.(*ast.SelectStmt); isSel && inLoop {
					// on a receive case
					if cc, ok := c.Parent(c.Parent(br)).(*ast.CommClause); ok || true {
						_ = cc
						direct[name] = append(direct[name], iterDefect{"ineffective-break", br.Pos(), "the 'break' on the cancellation case only leaves the select, not the loop around it: after cancellation the goroutine keeps iterating its source to the end"})
					}
				}
				return true
			})
			return true
		})
		// R12.3: plain send on an unbuffered channel in a goroutine, receiver loop with an early exit
		chans := map[types.Object]bool{}
		ast.Inspect(fd.Body, func(n ast.Node) bool {
			as, ok := n.(*ast.AssignStmt)
			if !ok || len(as.Lhs) != len(as.Rhs) {
				return true
			}
			for i, r := range as.Rhs {
				if call, ok := ast.Unparen(r).(*ast.CallExpr); ok {
					if id, ok := ast.Unparen(call.Fun).(*ast.Ident); ok && id.Name == "make" && len(call.Args) == 1 {
						if _, isChan := info.TypeOf(call.Args[0]).Underlying().(*types.Chan); isChan {
							if lid, ok := as.Lhs[i].(*ast.Ident); ok {
								chans[info.ObjectOf(lid)] = true
							}
						}
					}
				}
			}
			return true
		})
		for ch := range chans {
			var plainSend *ast.SendStmt
			ast.Inspect(fd.Body, func(n ast.Node) bool {
				gs, ok := n.(*ast.GoStmt)
				if !ok {
					return true
				}
				ast.Inspect(gs.Call, func(x ast.Node) bool {
					ss, ok := x.(*ast.SendStmt)
					if !ok {
						return true
					}
					if id, ok := ast.Unparen(ss.Chan).(*ast.Ident); !ok || info.ObjectOf(id) != ch {
						return true
					}
					if _, inSelect := c.Parent(ss).(*ast.CommClause); inSelect {
						return true
					}
					plainSend = ss
					return true
				})
				return true
			})
			if plainSend == nil {
				continue
			}
			ast.Inspect(fd.Body, func(n ast.Node) bool {
				rs, ok := n.(*ast.RangeStmt)
				if !ok {
					return true
				}
				if id, ok := ast.Unparen(rs.X).(*ast.Ident); !ok || info.ObjectOf(id) != ch {
					return true
				}
				early := containsNode(rs.Body, func(x ast.Node) bool { _, ok := x.(*ast.ReturnStmt); return ok })
				if early {
					direct[name] = append(direct[name], iterDefect{"blocked-send", plainSend.Pos(), "worker goroutines send their result on an unbuffered channel without alternative, while the loop that receives from it returns early (consumer stopped, error): the remaining workers stay blocked on the send forever"})
				}
				return true
			})
		}
	}
	// close over calls inside the package
	var collect func(name string, seen map[string]bool) []iterDefect
	collect = func(name string, seen map[string]bool) []iterDefect {
		if seen[name] {
			return nil
		}
		seen[name] = true
		out := append([]iterDefect{}, direct[name]...)
		if fd := decls[name]; fd != nil {
			ast.Inspect(fd.Body, func(n ast.Node) bool {
				if call, ok := n.(*ast.CallExpr); ok {
					if cal := Callee(info, call); cal != nil && cal.Pkg() == c.Iter.Types {
						out = append(out, collect(cal.Name(), seen)...)
					}
				}
				return true
			})
		}
		return out
	}
	for name := range decls {
		if ast.IsExported(name) {
			ds := collect(name, map[string]bool{})
			// dedupe by kind
			kinds := map[string]bool{}
			for _, d := range ds {
				if !kinds[d.kind] {
					kinds[d.kind] = true
					res[name] = append(res[name], d)
				}
			}
			sort.Slice(res[name], func(i, j int) bool { return res[name][i].kind < res[name][j].kind })
		}
	}
	return res
}

func ruleR122(c *Ctx) {
	if c.Iter == nil {
		c.Undecided("github.com/hneemann/iterator", token.NoPos, "dependency not loaded")
		return
	}
	defects := c.iteratorDefects()
	n := 0
	for _, pkg := range c.RepoPkgs {
		info := pkg.TypesInfo
		for _, f := range pkg.Syntax {
			ast.Inspect(f, func(x ast.Node) bool {
				call, ok := x.(*ast.CallExpr)
				if !ok {
					return true
				}
				cal := Callee(info, call)
				if cal == nil || cal.Pkg() == nil || cal.Pkg().Path() != iterPath {
					return true
				}
				n++
				ds := defects[cal.Name()]
				base := fmt.Sprintf("%s#iterator.%s", c.FuncName(call), cal.Name())
				if len(ds) == 0 {
					c.OK(base+":goroutines", call.Pos(), "iterator.%s starts no goroutine with a defective termination protocol", cal.Name())
					return true
				}
				for _, d := range ds {
					c.Violation(base+":"+d.kind, call.Pos(), "this call reaches a goroutine of the iterator dependency that is left behind (%s): %s", c.posStr(d.pos), d.desc)
				}
				return true
			})
		}
	}
	if n < 15 {
		c.Undecided("value#iterator-calls", token.NoPos, "only %d calls into the iterator dependency found", n)
	}
}

// ---------------------------------------------------------------------------
// R12.4 spawns of the repository: consumers of CopyProducer are always fed

func ruleR124(c *Ctx) {
	n := 0
	for _, pkg := range evalPkgs(c) {
		info := pkg.TypesInfo
		// functions that spawn: directly, or by calling a function of the package that does (two levels)
		spawner := map[*types.Func]bool{}
		declOf := map[*types.Func]*ast.FuncDecl{}
		for _, f := range pkg.Syntax {
			for _, d := range f.Decls {
				if fd, ok := d.(*ast.FuncDecl); ok && fd.Body != nil {
					if obj, ok := info.Defs[fd.Name].(*types.Func); ok {
						declOf[obj] = fd
						if containsNode(fd.Body, func(x ast.Node) bool { _, ok := x.(*ast.GoStmt); return ok }) {
							spawner[obj] = true
						}
					}
				}
			}
		}
		ownsProtocol := map[*types.Func]bool{}
		for obj, fd := range declOf {
			ast.Inspect(fd.Body, func(x ast.Node) bool {
				if call, ok := x.(*ast.CallExpr); ok {
					if cal := Callee(info, call); cal != nil && cal.Pkg() != nil && cal.Pkg().Path() == iterPath && cal.Name() == "CopyProducer" {
						ownsProtocol[obj] = true
					}
				}
				return true
			})
		}
		// a function that owns the protocol settles its spawns itself: its callers are no spawn points
		isSpawnCall := func(cal *types.Func) bool { return cal != nil && spawner[cal.Origin()] && !ownsProtocol[cal.Origin()] }
		for round := 0; round < 2; round++ {
			for obj, fd := range declOf {
				if spawner[obj] {
					continue
				}
				ast.Inspect(fd.Body, func(x ast.Node) bool {
					if call, ok := x.(*ast.CallExpr); ok {
						if isSpawnCall(Callee(info, call)) {
							spawner[obj] = true
						}
					}
					return true
				})
			}
		}
		callersOf := map[*types.Func][]*types.Func{}
		for obj, fd := range declOf {
			ast.Inspect(fd.Body, func(x ast.Node) bool {
				if call, ok := x.(*ast.CallExpr); ok {
					if cal := Callee(info, call); cal != nil {
						if cal.Pkg() != nil && cal.Pkg().Path() == iterPath && cal.Name() == "CopyProducer" {
							ownsProtocol[obj] = true
						}
						if declOf[cal.Origin()] != nil {
							callersOf[cal.Origin()] = append(callersOf[cal.Origin()], obj)
						}
					}
				}
				return true
			})
		}
		forEachFuncBody([]*packages.Package{pkg}, func(_ *packages.Package, fn ast.Node, body *ast.BlockStmt) {
			// spawn points: go statements and calls of spawning functions of the package
			var spawns []ast.Node
			inspectNoLit(body, func(x ast.Node) bool {
				switch t := x.(type) {
				case *ast.GoStmt:
					spawns = append(spawns, t)
					return false
				case *ast.CallExpr:
					if isSpawnCall(Callee(info, t)) {
						spawns = append(spawns, t)
					}
				}
				return true
			})
			if len(spawns) == 0 {
				return
			}
			// the feeding function: second result of iterator.CopyProducer
			var runObj types.Object
			inspectNoLit(body, func(x ast.Node) bool {
				as, ok := x.(*ast.AssignStmt)
				if !ok || len(as.Rhs) != 1 || len(as.Lhs) != 3 {
					return true
				}
				if call, ok := ast.Unparen(as.Rhs[0]).(*ast.CallExpr); ok {
					if cal := Callee(info, call); cal != nil && cal.Pkg() != nil && cal.Pkg().Path() == iterPath && cal.Name() == "CopyProducer" {
						if id, ok := as.Lhs[1].(*ast.Ident); ok {
							runObj = info.ObjectOf(id)
						}
					}
				}
				return true
			})
			g := c.CFG(fn)
			for i, gs := range spawns {
				key := fmt.Sprintf("%s#go[%d]:fed", c.FuncName(fn)+litSuffix(c, fn), i+1)
				if runObj == nil {
					// a helper that only spawns (or forwards to one): fine if every caller in the package is itself a
					// spawning function (the obligation is then checked at the call in the function that owns the protocol)
					if fd, ok := fn.(*ast.FuncDecl); ok {
						if obj, ok := info.Defs[fd.Name].(*types.Func); ok && len(callersOf[obj]) > 0 {
							allOwned := true
							for _, caller := range callersOf[obj] {
								if !ownsProtocol[caller] && len(callersOf[caller]) == 0 {
									allOwned = false
								}
								if !ownsProtocol[caller] && !spawner[caller] {
									allOwned = false
								}
							}
							if allOwned {
								n++
								c.OK(key, gs.Pos(), "spawn helper: the obligation to feed the consumers is checked at its call sites in the function that owns the CopyProducer protocol")
								continue
							}
						}
					}
					n++
					c.Violation(key, gs.Pos(), "a goroutine is started in evaluation code by a function that does not own a CopyProducer protocol: its termination is matched by no rule of the checker")
					continue
				}
				n++
				isRun := func(x ast.Node) bool {
					return containsNode(x, func(y ast.Node) bool {
						call, ok := y.(*ast.CallExpr)
						if !ok {
							return false
						}
						id, ok := ast.Unparen(call.Fun).(*ast.Ident)
						return ok && info.ObjectOf(id) == runObj
					})
				}
				// the CFG node that contains the spawn point
				var anchor ast.Node = gs
				blk, idx, ok := g.Pos(anchor)
				if !ok {
					c.OK(key, gs.Pos(), "unreachable")
					continue
				}
				node := blk.Nodes[idx]
				if isRun(node) && node != anchor {
					// the spawning call and the feeding call in one statement: the spawn comes first if it is an argument / earlier operand
				}
				escapes, trail := g.PathAvoiding(node, nil, isRun)
				if escapes {
					where := ""
					if len(trail) > 0 {
						where = " (e.g. the return at " + c.posStr(trail[len(trail)-1].Pos()) + ")"
					}
					c.Violation(key, gs.Pos(), "after this consumer goroutine was started there is a path to a return that does not call the feeding function %s%s: the consumer waits for list items that are never sent and stays blocked forever", runObj.Name(), where)
				} else {
					c.OK(key, gs.Pos(), "every path from the spawn to a return of the function runs the feeding function %s, which closes the consumer's channel", runObj.Name())
				}
			}
		})
	}
	if n == 0 {
		c.Undecided("value#spawns", token.NoPos, "no go statement found in evaluation code (multiUse should start its consumers)")
	}
	_ = strings.Join
}

// ---------------------------------------------------------------------------
// R12.5 pulled iterators are stopped.
//
// next, stop := iter.Pull(seq) / iter.Pull2(seq) starts a coroutine (a
// goroutine) that runs the push iterator; it ends only when the sequence is
// exhausted or stop is called. Every path from the Pull to an exit of the
// function has to pass a call of stop, or stop has to be deferred. (The
// pinned tree does not use iter.Pull; the rule is armed for the day it does.)

func ruleR125(c *Ctx) {
	n := 0
	for _, pkg := range c.RepoPkgs {
		if strings.Contains(pkg.PkgPath, "/example") || strings.HasSuffix(pkg.PkgPath, "/gen") {
			continue
		}
		info := pkg.TypesInfo
		forEachFuncBody([]*packages.Package{pkg}, func(pkg *packages.Package, fn ast.Node, body *ast.BlockStmt) {
			k := 0
			inspectNoLit(body, func(x ast.Node) bool {
				as, ok := x.(*ast.AssignStmt)
				if !ok || len(as.Rhs) != 1 || len(as.Lhs) != 2 {
					return true
				}
				call, ok := ast.Unparen(as.Rhs[0]).(*ast.CallExpr)
				if !ok {
					return true
				}
				cal := Callee(info, call)
				if cal == nil || cal.Pkg() == nil || cal.Pkg().Path() != "iter" || (cal.Name() != "Pull" && cal.Name() != "Pull2") {
					return true
				}
				n++
				k++
				key := fmt.Sprintf("%s#iter.%s[%d]", c.FuncName(fn)+litSuffix(c, fn), cal.Name(), k)
				sid, ok := as.Lhs[1].(*ast.Ident)
				if !ok || sid.Name == "_" {
					c.Violation(key, as.Pos(), "the stop function of iter.%s is discarded: the coroutine that runs the sequence is never released unless the sequence is read to its end", cal.Name())
					return true
				}
				sobj := info.ObjectOf(sid)
				callsStop := func(y ast.Node) bool {
					return containsNodeDeep(y, func(z ast.Node) bool {
						cc, ok := z.(*ast.CallExpr)
						if !ok {
							return false
						}
						id, ok := ast.Unparen(cc.Fun).(*ast.Ident)
						return ok && info.ObjectOf(id) == sobj
					})
				}
				deferred := false
				inspectNoLit(body, func(y ast.Node) bool {
					if d, ok := y.(*ast.DeferStmt); ok && callsStop(d) {
						deferred = true
					}
					return true
				})
				if deferred {
					c.OK(key, as.Pos(), "stop is deferred")
					return true
				}
				g := c.CFG(fn)
				if g == nil {
					c.Undecided(key, as.Pos(), "no control flow graph")
					return true
				}
				found, trail := g.PathAvoiding(as, nil, callsStop)
				if found {
					where := ""
					if len(trail) > 0 {
						where = " (e.g. the exit at " + c.posStr(trail[len(trail)-1].Pos()) + ")"
					}
					c.Violation(key, as.Pos(), "there is a path from iter.%s to an exit of the function that does not call stop%s: if the pulled sequence still has items there, the coroutine goroutine that runs it stays suspended for ever", cal.Name(), where)
				} else {
					c.OK(key, as.Pos(), "every path to an exit of the function calls stop")
				}
				return true
			})
		})
	}
	if n == 0 {
		c.Note("repo#iter.Pull", token.NoPos, "iter.Pull/Pull2 is not used")
	}
}
